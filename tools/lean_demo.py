"""Turn the recorded run of one node of a small factory (real code) into a Lean `List Act` literal, so that the
non-vacuity examples of the node theorems are recorded real runs.   usage: lean_demo.py <cfg.json> <node index> [max acts]"""
import sys, os, json
sys.path.insert(0, os.path.join(os.path.dirname(os.path.abspath(__file__)), "..", "harness"))
from common import *
import node_family as nf

def lean_ans(parts):
    f = []
    for w in parts:
        k, v = w.split("=")
        if k in ("trig", "draws"): f.append(f"{k} := [{', '.join(v.split(','))}]")
        elif k == "sels": f.append("sels := [" + ", ".join(v.split(",")) + "]")
        elif k == "cans": f.append("cans := [" + ", ".join("true" if x != "0" else "false" for x in v.split(",")) + "]")
        elif k == "items":
            its = []
            for x in v.split(","):
                p = x.split("@")
                g = [f"id := {p[0]}", f"created := {p[1]}"]
                if len(p) > 2:
                    if p[2] not in ("0", "False"): g.append("pallet := true")
                    if p[3] != "-": g.append("content := [" + ", ".join(p[3].split("+")) + "]")
                    if p[4] != "-": g.append("woke := [" + ", ".join(p[4].split("+")) + "]")
                its.append("{ " + ", ".join(g) + " }")
            f.append("items := [" + ", ".join(its) + "]")
    return "{ " + ", ".join(f) + " }" if f else "{}"

if __name__ == "__main__":
    quiet()
    cfg = json.load(open(sys.argv[1])); nid = int(sys.argv[2]); mx = int(sys.argv[3]) if len(sys.argv) > 3 else 10 ** 9
    rec = nf.run_factory(cfg)
    ins, outs = nf.act_lines(rec, nid)
    say("-- " + nf.node_header(rec, nid))
    rows = []
    for l in ins[:mx]:
        w = l.split()
        rows.append(f"⟨{w[1]}, {w[2]}, {lean_ans(w[3:])}⟩")
    say("[ " + ",\n  ".join(rows) + " ]")
    say("-- last output line: " + outs[min(mx, len(outs)) - 1])
