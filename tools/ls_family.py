"""ad-hoc: run one family through lock-step and show the first divergences.  usage: ls_family.py <family> <n> <seed> [show]"""
import sys, os
sys.path.insert(0, os.path.join(os.path.dirname(os.path.abspath(__file__)), "..", "harness"))
import store_family as sf
from common import say
import collections
fam, n, seed = sys.argv[1], int(sys.argv[2]), int(sys.argv[3])
show = int(sys.argv[4]) if len(sys.argv) > 4 else 2
sf.BUDGET['quick'][fam] = n
r = sf.run_family(fam, 'quick', seed)
say(len(r.traces), 'histories', len(r.div), 'divergences', r.model_error)
say('gaveup', sum(1 for m in r.model if m and 'GAVEUP' in m))
c = collections.Counter((x[0], x[2]) for v in r.viol.values() for x in v); say(c)
say(r.stats['ops'], r.stats['errors'])
for i, d in sorted(r.div, key=lambda x: x[1])[:show]:
    h, ops, il = r.traces[i]; ml = r.model[i]
    say(h)
    for k, (o, a, b) in enumerate(zip(ops, il, ml)):
        if k > d: break
        say('  ', ' '.join(map(str, o)), '  =>', a, ('   ## MODEL: ' + b) if a != b else '')
want = sys.argv[5].split(",") if len(sys.argv) > 5 else []
from main_check import fmt_hist
seen = set()
for i, v in sorted(r.viol.items(), key=lambda kv: len(r.traces[kv[0]][1])):
    for x in v:
        key = (x[0], x[2])
        if (x[0] in want or x[2] in want) and key not in seen:
            seen.add(key)
            h, ops, il = r.traces[i]
            say("=====", x)
            say("\n".join(fmt_hist(h, ops, il, upto=x[1])))
