#!/bin/sh
# usage: confirm_seed.sh <worktree> <mutant dir> ; confirms: patch applies, suite still 70 passed, demo fails with / passes without
WT=$1; M=$2
cd $WT && git checkout -q -- . && git apply $M/patch.diff || { echo "APPLY-FAILED"; exit 1; }
T=$(PYTHONPATH=$WT/src /venv/bin/python -m pytest -q -p no:cacheprovider --timeout=900 tests 2>&1 | tail -1)
PYTHONPATH=$WT/src /venv/bin/python $M/demo.py >/dev/null 2>&1; D1=$?
git checkout -q -- .
PYTHONPATH=$WT/src /venv/bin/python $M/demo.py >/dev/null 2>&1; D0=$?
echo "tests: $T | demo with patch: $D1 | demo without: $D0"
