"""ad-hoc: turn a timed schedule of API calls into a model-valid ops history (kernel events stepped one by one).
usage: mk_ops.py '<header>' 't:op words' ...   e.g.  mk_ops.py 'new cbelt 5 4 1' '0:rp 0 0' '0:put 0 0 0 0 0'  ; 'end:T' drains until T"""
import sys, os, re
sys.path.insert(0, os.path.join(os.path.dirname(os.path.abspath(__file__)), "..", "harness"))
from common import *
quiet()
from stores_impl import make_impl
h = sys.argv[1]
impl = make_impl(h)
out = [h]
def do(op):
    line = impl.do(op); out.append(" ".join(map(str, op))); return line
def drain_until(t):
    while True:
        nt = impl.next_time(); now = f2t(impl.env.now)
        if nt is not None and nt <= t:
            if nt > now: do(("adv", nt - now))
            do(("ev",))
        else:
            if t > now: do(("adv", t - now))
            break
for a in sys.argv[2:]:
    t, rest = a.split(":", 1)
    if t == "end":
        drain_until(int(rest)); continue
    t = int(t)
    # process everything strictly before t, and everything at t that is already queued
    drain_until(t)
    op = tuple(int(x) if re.fullmatch(r"-?\d+", x) else x for x in rest.split())
    do(op)
say("\n".join(out))
