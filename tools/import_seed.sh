#!/bin/sh
# usage: tools/import_seed.sh <PROP> <m1|m2> <new id>   confirms /tmp/out_<PROP>/<m> in /tmp/wt_<PROP> and copies it to seeded/<new id>/
P=$1; M=$2; ID=$3
R=$(sh tools/confirm_seed.sh /tmp/wt_$P /tmp/out_$P/$M)
echo "$ID: $R"
case "$R" in *"70 passed"*"with patch: 1"*"without: 0"*) ;; *) echo "$ID NOT CONFIRMED"; exit 1;; esac
mkdir -p seeded/$ID && cp /tmp/out_$P/$M/patch.diff /tmp/out_$P/$M/demo.py seeded/$ID/ && cp /tmp/out_$P/$M/notes.md seeded/$ID/ 2>/dev/null
HEAD=$(git -C /repo rev-parse --short HEAD)
python3 - "$ID" "$P" "$HEAD" <<'PY'
import json, sys
i, p, head = sys.argv[1:4]
json.dump({"id": i, "breaks_property": p, "change": "", "needs_to_manifest": "", "outcome": "",
           "confirmed": f"tools/confirm_seed.sh in a scratch worktree (HEAD {head}): patch applies, 70 tests still pass, demo.py exits 1 with the patch and 0 without",
           "how_run": f"sh tools/try_mutant.sh seeded/{i}/patch.diff {p}"}, open(f"seeded/{i}/meta.json", "w"), indent=1)
PY
