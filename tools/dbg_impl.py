"""ad-hoc: run a history given as text (header line + rendered ops) on the real code, printing tracebacks of escaping exceptions"""
import sys, os, re, traceback
sys.path.insert(0, os.path.join(os.path.dirname(os.path.abspath(__file__)), "..", "harness"))
from common import *
quiet()
import stores_impl
from stores_impl import make_impl
lines = [l.strip() for l in sys.stdin if l.strip()]
impl = make_impl(lines[0])
orig = stores_impl.ImplBase.do
def do(self, op):
    mark = len(self.env.fired_log)
    try:
        res = self.dispatch(op)
    except Exception as e:
        loud(); traceback.print_exc(); quiet()
        res = "err " + type(e).__name__
    return res
for l in lines[1:]:
    op = tuple(int(x) if re.fullmatch(r"-?\d+", x) else x for x in l.split())
    say(l, "=>", do(impl, op))
