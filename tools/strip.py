#!/usr/bin/env python3
"""Print a python file without docstrings/comments (reading aid)."""
import sys,ast
src=open(sys.argv[1]).read()
tree=ast.parse(src)
for node in ast.walk(tree):
    if isinstance(node,(ast.FunctionDef,ast.ClassDef,ast.Module,ast.AsyncFunctionDef)):
        if node.body and isinstance(node.body[0],ast.Expr) and isinstance(getattr(node.body[0],'value',None),ast.Constant) and isinstance(node.body[0].value.value,str):
            node.body=node.body[1:] or [ast.Pass()]
print(ast.unparse(tree))
