#!/bin/sh
# usage: tools/scratch_try.sh <seeded id> [PROP]   applies the patch in the scratch worktree $WT (created from /repo HEAD if missing),
# runs the property's quick check against it (VERIF_REPO), reverts.  /repo itself is not touched.
WT=${WT:-/tmp/wt_test}; ID=$1; P=${2:-$(echo $ID | cut -d_ -f1)}
[ -d $WT ] || git -C /repo worktree add -q --detach $WT HEAD
git -C $WT checkout -q -- . && git -C $WT checkout -q --detach $(git -C /repo rev-parse HEAD) && git -C $WT apply $PWD/seeded/$ID/patch.diff || { echo "$ID APPLY-FAILED"; exit 9; }
VERIF_REPO=$WT ./check $P > /tmp/scratch_out_$ID.txt 2>&1; rc=$?
echo "== $ID $P exit=$rc"; grep -E "VIOLATION|divergences" /tmp/scratch_out_$ID.txt | grep -v " 0 divergences, 0 traces" | cut -c1-220
grep -A1 "^VIOLATION" /tmp/scratch_out_$ID.txt | grep "^   " | cut -c1-220
git -C $WT checkout -q -- .
