#!/bin/sh
# usage: tools/try_mutant.sh <patch.diff> <PROP>...   applies the patch to /repo, runs the checks, reverts
P=$1; shift
case "$P" in /*) ;; *) P="$PWD/$P";; esac
git -C /repo apply "$P" || exit 9
for c in "$@"; do
  ./check $c > /tmp/mut_out_$c.txt 2>&1; rc=$?
  echo "== $c exit=$rc"; grep -E "VIOLATION|KNOWN-FINDING|divergences" /tmp/mut_out_$c.txt | cut -c1-220
  grep -A1 "^VIOLATION" /tmp/mut_out_$c.txt | grep "^   " | cut -c1-200
done
git -C /repo checkout -- . ; git -C /repo status --short | grep -v egg-info
