"""Factory-level recorder: builds a real FactorySimPy model from a configuration, runs the SimPy
kernel step by step and records, for every atomic activation of every node process, the calls it
made on edges (with results), the draws it consumed, the processes it spawned and the node's
statistics afterwards.  No change to the library: instance attributes and a harness-side wrapper
around simpy's Process are used.  From the log one gets, per node, the stimulus sequence fed to the
node's Lean automaton and the call sequence it must reproduce; per edge, the history replayed on the
store model; globally, the item-movement trace the factory-level judges read."""
from common import *
import types

from factorysimpy.nodes.source import Source
from factorysimpy.nodes.sink import Sink
from factorysimpy.nodes.machine import Machine
from factorysimpy.nodes.combiner import Combiner
from factorysimpy.nodes.splitter import Splitter
from factorysimpy.edges.buffer import Buffer

_orig_resume = simpy.events.Process._resume
_orig_pinit = simpy.events.Process.__init__
CUR = {"rec": None}

def _owner_of(gen):
    fr = getattr(gen, "gi_frame", None)
    if fr is None: return None
    return fr.f_locals.get("self")

def _pinit(self, env, generator):
    rec = CUR["rec"]
    if rec is not None and env is rec.env:
        owner = _owner_of(generator)
        self._fs_owner = owner
        self._fs_kind = generator.gi_code.co_name
        if owner in rec.node_ids:
            nid = rec.node_ids[owner]
            self._fs_ord = rec.proc_count[nid]
            rec.proc_count[nid] += 1
            if rec.act is not None and rec.act["node"] == nid:
                rec.act["calls"].append(f"spawn p{self._fs_ord}")
        else:
            self._fs_ord = None
    _orig_pinit(self, env, generator)

def _resume(self, event):
    rec = CUR["rec"]
    if rec is None or getattr(self, "_fs_ord", None) is None or self.env is not rec.env:
        return _orig_resume(self, event)
    nid = rec.node_ids[self._fs_owner]
    rec.begin(nid, self)
    try:
        r = _orig_resume(self, event)
        if rec.act is not None and not self.is_alive and self._ok is False and isinstance(self._value, BaseException):
            # the generator raised: simpy fails the process event, the exception surfaces one kernel step later
            rec.act["calls"].append(f"crash {type(self._value).__name__}")
        tgt = getattr(self, "_target", None)
        if rec.act is not None and self.is_alive and tgt is not None:
            from simpy.resources.resource import Request, Release
            if isinstance(tgt, simpy.events.Timeout):
                d = f2t(tgt._delay)
                rec.act["calls"].append(f"wait {d if d is not None else tgt._delay}")
            elif isinstance(tgt, simpy.events.AnyOf): rec.act["calls"].append(f"await any {len(tgt._events)}")
            elif isinstance(tgt, simpy.events.AllOf): rec.act["calls"].append(f"await all {len(tgt._events)}")
            elif isinstance(tgt, simpy.events.Process): rec.act["calls"].append("await proc")
            elif isinstance(tgt, (Request, Release)): rec.act["calls"].append("await req")
            else: rec.act["calls"].append("await tok")
        return r
    except BaseException as ex:
        if rec.act is not None: rec.act["calls"].append(f"crash {type(ex).__name__}")
        raise
    finally:
        rec.end(nid, self)

simpy.events.Process._resume = _resume
simpy.events.Process.__init__ = _pinit


class Draws:
    """A delay / selector source whose draws are logged into the current activation."""
    def __init__(self, rec, tag, values):
        self.rec, self.tag, self.values, self.i = rec, tag, values, 0
    def __call__(self):
        v = self.values[self.i % len(self.values)]; self.i += 1
        if self.rec.act is not None:
            self.rec.act["calls"].append(f"{self.tag} {v}")
        return t2f(v) if self.tag == "draw" else v


class Recorder:
    def __init__(self):
        self.env = RecEnv()
        self.node_ids = {}        # node object -> node index
        self.nodes = []           # (kind, object, cfg)
        self.edges = []           # (kind, object, cfg)
        self.edge_of_store = {}   # id(store) -> edge index
        self.proc_count = {}
        self.acts = []            # activation records, in kernel order
        self.act = None
        self.tok_ord = {}         # id(event) -> (node, ordinal)
        self.tok_count = {}
        self.open_toks = {}       # node -> list of (ordinal, event)
        self.item_ids = {}        # id(item) -> small int
        self.move_content = []    # parallel to moves: ids carried by the unit (pallet content) at that moment
        self.moves = []           # global item-movement trace: (step, now, kind, edge, item, node)
        self.crash = None
        self.instant_viol = []    # (prop, rule, message) found at the end of simulated instants
        self.awaiting = {}        # (node, proc) -> (kind, [token ordinals]) : what each live process is suspended on

    # ---- construction
    def add_edge(self, kind, **cfg):
        i = len(self.edges)
        if kind == "buffer":
            delay = cfg.get("delay", 0)
            d = Draws(self, "edelay", cfg["delays"]) if "delays" in cfg else t2f(delay)
            if "delays" in cfg:
                dd = cfg["delays"]; st = {"i": 0}
                def dfun():
                    v = dd[st["i"] % len(dd)]; st["i"] += 1; return t2f(v)
                d = dfun
            e = Buffer(self.env, f"E{i}", capacity=cfg.get("cap", 1), delay=d, mode=cfg.get("mode", "FIFO"))
            store = e.inbuiltstore
        else:
            raise ValueError(kind)
        self.edges.append((kind, e, cfg))
        self.edge_of_store[id(store)] = i
        self._wrap_store(i, e, store)
        return i

    def add_node(self, kind, **cfg):
        i = len(self.nodes)
        self.proc_count[i] = 0; self.tok_count[i] = 0; self.open_toks[i] = []
        CUR["rec"] = self
        # node construction spawns the behaviour process: the owner must be known before
        holder = {}
        def reg(obj):
            self.node_ids[obj] = i
        if kind == "source":
            iat = Draws(self, "draw", cfg["iat"])
            n = object.__new__(Source); reg(n)
            kw, after = self._late(cfg, dict(out_edge_selection=self._policy(cfg.get("out", "FIRST_AVAILABLE"))))
            Source.__init__(n, self.env, f"N{i}", inter_arrival_time=iat, blocking=cfg.get("blocking", True),
                            flow_item_type=cfg.get("item_type", "item"), **kw)
            for k, v in after.items(): setattr(n, k, v)
            if cfg.get("setup"): n.node_setup_time = t2f(cfg["setup"])
        elif kind == "sink":
            n = object.__new__(Sink); reg(n)
            Sink.__init__(n, self.env, f"N{i}")
        elif kind == "machine":
            pd = Draws(self, "draw", cfg["pd"])
            n = object.__new__(Machine); reg(n)
            kw, after = self._late(cfg, dict(in_edge_selection=self._policy(cfg.get("inp", "FIRST_AVAILABLE")),
                                             out_edge_selection=self._policy(cfg.get("out", "FIRST_AVAILABLE"))))
            Machine.__init__(n, self.env, f"N{i}", node_setup_time=t2f(cfg.get("setup", 0)),
                             work_capacity=cfg.get("wc", 1), processing_delay=pd, blocking=cfg.get("blocking", True), **kw)
            for k, v in after.items(): setattr(n, k, v)
        elif kind == "combiner":
            pd = Draws(self, "draw", cfg["pd"])
            n = object.__new__(Combiner); reg(n)
            # a `late` combiner gets its recipe the way the library's examples assign node parameters: constructed with a placeholder
            # (one of each), the attribute target_quantity_of_each_item set afterwards, before the run
            recipe = list(cfg.get("target", [1]))
            Combiner.__init__(n, self.env, f"N{i}", node_setup_time=t2f(cfg.get("setup", 0)),
                              target_quantity_of_each_item=([1] * len(recipe) if cfg.get("late") else recipe), processing_delay=pd,
                              blocking=cfg.get("blocking", True),
                              **(lk := self._late(cfg, dict(out_edge_selection=self._policy(cfg.get("out", "FIRST_AVAILABLE")))))[0])
            for k, v in lk[1].items(): setattr(n, k, v)
            if cfg.get("late"): n.target_quantity_of_each_item = recipe
        elif kind == "splitter":
            pd = Draws(self, "draw", cfg["pd"])
            n = object.__new__(Splitter); reg(n)
            extra = {"split_quantity": cfg["split_quantity"]} if cfg.get("split_quantity") is not None else {}   # ignored in UNPACK mode (documented)
            Splitter.__init__(n, self.env, f"N{i}", node_setup_time=t2f(cfg.get("setup", 0)), processing_delay=pd,
                              blocking=cfg.get("blocking", True), **extra,
                              **(lk := self._late(cfg, dict(in_edge_selection=self._policy(cfg.get("inp", "FIRST_AVAILABLE")),
                                                            out_edge_selection=self._policy(cfg.get("out", "FIRST_AVAILABLE")))))[0])
            for k, v in lk[1].items(): setattr(n, k, v)
        else:
            raise ValueError(kind)
        self.nodes.append((kind, n, cfg))
        return i

    def _late(self, cfg, kw):
        """`late` policies: the node is constructed with the library defaults (or None for a Source, as its reset() documents) and the
        selection policies are assigned to the attributes afterwards, before the run — the models and the judges see the same policies"""
        if not cfg.get("late"): return kw, {}
        after = {k: kw.pop(k) for k in ("in_edge_selection", "out_edge_selection") if k in kw}
        if cfg["late"] == "none" and "out_edge_selection" in after and "in_edge_selection" not in after: kw["out_edge_selection"] = None
        return kw, after

    def _policy(self, p):
        if isinstance(p, (list, tuple)):      # user callable with scripted answers
            return Draws(self, "sel", list(p))
        return p                               # "FIRST_AVAILABLE", "ROUND_ROBIN", "RANDOM", int

    def connect(self, e, src, dst):
        self.edges[e][1].connect(self.nodes[src][1], self.nodes[dst][1])

    # ---- wrapping of store / edge methods (instance attributes; the library is untouched)
    def _wrap_store(self, ei, edge, store):
        rec = self
        def wrap(name, fn):
            def w(*a, **k):
                act = rec.act
                nid = act["node"] if act is not None else None
                try:
                    r = fn(*a, **k)
                except Exception as ex:
                    if act is not None:
                        act["calls"].append(f"{name} e{rec.rel(nid, ei, name)} !{type(ex).__name__}")
                    raise
                if act is not None:
                    rec.log_call(nid, ei, name, a, r)
                return r
            return w
        for name in ("reserve_put", "reserve_get", "put", "get", "reserve_put_cancel", "reserve_get_cancel"):
            setattr(store, name, wrap(name, getattr(store, name)))
        cp = edge.can_put
        edge._fs_can_put = cp
        def can_put():
            act = rec.act
            if act is not None and "room" not in act:
                # oracle for the judges: which out-edges of this node have room right now (observation only)
                node = rec.nodes[act["node"]][1]
                act["room"] = [bool(getattr(e2, "_fs_can_put", e2.can_put)()) for e2 in (node.out_edges or [])]
            r = cp()
            if act is not None:
                act["calls"].append(f"can e{rec.rel(act['node'], ei, 'put')} {int(bool(r))}")
            return r
        edge.can_put = can_put

    def rel(self, nid, ei, name):
        """edge index relative to the node's in_edges / out_edges list"""
        if nid is None: return ei
        node = self.nodes[nid][1] if nid < len(self.nodes) else None
        edge = self.edges[ei][1]
        lst = (node.out_edges if ("put" in name) else node.in_edges) if node is not None else None
        if lst and edge in lst: return lst.index(edge)
        return f"?{ei}"

    def iid(self, item):
        """canonical item name: <index of the creating source> * 100000 + <creation ordinal>"""
        if isinstance(item, tuple): item = item[0]
        k = id(item)
        if k not in self.item_ids:
            name = str(getattr(item, "id", ""))
            try:
                _, node, ordn = name.rsplit("_", 2)
                v = int(node[1:]) * 100000 + int(ordn)
            except Exception:
                v = 90000000 + len(self.item_ids)
            self.item_ids[k] = v; self._keep = getattr(self, "_keep", []); self._keep.append(item)
        return self.item_ids[k]

    def log_call(self, nid, ei, name, a, r):
        act = self.act
        e = self.rel(nid, ei, name)
        if name in ("reserve_put", "reserve_get"):
            o = self.tok_count[nid]; self.tok_count[nid] += 1
            self.tok_ord[id(r)] = (nid, o); self.open_toks[nid].append((o, r))
            act["calls"].append(f"{'rp' if name == 'reserve_put' else 'rg'} e{e} t{o}")
        elif name in ("put", "get"):
            tok = a[0]; o = self.tok_ord.get(id(tok), (None, "?"))[1]
            item = a[1] if name == "put" else r
            it = item[0] if isinstance(item, tuple) else item
            content = [self.iid(x) for x in getattr(it, "items", [])] if getattr(it, "flow_item_type", "") == "Pallet" else []
            act["calls"].append(f"{name} e{e} t{o} i{self.iid(item)}" + (str(content) if (content and name == "put") else ""))
            if name == "get":
                c = getattr(it, "timestamp_creation", None)
                woke = [x for x, ev in self.open_toks[nid] if ev.triggered and x not in act["trigset"] and ev is not tok]
                act["trigset"].update(woke)
                act["items"].append((self.iid(item), f2t(c) if c is not None and f2t(c) is not None else 0,
                                     int(getattr(it, "flow_item_type", "") == "Pallet"), content, woke))
            # C18: "an item's timestamps are non-decreasing along its route" - read off the object whenever it crosses an edge: nothing is
            # stamped before the creation stamp, nothing after the present instant
            cr = getattr(it, "timestamp_creation", None)
            if len(self.instant_viol) < 5:
                for nm in ("timestamp_node_entry", "timestamp_node_exit", "timestamp_destruction"):
                    x = getattr(it, nm, None)
                    if x is None: continue
                    if cr is not None and x < cr - 1e-9:
                        self.instant_viol.append(("C18", "timestamps", f"item {self.iid(item)} ({name} on edge {ei} at t={f2t(self.env.now)}): {nm} = {x} lies before its "
                                                                      f"timestamp_creation = {cr}: the stamps go backwards along the route"))
                    elif x > self.env.now + 1e-9:
                        self.instant_viol.append(("C18", "timestamps", f"item {self.iid(item)} ({name} on edge {ei} at t={f2t(self.env.now)}): {nm} = {x} lies in the future"))
            self.open_toks[nid] = [(x, ev) for x, ev in self.open_toks[nid] if ev is not tok]
            self.moves.append((len(self.acts), f2t(self.env.now), name, ei, self.iid(item), nid))
            self.move_content.append(tuple(content))
        else:
            tok = a[0]; o = self.tok_ord.get(id(tok), (None, "?"))[1]
            act["calls"].append(f"{'cp' if 'put' in name else 'cg'} e{e} t{o}")
            self.open_toks[nid] = [(x, ev) for x, ev in self.open_toks[nid] if ev is not tok]

    # ---- activations
    def begin(self, nid, proc):
        trig = [o for o, ev in self.open_toks[nid] if ev.triggered]
        self.act = dict(step=self.env.nsteps, t=f2t(self.env.now), node=nid, proc=proc._fs_ord, kind=proc._fs_kind,
                        trig=trig, trigset=set(trig), calls=[], items=[], stats=None, alive=True)

    def end(self, nid, proc):
        act = self.act; self.act = None
        if act is None: return
        act["alive"] = proc.is_alive
        act["stats"] = self.snapshot(nid)
        self.acts.append(act)
        key = (nid, act["proc"])
        if not proc.is_alive:
            self.awaiting.pop(key, None)
        else:
            last = act["calls"][-1] if act["calls"] else ""
            toks = [int(x.split()[2][1:]) for x in act["calls"] if x.startswith(("rg ", "rp "))]
            if not toks and last.startswith("await any") and key in self.awaiting:
                # waiting again on what is left of an earlier reservation list (combiner gathering loop)
                still = set(o for o, _ in self.open_toks[nid])
                toks = [o for o in self.awaiting[key][1] if o in still]
            if not toks and last == "await req" and key in self.awaiting:
                # a granted reservation kept while the process waits for a worker slot (splitter)
                still = set(o for o, _ in self.open_toks[nid])
                toks = [o for o in self.awaiting[key][1] if o in still]
            self.awaiting[key] = (last, toks, act["kind"])

    def snapshot(self, nid):
        kind, n, cfg = self.nodes[nid]
        st = n.stats
        d = {}
        for k in ("num_item_generated", "num_item_discarded", "num_item_processed", "num_item_received"):
            if k in st: d[k] = st[k]
        tt = st.get("total_time_spent_in_states", {})
        d["tt"] = {k: f2t(v) if f2t(v) is not None else repr(v) for k, v in tt.items()}
        lt = st.get("last_state_change_time")
        d["last"] = None if lt is None else f2t(lt)
        if kind == "sink": d["cycle"] = f2t(st["total_cycle_time"])
        if kind == "machine":
            d["rep"] = tuple(n.state_rep) if n.state_rep is not None else None
            d["occ"] = [f2t(x) for x in n.time_per_work_occupancy]
            d["insel"] = list(st["in_edge_selection"]); d["outsel"] = list(st["out_edge_selection"])
            d["pd"] = [f2t(x) for x in st["processing_delay"]]
        elif kind in ("combiner", "splitter"):
            d["state"] = n.state
            d["occ"] = [f2t(x) for x in n.time_per_work_occupancy]
            d["insel"] = list(st.get("in_edge_selection", [])); d["outsel"] = list(st["out_edge_selection"])
            d["pd"] = [f2t(x) for x in st["processing_delay"]]
        else:
            d["state"] = n.state
        return d

    # ---- running
    def run(self, horizon, max_same_instant=20000):
        CUR["rec"] = self
        quiet()
        same = 0; last_t = None
        try:
            while self.env._queue and self.env.peek() < t2f(horizon):
                t = self.env.peek()
                same = same + 1 if t == last_t else 0
                last_t = t
                if same > max_same_instant:
                    self.crash = ("livelock", f2t(t)); break
                try:
                    self.env.step()
                except Exception as ex:
                    self.crash = (type(ex).__name__, str(ex)[:200], f2t(self.env.now)); break
                if not self.env._queue or self.env.peek() > self.env.now:
                    self.end_of_instant()
            if self.crash is None and self.env.now < t2f(horizon):
                # as `env.run(until=T)` does: the clock ends at T, events at exactly T are not processed
                try:
                    self.env.run(until=t2f(horizon))
                except Exception as ex:
                    self.crash = (type(ex).__name__, str(ex)[:200], f2t(self.env.now))
        finally:
            CUR["rec"] = None
        return self


def _end_of_instant(self):
    """C10 at the end of a simulated instant: nothing the kernel could still do now."""
    if len(self.instant_viol) > 20: return
    now = f2t(self.env.now)
    for nid, (kind, n, c) in enumerate(self.nodes):
        waits = {p: w for (k, p), w in self.awaiting.items() if k == nid}
        awaited = set(t for (_, toks, _) in waits.values() for t in toks)
        # (1) no reservation left behind: every open token of the node is awaited by one of its processes
        leaked = [o for o, ev in self.open_toks[nid] if o not in awaited]
        if leaked:
            self.instant_viol.append(("C10", "leaked-token", f"{kind} {nid} at t={now}: reservation tokens {leaked} are neither used, cancelled nor awaited"))
            # a space request left behind by a node (waiting or granted, awaited by nobody) takes a place of that out-edge for nobody as soon as
            # there is room: the edge then refuses items although it has room, and a blocking node waits in front of it (C09: "… waits until an
            # out-edge its policy allows accepts it" - the edge would accept, the stale request is in the way)
            for o, ev in self.open_toks[nid]:
                if o in leaked:
                    st = getattr(ev, "resourcename", None)
                    if st is not None and any(ev is x for x in list(getattr(st, "reserve_put_queue", [])) + list(getattr(st, "reservations_put", []))):
                        self.instant_viol.append(("C09", "stale-space-request", f"{kind} {nid} at t={now}: its space request {o} is neither used, cancelled nor awaited: "
                                                  f"it will hold a place of that out-edge for nobody, and the node's items wait although the edge has room"))
                        break
            # a GRANTED retrieval that nobody will ever use keeps its item out of everybody's reach: the item is in no place the flow can
            # still take it from (C03: "… every generated item ends up received by a sink or counted as discarded")
            for o, ev in self.open_toks[nid]:
                if o in leaked and getattr(ev, "triggered", False):
                    st = getattr(ev, "resourcename", None)
                    if st is not None and any(ev is x for x in getattr(st, "reservations_get", [])):
                        self.instant_viol.append(("C03", "stranded-item", f"{kind} {nid} at t={now}: the granted retrieval {o} is neither used, cancelled nor awaited — "
                                                  f"the item bound to it stays in its edge for ever, out of every node's reach"))
                        break
        # (2) a token that is granted must have been acted upon within the instant
        for (last, toks, pk) in waits.values():
            for o, ev in self.open_toks[nid]:
                if o in toks and ev.triggered and last.startswith("await any") :
                    self.instant_viol.append(("C10", "late-resume", f"{kind} {nid} at t={now}: token {o} is granted but the waiting process has not gone on")); break
        if kind == "machine" and n.state_rep is not None and tuple(n.state_rep) != (-1, -1):
            b = waits.get(0)
            busy = len(n.worker_thread.users)
            if b is not None and busy < n.work_capacity and not b[1]:
                self.instant_viol.append(("C10", "no-input-request", f"machine {nid} at t={now}: {busy} of {n.work_capacity} worker slots in use but it is not requesting input"))
        if kind == "sink":
            b = waits.get(0)
            if b is None or not b[1]:
                self.instant_viol.append(("C10", "no-input-request", f"sink {nid} at t={now} is not requesting input"))
Recorder.end_of_instant = _end_of_instant


def build(cfg):
    """cfg: dict(edges=[{kind, cap, delay|delays, mode}], nodes=[{kind,...}], links=[(edge, src, dst)])
    Edges are created first, nodes in the listed order, then connections in the listed order."""
    r = Recorder()
    for e in cfg["edges"]:
        e = dict(e); k = e.pop("kind"); r.add_edge(k, **e)
    for n in cfg["nodes"]:
        n = dict(n); k = n.pop("kind"); r.add_node(k, **n)
    for (e, s, d) in cfg["links"]:
        r.connect(e, s, d)
    return r
