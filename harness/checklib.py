"""The per-property check: proof stage (lake build + axiom audit), known-finding replays,
correspondence (lock-step) for the model families the property depends on, judges on every
implementation trace, failing-input search when something breaks, evidence file."""
from common import *
import re, glob, pickle, multiprocessing, traceback

LEAN_DIR = os.path.join(VERIF, "lean")
CACHE = os.path.join(VERIF, ".cache")
REPLAYS = os.path.join(VERIF, "replays")
EVID = os.path.join(VERIF, "evidence")
AX_OK = {"propext", "Classical.choice", "Quot.sound"}
FORBIDDEN = re.compile(r"\b(sorry|admit|native_decide|bv_decide|implemented_by|unsafe)\b|^\s*axiom\s|maxHeartbeats\s+0")

# ------------------------------------------------------------------ proof stage

def strip_comments(src):
    out, i, depth, n = [], 0, 0, len(src)
    while i < n:
        if src.startswith("/-", i): depth += 1; i += 2; continue
        if depth and src.startswith("-/", i): depth -= 1; i += 2; continue
        if depth:
            if src[i] == "\n": out.append("\n")
            i += 1; continue
        if src.startswith("--", i):
            while i < n and src[i] != "\n": i += 1
            continue
        out.append(src[i]); i += 1
    return "".join(out)

def lean_sources():
    fs = sorted(glob.glob(os.path.join(LEAN_DIR, "FsVerif", "**", "*.lean"), recursive=True))
    return fs + [os.path.join(LEAN_DIR, "Main.lean"), os.path.join(LEAN_DIR, "FsVerif.lean")]

def prop_theorems(pid):
    p = os.path.join(LEAN_DIR, "FsVerif", "Props", pid + ".lean")
    if not os.path.exists(p): return []
    src = strip_comments(open(p).read())
    return re.findall(r"^theorem\s+([A-Za-z0-9_'.!?]+)", src, re.M)

def module_closure(mod):
    """FsVerif modules `mod` imports, transitively (module names)"""
    seen, todo = [], [mod]
    while todo:
        m = todo.pop()
        if m in seen: continue
        f = os.path.join(LEAN_DIR, *m.split(".")) + ".lean"
        if not os.path.exists(f): continue
        seen.append(m)
        for x in re.findall(r"^import\s+(FsVerif\.[A-Za-z0-9_.]+)", open(f).read(), re.M): todo.append(x)
    return sorted(seen)

def proof_stage(pid, tier="quick"):
    """returns dict(ok, obligations, discharged, theorems, axioms, problems, build_s)"""
    t0 = time.time()
    res = dict(ok=True, obligations=0, discharged=0, theorems=[], axioms=[], problems=[])
    mod = f"FsVerif.Props.{pid}"
    p = subprocess.run(["lake", "build", mod], cwd=LEAN_DIR, capture_output=True, text=True)
    out = p.stdout + p.stderr
    if p.returncode != 0:
        res["ok"] = False
        errs = [l for l in out.split("\n") if "error" in l][:5]
        res["problems"].append("lake build failed: " + " | ".join(errs))
    if re.search(r"declaration uses .sorry.", out):
        res["ok"] = False; res["problems"].append("a declaration uses sorry")
    for f in lean_sources():
        if not os.path.exists(f): continue
        for ln, line in enumerate(strip_comments(open(f).read()).split("\n"), 1):
            if FORBIDDEN.search(line):
                res["ok"] = False
                res["problems"].append(f"forbidden construct in {os.path.relpath(f, VERIF)}:{ln}: {line.strip()[:80]}")
    names = prop_theorems(pid)
    res["theorems"] = names; res["obligations"] = len(names)
    if not names:
        res["ok"] = False; res["problems"].append("no property theorem found for " + pid)
    if p.returncode == 0 and names:
        os.makedirs(CACHE, exist_ok=True)
        af = os.path.join(CACHE, f"Audit_{pid}.lean")
        with open(af, "w") as f:
            f.write(f"import {mod}\n")
            for n in names: f.write(f"#print axioms FsVerif.Props.{pid}.{n}\n")
        q = subprocess.run(["lake", "env", "lean", af], cwd=LEAN_DIR, capture_output=True, text=True)
        txt = (q.stdout + q.stderr).replace("\n  ", " ")
        seen = 0; used = set()
        for m in re.finditer(r"'FsVerif\.Props\.%s\.([^']+)' (depends on axioms: \[([^\]]*)\]|does not depend on any axioms)" % pid, txt):
            seen += 1
            axs = set(a.strip() for a in (m.group(3) or "").split(",") if a.strip())
            used |= axs
            bad = axs - AX_OK
            if bad:
                res["ok"] = False; res["problems"].append(f"theorem {m.group(1)} depends on non-whitelisted axioms {sorted(bad)}")
            else:
                res["discharged"] += 1
        if seen != len(names):
            res["ok"] = False; res["problems"].append(f"axiom audit saw {seen} of {len(names)} theorems: {txt[-300:]}")
        res["axioms"] = sorted(used)
    if tier == "thorough" and p.returncode == 0:
        # the toolchain's independent re-checker replays every declaration of the property module and of every FsVerif module it
        # imports through the kernel again, from the compiled .olean files
        mods = module_closure(mod)
        tq = time.time()
        q = subprocess.run(["lake", "env", "leanchecker"] + mods, cwd=LEAN_DIR, capture_output=True, text=True)
        res["leanchecker"] = dict(modules=len(mods), exit=q.returncode, seconds=round(time.time() - tq, 1))
        if q.returncode != 0:
            res["ok"] = False; res["problems"].append("leanchecker rejected the compiled modules: " + (q.stdout + q.stderr)[-400:])
    res["build_s"] = round(time.time() - t0, 2)
    return res

# ------------------------------------------------------------------ known findings

def load_known():
    d = json.load(open(os.path.join(VERIF, "known_findings.json")))
    return d["findings"]

def variant_of(header):
    w = header.split()
    if w[1] == "pos":
        return "filter" if w[4] != "0" else ("prio" if w[3] != "0" else "fcfs")
    if w[1] in ("buf", "bufedge"): return w[3]
    if w[1] == "prq": return ""
    if w[1] in ("slot", "cbelt"): return "nonacc" if (len(w) >= 5 and w[4] == "0") else "acc"
    return ""

def rule_matches(krule, rule):
    """a finding names one judge rule or a list of them"""
    return rule in krule if isinstance(krule, list) else krule == rule

def match_known(known, pid, header, rule):
    fam = header.split()[1]; var = variant_of(header)
    for k in known:
        if k["status"] == "known" and pid in k["properties"] and k.get("family") == fam \
           and k.get("variant") in (None, "", var) and rule_matches(k.get("rule"), rule):
            return k
    return None

def read_ops_file(path):
    """corpus format: first line header, then one rendered op per line"""
    lines = [l.strip() for l in open(path) if l.strip() and not l.startswith("#")]
    header = lines[0]
    ops = []
    for l in lines[1:]:
        w = l.split()
        ops.append(tuple(int(x) if re.fullmatch(r"-?\d+", x) else x for x in w))
    return header, ops

# ------------------------------------------------------------------ replay files

def write_replay(pid, seed, kind, header, ops, detail):
    os.makedirs(REPLAYS, exist_ok=True)
    n = len(glob.glob(os.path.join(REPLAYS, f"{pid}_*.json")))
    path = os.path.join(REPLAYS, f"{pid}_{seed}_{n}.json")
    json.dump(dict(property=pid, kind=kind, header=header, ops=[list(o) for o in ops] if ops else None,
                   rendered=[" ".join(map(str, o)) for o in ops] if ops else None,
                   detail=detail, replay_cmd=f"./check replay {path}"), open(path, "w"), indent=1)
    return path

# ------------------------------------------------------------------ evidence

def write_evidence(pid, tier, seed, t0, proof, cov_extra, violations, assumptions):
    os.makedirs(EVID, exist_ok=True)
    cov = dict(obligations=max(1, proof["obligations"]), discharged=proof["discharged"],
               checker_cmd=f"cd lean && lake build FsVerif.Props.{pid} && lake env lean ../.cache/Audit_{pid}.lean  (#print axioms of every property theorem)",
               trusted_base=["Lean 4.33.0 kernel", "axioms: " + ", ".join(proof["axioms"] or ["none"]),
                             "hand-written Lean models tied to /repo by the lock-step correspondence check (sampling)",
                             "SimPy 4.1.2 kernel semantics (modelled, validated only through lock-step)",
                             "harness/ (generators, adapters, canonicalisation, judges)"],
               theorems=proof["theorems"], proof_problems=proof["problems"])
    cov.update(cov_extra)
    ev = dict(property_id=pid, tier=tier, seed=seed, level="proof", coverage=cov,
              assumptions=assumptions, wall_s=round(time.time() - t0, 2), violations=violations)
    json.dump(ev, open(os.path.join(EVID, pid + ".json"), "w"), indent=1, default=str)
