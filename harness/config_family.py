"""C20 correspondence: the validation decision function (Lean `validate`) against what the real
library does with a configuration of the same kinds: built, run for a short horizon under a
watchdog, outcome classified as ok / rejected <stage> <error>."""
from common import *
import simpy as _simpy
from lockstep import LEAN_DIR

# which process failed, and in which of its activations (1 = its very first one)
FAIL = {"last": None}
_prev_resume = _simpy.events.Process._resume
def _counting_resume(self, event):
    self._fs_n = getattr(self, "_fs_n", 0) + 1
    r = _prev_resume(self, event)
    if not self.is_alive and getattr(self, "_ok", True) is False and FAIL["last"] is None:
        # the FIRST process that fails is the one whose exception the kernel re-raises (its failure event is queued first);
        # a second process may fail before that event is processed
        FAIL["last"] = (getattr(getattr(self, "_generator", None), "__name__", "?"), self._fs_n)
    return r
_simpy.events.Process._resume = _counting_resume

NUMS = ["neg", "zero", "pos", "none", "notnum"]
CAPS = ["neg", "zero", "pos", "notint"]
POLS = ["fa", "rr", "rnd", "constok", "constbad", "badstring", "none", "callable"]
FIELDS = ["cap", "mode", "bufDelay", "iat", "blk", "srcPol", "pd", "setup", "inPol", "outPol", "srcConn", "machIn", "machOut", "sinkConn"]
DEFAULT = dict(cap="pos", mode="1", bufDelay="zero", iat="pos", blk="1", srcPol="fa", pd="pos", setup="zero", inPol="fa",
               outPol="fa", srcConn="1", machIn="1", machOut="1", sinkConn="1")
DOMAIN = dict(cap=CAPS, mode=["0", "1"], bufDelay=NUMS, iat=NUMS, blk=["0", "1"], srcPol=POLS, pd=NUMS, setup=NUMS,
              inPol=POLS, outPol=POLS, srcConn=["0", "1"], machIn=["0", "1"], machOut=["0", "1"], sinkConn=["0", "1"])

def num(kind, pos=1.0, rep=0):
    # several concrete representatives per kind (`rep` comes from the configuration's own PRNG draw)
    return {"neg": [-1.0, -0.25, -3][rep % 3], "zero": [0, 0.0][rep % 2], "pos": [pos, pos * 2, pos / 2][rep % 3], "none": None,
            "notnum": ["soon", [1]][rep % 2]}[kind]

BAD_MODES = ["RING", "", "FO", "IFO", "LIF", "FIFOLIFO", "fifo", "lifo", "FILO", "RANDOM", "FIFO ", None, 7]

def pol(kind, n):
    return {"fa": "FIRST_AVAILABLE", "rr": "ROUND_ROBIN", "rnd": "RANDOM", "constok": 0, "constbad": n + 3,
            "badstring": "NEAREST", "none": None, "callable": (lambda: 0)}[kind]

def concrete(cfg):
    """the concrete parameter values run_real uses for this configuration (for replays and messages)"""
    rep = cfg.get("_rep", 0)
    return dict(capacity={"neg": [-2, -1][rep % 2], "zero": 0, "pos": [2, 1, 5][rep % 3], "notint": [1.5, "3"][rep % 2]}[cfg["cap"]],
                mode=["FIFO", "LIFO"][rep % 2] if cfg["mode"] == "1" else BAD_MODES[rep % len(BAD_MODES)],
                buffer_delay=num(cfg["bufDelay"], 0.5, rep), inter_arrival_time=num(cfg["iat"], 1.0, rep // 2), source_blocking=cfg["blk"] == "1",
                node_setup_time=num(cfg["setup"], 0.5, rep // 3), processing_delay=num(cfg["pd"], 1.0, rep // 5))

def line(cfg):
    return "validate " + " ".join(cfg[f] for f in FIELDS)

def run_real(cfg):
    """build Source -> Buffer -> Machine -> Buffer -> Sink from parameter kinds; classify what happens"""
    quiet()
    from factorysimpy.nodes.source import Source
    from factorysimpy.nodes.sink import Sink
    from factorysimpy.nodes.machine import Machine
    from factorysimpy.edges.buffer import Buffer
    env = _simpy.Environment()
    try:
        rep = cfg.get("_rep", 0)
        cap = {"neg": [-2, -1][rep % 2], "zero": 0, "pos": [2, 1, 5][rep % 3], "notint": [1.5, "3"][rep % 2]}[cfg["cap"]]
        b1 = Buffer(env, "B1", capacity=cap, delay=num(cfg["bufDelay"], 0.5, rep),
                    mode=["FIFO", "LIFO"][rep % 2] if cfg["mode"] == "1" else BAD_MODES[rep % len(BAD_MODES)])
        b2 = Buffer(env, "B2", capacity=2, delay=0)
        src = Source(env, "S", inter_arrival_time=num(cfg["iat"], 1.0, rep // 2), blocking=cfg["blk"] == "1", out_edge_selection=pol(cfg["srcPol"], 1))
        m = Machine(env, "M", node_setup_time=num(cfg["setup"], 0.5, rep // 3), processing_delay=num(cfg["pd"], 1.0, rep // 5), in_edge_selection=pol(cfg["inPol"], 1),
                    out_edge_selection=pol(cfg["outPol"], 1))
        k = Sink(env, "K")
    except Exception as ex:
        return f"rejected construction {type(ex).__name__}"
    # connections (a missing one = the node lacks the edge it needs)
    if cfg["srcConn"] == "1" and cfg["machIn"] == "1": b1.connect(src, m)
    elif cfg["srcConn"] == "1":
        src.out_edges = [b1]; b1.src_node = src; b1.dest_node = m
    elif cfg["machIn"] == "1":
        m.in_edges = [b1]; b1.src_node = src; b1.dest_node = m
    if cfg["machOut"] == "1" and cfg["sinkConn"] == "1": b2.connect(m, k)
    elif cfg["machOut"] == "1":
        m.out_edges = [b2]; b2.src_node = m; b2.dest_node = k
    elif cfg["sinkConn"] == "1":
        k.in_edges = [b2]; b2.src_node = m; b2.dest_node = k
    FAIL["last"] = None
    steps = 0
    try:
        while env._queue and env.peek() < 12:
            t = env.peek()
            env.step(); steps += 1
            if steps > 20000: return "livelock"
    except Exception as ex:
        f = FAIL["last"]
        stage = "start" if (f is not None and f[0] == "behaviour" and f[1] == 1) else "use"
        return f"rejected {stage} {type(ex).__name__}"
    return "ok"

# ---------------------------------------------------------------- parameters of the other edge kinds (no model: the rule is the property's)

def run_edge(kind, params):
    """Source -> <edge> -> Machine -> Buffer -> Sink with the given edge parameters; classify what happens"""
    quiet()
    from factorysimpy.nodes.source import Source
    from factorysimpy.nodes.sink import Sink
    from factorysimpy.nodes.machine import Machine
    from factorysimpy.edges.buffer import Buffer
    env = _simpy.Environment()
    try:
        if kind == "fleet":
            from factorysimpy.edges.fleet import Fleet
            e = Fleet(env, "E", capacity=params["capacity"], delay=params["delay"], transit_delay=params["transit"])
        elif kind == "slot":
            from factorysimpy.edges.slotted_conveyor import ConveyorBelt
            e = ConveyorBelt(env, "E", capacity=params["capacity"], delay=params["delay"], accumulating=params["acc"])
        else:
            from factorysimpy.edges.continuous_conveyor import ConveyorBelt
            e = ConveyorBelt(env, "E", conveyor_length=params["length"], speed=params["speed"], item_length=params["ilen"], accumulating=params["acc"])
        b2 = Buffer(env, "B2", capacity=2, delay=0)
        src = Source(env, "S", inter_arrival_time=1.0, blocking=True, item_length=params.get("ilen", 1) if kind == "cbelt" and isinstance(params.get("ilen"), (int, float)) and params.get("ilen", 1) > 0 else 1)
        m = Machine(env, "M", processing_delay=1.0); k = Sink(env, "K")
        e.connect(src, m); b2.connect(m, k)
    except Exception as ex:
        return f"rejected construction {type(ex).__name__}"
    steps = 0
    try:
        import warnings
        while env._queue and env.peek() < 12:
            env.step(); steps += 1
            if steps > 20000: return "livelock"
    except Exception as ex:
        return f"rejected run {type(ex).__name__}"
    return "ok"

def edge_param_cases():
    """(kind, params, valid?) - valid means: every parameter inside its documented domain (positive integer capacity, positive length /
    item length / speed, non-negative delays)"""
    out = []
    for cap in (-1, 0, 2, 1):
        for d in (-1.0, -0.25, 0, 2.0):
            for tr in (-1.0, -0.25, 0, 0.5):
                out.append(("fleet", dict(capacity=cap, delay=d, transit=tr), cap > 0 and d >= 0 and tr >= 0))
    for cap in (-1, 0, 2):
        for d in (-1.0, -0.25, 0, 1.0):
            for acc in (0, 1):
                out.append(("slot", dict(capacity=cap, delay=d, acc=acc), cap > 0 and d >= 0))
    for L in (-1, 0, 3):
        for sp in (-1.0, 0, 1.0, 2.5):
            for il in (-1, 0, 1, 0.5):
                out.append(("cbelt", dict(length=L, speed=sp, ilen=il, acc=0), L > 0 and sp > 0 and il > 0))
    return out

def run_edge_params():
    """returns dict(cases, viol=[(kind, params, valid, outcome, msg)], livelock_fleet_delay0)"""
    import warnings
    viol = []; n = 0; d8 = 0; outcomes = {}
    with warnings.catch_warnings():
        warnings.simplefilter("ignore")
        for kind, params, valid in edge_param_cases():
            n += 1
            o = run_edge(kind, params)
            outcomes[o.split()[0] + ("" if o in ("ok", "livelock") else " " + o.split()[1])] = outcomes.get(o.split()[0] + ("" if o in ("ok", "livelock") else " " + o.split()[1]), 0) + 1
            if o == "livelock" and kind == "fleet" and params["delay"] == 0 and params["capacity"] > 0:
                d8 += 1; continue       # known finding KF-D8: with delay 0 the fleet spins at t = 0 before anything else can happen
            if valid and o != "ok":
                viol.append((kind, params, valid, o, f"valid {kind} parameters {params} do not run to completion: {o}"))
            if not valid and o in ("ok", "livelock"):
                viol.append((kind, params, valid, o, f"invalid {kind} parameters {params} are simulated instead of being rejected ({o})"))
    return dict(cases=n, viol=viol, kf_d8=d8, outcomes=outcomes)

def gen_configs(rng, n):
    out = [dict(DEFAULT)]
    for f in FIELDS:                       # one factor at a time
        for v in DOMAIN[f]:
            c = dict(DEFAULT); c[f] = v; out.append(c)
    for i in range(len(BAD_MODES)):        # every unknown-mode representative once
        c = dict(DEFAULT); c["mode"] = "0"; c["_rep"] = i; out.append(c)
    while len(out) < n:                    # random pairs / triples of deviations
        c = dict(DEFAULT)
        for f in rng.sample(FIELDS, rng.choice([1, 2, 2, 3])):
            c[f] = rng.choice(DOMAIN[f])
        c["_rep"] = rng.randrange(390)     # which concrete representative of each kind
        out.append(c)
    return out

def run_config_family(tier, seed):
    rng = random.Random(seed * 31 + 5)
    cfgs = gen_configs(rng, 160 if tier == "quick" else 3000)
    real = [run_real(c) for c in cfgs]
    p = subprocess.run(["lake", "env", "lean", "--run", "Main.lean"], cwd=LEAN_DIR, input="\n".join(line(c) for c in cfgs) + "\n",
                       capture_output=True, text=True)
    model = [l for l in p.stdout.split("\n") if l]
    div = []
    for c, r, m in zip(cfgs, real, model):
        # the stage of a start-up error depends on kernel step counts; compare class and error, and the stage when both reject
        if r != m: div.append((c, r, m))
    return dict(configs=len(cfgs), divergences=div, model_error=None if p.returncode == 0 and len(model) == len(cfgs) else (p.stderr[-300:] or "length"),
                outcomes={k: real.count(k) for k in set(real)})
