"""Bounded-exhaustive stream (thorough tier): EVERY sequence of abstract moves up to a given length, for small
capacities, executed on the real class and on the Lean model and judged.  Abstract moves refer to tokens by role
("the oldest granted, unused space reservation", "the newest granted retrieval", …); a move that is not applicable in the
current state prunes the branch.  This is what reliably catches off-by-one admission tests and dropped trigger calls that
random histories may take long to hit."""
from common import *
import multiprocessing, itertools
from stores_impl import make_impl, render
from lockstep import run_model, first_diff
from judges import judge_store_trace

# (family, header, depth, alphabet)
def configs(tier):
    d = int(os.environ.get("VERIF_EXH_DEPTH", "8" if tier == "thorough" else "6"))
    out = []
    base = ["rp0", "rg0", "put", "getO", "getN", "cpO", "cgN", "cgO", "cgP"]
    for cap in (1, 2):
        out.append(("pos", f"new pos {cap} 0 0 0", d, base))
        out.append(("pos", f"new pos {cap} 1 0 0", d, base + ["rp1"]))
        for mode in ("FIFO", "LIFO"):
            out.append(("buf", f"new buf {cap} {mode}", d, base + ["put2", "adv1"]))
            out.append(("bufedge", f"new bufedge {cap} {mode}", d, base + ["put2", "adv1"]))
    out.append(("pos", "new pos 2 1 1 2", d, ["rp0", "rgK", "rg0", "put", "putK", "getO", "cgO", "cgP", "adv1", "settle"]))
    belt = ["rp0", "rg0", "put", "getO", "cpO", "cgN", "ev", "advN"]
    for hdr in ("new slot 2 1 1", "new slot 2 1 0", "new slot 1 2 1"):
        out.append(("slot", hdr, d + 2, belt))
    out.append(("slot", "new slot 1 1 1", d, belt + ["rp1"]))      # rp1: a second actor asking with priority -1
    for hdr in ("new cbelt 2 1 0", "new cbelt 2 1 1", "new cbelt 3 2 0"):
        out.append(("cbelt", hdr, d + 2, belt))
    for hdr in ("new fleet 2 2 1", "new fleet 1 1 0"):
        out.append(("fleet", hdr, d + 1, belt))
    out.append(("fleet", "new fleet 1 2 0", d - 1, belt + ["rp1"]))
    return out

class Tk:
    __slots__ = ("tid", "side", "actor", "state")
    def __init__(s, tid, side, actor): s.tid, s.side, s.actor, s.state = tid, side, actor, "pending"

def resolve(move, family, toks, nitems, impl):
    """abstract move -> concrete op tuple, or None if not applicable"""
    def pick(side, state, newest=False):
        c = [t for t in toks if t.side == side and t.state == state]
        if not c: return None
        return c[-1] if newest else c[0]
    belt = family in ("fleet", "slot", "cbelt")
    if move == "rp0": return ("rp", 0, 0)
    if move == "rp1": return ("rp", 1, -1)
    if move == "rg0": return ("rg", 0, 0, "always")
    if move == "rgK": return ("rg", 0, 0, "kind:1")
    if move in ("put", "put2", "putK"):
        t = pick("put", "granted")
        if t is None: return None
        kind = 1 if move == "putK" else 0
        op = ["put", t.actor, t.tid, nitems, kind]
        if family in ("buf", "bufedge"): op.append(2 if move == "put2" else 0)
        if belt: op.append(0)
        return tuple(op)
    if move == "getO":
        t = pick("get", "granted"); return None if t is None else ("get", t.actor, t.tid)
    if move == "getN":
        c = [t for t in toks if t.side == "get" and t.state == "granted"]
        return None if len(c) < 2 else ("get", c[-1].actor, c[-1].tid)
    if move == "cpO":
        c = [t for t in toks if t.side == "put" and t.state in ("pending", "granted")]
        return None if not c else ("cp", c[0].tid)
    if move == "cgN":
        t = pick("get", "granted", newest=True); return None if t is None else ("cg", t.tid)
    if move == "cgO":
        c = [t for t in toks if t.side == "get" and t.state == "granted"]
        return None if len(c) < 2 else ("cg", c[0].tid)
    if move == "cgP":
        t = pick("get", "pending"); return None if t is None else ("cg", t.tid)
    if move == "adv1": return ("adv", 1)
    if move == "settle": return ("settle",)
    if move == "ev":
        return ("ev",) if impl.next_time() is not None else None
    if move == "advN":
        nt = impl.next_time(); now = f2t(impl.env.now)
        return ("adv", nt - now) if (nt is not None and nt > now) else None
    raise ValueError(move)

TAIL = {   # observations appended to every maximal sequence (no branching cost)
    "pos": [("stat",)],
    "buf": [("probe", "occ"), ("probe", "ready"), ("stat",), ("adv", 3), ("probe", "ready"), ("stat",), ("final",), ("stat",)],
    "bufedge": [("probe", "can_put"), ("probe", "can_get"), ("probe", "occ"), ("probe", "ready"), ("stat",), ("adv", 3),
                ("probe", "can_get"), ("probe", "ready"), ("stat",), ("final",), ("stat",)],
    "fleet": [("probe", "can_put"), ("probe", "can_get"), ("probe", "occ"), ("probe", "ready"), ("stat",), ("final",), ("stat",)],
    "slot": [("probe", "occ"), ("probe", "ready"), ("probe", "mode"), ("stat",), ("final",), ("stat",)],
    "cbelt": [("probe", "occ"), ("probe", "ready"), ("probe", "mode"), ("probe", "pat"), ("probe", "stuck"), ("stat",), ("final",), ("stat",)],
}

def execute(family, header, moves, tail=False):
    """run one abstract sequence on the real class; returns (ops, lines) or None if some move was not applicable"""
    impl = make_impl(header)
    toks = []; ops = []; lines = []; nitems = 0
    for mv in moves:
        op = resolve(mv, family, toks, nitems, impl)
        if op is None: return None
        line = impl.do(op)
        ops.append(op); lines.append(line)
        if op[0] == "put": nitems += 1
        if line.startswith("tok "):
            toks.append(Tk(int(line.split()[1]), "put" if op[0] == "rp" else "get", op[1]))
        if "|" in line:
            for x in line.split("|")[1].split():
                toks[int(x.split('@')[0])].state = "granted"
            head = line.split("|")[0].strip()
            if op[0] in ("put", "get") and not head.startswith("err") and op[2] < len(toks): toks[op[2]].state = "used"
            if op[0] in ("cp", "cg") and head == "ok" and op[1] < len(toks): toks[op[1]].state = "cancelled"
    if tail:
        for op in TAIL[family]:
            ops.append(op); lines.append(impl.do(op))
    return ops, lines

def _subtree(family, header, depth, alphabet, prefix, hist):
    """depth-first below `prefix`; returns False if the prefix is not applicable.  Only maximal sequences are recorded
    (the trace of a prefix is a prefix of the trace of every extension: the real class is re-run from scratch and is
    deterministic)."""
    r = execute(family, header, prefix)
    if r is None: return False
    ext = False
    if len(prefix) < depth:
        for mv in alphabet:
            if _subtree(family, header, depth, alphabet, prefix + [mv], hist): ext = True
    if not ext:
        r2 = execute(family, header, prefix, tail=True)
        if r2 is not None: r = r2      # (the second run of the same prefix answers like the first; if it ever does not, keep the trace without the tail)
        hist.append((header, r[0], r[1]))
    return True

def _check(hist):
    div = []; viol = []; ndiv = nviol = 0; seen = {}
    CH = 20000
    for i in range(0, len(hist), CH):
        chunk = hist[i:i + CH]
        try:
            ml = run_model([(h, ops) for h, ops, _ in chunk])
        except Exception as e:
            return dict(n=len(hist), div=[], viol=[], ndiv=0, nviol=0, err=str(e)[:400])
        for (h, ops, il), m in zip(chunk, ml):
            d = first_diff(il, m)
            if d is not None:
                ndiv += 1
                if len(div) < 5: div.append((h, ops, il, m, d))
            v = judge_store_trace(h, ops, il)
            if v:
                nviol += 1
                key = tuple(sorted(set((x[0], x[2]) for x in v)))      # a sample per distinct set of (property, rule)
                seen[key] = seen.get(key, 0) + 1
                if seen[key] <= 4: viol.append((h, ops, il, m, v))
    return dict(n=len(hist), div=div, viol=viol, ndiv=ndiv, nviol=nviol, err=None)

def _worker(tasks):
    quiet()
    hist = []
    for family, header, depth, alphabet, prefix in tasks:
        _subtree(family, header, depth, alphabet, prefix, hist)
    r = _check(hist)
    r["per_header"] = {}
    for h, _, _ in hist: r["per_header"][h] = r["per_header"].get(h, 0) + 1
    return r

SPLIT = 3      # the tree is cut into sub-trees below every applicable prefix of this length

def run_exhaustive(family, tier):
    """every configuration of `family`.  Returns dict(sequences, divergences=[(header, ops, impl lines, model lines, first
    differing line)], viol=[(header, ops, impl lines, model lines, [(prop, line, rule, msg)])], configs, error)"""
    quiet()
    cfgs = [c for c in configs(tier) if c[0] == family]
    if not cfgs: return None
    tasks = []; short = []
    for fam, header, depth, alphabet in cfgs:
        def cut(prefix):
            r = execute(fam, header, prefix)
            if r is None: return False
            if len(prefix) == min(SPLIT, depth):
                tasks.append((fam, header, depth, alphabet, prefix)); return True
            ext = False
            for mv in alphabet:
                if cut(prefix + [mv]): ext = True
            if not ext:
                r = execute(fam, header, prefix, tail=True)
                short.append((header, r[0], r[1]))
            return True
        for mv in alphabet: cut([mv])
    ngroups = 56 if tier == "thorough" else 14
    groups = [tasks[i::ngroups] for i in range(ngroups)]
    groups = [g for g in groups if g]
    with multiprocessing.Pool(min(14, max(1, len(groups)))) as pool:
        res = pool.map(_worker, groups, chunksize=1)
    r0 = _check(short); r0["per_header"] = {}
    for h, _, _ in short: r0["per_header"][h] = r0["per_header"].get(h, 0) + 1
    res.append(r0)
    per = {}
    for r in res:
        for h, n in r["per_header"].items(): per[h] = per.get(h, 0) + n
    out = dict(sequences=sum(r["n"] for r in res), divergences=[d for r in res for d in r["div"]],
               n_divergences=sum(r["ndiv"] for r in res), viol=[v for r in res for v in r["viol"]],
               n_viol=sum(r["nviol"] for r in res), error=next((r["err"] for r in res if r["err"]), None),
               configs=[dict(header=h, max_length=d, moves=al, maximal_sequences=per.get(h, 0)) for _, h, d, al in cfgs])
    return out

if __name__ == "__main__":
    fam = sys.argv[1]; tier = sys.argv[2] if len(sys.argv) > 2 else "quick"
    t0 = time.time()
    r = run_exhaustive(fam, tier)
    say(fam, tier, r["sequences"], "sequences", r["n_divergences"], "divergences", r["n_viol"], "judged traces with hits", round(time.time() - t0, 1), "s")
    import collections
    say(collections.Counter((x[0], x[2]) for v in r["viol"] for x in v[4]))
    for c in r["configs"]: say("  ", c["header"], c["max_length"], c["maximal_sequences"])
    if r["error"]: say("ERROR", r["error"])
    for d in r["divergences"][:2]:
        h, ops, il, m, k = d
        say(h)
        for o, a, b in list(zip(ops, il, m))[:k + 1]: say("   ", render(o), "=>", a, "" if a == b else "   ## MODEL: " + b)
    for v in r["viol"][:3]:
        h, ops, il, _, hits = v
        say(h, hits)
        for o, a in zip(ops, il): say("   ", render(o), "=>", a)
