"""Lock-step correspondence: the same operation lines are executed by the real code and by the
Lean model driver; observable result lines are compared one by one."""
from common import *
from stores_impl import make_impl, render, lines_equal, FOREIGN
import tempfile

LEAN_DIR = os.path.join(VERIF, "lean")

def run_model(batches, main="Main.lean"):
    """batches: list of (header, [op tuples]).  Returns list of lists of output lines."""
    text = []
    for header, ops in batches:
        text.append(header)
        for op in ops: text.append(render(op))
        text.append("end")
    inp = "\n".join(text) + "\n"
    p = subprocess.run(["lake", "env", "lean", "--run", main], cwd=LEAN_DIR, input=inp,
                       capture_output=True, text=True)
    if p.returncode != 0:
        raise RuntimeError("model driver failed: " + p.stderr[-2000:] + p.stdout[-500:])
    out = p.stdout.split("\n")
    res, cur = [], None
    for l in out:
        if l == "new": cur = []
        elif l == "end": res.append(cur); cur = None
        elif cur is not None: cur.append(l)
    if len(res) != len(batches):
        raise RuntimeError(f"model driver returned {len(res)} histories for {len(batches)}")
    return res

def run_impl(header, ops):
    impl = make_impl(header)
    return [impl.do(op) for op in ops]

def first_diff(impl_lines, model_lines):
    for i, (a, b) in enumerate(zip(impl_lines, model_lines)):
        if b == "GAVEUP": return None      # outside the model's stated domain from here on (Model/CBelt.lean); counted by the caller
        if not lines_equal(a, b): return i
    if len(impl_lines) != len(model_lines): return min(len(impl_lines), len(model_lines))
    return None

def renumber(ops, keep):
    """Keep ops[i] for i in keep; token ids are ordinals of reserve ops, so they are remapped;
    references to dropped tokens become foreign ids."""
    tidmap, n_old, n_new = {}, 0, 0
    keepset = set(keep)
    for i, op in enumerate(ops):
        if op[0] in ("rp", "rg"):
            if i in keepset: tidmap[n_old] = n_new; n_new += 1
            n_old += 1
    def m(t):
        if t >= FOREIGN: return t
        return tidmap.get(t, FOREIGN + 7)
    out = []
    for i in keep:
        op = ops[i]
        if op[0] in ("put", "get"): op = (op[0], op[1], m(op[2])) + tuple(op[3:])
        elif op[0] in ("cp", "cg"): op = (op[0], m(op[1]))
        out.append(op)
    return out

def shrink(header, ops, failing, budget=300):
    """Greedy delta-debugging; `failing(header, ops)` -> bool."""
    cur = list(ops)
    n = 0
    chunk = max(1, len(cur) // 2)
    while chunk >= 1 and n < budget:
        i = 0; progressed = False
        while i < len(cur) and n < budget:
            keep = [j for j in range(len(cur)) if not (i <= j < i + chunk)]
            cand = renumber(cur, keep)
            n += 1
            if cand and failing(header, cand):
                cur = cand; progressed = True
            else:
                i += chunk
        if not progressed or chunk > 1:
            chunk //= 2
    return cur

def diverges(header, ops):
    try:
        il = run_impl(header, ops)
        ml = run_model([(header, ops)])[0]
    except Exception:
        return False
    return first_diff(il, ml) is not None
