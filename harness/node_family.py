"""Correspondence for the node automata: real factories are run under the recorder; every node's
activation sequence is replayed through its Lean automaton (driver), which must reproduce the
node's calls and statistics activation by activation."""
from common import *
import recorder
from lockstep import LEAN_DIR

STATE_IDX = {"SETUP_STATE": 0, "GENERATING_STATE": 1, "BLOCKED_STATE": 2}
MTT = ["SETUP_STATE", "IDLE_STATE", "ATLEAST_ONE_PROCESSING_STATE", "ALL_ACTIVE_BLOCKED_STATE",
       "ALL_ACTIVE_PROCESSING_STATE", "ATLEAST_ONE_BLOCKED_STATE"]

def pol_str(p):
    if p == "FIRST_AVAILABLE": return "fa"
    if p == "ROUND_ROBIN": return "rr"
    if p == "RANDOM": return "rnd"
    if isinstance(p, int): return f"const:{p}"
    if isinstance(p, (list, tuple)): return "user"
    raise ValueError(p)

def node_header(rec, nid):
    kind, n, cfg = rec.nodes[nid]
    nin = len(n.in_edges) if n.in_edges else 0
    nout = len(n.out_edges) if n.out_edges else 0
    if kind == "source":
        return (f"new source {nid} {int(cfg.get('blocking', True))} {pol_str(cfg.get('out', 'FIRST_AVAILABLE'))} {nout}"
                + (f" {cfg['setup']}" if cfg.get("setup") else ""))
    if kind == "sink":
        return f"new sink {nin}"
    if kind == "machine":
        return (f"new machine {nid} {cfg.get('wc', 1)} {cfg.get('setup', 0)} {int(cfg.get('blocking', True))} "
                f"{pol_str(cfg.get('inp', 'FIRST_AVAILABLE'))} {pol_str(cfg.get('out', 'FIRST_AVAILABLE'))} {nin} {nout}")
    if kind in ("combiner", "splitter"):
        tgt = "+".join(str(x) for x in cfg.get("target", [1])) or "-"
        return (f"new pack {kind} {nid} {cfg.get('setup', 0)} {int(cfg.get('blocking', True))} "
                f"{pol_str(cfg.get('inp', 'FIRST_AVAILABLE'))} {pol_str(cfg.get('out', 'FIRST_AVAILABLE'))} {nin} {nout} {tgt}")
    raise ValueError(kind)

PSTATE = {"SETUP_STATE": 0, "IDLE_STATE": 1, "PROCESSING_STATE": 2, "BLOCKED_STATE": 3}

def fmt_last(x): return "-" if x is None else str(x)

def stats_str(kind, st):
    if kind == "source":
        tt = [st["tt"][k] for k in ("SETUP_STATE", "GENERATING_STATE", "BLOCKED_STATE")]
        return f"gen={st['num_item_generated']} disc={st['num_item_discarded']} state={STATE_IDX.get(st['state'], '?')} last={fmt_last(st['last'])} tt={tt}"
    if kind == "sink":
        return f"recv={st['num_item_received']} cycle={st['cycle']} last={fmt_last(st['last'])} tt={[st['tt']['COLLECTING_STATE']]}"
    if kind == "machine":
        tt = [st["tt"][k] for k in MTT]
        rep = "-" if st["rep"] is None else f"{st['rep'][0]},{st['rep'][1]}"
        return (f"proc={st['num_item_processed']} disc={st['num_item_discarded']} last={fmt_last(st['last'])} rep={rep} "
                f"tt={tt} occ={st['occ']} insel={st['insel']} outsel={st['outsel']} pd={st['pd']}")
    if kind in ("combiner", "splitter"):
        tt = [st["tt"][k] for k in ("SETUP_STATE", "IDLE_STATE", "PROCESSING_STATE", "BLOCKED_STATE")]
        return (f"proc={st['num_item_processed']} disc={st['num_item_discarded']} state={PSTATE.get(st['state'], '?')} "
                f"last={fmt_last(st['last'])} tt={tt} occ={st['occ']} insel={st['insel']} outsel={st['outsel']} pd={st['pd']}")
    raise ValueError(kind)

def fmt_item(x):
    if len(x) == 2: return f"{x[0]}@{x[1]}"
    i, c, p, cont, woke = x
    if not p and not cont and not woke: return f"{i}@{c}"
    return f"{i}@{c}@{p}@{'+'.join(map(str, cont)) or '-'}@{'+'.join(map(str, woke)) or '-'}"

def act_lines(rec, nid):
    """(input lines for the driver, expected output lines) for node nid"""
    kind, n, cfg = rec.nodes[nid]
    acts = [a for a in rec.acts if a["node"] == nid]
    ins, outs = [], []
    prev = None
    for ai, a in enumerate(acts):
        draws = [c.split()[1] for c in a["calls"] if c.startswith("draw ")]
        sels = [c.split()[1] for c in a["calls"] if c.startswith("sel ")]
        cans = [c.split()[2] for c in a["calls"] if c.startswith("can ")]
        # library RANDOM generator: the draw is not visible as a call; read it from what the node did with it
        if kind in ("machine", "combiner", "splitter") and a["stats"] is not None and prev is not None:
            if cfg.get("inp") == "RANDOM" and len(a["stats"]["insel"]) > len(prev["insel"]):
                sels = [str(a["stats"]["insel"][-1])] + sels
            if cfg.get("out") == "RANDOM" and len(a["stats"]["outsel"]) > len(prev["outsel"]):
                sels = sels + [str(x) for x in a["stats"]["outsel"][len(prev["outsel"]):]]
        if kind == "source" and cfg.get("out") == "RANDOM" and a["proc"] == 0:
            k = None
            for c in a["calls"]:
                if c.startswith("can e"): k = c.split()[1][1:]
                if c.startswith("spawn p") and k is None:
                    pn = int(c.split()[1][1:])
                    for b in acts[ai + 1:]:
                        if b["proc"] == pn and b["calls"]:
                            k = b["calls"][0].split()[1][1:]; break
            if k is not None: sels = [k]
        parts = [f"act {a['proc']} {a['t']}"]
        if a["trig"]: parts.append("trig=" + ",".join(map(str, a["trig"])))
        if draws: parts.append("draws=" + ",".join(draws))
        if sels: parts.append("sels=" + ",".join(sels))
        if cans: parts.append("cans=" + ",".join(cans))
        if a["items"]: parts.append("items=" + ",".join(fmt_item(x) for x in a["items"]))
        ins.append(" ".join(parts))
        outs.append("; ".join(a["calls"]) + " || " + stats_str(kind, a["stats"]))
        prev = a["stats"]
    return ins, outs

def run_node_models(batches):
    """batches: list of (header, input lines) -> list of output line lists"""
    text = []
    for h, ins in batches:
        text.append(h); text.extend(ins); text.append("end")
    p = subprocess.run(["lake", "env", "lean", "--run", "Main.lean"], cwd=LEAN_DIR, input="\n".join(text) + "\n",
                       capture_output=True, text=True)
    if p.returncode != 0:
        raise RuntimeError("model driver failed: " + p.stderr[-1500:])
    res, cur = [], None
    for l in p.stdout.split("\n"):
        if l == "new": cur = []
        elif l == "end": res.append(cur); cur = None
        elif cur is not None: cur.append(l)
    if len(res) != len(batches): raise RuntimeError(f"driver returned {len(res)} of {len(batches)}")
    return res

# ------------------------------------------------------------------ factory generator

def rand_policy(rng, n, allow_fa=True):
    r = rng.random()
    if allow_fa and r < 0.45: return "FIRST_AVAILABLE"
    if r < 0.60: return "ROUND_ROBIN"
    if r < 0.70: return "RANDOM"
    if r < 0.85: return rng.randrange(n)
    return [rng.randrange(n) for _ in range(rng.randrange(1, 5))]

def rand_buffer(rng):
    d = rng.choice([0, 0, 1, 2, 4])
    e = dict(kind="buffer", cap=rng.choice([1, 1, 2, 3]), mode=rng.choice(["FIFO", "FIFO", "LIFO"]))
    if rng.random() < 0.3: e["delays"] = [rng.choice([0, 1, 2, 3]) for _ in range(3)]
    else: e["delay"] = d
    return e

def gen_factory(rng):
    """random factory from a few graph shapes; every parameter from the PRNG"""
    shape = rng.choice(["line", "line", "fanout", "fanin", "diamond", "two", "split", "split", "pack", "pack", "pack", "unpack", "cross", "cross", "merge", "spfan", "spfan", "chain2", "fanin3", "fanout3", "fanout3", "loop"])
    edges, nodes, links = [], [], []
    def E(): edges.append(rand_buffer(rng)); return len(edges) - 1
    def N(d): nodes.append(d); return len(nodes) - 1
    def source(nout):
        blocking = rng.random() < 0.6
        iat = [rng.choice([1, 1, 2, 3, 5]) for _ in range(rng.randrange(1, 4))]
        if blocking and rng.random() < 0.15: iat = [0] + iat
        d = dict(kind="source", iat=iat, blocking=blocking, out=rand_policy(rng, nout))
        # the constructor of Source does not take node_setup_time; one source in six gets it assigned before the run (an inherited attribute)
        if rng.random() < 1 / 6: d["setup"] = rng.choice([1, 2, 3])
        return N(d)
    def machine(nin, nout):
        inp, out = rand_policy(rng, nin), rand_policy(rng, nout)
        if rng.random() < 0.15:          # the same library policy on both sides (two selector objects of one node)
            inp = out = rng.choice(["ROUND_ROBIN", "ROUND_ROBIN", "RANDOM"])
        return N(dict(kind="machine", pd=[rng.choice([0, 1, 2, 4, 6]) for _ in range(rng.randrange(1, 4))],
                      wc=rng.choice([1, 1, 2, 3]), setup=rng.choice([0, 0, 1, 3]), blocking=rng.random() < 0.6,
                      inp=inp, out=out))
    def sink(): return N(dict(kind="sink"))
    def psource(nout, pallet):
        d = nodes[source(nout)]
        if pallet: d["item_type"] = "pallet"
        return len(nodes) - 1
    def pd(): return [rng.choice([0, 1, 2, 4]) for _ in range(rng.randrange(1, 3))]
    if shape in ("pack", "unpack"):
        # pallet source + k item sources -> combiner -> splitter (or sink) -> sinks
        k = rng.choice([0, 1, 1, 2, 2, 3])
        wrong = rng.random() < 0.06
        invalid = []
        srcs = [psource(1, not (wrong and rng.random() < 0.5))] + [psource(1, wrong and rng.random() < 0.5) for _ in range(k)]
        target = [rng.choice([0, 1, 1, 2, 3]) for _ in range(k + 1)]
        if rng.random() < 0.06 and k > 0:
            target = target[:rng.randrange(1, k + 1)]; invalid.append("IndexError")       # recipe shorter than the in-edge list
        if wrong: invalid.append("RuntimeError")                                             # an in-edge supplies the wrong kind of flow item
        nco = rng.choice([1, 1, 2])
        c = N(dict(kind="combiner", pd=pd(), target=target, setup=rng.choice([0, 0, 2]), blocking=rng.random() < 0.65,
                   out=rand_policy(rng, nco)))
        for sidx in srcs:
            e = E(); links.append((e, sidx, c))
        if shape == "pack" and rng.random() < 0.75:
            nso = rng.choice([1, 2, 2, 3])
            sp = N(dict(kind="splitter", pd=pd(), setup=rng.choice([0, 0, 1]), blocking=rng.random() < 0.55,
                        inp=rand_policy(rng, nco), out=rand_policy(rng, nso)))
            if not nodes[sp]["blocking"] and rng.random() < 0.5:
                # the unpack loop of a non-blocking FIRST_AVAILABLE splitter in front of full out-edges: pallets carrying several items
                nodes[sp]["out"] = "FIRST_AVAILABLE"
                if k > 0 and sum(nodes[c]["target"][1:]) < 2 and len(nodes[c]["target"]) > 1: nodes[c]["target"][1] = rng.choice([2, 3])
            if rng.random() < 0.3: nodes[sp]["split_quantity"] = rng.choice([1, 2, 3])     # documented as ignored in UNPACK mode
            for _ in range(nco):
                e = E(); links.append((e, c, sp))
            slow_out = rng.random() < 0.45
            all_cong = rng.random() < 0.6      # a non-blocking splitter whose out-edges are ALL congested: several items of one pallet are dropped at one instant
            for jj in range(nso):
                kk = sink(); e = E(); links.append((e, sp, kk))
                # a non-blocking splitter with several out-edges: one of them is often congested (drops on one edge, pushes on another)
                if not nodes[sp]["blocking"] and ((nso >= 2 and jj == 0 and rng.random() < 0.6) or all_cong):
                    edges[e].pop("delays", None); edges[e]["cap"] = 1; edges[e]["delay"] = rng.choice([4, 6, 8])
                # a blocking splitter behind slow out-edges: every unpacked item waits for room (time is charged to BLOCKED, C17; the
                # worker holds its slot, C08)
                if nodes[sp]["blocking"] and slow_out:
                    edges[e].pop("delays", None); edges[e]["cap"] = 1; edges[e]["delay"] = rng.choice([3, 5, 7])
        else:
            for _ in range(nco):
                kk = sink(); e = E(); links.append((e, c, kk))
        if shape == "unpack":
            # a splitter fed with plain items now and then (no `.items`): AttributeError path
            pass
    elif shape == "spfan":
        # two or three pallet sources -> buffers with different delays -> one splitter (in-edge policy under test) -> sinks
        n = rng.choice([2, 2, 3]); nso = rng.choice([1, 2])
        sp = N(dict(kind="splitter", pd=pd(), setup=rng.choice([0, 0, 1]), blocking=rng.random() < 0.65,
                    inp=rand_policy(rng, n), out=rand_policy(rng, nso)))
        for j in range(n):
            sidx = psource(1, True); nodes[sidx]["blocking"] = True
            nodes[sidx]["iat"] = [rng.choice([1, 2, 3, 5])]
            a = E(); edges[a].pop("delays", None); edges[a]["delay"] = rng.choice([0, 0, 1, 2]); links.append((a, sidx, sp))
        for _ in range(nso):
            kk = sink(); e = E(); links.append((e, sp, kk))
    elif shape == "chain2":
        # two combiners in a row: the pallets the second one takes from its first in-edge arrive already loaded
        t1 = [1, rng.choice([1, 2, 3])]; t2 = [1, rng.choice([1, 2, 3])]
        ps = psource(1, True); i1 = psource(1, False); i2 = psource(1, False)
        for sidx in (ps, i1, i2): nodes[sidx]["iat"] = [rng.choice([1, 1, 2])]
        c1 = N(dict(kind="combiner", pd=pd(), target=t1, setup=0, blocking=True, out="FIRST_AVAILABLE"))
        c2 = N(dict(kind="combiner", pd=pd(), target=t2, setup=rng.choice([0, 1]), blocking=rng.random() < 0.7, out="FIRST_AVAILABLE"))
        k = sink()
        for (a_, b_) in ((ps, c1), (i1, c1), (c1, c2), (i2, c2), (c2, k)):
            e = E(); links.append((e, a_, b_))
    elif shape == "merge":
        # two or three sources (often in lock-step: several in-edges grant in the same instant) -> one sink with several in-edges
        n = rng.choice([2, 2, 3]); k = sink()
        same = rng.random() < 0.6
        iat0 = [rng.choice([1, 2, 3])]
        for j in range(n):
            sidx = source(1)
            if same: nodes[sidx]["iat"] = list(iat0)
            if j == 0 and rng.random() < 0.4:
                m = machine(1, 1); a = E(); b = E(); links += [(a, sidx, m), (b, m, k)]
            else:
                a = E(); links.append((a, sidx, k))
            if same and rng.random() < 0.7: edges[a].pop("delays", None); edges[a]["delay"] = 0
    elif shape == "line":
        s = source(1); m = machine(1, 1); k = sink()
        a = E(); b = E(); links += [(a, s, m), (b, m, k)]
    elif shape == "two":
        s = source(1); m1 = machine(1, 1); m2 = machine(1, 1); k = sink()
        a = E(); b = E(); c = E(); links += [(a, s, m1), (b, m1, m2), (c, m2, k)]
    elif shape == "fanout":
        s = source(2); k1 = sink(); m = machine(1, 1); k2 = sink()
        a = E(); b = E(); c = E(); links += [(a, s, k1), (b, s, m), (c, m, k2)]
    elif shape == "fanin":
        s1 = source(1); s2 = source(1); m = machine(2, 1); k = sink()
        a = E(); b = E(); c = E(); links += [(a, s1, m), (b, s2, m), (c, m, k)]
    elif shape == "fanin3":
        # three sources -> one machine with three in-edges (one buffer pre-filled by a fast source): cancel loops over more than two requests
        m = machine(3, 1); k = sink()
        for j in range(3):
            sidx = source(1); nodes[sidx]["blocking"] = True
            nodes[sidx]["iat"] = [rng.choice([1, 2, 3])] if j < 2 else [1]
            a = E(); links.append((a, sidx, m))
            if j == 2: edges[a]["cap"] = 3
        b = E(); links.append((b, m, k))
    elif shape == "fanout3":
        # a source (or a machine behind it) with THREE out-edges of capacity 1 and consumers of different speed: the cancel loops of the
        # push side run over more than two requests, all edges are full at times
        via_machine = rng.random() < 0.5
        if via_machine:
            s = source(1); nodes[s]["iat"] = [1]; m = machine(1, 3); a = E(); links.append((a, s, m)); top = m
        else:
            s = source(3); nodes[s]["iat"] = [rng.choice([1, 1, 2])]; top = s
        if rng.random() < 0.7:
            nodes[top]["blocking"] = True; nodes[top]["out"] = "FIRST_AVAILABLE"
        for j in range(3):
            m2 = N(dict(kind="machine", pd=[rng.choice([1, 2, 3, 5])], wc=1, setup=0, blocking=True, inp="FIRST_AVAILABLE", out="FIRST_AVAILABLE"))
            k = sink(); b = E(); c = E(); edges[b]["cap"] = 1; edges[b].pop("delays", None); edges[b]["delay"] = 0
            links += [(b, top, m2), (c, m2, k)]
    elif shape == "loop":
        # a closed pack / unpack loop: the pallets AND the items the splitter hands out go back to the combiner (through two merge machines
        # that also take the initial stock from two sources which stop after a few units): every pallet meets items it has carried before
        npal = 1; k = rng.choice([1, 2, 2])      # one pallet: the scripted out-edge policy of the splitter (items to edge 1, the empty pallet to edge 0) stays in step
        ps = psource(1, True); nodes[ps]["iat"] = [1] * npal + [9999]; nodes[ps]["blocking"] = True; nodes[ps]["out"] = "FIRST_AVAILABLE"
        isr = psource(1, False); nodes[isr]["iat"] = [1] * (k * npal + rng.choice([0, 1])) + [9999]; nodes[isr]["blocking"] = True; nodes[isr]["out"] = "FIRST_AVAILABLE"
        def merge_m(): return N(dict(kind="machine", pd=[0], wc=1, setup=0, blocking=True, inp="FIRST_AVAILABLE", out="FIRST_AVAILABLE"))
        mp = merge_m(); mi = merge_m()
        c = N(dict(kind="combiner", pd=pd(), target=[1, k], setup=0, blocking=True, out="FIRST_AVAILABLE"))
        sp = N(dict(kind="splitter", pd=pd(), setup=0, blocking=True, inp="FIRST_AVAILABLE", out=[1] * k + [0]))
        def EB():
            e = E(); edges[e].pop("delays", None); edges[e]["delay"] = rng.choice([0, 0, 1]); edges[e]["cap"] = 3; edges[e]["mode"] = "FIFO"; return e
        links += [(EB(), ps, mp), (EB(), isr, mi), (EB(), mp, c), (EB(), mi, c), (EB(), c, sp), (EB(), sp, mp), (EB(), sp, mi)]
    elif shape == "cross":
        # two sources -> one machine with two in-edges and two out-edges -> two sinks
        s1 = source(1); s2 = source(1); m = machine(2, 2); k1 = sink(); k2 = sink()
        a = E(); b = E(); c = E(); d = E(); links += [(a, s1, m), (b, s2, m), (c, m, k1), (d, m, k2)]
    elif shape == "split":
        # one machine feeding a slow branch and a fast branch: out-edges that are full at different times
        s = source(1); m1 = machine(1, 2); k1 = sink(); k2 = sink()
        m2 = N(dict(kind="machine", pd=[rng.choice([6, 8, 12])], wc=1, setup=0, blocking=True, inp="FIRST_AVAILABLE", out="FIRST_AVAILABLE"))
        nodes[s]["iat"] = [rng.choice([1, 1, 2])]
        a = E(); b = E(); c = E(); d = E()
        edges[b]["cap"] = 1
        links += [(a, s, m1), (b, m1, m2), (c, m1, k2), (d, m2, k1)]
    else:
        s = source(1); m1 = machine(1, 2); m2 = machine(2, 1); k = sink()
        a = E(); b = E(); c = E(); d = E(); links += [(a, s, m1), (b, m1, m2), (c, m1, m2), (d, m2, k)]
    if rng.random() < 0.3 and shape != "loop":      # (the loop's scripted splitter policy names its out-edges by position)
        orig = list(links)
        rng.shuffle(links)
        # the order of a combiner's in-edges is part of its recipe: keep it (a wrong order is generated separately)
        comb = [i for i, d in enumerate(nodes) if d["kind"] == "combiner"]
        pos = [i for i, l in enumerate(links) if l[2] in comb]
        for i, l in zip(pos, [l for l in orig if l[2] in comb]): links[i] = l
    # a quarter of the factories assign the selection policies AFTER construction (the constructor sees the defaults), as the library's own
    # examples do: the policy in force is the one the attribute holds when the run starts
    if rng.random() < 0.25:
        for d in nodes:
            if d["kind"] != "sink" and rng.random() < 0.7:
                d["late"] = "none" if (d["kind"] == "source" and rng.random() < 0.4) else "default"
    # … and every other source with several out-edges does (the routing then shows whether the assigned policy is the one in force)
    for i, d in enumerate(nodes):
        if d["kind"] == "source" and sum(1 for l in links if l[1] == i) >= 2 and "late" not in d and rng.random() < 0.5:
            d["late"] = "default"
    # now and then the run is finalised very early: inside the set-up period of a machine, before a source's first item is due (the
    # statistics are read at T whatever T is)
    hz = rng.choice([1, 2, 3]) if rng.random() < 0.08 else rng.choice([20, 40, 60])
    cfg = dict(edges=edges, nodes=nodes, links=links, horizon=hz, shape=shape,
               rseed=rng.randrange(10 ** 6))
    if shape in ("pack", "unpack") and invalid: cfg["invalid"] = invalid   # outside the documented domain: the error named is the rejection
    # a user selector that answers an index outside [0, n): one factory in ten with a scripted selector gets one such answer (-1, -2 or 9:
    # out of range for every node of the family).  The node has to reject it with an error (IndexError in a Source, the range assertion
    # elsewhere) instead of wrapping or ignoring it (C15); the crash is then the documented rejection, not a C20 failure.
    scripted = [(d, side) for d in nodes for side in ("inp", "out") if isinstance(d.get(side), list)]
    if scripted and shape != "loop" and rng.random() < 0.10:
        d, side = rng.choice(scripted)
        d[side] = list(d[side]); d[side][rng.randrange(len(d[side]))] = rng.choice([-1, -1, -2, 9])
        cfg["invalid"] = list(cfg.get("invalid", [])) + ["IndexError", "AssertionError"]
        cfg["oob_selector"] = True
    return cfg

def run_factory(cfg):
    random.seed(cfg.get("rseed", 0))
    rec = recorder.build(cfg)
    rec.run(cfg["horizon"])
    return rec

# ------------------------------------------------------------------ the family run used by ./check

import multiprocessing
import node_judges

NODE_BUDGET = {"quick": 400, "thorough": 4000}

def _factory_chunk(args):
    seed, n = args
    quiet()
    rng = random.Random(seed)
    out = []
    for _ in range(n):
        cfg = gen_factory(rng)
        out.append(eval_factory(cfg))
    return out

def eval_factory(cfg):
    """run one factory under the recorder; returns a picklable summary"""
    try:
        rec = run_factory(cfg)
    except Exception as ex:
        return dict(cfg=cfg, error=f"{type(ex).__name__}: {ex}", nodes=[], viol=[], crash=None, nacts=0, moves=0)
    nodes = []
    for nid in range(len(rec.nodes)):
        ins, outs = act_lines(rec, nid)
        nodes.append((node_header(rec, nid), ins, outs))
    V = node_judges.judge_factory(rec, cfg)
    if rec.crash is None:
        V += node_judges.finalize_and_judge_states(rec, cfg, cfg["horizon"])
        # the finalisation itself is part of the model for splitters and combiners
        for nid, (kind, n, c) in enumerate(rec.nodes):
            if kind in ("combiner", "splitter"):
                h, ins, outs = nodes[nid]
                exc = getattr(rec, "final_exc", {}).get(nid)
                ins.append(f"final {cfg['horizon']}")
                outs.append(f"final {exc}" if exc else "final || " + stats_str(kind, rec.snapshot(nid)))
    # reproducibility (C19): the same configuration again, in the same interpreter
    try:
        rec2 = run_factory(cfg)
        if [(a["t"], a["node"], a["proc"], a["calls"]) for a in rec.acts] != [(a["t"], a["node"], a["proc"], a["calls"]) for a in rec2.acts]:
            V.append(("C19", "repro", "two runs of the same model with the same seed differ"))
    except Exception as ex:
        V.append(("C19", "repro", f"second run failed: {type(ex).__name__}"))
    return dict(cfg=cfg, error=None, nodes=nodes, viol=V, crash=rec.crash, nacts=len(rec.acts), moves=len(rec.moves),
                sample=[(a["t"], a["node"], a["proc"], a["calls"]) for a in rec.acts[:12]])

def corpus_factories():
    import glob
    out = []
    for f in sorted(glob.glob(os.path.join(VERIF, "corpus", "*.factory.json"))):
        try: out.append((os.path.relpath(f, VERIF), json.load(open(f))))
        except Exception: pass
    return out

def run_node_family(tier, seed):
    quiet()
    n = NODE_BUDGET[tier]
    nproc = 1 if n <= 200 else 14
    chunks = [(seed * 7919 + 104729 * i + 17, n // nproc + (1 if i < n % nproc else 0)) for i in range(nproc)]
    facs = [eval_factory(cfg) for _, cfg in corpus_factories()]
    ncorp = len(facs)
    if nproc == 1:
        facs += _factory_chunk(chunks[0])
    else:
        with multiprocessing.Pool(nproc) as pool:
            for part in pool.map(_factory_chunk, chunks): facs += part
    batches = []; index = []
    for fi, f in enumerate(facs):
        for ni, (h, ins, outs) in enumerate(f["nodes"]):
            batches.append((h, ins)); index.append((fi, ni))
    model_error = None
    try:
        res = run_node_models(batches)
    except Exception as ex:
        model_error = str(ex)[:400]; res = [None] * len(batches)
    div = []      # (factory index, node index, activation index)
    for (fi, ni), r in zip(index, res):
        if r is None: continue
        outs = facs[fi]["nodes"][ni][2]
        for k, (a, b) in enumerate(zip(outs, r)):
            if a != b:
                div.append((fi, ni, k, a, b)); break
        else:
            if len(outs) != len(r): div.append((fi, ni, min(len(outs), len(r)), "<length>", "<length>"))
    return dict(factories=facs, corpus=ncorp, divergences=div, model_error=model_error,
                activations=sum(f["nacts"] for f in facs), node_runs=len(batches))
