"""Adaptive history generators for the store / edge families.  Every choice comes from one
random.Random instance; the generator watches the implementation's answers so that most
operations follow the protocol (valid tokens, own actor) and a controlled share does not."""
from common import *
from stores_impl import make_impl, render, FOREIGN, NONE_TOK

PRIOS = [-2, -1, 0, 0, 0, 1, 3]
DELAYS = [0, 0, 1, 2, 4, 8, 12]
ADVS = [1, 1, 2, 3, 8, 16, 40]
FILTS = ["dflt", "dflt", "always", "always", "never", "even", "kind:0", "kind:1", "kind:2"]

class TokState:
    __slots__ = ("tid", "side", "actor", "state", "prio")
    def __init__(self, tid, side, actor, prio):
        self.tid, self.side, self.actor, self.prio = tid, side, actor, prio
        self.state = "pending"      # pending | granted | used | cancelled

def random_header(rng, family):
    if family == "pos":
        cap = rng.choice(["1", "1", "2", "2", "3", "4", "5", "inf"])
        variant = rng.choice(["fcfs", "prio", "prio", "filter", "filter"])
        td = rng.choice([0, 0, 1, 2, 4]) if variant == "filter" else 0
        return f"new pos {cap} {int(variant != 'fcfs')} {int(variant == 'filter')} {td}"
    if family == "buf":
        cap = rng.choice(["1", "1", "2", "2", "3", "4", "5", "inf"])
        return f"new buf {cap} {rng.choice(['FIFO', 'FIFO', 'LIFO'])}"
    if family == "bufedge":
        cap = rng.choice(["1", "1", "2", "2", "3", "4", "5"])
        return f"new bufedge {cap} {rng.choice(['FIFO', 'FIFO', 'LIFO'])}"
    if family == "prq":
        return f"new prq {rng.choice([1, 1, 2, 3, 5])}"
    if family == "cbelt":
        return f"new cbelt {rng.choice([1, 2, 2, 3, 3, 4, 5])} {rng.choice([1, 2, 2, 4, 8])} {rng.choice([0, 1])}"
    if family == "slot":
        return f"new slot {rng.choice([1, 2, 2, 3, 3, 4, 5])} {rng.choice([1, 1, 2, 2, 4, 0] if rng.random() < 0.2 else [1, 1, 2, 2, 4])} {rng.choice([0, 1])}"
    if family == "fleet":
        return f"new fleet {rng.choice([1, 2, 2, 3, 3, 4, 6])} {rng.choice([1, 2, 4, 4, 8, 16, 16, 0] if rng.random() < 0.15 else [1, 2, 4, 4, 8, 16])} {rng.choice([0, 0, 1, 2, 3, 8])}"
    raise ValueError(family)

def gen_prq_history(rng, header, nops, stats=None):
    impl = make_impl(header)
    ops, lines = [], []
    nreq = 0; nitem = 0
    for _ in range(nops):
        r = rng.random()
        if r < 0.35:
            op = ("pput", rng.choice(PRIOS), nitem, rng.randrange(3)); nitem += 1
        elif r < 0.70:
            op = ("pget", rng.choice(PRIOS))
        elif r < 0.78 and nreq:
            op = ("cancel", rng.randrange(nreq))
        elif r < 0.93:
            op = ("kstep",)
        else:
            op = ("settle",)
        if op[0] in ("pput", "pget"): nreq += 1
        line = impl.do(op)
        ops.append(op); lines.append(line)
        if stats is not None:
            stats["ops"][op[0]] = stats["ops"].get(op[0], 0) + 1
    return ops, lines

def gen_history(rng, header, nops, malformed=0.2, stats=None):
    """Returns (ops, impl_lines).  ops are tuples, see stores_impl.*Impl.dispatch."""
    if header.split()[1] == "prq":
        return gen_prq_history(rng, header, nops, stats)
    impl = make_impl(header)
    w = header.split(); family = w[1]
    is_filter = family == "pos" and w[4] != "0"
    nact = rng.choice([1, 2, 2, 3, 4])
    toks = []
    next_item = [0]
    ops, lines = [], []
    burst = 0

    def pick(side=None, state=None):
        c = [t for t in toks if (side is None or t.side == side) and (state is None or t.state == state)]
        return rng.choice(c) if c else None

    kinds = {}
    gone = set()
    # carriers in a closed loop: in one history out of six on a fleet / conveyor, half of the loads are objects that were
    # retrieved earlier (pallets coming back), so that an object is loaded again soon after it was unloaded
    recirc = family in ("fleet", "slot", "cbelt") and rng.random() < 1 / 6
    def new_item():
        if recirc and gone and rng.random() < 0.5:
            return rng.choice(sorted(gone))
        if next_item[0] > 0 and rng.random() < 0.05:
            i = rng.randrange(next_item[0])          # the same object put again
            if family in ("fleet", "slot", "cbelt"):
                if i in gone: return i       # an object is loaded again only after it has left (a flow item is in one place)
            elif family == "pos" or rng.random() < 0.15 or i in gone: return i
        next_item[0] += 1
        kinds[next_item[0] - 1] = rng.randrange(3)
        return next_item[0] - 1

    inside = set()
    def put_op(a, tid, bad=False):
        # an ill-formed put (bad=True: its token is certainly not a granted put reservation of the caller) names, half of the time, an
        # object that is inside the store right now: the rejected call must not touch that object's bookkeeping either
        i = rng.choice(sorted(inside)) if (bad and inside and rng.random() < 0.5) else new_item()
        op = ["put", a, tid, i, kinds[i]]
        if family in ("buf", "bufedge"): op.append(rng.choice(DELAYS))
        if family in ("fleet", "slot", "cbelt"): op.append(0)
        return tuple(op)

    # belt families: per-history profile, so that items actually travel to the exit and pile up there
    belt = family in ("slot", "cbelt")
    extra_ev = rng.choice([0.0, 0.2, 0.35, 0.5]) if belt else 0.0
    starve_exit = belt and rng.random() < 0.4          # few retrievals: items wait at the exit
    if belt and rng.random() < 0.5: malformed = 0.04

    def kernel_move():
        nt = impl.next_time(); nowt = f2t(impl.env.now)
        d = rng.choice(ADVS)
        if nt is not None and (nt <= nowt or rng.random() < 0.55): return ("ev",)
        if nt is not None: return ("adv", min(d, nt - nowt))
        return ("adv", d)

    script = []          # ops queued by a profile (taken before anything else)
    lazy_dest = family == "fleet" and rng.random() < 0.3; seen_batch = False
    for _ in range(nops):
        r = rng.random()
        op = None
        if script:
            op = script.pop(0)
            if op == "CG-LAST":      # cancel the retrieval that was just granted (if it was)
                op = ("cg", toks[-1].tid) if toks and toks[-1].side == "get" and toks[-1].state == "granted" else None
            elif op == "GET-LAST":   # … and take what the next retrieval is bound to
                op = ("get", toks[-1].actor, toks[-1].tid) if toks and toks[-1].side == "get" and toks[-1].state == "granted" else None
            elif op == "CG-GRANTED":  # withdraw the oldest granted retrieval
                g = [t for t in toks if t.side == "get" and t.state == "granted"]
                op = ("cg", g[0].tid) if g else None
            elif op == "GET-GRANTED":  # use the youngest granted retrieval
                g = [t for t in toks if t.side == "get" and t.state == "granted"]
                op = ("get", g[-1].actor, g[-1].tid) if g else None
        if op is not None:
            pass
        elif belt and rng.random() < extra_ev:
            op = kernel_move()
        elif r < malformed:
            m = rng.randrange(9)
            t = pick()
            if m == 0 and t:      # right token, wrong actor
                wrong = (t.actor + 1 + rng.randrange(max(1, nact))) % (nact + 1)
                op = put_op(wrong, t.tid, True) if t.side == "put" else ("get", wrong, t.tid)
            elif m == 1:          # used token again
                t = pick(state="used")
                if t: op = put_op(t.actor, t.tid, True) if t.side == "put" else ("get", t.actor, t.tid)
            elif m == 2:          # cancelled token
                t = pick(state="cancelled")
                if t:
                    c = rng.randrange(3)
                    if c == 0: op = put_op(t.actor, t.tid, True) if t.side == "put" else ("get", t.actor, t.tid)
                    else: op = ("cp" if t.side == "put" else "cg", t.tid)
            elif m == 3 and t:    # token of the other side
                op = ("get", t.actor, t.tid) if t.side == "put" else put_op(t.actor, t.tid, True)
            elif m == 4:          # unknown / None token
                tid = rng.choice([FOREIGN + rng.randrange(3), NONE_TOK])
                c = rng.randrange(4)
                op = [put_op(0, tid, True), ("get", 0, tid), ("cp", tid), ("cg", tid)][c]
            elif m == 5:          # pending (not yet granted) token used
                t = pick(state="pending")
                if t: op = put_op(t.actor, t.tid, True) if t.side == "put" else ("get", t.actor, t.tid)
            elif m == 6 and t:    # cancel on the wrong side
                op = ("cg" if t.side == "put" else "cp", t.tid)
            elif m == 7:          # cancel of a used token
                t = pick(state="used")
                if t: op = ("cp" if t.side == "put" else "cg", t.tid)
            elif m == 8:          # put / get with no reservation at all outstanding
                op = put_op(rng.randrange(nact), len(toks) + 5, True) if rng.random() < .5 else ("get", rng.randrange(nact), len(toks) + 5)
        if op is None:
            r = rng.random()
            if r < 0.18:
                op = ("rp", rng.randrange(nact), rng.choice(PRIOS))
            elif starve_exit and 0.18 <= r < 0.74 and not (0.38 <= r < 0.58) and rng.random() < 0.75:
                op = kernel_move() if rng.random() < 0.6 else None
                if op is None:
                    t = pick("put", "granted")
                    op = put_op(t.actor, t.tid) if t else ("rp", rng.randrange(nact), rng.choice(PRIOS))
            elif r < 0.38:
                op = ("rg", rng.randrange(nact), rng.choice(PRIOS), rng.choice(FILTS) if is_filter else "always")
            elif r < 0.58:
                t = pick("put", "granted")
                op = put_op(t.actor, t.tid) if t else ("rp", rng.randrange(nact), rng.choice(PRIOS))
            elif r < 0.74:
                t = pick("get", "granted")
                op = ("get", t.actor, t.tid) if t else ("rg", rng.randrange(nact), rng.choice(PRIOS), rng.choice(FILTS) if is_filter else "always")
            elif r < 0.80:
                t = pick(state="pending") if rng.random() < .5 else pick(state="granted")
                if t: op = ("cp" if t.side == "put" else "cg", t.tid)
            elif family in ("fleet", "slot", "cbelt") and r < 0.96:
                # event by event: either the next kernel event, or a clock move that stops at (or before) it
                op = kernel_move()
            elif r < 0.90:
                op = ("adv", rng.choice(ADVS))
            elif r < 0.94:
                op = ("settle",)
            elif r < 0.96:
                op = ("kstep",)
            elif family in ("buf", "bufedge", "fleet", "slot", "cbelt") and r < 0.985:
                op = ("probe", rng.choice(["can_put", "can_get", "occ", "ready"] if family not in ("slot", "cbelt") else
                                          (["occ", "ready", "mode", "mode"] if family == "slot" else ["occ", "ready", "mode", "mode", "pat", "pat", "stuck", "stuck"])))
            elif family in ("buf", "bufedge", "fleet", "slot", "cbelt") and r < 0.99:
                op = ("final",)
            else:
                op = ("stat",)
        if op is None:
            op = ("settle",) if family not in ("fleet", "slot", "cbelt") else ("ev",)
        # fleet profile "nobody waiting at the destination": no retrieval is requested before the first batch of two or more items has
        # arrived, so that the batch lies there unreserved (the released item of a withdrawn retrieval then has never-reserved items behind it)
        if lazy_dest and not seen_batch and op[0] == "rg": op = kernel_move()
        line = impl.do(op)
        ops.append(op); lines.append(line)
        if family == "cbelt" and op[0] == "put" and rng.random() < 0.6:
            # SimPy processes URGENT events (the Initialize of the new move process, Interruptions) before any other
            # process can run; only the process that made the put can make further calls before them (40 % of the puts)
            n = 0
            while impl.urgent_pending() and n < 50:
                ops.append(("ev",)); lines.append(impl.do(("ev",))); n += 1
                if stats is not None: stats["ops"]["ev"] = stats["ops"].get("ev", 0) + 1
        # a batch of two or more items has just become retrievable (fleet trip, several buffer timers at one instant): half of the time a
        # retrieval is granted and withdrawn at once, so that the released item goes back in front of never-reserved ones
        if family in ("fleet", "buf", "bufedge") and not script and line.count("|") >= 2 and len(line.split("|")[2].split()) >= 2 and rng.random() < 0.8:
            a_ = rng.randrange(nact); seen_batch = True
            script = ([("rg", a_, 0, "always"), "CG-LAST", ("rg", a_, 0, "always"), "GET-LAST"] if rng.random() < 0.5 else
                      ["CG-GRANTED", ("rg", a_, 0, "always"), "GET-GRANTED", "GET-GRANTED"])
        # track token states from the implementation's answers
        if line.startswith("tok "):
            tid = int(line.split()[1])
            toks.append(TokState(tid, "put" if op[0] == "rp" else "get", op[1], op[2]))
        if "|" in line:
            for x in line.split("|")[1].split():
                toks[int(x.split('@')[0])].state = "granted"
            head = line.split("|")[0].strip()
            if op[0] in ("put", "get") and not head.startswith("err") and op[2] < len(toks):
                toks[op[2]].state = "used"
            if op[0] == "get" and head.startswith("item "): gone.add(int(head.split()[1])); inside.discard(int(head.split()[1]))
            if op[0] == "put" and head == "ok": gone.discard(op[3]); inside.add(op[3])
            if op[0] in ("cp", "cg") and head == "ok" and op[1] < len(toks):
                toks[op[1]].state = "cancelled"
        if stats is not None:
            stats["ops"][op[0]] = stats["ops"].get(op[0], 0) + 1
            if line.startswith("err"):
                e = line.split()[1]; stats["errors"][e] = stats["errors"].get(e, 0) + 1
    if stats is not None:
        npend = sum(1 for t in toks if t.state == "pending")
        stats["hist_with_pending"] += 1 if npend else 0
        stats["hist_with_granted_cancel"] += 1 if any(t.state == "cancelled" for t in toks) else 0
    return ops, lines

def gen_flow_history(rng, header, nops, stats=None):
    """Belt families: a long, well-formed producer / consumer flow (one or two producers, one or two consumers with random
    think times), driven event by event.  No malformed calls; this is the stream that keeps several items on the belt,
    builds queues behind a waiting head and releases them."""
    impl = make_impl(header)
    family = header.split()[1]
    ops, lines = [], []
    nprod = rng.choice([1, 1, 2]); ncons = rng.choice([1, 1, 2])
    p_put = rng.choice([0.25, 0.5, 0.8]); p_get = rng.choice([0.05, 0.15, 0.4, 0.8])
    hold = rng.choice([0.0, 0.0, 0.2])                    # a granted token is sometimes held for a while
    ptok = {a: None for a in range(nprod)}                # actor -> (tid, state)
    ctok = {a: None for a in range(10, 10 + ncons)}
    next_item = [0]; toks = []
    def emit(op):
        line = impl.do(op); ops.append(op); lines.append(line)
        if stats is not None:
            stats["ops"][op[0]] = stats["ops"].get(op[0], 0) + 1
            if line.startswith("err"):
                e = line.split()[1]; stats["errors"][e] = stats["errors"].get(e, 0) + 1
        if line.startswith("tok "):
            toks.append("pending")
        if "|" in line:
            for x in line.split("|")[1].split():
                toks[int(x.split('@')[0])] = "granted"
        return line
    def kernel_move():
        nt = impl.next_time(); nowt = f2t(impl.env.now)
        if nt is not None and (nt <= nowt or rng.random() < 0.7): return ("ev",)
        d = rng.choice([1, 1, 2, 3, 5, 8])
        if nt is not None: return ("adv", min(d, nt - nowt))
        return ("adv", d)
    while len(ops) < nops:
        r = rng.random()
        if r < 0.30:
            a = rng.randrange(nprod)
            if ptok[a] is None:
                line = emit(("rp", a, 0))
                if line.startswith("tok "): ptok[a] = int(line.split()[1])
            elif toks[ptok[a]] == "granted" and rng.random() < p_put and rng.random() >= hold:
                i = next_item[0]; next_item[0] += 1
                emit(("put", a, ptok[a], i, 0, 0)); ptok[a] = None
                if family == "cbelt" and rng.random() < 0.6:
                    n = 0
                    while impl.urgent_pending() and n < 50: emit(("ev",)); n += 1
            elif rng.random() < 0.03:
                emit(("cp", ptok[a])); ptok[a] = None
            else:
                emit(kernel_move())
        elif r < 0.55:
            a = 10 + rng.randrange(ncons)
            if ctok[a] is None:
                if rng.random() < p_get:
                    line = emit(("rg", a, 0, "always"))
                    if line.startswith("tok "): ctok[a] = int(line.split()[1])
                else: emit(kernel_move())
            elif toks[ctok[a]] == "granted" and rng.random() < 0.7 and rng.random() >= hold:
                emit(("get", a, ctok[a])); ctok[a] = None
            elif rng.random() < 0.04:
                emit(("cg", ctok[a])); ctok[a] = None
            else:
                emit(kernel_move())
        elif r < 0.97:
            emit(kernel_move())
        else:
            emit(("probe", rng.choice(["occ", "ready", "mode", "pat", "stuck"] if family == "cbelt" else ["occ", "ready", "mode"])))
    if stats is not None:
        stats["hist_with_pending"] += 1 if "pending" in toks else 0
    return ops, lines

def new_stats():
    return {"ops": {}, "errors": {}, "hist_with_pending": 0, "hist_with_granted_cancel": 0}
