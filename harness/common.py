"""Shared harness plumbing: locate the repository under test, silence the library's prints,
a recording SimPy environment, tick <-> float time conversion, deterministic PRNG."""
import builtins, os, sys, random, json, time, hashlib, subprocess
from fractions import Fraction

VERIF = os.path.dirname(os.path.dirname(os.path.abspath(__file__)))
REPO = os.environ.get("VERIF_REPO", "/repo")
SRC = os.path.join(REPO, "src")
if SRC not in sys.path:
    sys.path.insert(0, SRC)

_real_print = builtins.print
def quiet():
    builtins.print = lambda *a, **k: None
def loud():
    builtins.print = _real_print
def say(*a, **k):
    _real_print(*a, **k)
    sys.stdout.flush()

import simpy
from simpy.core import BoundClass
import factorysimpy
assert os.path.realpath(factorysimpy.__file__).startswith(os.path.realpath(SRC)), \
    f"factorysimpy imported from {factorysimpy.__file__}, expected under {SRC}"

TICK = 0.125          # one model tick in simulated time units (dyadic: every float op is exact)

def t2f(ticks):
    return ticks * TICK

def f2t(x):
    """float time -> ticks; None if not an exact multiple of TICK."""
    fr = Fraction(x) / Fraction(TICK)
    return int(fr) if fr.denominator == 1 else None

# every `succeed()` in a recording environment is logged, in order (harness process only)
_orig_succeed = simpy.Event.succeed
def _rec_succeed(self, value=None):
    r = _orig_succeed(self, value)
    log = getattr(self.env, "fired_log", None)
    if log is not None: log.append((self, self.env.now))
    return r
simpy.Event.succeed = _rec_succeed

class RecEvent(simpy.Event):
    pass

class RecEnv(simpy.Environment):
    event = BoundClass(RecEvent)
    def __init__(self, *a, **k):
        self.fired_log = []
        self.nsteps = 0
        super().__init__(*a, **k)
    def step(self):
        self.nsteps += 1
        return super().step()

class Actor:
    """Stand-in for a SimPy process: stores only compare requesting_process == env.active_process."""
    def __init__(self, i): self.i = i
    def __repr__(self): return f"Actor({self.i})"

def seed_from_env(default=0):
    try:
        return int(os.environ.get("VERIF_SEED", default))
    except ValueError:
        return default

def tier_from_env(default="quick"):
    t = os.environ.get("VERIF_TIER", default)
    return t if t in ("quick", "thorough") else default

def src_tree_hash():
    h = hashlib.sha256()
    for root, dirs, files in sorted(os.walk(os.path.join(SRC, "factorysimpy"))):
        dirs.sort()
        for f in sorted(files):
            if f.endswith(".py"):
                p = os.path.join(root, f)
                h.update(p.encode()); h.update(open(p, "rb").read())
    return h.hexdigest()[:16]
