"""Factory-level property oracles.  Input: a finished Recorder (activation log, item-movement
trace, node statistics).  Everything is computed from observable events: calls on edges with
their results, draws handed out by the harness's callables, node.stats."""
from common import *

def judge_factory(rec, cfg):
    """returns list of (prop, rule, message, detail)"""
    V = []
    def v(p, rule, msg): V.append((p, rule, msg))
    kinds = [k for k, _, _ in rec.nodes]
    if rec.crash is None:
        for x in rec.instant_viol: V.append(x)
    # ---------------- crash / livelock (C20)
    if rec.crash is not None:
        if rec.crash[0] == "livelock":
            v("C20", "livelock", f"more than 20000 kernel events at simulated time {rec.crash[1]} without the clock advancing")
        elif rec.crash[0] in cfg.get("invalid", []):
            pass      # a configuration generated outside the documented domain, rejected with the documented error
        else:
            v("C20", "crash:" + rec.crash[0], f"unhandled {rec.crash[0]} escaped env.step() at t={rec.crash[-1]}: {rec.crash[1][:120]}")
    # C15: "an out-of-range index is rejected with an error rather than wrapped or ignored": once a user selector has answered an index
    # outside [0, n) the process that asked must not route anything any more, and the run ends with the error
    for ai, a in enumerate(rec.acts):
        bad = [x for x in a["calls"] if x.startswith("sel ") and not (0 <= int(x.split()[1]) < 9) ]
        if not bad: continue
        k = a["calls"].index(bad[0])
        after = [x for x in a["calls"][k + 1:] if x.split()[0] in ("put", "get", "rp", "rg", "can")]
        later = [b for b in rec.acts[ai + 1:] if b["node"] == a["node"] and b.get("proc") == a.get("proc") and any(x.split()[0] in ("put", "get", "rp", "rg") for x in b["calls"])]
        if rec.crash is None or after or later:
            v("C15", "out-of-range", f"{kinds[a['node']]} {a['node']} at t={a['t']}: the user selector answered {bad[0].split()[1]}, which is outside the node's edge list, "
                                     f"and the node went on ({(after or ['later activations'])[0]}) instead of rejecting the index with an error")
        break
    # ---------------- item bookkeeping from the movement trace
    where = {}            # item -> ("edge", e) | ("node", n)
    edge_in = {i: 0 for i in range(len(rec.edges))}
    held = {i: [] for i in range(len(rec.nodes))}      # items inside a node: (item, since)
    pulled_at = {}
    last_t = 0
    maxheld = {i: 0 for i in range(len(rec.nodes))}
    received = {i: [] for i in range(len(rec.nodes))}
    put_by = {i: [] for i in range(len(rec.nodes))}
    got_by = {i: [] for i in range(len(rec.nodes))}
    created_t = {}
    # items dropped by non-blocking nodes: the activation in which the discard counter rises
    drops = {}            # activation index -> (node, item)
    prev_disc = {}; witem = {}; npulled = {}
    for ai, a in enumerate(rec.acts):
        nid = a["node"]
        if kinds[nid] != "machine" or a["stats"] is None: continue
        for x in a["calls"]:
            if x.startswith("get "): npulled.setdefault(nid, []).append(int(x.split()[3][1:]))
            if x.startswith("spawn ") and a["proc"] == 0:
                lst = npulled.get(nid, [])
                if lst: witem[(nid, int(x.split()[1][1:]))] = lst[-1]
        d = a["stats"]["num_item_discarded"]
        if d > prev_disc.get(nid, 0):
            drops[ai] = (nid, witem.get((nid, a["proc"])))
        prev_disc[nid] = d
    # splitters / combiners: the units each must emit, in order; every put consumes the next one, every rise of the
    # discard counter drops the next one (puts of an activation come before its drops: a worker resumes with a put)
    pack_drop_events = []
    pending = {i: [] for i, k in enumerate(kinds) if k in ("combiner", "splitter")}
    cpallet = {}; pack_emit = {i: [] for i in pending}     # per node: list of (unit, "put"/"drop", t)
    moves_at = {}
    for mi, m in enumerate(rec.moves): moves_at.setdefault(m[0], []).append((m, rec.move_content[mi]))
    pdisc2 = {}
    for ai, a in enumerate(rec.acts):
        nid = a["node"]
        if nid not in pending or a["stats"] is None: continue
        for (m, content) in moves_at.get(ai, []):
            if m[5] != nid: continue
            if m[2] == "get":
                if kinds[nid] == "splitter": pending[nid] += list(content) + [m[4]]
                elif a["proc"] == 0 and a["calls"] and a["calls"][0].startswith("get e0 ") and ("get", m[4]) == (m[2], int(a["calls"][0].split()[3][1:])):
                    cpallet[nid] = m[4]
            else:
                if pending[nid] and pending[nid][0] == m[4]: pending[nid].pop(0)
                elif m[4] in pending[nid]:
                    v("C16", "emission-order", f"{kinds[nid]} {nid} put unit {m[4]} while {pending[nid][0]} was due first")
                    pending[nid].remove(m[4])
                else:
                    v("C16", "emitted-other", f"{kinds[nid]} {nid} put unit {m[4]}, which is not part of what it has to emit ({pending[nid][:6]})")
                pack_emit[nid].append((m[4], "put", a["t"], content))
        if kinds[nid] == "combiner" and a["proc"] == 0 and any(x.startswith("spawn ") for x in a["calls"]) and nid in cpallet:
            pending[nid].append(cpallet.pop(nid))
        d = a["stats"]["num_item_discarded"]
        for _ in range(d - pdisc2.get(nid, 0)):
            if pending[nid]:
                u = pending[nid].pop(0)
                pack_drop_events.append((ai, 1, (ai, a["t"], "drop", None, u, nid)))
                pack_emit[nid].append((u, "drop", a["t"], ()))
            else:
                v("C16", "drop-nothing", f"{kinds[nid]} {nid}: discard counter rose at t={a['t']} with nothing left to emit")
        pdisc2[nid] = d
    content_of = {}       # pallet -> ids it carries (as last observed at a put / get)
    events = sorted(pack_drop_events + [(m[0], 0, m + (rec.move_content[mi],)) for mi, m in enumerate(rec.moves)] + [(ai, 1, (ai, rec.acts[ai]["t"], "drop", None, it, nid)) for ai, (nid, it) in drops.items()],
                    key=lambda x: (x[0], x[1]))
    fifo_inside = {}; fifo_flagged = {}
    for _, _, ev in events:
        (step, t, kind, e, item, nid) = ev[:6]
        content = ev[6] if len(ev) > 6 else ()
        if kind == "drop":
            held[nid] = [(i, s) for (i, s) in held[nid] if i != item]
            where[item] = ("dropped", nid)
            continue
        if t < last_t: v("C19", "time", f"time went backwards: {t} after {last_t}")
        last_t = t
        if kind == "put":
            loc = where.get(item)
            if loc is None:
                if kinds[nid] != "source": v("C03", "invented", f"item {item} put by node {nid} which never received it")
                created_t[item] = t
            elif loc != ("node", nid) and not (loc[0] == "pallet" and where.get(loc[1]) == ("node", nid)):
                v("C03", "duplicated", f"item {item} put on edge {e} by node {nid} while it is at {loc}")
            for c_ in content:      # a loaded pallet leaves: what it carries is packed in it, and was in this node (or already in it)
                lc = where.get(c_)
                if lc not in (("node", nid), ("pallet", item)):
                    v("C03", "packed-elsewhere", f"pallet {item} leaves node {nid} carrying item {c_}, which is at {lc}")
                where[c_] = ("pallet", item)
                held[nid] = [(i, s_) for (i, s_) in held[nid] if i != c_]
            where[item] = ("edge", e); edge_in[e] += 1
            held[nid] = [(i, s) for (i, s) in held[nid] if i != item]
            put_by[nid].append((item, t, e))
            fifo_inside.setdefault(e, []).append(item)
        else:
            loc = where.get(item)
            if loc != ("edge", e):
                v("C03", "duplicated", f"item {item} taken from edge {e} while it is at {loc}")
            # C06 seen from the factory: a FIFO Buffer with one constant delay hands its items over in the order they were put
            # (every consumer uses a granted reservation at once, one per in-edge at a time; a released item goes back in front)
            q_ = fifo_inside.get(e, [])
            ek, eobj, ecfg = rec.edges[e]
            if item in q_:
                if ecfg.get("mode", "FIFO") == "FIFO" and "delays" not in ecfg and q_[0] != item and not fifo_flagged.get(e):
                    fifo_flagged[e] = True
                    v("C06", "fifo-overtake", f"node {nid} took item {item} from FIFO buffer {e} at t={t} while item {q_[0]}, put earlier, is still inside")
                q_.remove(item)
            where[item] = ("node", nid); edge_in[e] -= 1
            got_by[nid].append((item, t, e))
            if kinds[nid] == "sink": received[nid].append((item, t))
            else:
                held[nid].append((item, t)); pulled_at[(nid, item)] = t
                maxheld[nid] = max(maxheld[nid], len(held[nid]))
    # edges: occupancy reported by the edge = puts - gets
    for i, (k, e, c) in enumerate(rec.edges):
        try:
            occ = e.occupancy()
        except Exception as ex:
            occ = None
        if occ is not None and occ != edge_in[i]:
            v("C03", "edge-count", f"edge {i} reports occupancy {occ}, movement trace says {edge_in[i]}")
        if occ is not None and occ > c.get("cap", 1):
            v("C01", "cap-exceeded", f"edge {i} holds {occ} items, capacity {c.get('cap', 1)}")
    # ---------------- per node
    for nid, (kind, n, c) in enumerate(rec.nodes):
        st = n.stats
        acts = [a for a in rec.acts if a["node"] == nid]
        if kind == "source":
            gen = st["num_item_generated"]; disc = st["num_item_discarded"]
            nput = len(put_by[nid])
            if not (gen - disc - nput in (0, 1)):
                v("C03", "source-count", f"source {nid}: generated {gen} != put {nput} + discarded {disc} (+ at most one in hand)")
                v("C18", "counter", f"source {nid}: generated {gen}, put {nput}, discarded {disc}")
            if c.get("blocking", True) and disc != 0:
                v("C09", "blocking-discard", f"blocking source {nid} discarded {disc} items")
        if kind == "sink":
            if st["num_item_received"] != len(received[nid]):
                v("C18", "counter", f"sink {nid}: num_item_received {st['num_item_received']} but {len(received[nid])} items were taken")
                # an item taken out of an edge and not counted as received is in no edge and no node any more: the factory-wide
                # identity generated = in nodes + in edges + discarded + received fails
                v("C03", "sink-count", f"sink {nid}: {len(received[nid])} items taken from its in-edges but num_item_received = {st['num_item_received']}: "
                                       f"{len(received[nid]) - st['num_item_received']} item(s) are nowhere in the factory")
            cyc = sum(t - created_t.get(i, t) for i, t in received[nid])
            got = f2t(st["total_cycle_time"])
            if got != cyc:
                v("C18", "cycle", f"sink {nid}: total_cycle_time {got} ticks, sum over received items of (reception - creation) = {cyc}")
        if kind == "machine":
            wc = c.get("wc", 1)
            if maxheld[nid] > wc:
                v("C08", "capacity", f"machine {nid} held {maxheld[nid]} items, work_capacity {wc}")
            proc = st["num_item_processed"]; disc = st["num_item_discarded"]
            npull = len(got_by[nid]); nput = len(put_by[nid])
            if proc != nput:
                # a finished push whose worker has not yet resumed is counted one activation later
                pend = sum(1 for a in acts[-3:] if any(x.startswith("put ") for x in a["calls"]))
                if not (0 <= nput - proc <= max(1, pend)):
                    v("C18", "counter", f"machine {nid}: num_item_processed {proc} but {nput} items were put downstream")
            if npull - nput - disc != len(held[nid]) and rec.crash is None:
                v("C03", "machine-count", f"machine {nid}: pulled {npull} - pushed {nput} - discarded {disc} != held {len(held[nid])}")
            if c.get("blocking", True) and disc != 0:
                v("C09", "blocking-discard", f"blocking machine {nid} discarded {disc} items")
            # C08: every pulled item is offered downstream exactly one processing delay later
            pds = [f2t(x) for x in st["processing_delay"]]
            pulls = got_by[nid]
            if len(pds) != len(pulls) and rec.crash is None:
                v("C08", "draws", f"machine {nid}: {len(pulls)} items pulled, {len(pds)} processing delays drawn")
            ndraw = sum(1 for a in acts for x in a["calls"] if x.startswith("draw "))
            if ndraw != len(pulls) and rec.crash is None:
                v("C08", "draws", f"machine {nid}: {len(pulls)} items pulled but the processing-delay source was consulted {ndraw} times")
            offer = {}   # worker ordinal -> (time of its timer activation)
            spawned = []
            for a in acts:
                for x in a["calls"]:
                    if x.startswith("spawn ") and a["proc"] == 0: spawned.append((int(x.split()[1][1:]), a["t"]))
            seen = {}; first_offer = {}
            for a in acts:
                p = a["proc"]
                if p != 0 and a["kind"] == "worker":
                    seen[p] = seen.get(p, 0) + 1
                    if seen[p] == 2: offer[p] = a["t"]
                    if p not in first_offer and any(x.startswith(("rp ", "can ")) for x in a["calls"]): first_offer[p] = (seen[p], a["t"])
            # … and no later: the activation in which the processing timer ends is the one that asks the out-edge (requests room or probes it);
            # a worker that first waits for anything else holds a finished item back although its out-edge may have room
            for p, (k_, t_) in first_offer.items():
                if k_ > 2 and p in offer and rec.crash is None:
                    v("C08", "late-offer", f"machine {nid}: worker {p} finished its processing delay at t={offer[p]} but asked its out-edge only at t={t_} "
                                           f"(activation {k_} of the worker): the item is offered downstream exactly one processing delay after it was pulled")
                    break
            # the item is offered downstream only when its processing delay has elapsed: a worker's first activation starts the timer and
            # does nothing else (a space request placed earlier holds a place that a finished item of another worker could use)
            first_act = {}
            for a in acts:
                if a["proc"] != 0 and a["kind"] == "worker" and a["proc"] not in first_act:
                    first_act[a["proc"]] = a
            for pn, a in first_act.items():
                early = [x for x in a["calls"] if x.startswith(("rp ", "can ", "put "))]
                if early and any(x.startswith("wait ") for x in a["calls"]):
                    v("C08", "early-offer", f"machine {nid}: worker {pn} at t={a['t']} asked its out-edge ({early[0]}) before its processing delay had elapsed: "
                                            f"the item is offered downstream exactly one processing delay after it was pulled, not earlier")
            for k, (pn, t0) in enumerate(spawned):
                if k < len(pds) and pn in offer and offer[pn] != t0 + pds[k]:
                    v("C08", "delay", f"machine {nid}: item pulled at {t0} with processing delay {pds[k]} was offered downstream at {offer[pn]}")
        if kind in ("combiner", "splitter"):
            judge_pack_node(rec, nid, kind, n, c, acts, put_by, got_by, pack_emit[nid], pending[nid], where, v)
        # C09, non-blocking nodes: decide at once — push iff the probed edge has room, otherwise drop and count
        if kind in ("source", "machine") and not c.get("blocking", True):
            pdisc = 0; spawn_t = {}; rr_seen = {}
            for a in acts:
                if a["stats"] is None: continue
                cans = [x for x in a["calls"] if x.startswith("can ")]
                d = a["stats"]["num_item_discarded"]
                spawned = [int(x.split()[1][1:]) for x in a["calls"] if x.startswith("spawn ")]
                is_decision = bool(cans)
                if is_decision:
                    room = a.get("room")
                    pol = c.get("out", "FIRST_AVAILABLE")
                    if pol == "FIRST_AVAILABLE" and room is not None and any(room):
                        lowest = room.index(True)
                        probed_true = [int(x.split()[1][1:]) for x in cans if x.endswith(" 1")]
                        if d != pdisc or not probed_true:
                            v("C09", "discard-with-room", f"non-blocking {kind} {nid} dropped an item at t={a['t']} although out-edge {lowest} had room (can_put per out-edge: {room})")
                        elif probed_true[0] != lowest:
                            v("C15", "first-available", f"non-blocking {kind} {nid} chose out-edge {probed_true[0]} although out-edge {lowest} had room")
                    anytrue = any(x.endswith(" 1") for x in cans)
                    pushes = [p for p in spawned]
                    if kind == "machine" and a["proc"] == 0: pushes = []
                    if anytrue:
                        if d != pdisc: v("C09", "discard-with-room", f"non-blocking {kind} {nid} discarded an item although an out-edge had room")
                    else:
                        if d != pdisc + 1 or (pushes and kind == "source") or (kind == "machine" and spawned):
                            v("C09", "no-discard-when-full", f"non-blocking {kind} {nid}: no permitted out-edge had room at t={a['t']} "
                                                              f"but the item was not dropped (discard count {pdisc} -> {d}, push started: {bool(spawned)})")
                    if c.get("out", "FIRST_AVAILABLE") != "FIRST_AVAILABLE" and len(cans) > 1:
                        v("C09", "probed-unselected", f"non-blocking {kind} {nid} at t={a['t']}: its policy selects ONE out-edge, yet it probed {[x.split()[1] for x in cans]}: "
                                                      f"the item must be pushed to the selected edge if that has room and dropped otherwise")
                    # C15: an index / ROUND_ROBIN policy decides on ONE edge per item; a non-blocking node consults exactly that edge
                    pol15 = c.get("out", "FIRST_AVAILABLE")
                    probed = [int(x.split()[1][1:]) for x in cans]
                    sel15 = [int(x.split()[1]) for x in a["calls"] if x.startswith("sel ")]
                    if isinstance(pol15, (list, tuple)) and sel15 and probed and 0 <= sel15[0] < 9 and probed[0] != sel15[0]:
                        v("C15", "user-obeyed", f"non-blocking {kind} {nid} at t={a['t']}: the selector answered {sel15[0]}, yet the node decided on out-edge {probed[0]}")
                        v("C09", "probed-unselected", f"non-blocking {kind} {nid} at t={a['t']}: its policy selected out-edge {sel15[0]}, yet it probed out-edge {probed[0]}: "
                                                      f"the item must be pushed to the selected edge if that has room and dropped otherwise")
                    if isinstance(pol15, int) and probed and probed[0] != pol15:
                        v("C15", "constant", f"non-blocking {kind} {nid} at t={a['t']}: constant out-edge {pol15} selected, yet it decided on out-edge {probed[0]}")
                    if pol15 == "ROUND_ROBIN" and kind == "source" and probed:
                        k15 = rr_seen.get(nid, 0); rr_seen[nid] = k15 + 1
                        nout15 = len(n.out_edges)
                        if probed[0] != k15 % nout15:
                            v("C15", "round-robin", f"non-blocking source {nid} at t={a['t']}: decision #{k15} under ROUND_ROBIN has to be on out-edge {k15 % nout15}, it was on {probed[0]}")
                    for p in spawned: spawn_t[p] = a["t"]
                elif d > pdisc + 0 and d != pdisc:
                    v("C09", "discard-without-probe", f"non-blocking {kind} {nid}: discard count rose without a can_put probe")
                for x in a["calls"]:
                    if x.startswith("put ") and a["proc"] in spawn_t and a["t"] != spawn_t[a["proc"]]:
                        v("C09", "waited", f"non-blocking {kind} {nid} waited from t={spawn_t[a['proc']]} to t={a['t']} with a finished item")
                pdisc = d
        # C09, non-blocking combiner / splitter: a worker may decide about several units in one activation (a dropped unit
        # does not suspend it), so the can_put probes are grouped per decision first
        if kind in ("combiner", "splitter") and not c.get("blocking", True):
            pdisc = 0; spawn_t = {}
            nout_ = len(n.out_edges); fa = c.get("out", "FIRST_AVAILABLE") == "FIRST_AVAILABLE"
            for a in acts:
                if a["stats"] is None: continue
                d = a["stats"]["num_item_discarded"]
                cans = [x for x in a["calls"] if x.startswith("can ")]
                spawned = [int(x.split()[1][1:]) for x in a["calls"] if x.startswith("spawn ")]
                if a["kind"] == "worker" and cans:
                    groups = []; cur = []
                    for x in cans:
                        cur.append(x.endswith(" 1"))
                        if cur[-1] or not fa or len(cur) == nout_:
                            groups.append(cur); cur = []
                    if cur: groups.append(cur)
                    n_drop = sum(1 for g in groups if not any(g)); n_push = sum(1 for g in groups if any(g))
                    if d - pdisc != n_drop:
                        v("C09", "discard-count", f"non-blocking {kind} {nid} at t={a['t']}: {n_drop} unit(s) found no out-edge with room and "
                                                   f"{n_push} found one (can_put answers {groups}), but the discard count went {pdisc} -> {d}")
                    if n_push != len(spawned):
                        v("C09", "no-push-with-room", f"non-blocking {kind} {nid} at t={a['t']}: {n_push} unit(s) found room but {len(spawned)} push(es) started")
                elif d != pdisc and rec.crash is None:
                    v("C09", "discard-without-probe", f"non-blocking {kind} {nid}: discard count rose at t={a['t']} without a can_put probe")
                if a["kind"] == "worker" and spawned and not cans:
                    v("C09", "push-without-probe", f"non-blocking {kind} {nid} at t={a['t']}: a push started although no out-edge was probed for room in this step")
                for p_ in spawned: spawn_t[p_] = a["t"]
                for x in a["calls"]:
                    if x.startswith("put") and a["proc"] in spawn_t and a["t"] != spawn_t[a["proc"]]:
                        v("C09", "waited", f"non-blocking {kind} {nid} waited from t={spawn_t[a['proc']]} to t={a['t']} with a finished unit")
                pdisc = d
        # C15: policies obeyed and recorded truthfully
        if kind == "machine":
            nin = len(n.in_edges); nout = len(n.out_edges)
            inp, outp = c.get("inp", "FIRST_AVAILABLE"), c.get("out", "FIRST_AVAILABLE")
            gets = [int(x.split()[1][1:]) for a in acts for x in a["calls"] if x.startswith("get ")]
            insel = list(st["in_edge_selection"]); outsel = list(st["out_edge_selection"])
            if insel[:len(gets)] != gets or len(insel) - len(gets) not in (0, 1):
                v("C15", "insel-history", f"machine {nid}: in_edge_selection {insel[:8]}… but items were pulled from edges {gets[:8]}…")
            if inp == "ROUND_ROBIN" and insel != [i % nin for i in range(len(insel))]:
                v("C15", "round-robin", f"machine {nid}: ROUND_ROBIN in-edge sequence is {insel[:10]}")
            if isinstance(inp, int) and any(x != inp for x in gets):
                v("C15", "constant", f"machine {nid}: constant in-edge {inp} but pulled from {sorted(set(gets))}")
            if outp == "ROUND_ROBIN" and outsel != [i % nout for i in range(len(outsel))]:
                v("C15", "round-robin", f"machine {nid}: ROUND_ROBIN out-edge sequence is {outsel[:10]}")
            # FIRST_AVAILABLE: lowest-index triggered token wins; user callables: one call per item, obeyed
            awaited = {}     # proc -> list of (edge, token)
            for a in acts:
                p = a["proc"]; calls = a["calls"]
                res = [(int(x.split()[1][1:]), int(x.split()[2][1:])) for x in calls if x.startswith("rg ") or x.startswith("rp ")]
                use = [x for x in calls if x.startswith("get ") or x.startswith("put ")]
                if use and p in awaited and len(awaited[p]) > 1:
                    e_used = int(use[0].split()[1][1:])
                    trig = set(a["trig"])
                    cand = [e for (e, t) in awaited[p] if t in trig]
                    if cand and e_used != cand[0]:
                        v("C15", "first-available", f"machine {nid}: FIRST_AVAILABLE used edge {e_used} although edge {cand[0]} (lower index) was able to serve")
                sels = [int(x.split()[1]) for x in calls if x.startswith("sel ")]
                if sels:
                    nxt = [x for x in calls if x.startswith(("rg ", "rp ", "can "))]
                    if len(sels) != 1:
                        v("C15", "user-once", f"machine {nid}: selector consulted {len(sels)} times in one step")
                    elif nxt and int(nxt[0].split()[1][1:]) != sels[0] and 0 <= sels[0]:
                        v("C15", "user-obeyed", f"machine {nid}: selector answered {sels[0]} but edge {nxt[0].split()[1]} was used")
                # "a user callable or generator is consulted exactly once per item": a retrieval request placed by the in-edge side of a machine
                # under a user policy follows a consultation in the same activation (however many in-edges there are)
                if isinstance(inp, (list, tuple)) and p == 0 and not sels and any(x.startswith("rg ") for x in calls):
                    v("C15", "user-once", f"machine {nid} at t={a['t']}: a retrieval was requested ({[x for x in calls if x.startswith('rg ')][0]}) without consulting the user "
                                          f"in-edge selector (it has to be consulted exactly once per item)")
                if res: awaited[p] = res
                elif use: awaited.pop(p, None)
            # out-edge history: every push must have been recorded
            puts = [int(x.split()[1][1:]) for a in acts for x in a["calls"] if x.startswith("put ")]
            probes_false = [int(x.split()[1][1:]) for a in acts for x in a["calls"] if x.startswith("can ") and x.endswith(" 0")]
            if outp == "FIRST_AVAILABLE" and not c.get("blocking", True):
                if len(outsel) < len(puts) - 1:
                    v("C15", "outsel-missing", f"machine {nid}: {len(puts)} items pushed (non-blocking FIRST_AVAILABLE) but out_edge_selection has {len(outsel)} entries")
            elif outp == "FIRST_AVAILABLE":
                if sorted(outsel) != sorted(puts) and abs(len(outsel) - len(puts)) > 0:
                    v("C15", "outsel-history", f"machine {nid}: out_edge_selection {outsel[:8]}… vs pushes {puts[:8]}…")
            else:
                exp = sorted(puts + (probes_false if not c.get("blocking", True) else []))
                if not (0 <= len(outsel) - len(exp) <= c.get("wc", 1)) or any(x not in outsel for x in set(exp)):
                    v("C15", "outsel-history", f"machine {nid}: out_edge_selection {outsel[:8]}… vs edges used {exp[:8]}…")
        if kind == "source":
            nout = len(n.out_edges); outp = c.get("out", "FIRST_AVAILABLE")
            used = []
            for a in acts:
                for x in a["calls"]:
                    if x.startswith("put "): used.append(int(x.split()[1][1:]))
            if isinstance(outp, int) and any(x != outp for x in used):
                v("C15", "constant", f"source {nid}: constant out-edge {outp} but pushed to {sorted(set(used))}")
            if outp == "ROUND_ROBIN" and c.get("blocking", True) and used != [i % nout for i in range(len(used))]:
                v("C15", "round-robin", f"source {nid}: ROUND_ROBIN out-edge sequence is {used[:10]}")
            if isinstance(outp, (list, tuple)) and rec.crash is None:
                nsel = sum(1 for a in acts for x in a["calls"] if x.startswith("sel "))
                if len(used) > nsel:
                    v("C15", "user-once", f"source {nid}: {len(used)} items were pushed but the user selector was consulted {nsel} times (it has to be consulted once per item and obeyed)")
        # C08 / C10: a process waiting on reservation tokens goes on in the very instant the first of them is granted
        fire = {}
        for ev, tm in rec.env.fired_log:
            k = rec.tok_ord.get(id(ev))
            if k is not None and k[0] == nid and k[1] not in fire: fire[k[1]] = f2t(tm)
        waiting = {}     # proc -> list of token ordinals awaited
        for a in acts:
            p = a["proc"]
            if p in waiting:
                toks = waiting.pop(p)
                ft = [fire[t] for t in toks if t in fire]
                if ft and a["t"] > min(ft):
                    what = "took the item" if any(x.startswith("get ") for x in a["calls"]) else "pushed / went on"
                    v("C10", "late-resume", f"{kind} {nid} process {p} waited for tokens {toks}; the first was granted at t={min(ft)} but it {what} only at t={a['t']}")
                    if kind == "machine" and a["kind"] == "worker":
                        v("C08", "late-offer", f"machine {nid}: a finished item could have left at t={min(ft)} (a permitted out-edge granted space) but left at t={a['t']}")
            res = [int(x.split()[2][1:]) for x in a["calls"] if x.startswith(("rg ", "rp "))]
            if res and any(x.startswith("await ") for x in a["calls"][-1:]): waiting[p] = res
        # C19: monotone time per node
        ts = [a["t"] for a in acts]
        if any(b < a for a, b in zip(ts, ts[1:])):
            v("C19", "time", f"node {nid} observed decreasing time")
        # ... and the time a node publishes (stats["last_state_change_time"]) never goes back and never lies ahead of the kernel clock
        lasts = [(a["t"], a["stats"]["last"]) for a in acts if a["stats"] is not None and a["stats"].get("last") is not None]
        for (t1, l1), (t2, l2) in zip(lasts, lasts[1:]):
            if l2 < l1:
                v("C19", "published-time-backwards", f"{kind} {nid}: last_state_change_time read {l1} at t={t1} and {l2} at t={t2}: the time it publishes went backwards"); break
        for (t1, l1) in lasts:
            if l1 > t1:
                v("C19", "published-time-ahead", f"{kind} {nid}: last_state_change_time {l1} at kernel time {t1}"); break
    return V

def judge_pack_node(rec, nid, kind, n, c, acts, put_by, got_by, emit, pending, where, v):
    """splitter / combiner: recipe and emission (C16), hold time and draws (C08), blocking discipline (C09),
    counters (C18), selection history (C15)"""
    st = n.stats
    blocking = c.get("blocking", True)
    nin = len(n.in_edges); nout = len(n.out_edges)
    proc = st["num_item_processed"]; disc = st["num_item_discarded"]
    nput = sum(1 for e in emit if e[1] == "put"); ndrop = sum(1 for e in emit if e[1] == "drop")
    pend = sum(1 for a in acts[-3:] if any(x.startswith("put ") for x in a["calls"]))
    # the blocking branches count a unit as processed just before the put, the others when the push process has ended
    # (a unit counted but not put can only be seen when the put itself raised)
    if not ((0 if rec.crash is None else -1) <= nput - proc <= max(1, pend)):
        v("C18", "counter", f"{kind} {nid}: num_item_processed {proc} but {nput} units were put downstream")
    if disc != ndrop:
        v("C18", "counter", f"{kind} {nid}: num_item_discarded {disc} but {ndrop} units were dropped")
    if blocking and disc != 0:
        v("C09", "blocking-discard", f"blocking {kind} {nid} discarded {disc} units")
    if not blocking:
        for a in acts:
            if a["kind"] == "worker" and a["calls"] and (a["calls"][-1] == "await tok" or a["calls"][-1].startswith("await any")):
                v("C09", "nonblocking-wait", f"non-blocking {kind} {nid}: its worker waits for space on an out-edge at t={a['t']}"); break
    # C09 / C16, non-blocking FIRST_AVAILABLE: a unit (item or emptied pallet) is dropped only when NO out-edge has room.  The room of every
    # out-edge is observed at the first probe of the activation and cannot change inside it (pushes run in processes started later)
    if not blocking and c.get("out", "FIRST_AVAILABLE") == "FIRST_AVAILABLE":
        pdisc = 0
        for a in acts:
            if a["stats"] is None: continue
            d = a["stats"]["num_item_discarded"]
            room = a.get("room")
            if d > pdisc and room is not None and any(room):
                for p_ in ("C09", "C16"):
                    v(p_, "discard-with-room", f"non-blocking {kind} {nid} dropped {d - pdisc} unit(s) at t={a['t']} although out-edge {room.index(True)} had room "
                                               f"(can_put per out-edge: {room}; probes made: {[x for x in a['calls'] if x.startswith('can ')]})")
                break
            pdisc = d
    # draws: one per unit of work, and the delay waited is the one drawn
    draws = [int(x.split()[1]) for a in acts for x in a["calls"] if x.startswith("draw ")]
    pds = [f2t(x) for x in st["processing_delay"]]
    if kind == "splitter":
        works = [m for m in got_by[nid]]
        waits = [int(a["calls"][-1].split()[1]) for a in acts if a["kind"] == "worker" and a["calls"] and a["calls"][-1].startswith("wait ")]
    else:
        works = [a for a in acts if a["proc"] == 0 and any(x.startswith("draw ") for x in a["calls"])]
        waits = [int(a["calls"][-1].split()[1]) for a in acts[1:] if a["proc"] == 0 and a["calls"] and a["calls"][-1].startswith("wait ")]
    if rec.crash is None:
        if len(draws) != len(works):
            v("C08", "draws", f"{kind} {nid}: {len(works)} units of work but the processing-delay source was consulted {len(draws)} times")
        if waits != draws[:len(waits)] or len(draws) - len(waits) > 1:
            v("C08", "delay", f"{kind} {nid}: delays drawn {draws[:8]} but delays waited {waits[:8]}")
        if pds[:len(waits)] != waits:
            v("C08", "delay", f"{kind} {nid}: stats processing_delay {pds[:8]} but delays waited {waits[:8]}")
    # C16
    if kind == "combiner":
        target = list(c.get("target", [1]))
        cur = None; loaded = {}
        for a in acts:
            if a["proc"] != 0: continue
            for x, it in zip([x for x in a["calls"] if x.startswith("get ")], a["items"]):
                e = int(x.split()[1][1:]); iid = it[0]
                if e == 0:      # a pallet may come round again (closed loops): one record per round
                    cur = iid; loaded.setdefault(cur, []).append({"pre": list(it[3]) if len(it) > 3 else [], "got": []})
                elif cur is not None:
                    loaded[cur][-1]["got"].append((iid, e))
                else:
                    v("C16", "item-without-pallet", f"combiner {nid} took item {iid} from in-edge {e} with no pallet in process")
        rounds = {}
        for (u, what, t, content) in emit:
            if what != "put": continue
            if u not in loaded or rounds.get(u, 0) >= len(loaded[u]):
                v("C16", "not-a-first-edge-pallet", f"combiner {nid} emitted {u}, which it did not take from its first in-edge"); continue
            L = loaded[u][rounds.get(u, 0)]; rounds[u] = rounds.get(u, 0) + 1
            want = L["pre"] + [i for i, _ in L["got"]]
            if list(content) != want:
                v("C16", "content", f"combiner {nid}: pallet {u} left carrying {list(content)} but {want} were loaded onto it")
                lost = [i for i in want if i not in list(content)]
                if lost:      # taken out of an edge (or brought in on the pallet) and gone: in no edge, no node, on no pallet
                    v("C03", "lost-on-pallet", f"combiner {nid}: items {lost} were on pallet {u} (brought in or loaded here) but are not on it when it leaves: "
                                               f"they are nowhere in the factory")
            for e in range(1, nin):
                k = sum(1 for _, ee in L["got"] if ee == e)
                tq = target[e] if e < len(target) else None
                if tq is not None and k != tq:
                    v("C16", "recipe", f"combiner {nid}: pallet {u} left with {k} items from in-edge {e}, recipe says {tq}")
    else:
        exp = []
        for a in acts:
            if a["proc"] != 0: continue
            for x, it in zip([x for x in a["calls"] if x.startswith("get ")], a["items"]):
                exp += list(it[3] if len(it) > 3 else []) + [it[0]]
        done = [u for (u, what, t, content) in emit]
        if done != exp[:len(done)]:
            v("C16", "emission-order", f"splitter {nid} emitted/dropped {done[:10]} but the incoming pallets dictate {exp[:10]}")
            if not blocking:      # C09: every finished unit of a non-blocking node is pushed or dropped-and-counted at that instant, never neither
                k0 = next((k for k, (x, y) in enumerate(zip(done, exp)) if x != y), len(done))
                v("C09", "unaccounted-unit", f"non-blocking splitter {nid}: unit {exp[k0] if k0 < len(exp) else '?'} of an unpacked pallet was neither pushed nor dropped-and-counted "
                                             f"(pushed/dropped in this order: {done[:10]}; the pallets contained {exp[:10]})")
        for (u, what, t, content) in emit:
            if what == "put" and content:
                v("C16", "pallet-not-empty", f"splitter {nid} passed on pallet {u} still carrying {list(content)}")
    # C15: FIRST_AVAILABLE takes the lowest-index edge whose token is triggered at the instant of choice (splitter in-edges; out-edges of
    # both kinds); a user callable is consulted once per routing decision and obeyed
    awaited = {}
    for a in acts:
        p_ = a["proc"]; calls = a["calls"]
        res = [(int(x.split()[1][1:]), int(x.split()[2][1:])) for x in calls if x.startswith("rg ") or x.startswith("rp ")]
        use = [x for x in calls if x.startswith(("get ", "put ", "putU "))]
        fa_side = (p_ != 0 and c.get("out", "FIRST_AVAILABLE") == "FIRST_AVAILABLE") or \
                  (p_ == 0 and kind == "splitter" and c.get("inp", "FIRST_AVAILABLE") == "FIRST_AVAILABLE")
        if fa_side and use and p_ in awaited and len(awaited[p_]) > 1:
            e_used = int(use[0].split()[1][1:])
            trig = set(a["trig"])
            cand = [e for (e, t) in awaited[p_] if t in trig]
            if cand and e_used != cand[0]:
                v("C15", "first-available", f"{kind} {nid} at t={a['t']}: FIRST_AVAILABLE used edge {e_used} although edge {cand[0]} (lower index) was able to serve")
        if fa_side and p_ in awaited and len(awaited[p_]) > 1 and not use:
            # the choice may be made in one step (cancel every other request, ask for the worker slot) and used in a later one
            gone = set(int(x.split()[2][1:]) for x in calls if x.startswith(("cg ", "cp ")))
            kept = [e for (e, t) in awaited[p_] if t not in gone]
            trig = set(a["trig"])
            cand = [e for (e, t) in awaited[p_] if t in trig]
            if gone and len(kept) == 1 and cand and kept[0] != cand[0]:
                v("C15", "first-available", f"{kind} {nid} at t={a['t']}: FIRST_AVAILABLE kept its request on edge {kept[0]} and withdrew the others although "
                                            f"edge {cand[0]} (lower index) had granted at that instant")
            if gone: awaited.pop(p_, None)
        if res: awaited[p_] = res
        elif use: awaited.pop(p_, None)
        for j, x in enumerate(calls):
            if not x.startswith("sel "): continue
            k = int(x.split()[1])
            nxt = [y for y in calls[j + 1:] if y.startswith(("rg ", "rp ", "can ", "sel ", "crash"))]
            if not nxt or nxt[0].startswith("sel "):
                v("C15", "user-once", f"{kind} {nid} at t={a['t']}: the selector was consulted (answer {k}) without a routing decision following it")
            elif not nxt[0].startswith("crash") and k >= 0 and int(nxt[0].split()[1][1:]) != k:
                v("C15", "user-obeyed", f"{kind} {nid} at t={a['t']}: the selector answered {k} but edge {nxt[0].split()[1]} was used")
    # C15: the recorded out-edge history is the routing that happened
    outsel = list(st["out_edge_selection"]); outp = c.get("out", "FIRST_AVAILABLE")
    puts = [int(x.split()[1][1:]) for a in acts for x in a["calls"] if x.startswith("put ")]
    if outp == "FIRST_AVAILABLE":
        # a run that ended with an error somewhere else stopped in the middle of an instant: the last decision may be recorded while its push
        # process (started in the same instant) has not run yet
        lo = -1 if rec.crash is not None else 0
        k_ = min(len(puts), len(outsel))
        if not (lo <= len(puts) - len(outsel) <= 1) or outsel[:k_] != puts[:k_]:
            v("C15", "outsel-history", f"{kind} {nid}: out_edge_selection {outsel[:8]} but units were pushed to out-edges {puts[:8]}")
    else:
        if outp == "ROUND_ROBIN" and outsel != [i % nout for i in range(len(outsel))]:
            v("C15", "round-robin", f"{kind} {nid}: ROUND_ROBIN out-edge sequence is {outsel[:10]}")
        if isinstance(outp, int) and any(x != outp for x in puts):
            v("C15", "constant", f"{kind} {nid}: constant out-edge {outp} but pushed to {sorted(set(puts))}")
        # an index / ROUND_ROBIN / user policy records its choice when it is made, i.e. before the unit is pushed (or dropped): every push has
        # its entry, in order
        if len(outsel) < len(puts):
            v("C15", "outsel-missing", f"{kind} {nid}: {len(puts)} units were pushed to out-edges {puts[:8]} but out_edge_selection has only {len(outsel)} entries {outsel[:8]}")
    if kind == "splitter":
        insel = list(st["in_edge_selection"]); inp = c.get("inp", "FIRST_AVAILABLE")
        gets = [int(x.split()[1][1:]) for a in acts for x in a["calls"] if x.startswith("get ")]
        if insel[:len(gets)] != gets or len(insel) - len(gets) not in (0, 1):
            v("C15", "insel-history", f"splitter {nid}: in_edge_selection {insel[:8]} but pallets were pulled from in-edges {gets[:8]}")
        if inp == "ROUND_ROBIN" and insel != [i % nin for i in range(len(insel))]:
            v("C15", "round-robin", f"splitter {nid}: ROUND_ROBIN in-edge sequence is {insel[:10]}")

def finalize_and_judge_states(rec, cfg, T):
    """C17: call update_final_state_time(T) on every node and check the partition of elapsed time."""
    V = []
    Tf = t2f(T)
    for nid, (kind, n, c) in enumerate(rec.nodes):
        try:
            n.update_final_state_time(Tf)
        except Exception as ex:
            rec.final_exc = getattr(rec, "final_exc", {}); rec.final_exc[nid] = type(ex).__name__
            V.append(("C17", "finalize:" + type(ex).__name__, f"{kind} {nid}: update_final_state_time({T}) raised {type(ex).__name__}: {str(ex)[:80]}"))
            continue
        tt = n.stats["total_time_spent_in_states"]
        if any(x < 0 for x in tt.values()):
            V.append(("C17", "negative", f"{kind} {nid}: negative state time {tt}"))
        if kind == "machine":
            A = tt["SETUP_STATE"] + tt["IDLE_STATE"] + tt["ATLEAST_ONE_PROCESSING_STATE"] + tt["ALL_ACTIVE_BLOCKED_STATE"]
            B = tt["SETUP_STATE"] + tt["IDLE_STATE"] + tt["ALL_ACTIVE_PROCESSING_STATE"] + tt["ATLEAST_ONE_BLOCKED_STATE"]
            occ = sum(n.time_per_work_occupancy)
            # truthfulness: measure processing / blocked / idle time independently from the activation log
            acts = [a for a in rec.acts if a["node"] == nid]
            seen = {}; iv = []       # per worker: (spawn, timer, end)
            alive = {}
            for a in acts:
                if a["kind"] != "worker": continue
                p = a["proc"]; seen[p] = seen.get(p, 0) + 1
                if seen[p] == 1: alive[p] = [a["t"], None, None]
                elif seen[p] == 2: alive[p][1] = a["t"]
                if not a["alive"]: alive[p][2] = a["t"]
            tend = None
            for a in acts:
                if a["proc"] == 0 and a["stats"] and a["stats"]["rep"] == (0, 0) and tend is None: tend = a["t"]
            if tend is not None:
                pts = sorted({tend, T} | {x for w in alive.values() for x in w if x is not None and tend <= x <= T})
                m = dict(idle=0, aop=0, allb=0, aap=0, aob=0)
                for lo, hi in zip(pts, pts[1:]):
                    mid2 = lo + hi       # compare doubled midpoints to stay in integers
                    np_ = sum(1 for (s0, s1, s2) in alive.values() if 2 * s0 <= mid2 and (s1 is None or mid2 < 2 * s1))
                    nb = sum(1 for (s0, s1, s2) in alive.values() if s1 is not None and 2 * s1 <= mid2 and (s2 is None or mid2 < 2 * s2))
                    d = hi - lo
                    if np_ == 0 and nb == 0: m["idle"] += d
                    if np_ > 0: m["aop"] += d
                    if np_ == 0 and nb > 0: m["allb"] += d
                    if np_ > 0 and nb == 0: m["aap"] += d
                    if nb > 0: m["aob"] += d
                got = dict(idle=f2t(tt["IDLE_STATE"]), aop=f2t(tt["ATLEAST_ONE_PROCESSING_STATE"]), allb=f2t(tt["ALL_ACTIVE_BLOCKED_STATE"]),
                           aap=f2t(tt["ALL_ACTIVE_PROCESSING_STATE"]), aob=f2t(tt["ATLEAST_ONE_BLOCKED_STATE"]))
                if got != m:
                    V.append(("C17", "truthful", f"machine {nid}: charged {got} but measured from pulls / timers / pushes {m}"))
            for name, s in (("group idle/at-least-one-processing/all-blocked", A), ("group idle/all-processing/at-least-one-blocked", B),
                            ("worker-occupancy histogram", occ)):
                if f2t(s) != T:
                    V.append(("C17", "sum", f"machine {nid}: {name} adds up to {s / TICK:g} ticks, T = {T}"))
        else:
            if kind in ("combiner", "splitter"):
                acts = [a for a in rec.acts if a["node"] == nid]
                setup_end = acts[1]["t"] if len(acts) > 1 else T
                procI = []; blkI = []
                seen = {}
                for a in acts:
                    if a["kind"] == "worker": seen.setdefault(a["proc"], []).append(a)
                if kind == "splitter":
                    for p, L in seen.items():
                        t0 = L[0]["t"]; t1 = L[1]["t"] if len(L) > 1 else T
                        t2 = L[-1]["t"] if not L[-1]["alive"] else T
                        procI.append((t0, t1)); blkI.append((t1, t2))
                else:
                    start = None
                    for a in acts[1:]:
                        if a["proc"] == 0 and a["calls"] and a["calls"][-1].startswith("wait "): start = a["t"]
                        elif a["proc"] == 0 and start is not None and any(x.startswith("spawn ") for x in a["calls"]):
                            procI.append((start, a["t"])); start = None
                    if start is not None: procI.append((start, T))
                    for p, L in seen.items():
                        blkI.append((L[0]["t"], L[-1]["t"] if not L[-1]["alive"] else T))
                if kind == "combiner":
                    # one unit of work at a time: the next pallet is not processed while the previous finished pallet is still in the
                    # combiner's hands (its worker has not ended)
                    for (ps, pe) in procI:
                        for (ws, we) in blkI:
                            if ws < ps < we:
                                V.append(("C08", "two-units", f"combiner {nid}: the processing of a pallet started at t={ps} while the previous finished pallet "
                                                              f"was still held by the combiner (its worker ran from t={ws} to t={we}): two units of work in hand"))
                                break
                mp = sum(min(b, T) - min(a_, T) for a_, b in procI); mb = sum(min(b, T) - min(a_, T) for a_, b in blkI)
                m = dict(setup=min(setup_end, T), proc=mp, blocked=mb, idle=T - min(setup_end, T) - mp - mb)
                got = dict(setup=f2t(tt["SETUP_STATE"]), proc=f2t(tt["PROCESSING_STATE"]), blocked=f2t(tt["BLOCKED_STATE"]), idle=f2t(tt["IDLE_STATE"]))
                if got != m:
                    V.append(("C17", "truthful", f"{kind} {nid}: charged {got} but measured from the activity {m}"))
                occ = sum(n.time_per_work_occupancy)
                if f2t(occ) != T:
                    V.append(("C17", "sum", f"{kind} {nid}: worker-occupancy histogram adds up to {occ / TICK:g} ticks, T = {T}"))
            s = sum(tt.values())
            if f2t(s) != T:
                V.append(("C17", "sum", f"{kind} {nid}: state times add up to {s / TICK:g} ticks, T = {T}"))
    return V
