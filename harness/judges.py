"""Property oracles ("judges") over OBSERVABLE traces of the real implementation.

A store trace is a list of (op tuple, result line).  The judge rebuilds from the trace alone
which tokens are pending / granted / used / cancelled and which items are inside, and checks the
property statements directly.  It never looks at the store's internal lists, so a refactoring
that keeps the behaviour cannot trip it.  Used (a) on every trace of every run, (b) to turn a
broken correspondence into a concrete failing input.
"""
from common import *
from stores_impl import FOREIGN

# first word of a message -> rule id (used to attribute a violation to a known finding)
RULES = {"filtered": "filter-mismatch", "retrieval": "lost-wake-get", "space": "lost-wake-put",
         "FIFO": "discipline", "LIFO": "discipline", "token": "order-or-fire", "put": "put", "get": "get",
         "valid": "valid-rejected", "invalid": "wrong-exception", "cancellation": "cancel",
         "time-averaged": "avg-level", "exception": "kernel-exception", "rejected": "rejected-fired",
         "store": "count", "reserve": "reserve-failed"}

class Tok:
    __slots__ = ("tid", "side", "actor", "prio", "filt", "state", "arr", "gtime", "gline")
    def __init__(self, tid, side, actor, prio, filt, arr):
        self.tid, self.side, self.actor, self.prio, self.filt, self.arr = tid, side, actor, prio, filt, arr
        self.state = "pending"; self.gtime = None; self.gline = None
    @property
    def key(self): return (self.prio, self.arr)

def parse_line(line):
    if "|" in line:
        head, trig = line.split("|", 1)
        trig = trig.split("|")[0]          # a third segment (fleet: items that became retrievable) is read separately
        return head.strip(), [(int(x.split('@')[0]), int(x.split('@')[1])) for x in trig.split()]
    return line.strip(), []

def parse_ready(line):
    p = line.split("|")
    return [int(x) for x in p[2].split()] if len(p) > 2 else []

def filt_ok(f, item, td, now):
    """item = dict(id, kind, ptime).  None = cannot tell."""
    if f == "always": return True
    if f == "never": return False
    if f == "even": return item["id"] % 2 == 0
    if f.startswith("kind:"): return item["kind"] == int(f[5:])
    if f == "dflt": return item["ptime"] + td <= now
    return None

class StoreJudge:
    """family: pos | buf | bufedge | fleet …   cfg: dict(cap, prio, filter, td, mode)."""
    def __init__(self, header):
        w = header.split()
        self.family = w[1]
        self.header = header
        if self.family == "pos":
            self.cap = None if w[2] == "inf" else int(w[2])
            self.prio = w[3] != "0"; self.filter = w[4] != "0"; self.td = int(w[5])
            self.mode = "FIFO"; self.timed = False
        elif self.family in ("buf", "bufedge"):
            self.cap = None if w[2] == "inf" else int(w[2])
            self.prio = False; self.filter = False; self.td = 0
            self.mode = w[3]; self.timed = True
        elif self.family == "slot":
            self.cap = int(w[2]); self.prio = True; self.filter = False; self.td = 0       # the slotted BeltStore's priority argument is driven directly
            self.mode = "FIFO"; self.timed = True
            self.sdelay = int(w[3]); self.acc = (len(w) < 5 or w[4] != "0")
            self.last_entry = None
        elif self.family == "cbelt":
            self.cap = int(w[2]); self.prio = False; self.filter = False; self.td = 0
            self.mode = "FIFO"; self.timed = True
            self.sdelay = int(w[3]); self.acc = (w[4] != "0")
            self.last_entry = None
        elif self.family == "fleet":
            self.cap = int(w[2]); self.prio = True; self.filter = False; self.td = 0      # FleetStore.reserve_*(priority) is driven directly
            self.mode = "FIFO"; self.timed = True
            self.fdelay, self.ftransit = int(w[3]), int(w[4])
        else:
            raise ValueError(header)
        self.deadline = {}        # fleet: seq -> latest instant at which the entry must be retrievable
        self.toks = {}
        self.now = 0
        self.inside = []          # list of dict(id, kind, ptime, ready_at, seq)
        self.nput = 0
        self.viol = []            # (prop, line index, message)
        self.quiescent = True     # nothing internal left to happen at this instant (as far as the trace shows)
        self.area = 0             # ∫ occupancy dt (ticks), up to self.now
        self.area_at_last_update = 0; self.t_last_update = 0
        # C06 spec replay (FIFO/LIFO with released-first); None once ambiguous
        self.unres = []           # service order of unreserved AVAILABLE entries (seq numbers)
        self.bound = {}           # tid -> seq expected
        self.released = set()
        self.c06_on = True
        self.line_no = -1

    aliasing = False
    cancelled_granted_get = False
    def v(self, prop, msg, rule=None):
        if self.aliasing and prop in ("C02", "C06", "C07") : return
        self.viol.append((prop, self.line_no, rule or RULES.get(msg.split()[0], "other"), msg))

    # ---- helpers
    def granted(self, side): return [t for t in self.toks.values() if t.side == side and t.state == "granted"]
    def pending(self, side): return [t for t in self.toks.values() if t.side == side and t.state == "pending"]
    def available(self):
        if not self.timed: return list(self.inside)
        return [e for e in self.inside if e["ready_at"] <= self.now]

    def advance(self, dt):
        self.area += len(self.inside) * dt
        self.now += dt

    # ---- main entry
    def feed(self, op, line):
        self.line_no += 1
        if getattr(self, "_belt_broken", False):
            return      # a valid call or the kernel raised on this conveyor: what is on the belt is unknown from here on
        k = op[0]
        head, trig = parse_line(line)
        if " !draws=" in head:
            # Buffer edge adapter: the delay source has to be consulted exactly once per accepted put (and never outside a put)
            head, mark = head.split(" !draws=", 1)
            self.v("C11", f"the buffer's delay source was consulted {mark.split('/')[0]} times for {mark.split('/')[1]} accepted puts: "
                          f"the k-th item does not get the k-th delay (a generator / stateful callable is shifted)", "draws")
        adv_end = None
        if k == "adv":
            adv_end = self.now + op[1]; self.quiescent = False
        elif k == "settle":
            self.quiescent = True
        elif k == "kstep":
            pass
        elif k == "ev":
            if head.startswith("t="):
                tnew = int(head[2:])
                if tnew < self.now: self.v("C19", f"the clock went back from {self.now} to {tnew}", "time")
                elif tnew > self.now: self.advance(tnew - self.now)
        else:
            # an API call at this instant may leave internal events pending (timers, trigger events)
            if self.timed or self.filter: self.quiescent = False if k in ("put",) else self.quiescent
        if self.family in ("fleet", "slot", "cbelt"): self.quiescent = True     # availability is reported explicitly, the triggers run inside the move
        if head == "err Hang":
            self.v("C20", f"the call {' '.join(map(str, op))} did not return: the real code loops without end (watchdog, stores_impl.OP_TIMEOUT)", "livelock")
            self._belt_broken = True
            return
        if head.startswith("err") and k in ("adv", "settle", "kstep", "ev"):
            self.v("C20", f"exception escaped the kernel during {k}: {head}")
            self._belt_broken = True
            return
        newtok = None
        if k in ("rp", "rg"):
            if head.startswith("tok "):
                tid = int(head.split()[1])
                prio = op[2] if self.prio else 0
                filt = (op[3] if self.filter else "always") if k == "rg" else None
                newtok = Tok(tid, "put" if k == "rp" else "get", op[1], prio, filt, tid)
                self.toks[tid] = newtok
            else:
                self.v("C07", f"reserve call failed: {head}")
        # --- the call itself
        if k == "put": self.on_put(op, head)
        elif k == "get": self.on_get(op, head)
        elif k in ("cp", "cg"): self.on_cancel(op, head)
        elif k == "stat": self.on_stat(head)
        elif k == "final": self.level_changed()
        elif k == "probe": self.on_probe(op, head)
        # --- tokens fired during this line, in order, each at its own instant
        for tid, t in trig:
            if t < self.now or (adv_end is not None and t > adv_end) or (adv_end is None and t != self.now):
                self.v("C19", f"token {tid} fired at time {t}, outside the interval of the step (now {self.now})", "time")
            if t > self.now: self.advance(t - self.now)
            for e in self.inside:
                if e["ready_at"] < self.now: e["sure"] = True
            self.on_fire(tid)
        if adv_end is not None and adv_end > self.now: self.advance(adv_end - self.now)
        for e in self.inside:
            if e["ready_at"] < self.now or (k == "settle" and e["ready_at"] <= self.now): e["sure"] = True
        if head.startswith("err") and trig:
            self.v("C07", f"rejected call {op} fired tokens {trig}")
        if self.family == "fleet": self.fleet_line(op, parse_ready(line))
        if self.family == "slot": self.slot_line(op, parse_ready(line), head)
        if self.family == "cbelt": self.cbelt_line(op, parse_ready(line), head, trig, line)
        self.after_line(op)

    # ---- slotted conveyor (C12, C13)
    def slot_line(self, op, ready_ids, head):
        INF = 10 ** 9
        travel = self.cap * self.sdelay
        stalled_before = getattr(self, "_stalled", False)
        if ready_ids:
            for iid in ready_ids:
                e = next((x for x in self.inside if x["id"] == iid and x["ready_at"] >= INF), None)
                if e is None:
                    self.v("C12", f"item {iid} offered at t={self.now} but it is not a moving item of this conveyor", "order"); continue
                older = [x["id"] for x in self.inside if x["ready_at"] >= INF and x["seq"] < e["seq"]]
                if older:
                    self.v("C12", f"item {iid} reached the exit before items {older}, which entered earlier", "order")
                if self.now < e["ptime"] + travel:
                    self.v("C12", f"item {iid} entered at t={e['ptime']} and was offered at t={self.now}, before the belt travel time {travel}", "travel-short")
                elif self.now > e["ptime"] + travel and not stalled_before and self.family == "slot":
                    self.v("C12", f"item {iid} entered at t={e['ptime']} and was offered only at t={self.now} although the belt never stopped (travel time {travel})", "travel-long")
                if stalled_before and not self.acc:
                    self.v("C13", f"non-accumulating conveyor: item {iid} advanced to the exit at t={self.now} while the head item was waiting there unreserved", "moves-while-stalled")
                e["ready_at"] = self.now; e["sure"] = True
        if op[0] == "put" and head == "ok":
            if self.last_entry is not None and self.now < self.last_entry + self.sdelay:
                self.v("C12", f"two items entered {self.now - self.last_entry} apart (t={self.last_entry} and t={self.now}), slot delay {self.sdelay}", "spacing")
            if stalled_before and not self.acc:
                self.v("C13", f"non-accumulating conveyor admitted a new item at t={self.now} while the head item was waiting at the exit unreserved", "admits-while-stalled")
            self.last_entry = self.now
        for e in self.inside:
            if self.family != "slot": break
            if e["ready_at"] >= INF and self.now > e["ptime"] + travel and not e.get("late_reported") and not getattr(self, "_ever_stalled", False):
                e["late_reported"] = True
                self.v("C12", f"item {e['id']} entered at t={e['ptime']} is still not offered at t={self.now} (travel time {travel}) although nothing ever waited at the exit", "travel-long")
        nready = sum(1 for e in self.inside if e["ready_at"] < INF)
        self._stalled = nready > len(self.granted("get"))
        if self._stalled: self._ever_stalled = True

    # ---- continuous conveyor (C12, C13)
    def cbelt_line(self, op, ready_ids, head, trig, line=""):
        """Observable rules.  `stalled` is the library's own notion, computed from the trace: an item is at the exit and
        no retrieval is granted.  `_stall_since` = instant since which that holds without interruption, `_stall_cause` = how
        it began (arrival of the head / a retrieval taking the reserved head / cancellation of the granted retrieval)."""
        INF = 10 ** 9
        if getattr(self, "_belt_broken", False): return      # a call / the kernel raised: the conveyor's state is unknown
        travel = self.cap * self.sdelay
        since = getattr(self, "_stall_since", None); cause = getattr(self, "_stall_cause", None)
        strictly = since is not None and since < self.now          # the stall began at an earlier instant
        coarse = op[0] == "adv" and bool(ready_ids)                # a clock move that ran over kernel events: arrival instants unknown
        for iid in ready_ids:
            e = next((x for x in self.inside if x["id"] == iid and x["ready_at"] >= INF), None)
            if e is None:
                self.v("C12", f"item {iid} offered at t={self.now} but it is not a moving item of this conveyor", "order"); continue
            older = [x["id"] for x in self.inside if x["ready_at"] >= INF and x["seq"] < e["seq"]]
            if older:
                self.v("C12", f"item {iid} reached the exit before items {older}, which entered earlier", "order")
            if coarse:
                e["ready_at"] = self.now; e["sure"] = False; self._last_arrival = None
                continue
            if self.now < e["ptime"] + travel:
                self.v("C12", f"item {iid} entered at t={e['ptime']} and was offered at t={self.now}, before the belt travel time {travel}", "travel-short")
            if self.now > e["ptime"] + travel and not getattr(self, "_ever_stalled", False):
                self.v("C12", f"item {iid} entered at t={e['ptime']} and was offered only at t={self.now} although nothing ever waited at the exit (travel time {travel})", "travel-long")
            la = getattr(self, "_last_arrival", None)
            if la is not None and self.now < la[1] + self.sdelay:
                self.v("C13", f"items {la[0]} and {iid} reached the exit only {self.now - la[1]} apart (t={la[1]} and t={self.now}); one item length of belt "
                              f"travel takes {self.sdelay}: they overlapped on the belt", "overlap")
            self._last_arrival = (iid, self.now)
            if strictly and not self.acc:
                self.v("C13", f"non-accumulating conveyor: item {iid} advanced to the exit at t={self.now} while the head item had been waiting there "
                              f"unreserved since t={since} (stall began by {cause})", "moves-while-stalled" if cause != "cancel" else "moves-after-cancel")
            e["ready_at"] = self.now; e["sure"] = True
        # the library's own travel bookkeeping (anchors: conveyor_entry_time, total_interruption_time, interruption_start_time)
        seg = line.split("|")
        if len(seg) > 3 and not coarse:
            for w in seg[3].split():
                try:
                    if w[0] == "a":
                        iid, ent, ti = w[1:].split(":")
                        if ent != "?" and ti not in ("?", "None") and ent != "None":
                            ent, ti = int(ent), int(ti)
                            if self.now != ent + travel + ti:
                                how = "later" if self.now > ent + travel + ti else "earlier"
                                self.v("C12", f"item {iid} entered at t={ent}, was stopped for {ti} in total and is offered at t={self.now}: {how} than entry + belt "
                                              f"travel {travel} + time stopped = {ent + travel + ti} (it did not resume from where it stopped)", "travel-accounting")
                                self.v("C13", f"item {iid}: offered at t={self.now}, entry {ent} + travel {travel} + time stopped {ti} = {ent + travel + ti}: on release it did "
                                              f"not resume from where it stopped", "travel-accounting")
                    elif w[0] == "p" and w[1:] not in ("-", "?", "None"):
                        tob = int(w[1:])
                        if tob < self.sdelay:
                            self.v("C12", f"an item entered at t={self.now} when the item before it had travelled only {tob} on the belt; one item length of "
                                          f"belt travel takes {self.sdelay}", "belt-spacing")
                except (ValueError, IndexError):
                    pass
        for tid, tt in trig:
            t = self.toks.get(tid)
            if t is not None and t.side == "put" and strictly and not self.acc:
                self.v("C13", f"non-accumulating conveyor granted space reservation {tid} at t={tt} while the head item had been waiting at the exit "
                              f"unreserved since t={since} (stall began by {cause})", "admits-while-stalled" if cause != "cancel" else "admits-after-cancel")
        if op[0] == "put" and head == "ok":
            if self.last_entry is not None and self.now < self.last_entry + self.sdelay:
                self.v("C12", f"two items entered {self.now - self.last_entry} apart (t={self.last_entry} and t={self.now}), one item length of belt travel takes {self.sdelay}", "spacing")
            self.last_entry = self.now
        nready = sum(1 for e in self.inside if e["ready_at"] < INF)
        stalled = nready > 0 and len(self.granted("get")) == 0
        if stalled and since is None:
            self._stall_since = self.now
            self._stall_cause = "cancel" if op[0] == "cg" else ("get" if op[0] == "get" else "arrival")
            self._ever_stalled = True
        elif not stalled:
            self._stall_since = None; self._stall_cause = None

    # ---- fleet (C14): batches, round trip, bounded wait
    def fleet_line(self, op, ready_ids):
        INF = 10 ** 9
        # finitely many kernel events per instant: a run of kernel steps that neither moves the clock nor
        # delivers nor grants anything is a zero-time loop (with delay > 0 an instant holds < 10 fleet events)
        if op[0] == "ev" and not ready_ids and self.now == getattr(self, "_ev_t", None):
            self._ev_run = getattr(self, "_ev_run", 0) + 1
            if self._ev_run == 15:
                self.v("C14", f"15 consecutive kernel events at t={self.now} without the clock advancing: the fleet never departs / time never passes", "livelock")
                self.v("C20", f"15 consecutive kernel events at t={self.now} without the clock advancing (zero-time livelock)", "livelock")
        else:
            self._ev_run = 0
        self._ev_t = self.now if op[0] == "ev" else None
        # instants at which a departure is justified: expiry of the waiting delay (re-armed at every wake-up of the
        # activation loop) or the put that fills the fleet
        if not hasattr(self, "_legit"):
            self._legit = set(); self._next_tmo = self.fdelay
        if self.fdelay > 0:
            while self._next_tmo <= self.now:
                self._legit.add(self._next_tmo); self._next_tmo += self.fdelay
        if op[0] == "put" and self.cap is not None and len(self.inside) == self.cap:
            self._legit.add(self.now); self._next_tmo = self.now + self.fdelay
        if ready_ids:
            T = self.now; D = T - 2 * self.ftransit
            if self.fdelay > 0 and D >= 0 and D not in self._legit:
                self.v("C14", f"a trip left at t={D} (batch {ready_ids} delivered at t={T}) although neither the waiting delay expired then nor did the fleet reach its capacity", "early-departure")
            batch = []
            for iid in ready_ids:
                e = next((x for x in self.inside if x["id"] == iid and x["ready_at"] >= INF), None)
                if e is None:
                    self.v("C14", f"item {iid} reported retrievable at t={T} but it is not a loaded, not yet delivered item", "batch"); continue
                e["ready_at"] = T; e["sure"] = True; batch.append(e)
            if D < 0 or any(e["ptime"] > D for e in batch):
                late = [e["id"] for e in batch if e["ptime"] > D]
                self.v("C14", f"items {late} became retrievable at t={T}, less than a full round trip (2 x {self.ftransit}) after they were loaded", "round-trip")
            left = [e["id"] for e in self.inside if e["ready_at"] >= INF and e["ptime"] < D]
            if left:
                self.v("C14", f"the trip that left at t={D} delivered {[e['id'] for e in batch]} at t={T} but items {left}, loaded before it left, stayed behind", "left-behind")
            if [e["seq"] for e in batch] != sorted(e["seq"] for e in batch):
                self.v("C14", f"batch delivered at t={T} is not in loading order: {[e['id'] for e in batch]}", "order")
        if op[0] == "put" and self.cap is not None and len(self.inside) == self.cap:
            for e in self.inside:
                if e["ready_at"] >= INF:
                    self.deadline[e["seq"]] = min(self.deadline.get(e["seq"], INF), self.now + 2 * self.ftransit)
        for e in self.inside:
            if e["ready_at"] >= INF:
                dl = min(self.deadline.get(e["seq"], INF), e["ptime"] + self.fdelay + 2 * self.ftransit)
                if self.now > dl and not e.get("late_reported"):
                    e["late_reported"] = True
                    why = "the fleet was full" if self.deadline.get(e["seq"], INF) == dl else f"delay {self.fdelay} + round trip {2 * self.ftransit}"
                    self.v("C14", f"item {e['id']} loaded at t={e['ptime']} is still not retrievable at t={self.now}; it had to be by t={dl} ({why})", "late")

    # ---- token firing: C05 order, C06 binding
    def on_fire(self, tid):
        t = self.toks.get(tid)
        if t is None or t.state != "pending":
            self.v("C07", f"token {tid} fired while {'unknown' if t is None else t.state}")
            return
        for w in self.pending(t.side):
            if w is not t and w.key < t.key:
                self.v("C05", f"token {tid} (prio {t.prio}, arrival {t.arr}) granted while token {w.tid} "
                              f"(prio {w.prio}, arrival {w.arr}) of the same side was still waiting")
                break
        t.state = "granted"; t.gtime = self.now; t.gline = self.line_no
        if t.side == "get" and self.c06_on:
            self.refresh_unres()
            if self.timed:
                # entries whose delay ends at this very instant: whether they were already ready when the
                # token fired is not observable
                unsure = [e for e in self.inside if e["ready_at"] == self.now and not e.get("sure")]
                if unsure and (self.mode == "LIFO" or len([s for s in self.unres if s not in {u["seq"] for u in unsure}]) == 0):
                    self.c06_on = False
            if not self.unres:
                self.c06_on = False      # cannot explain the grant; C02/C04 judges deal with it
            else:
                rel = [s for s in self.unres if s in self.released]
                if self.mode == "LIFO" and rel and self.unres[-1] != rel[-1] :
                    # a released item and a later arrival compete: "most recently available" can be read
                    # either way (availability of a released item = its release?); not judged
                    self.c06_on = False
                elif self.mode == "LIFO":
                    self.bound[tid] = self.unres[-1]
                    self.unres.remove(self.bound[tid])
                elif len(rel) > 1:
                    self.c06_on = False  # order among released items is left open by the property
                else:
                    self.bound[tid] = rel[0] if rel else self.unres[0]
                    self.unres.remove(self.bound[tid])

    def refresh_unres(self):
        """append entries that have become available since the last look, in availability order"""
        known = set(self.unres) | set(self.bound.values())
        new = [e for e in self.available() if e["seq"] not in known]
        new.sort(key=lambda e: (e["ready_at"], e["seq"]))
        self.unres.extend(e["seq"] for e in new)

    # ---- put
    def on_put(self, op, head):
        a, tid = op[1], op[2]
        t = self.toks.get(tid)
        valid = t is not None and t.side == "put" and t.state == "granted" and t.actor == a
        if valid:
            if head != "ok":
                self.v("C01", f"put with granted reservation {tid} by its owner failed: {head}")
                self.v("C07", f"valid put rejected: {head}")
                if not self.aliasing:      # (one object stored twice at the same time is outside the domain, as for C02 / C06 / C07)
                    self.v("C20", f"a valid put (granted reservation, by its owner, first use) raised {head}", "kernel-exception")
                if self.family in ("slot", "cbelt"):
                    self._belt_broken = True          # whether the item is on the belt is unknown from here on
                t.state = "used"   # the reservation is gone in any case
                return
            t.state = "used"
            delay = op[5] if len(op) > 5 else 0
            e = dict(id=op[3], kind=op[4], ptime=self.now, ready_at=(10 ** 9 if self.family in ("fleet", "slot", "cbelt") else self.now + delay), seq=self.nput)
            self.nput += 1
            # aliasing of one object stored twice: the filter store re-stamps put_time on the object
            if self.filter:
                for o in self.inside:
                    if o["id"] == e["id"]: o["ptime"] = self.now
            if self.timed and any(o["id"] == e["id"] for o in self.inside):
                # one object stored twice at the same time in an explicit-binding store: outside the
                # domain (a flow item is in one place); binding by object identity becomes ambiguous
                self.aliasing = True; self.c06_on = False
            self.inside.append(e)
            if self.cap is not None and len(self.inside) > self.cap:
                self.v("C01", f"{len(self.inside)} items inside, capacity {self.cap}", "cap-exceeded")
            self.level_changed()
        else:
            if head == "ok":
                self.v("C07", f"put accepted without a valid reservation (token {tid}, actor {a})")
                # keep the books consistent with what the store did
                delay = op[5] if len(op) > 5 else 0
                self.inside.append(dict(id=op[3], kind=op[4], ptime=self.now, ready_at=(10 ** 9 if self.family in ("fleet", "slot", "cbelt") else self.now + delay), seq=self.nput))
                self.nput += 1
                if t is not None and t.state == "granted": t.state = "used"
            elif head != "err RuntimeError":
                self.v("C07", f"invalid put raised {head} instead of RuntimeError")

    # ---- get
    def on_get(self, op, head):
        a, tid = op[1], op[2]
        t = self.toks.get(tid)
        valid = t is not None and t.side == "get" and t.state == "granted" and t.actor == a
        if valid:
            if not head.startswith("item "):
                self.v("C02", f"get with granted reservation {tid} by its owner failed: {head}")
                self.v("C07", f"valid get rejected: {head}")
                if not self.aliasing:
                    self.v("C20", f"a valid get (granted reservation, by its owner, first use) raised {head}", "kernel-exception")
                if self.family in ("slot", "cbelt"):
                    self._belt_broken = True
                if self.cancelled_granted_get:
                    self.v("C06", f"cancelling a granted retrieval disturbed another one: get with granted reservation {tid} failed: {head}", "disturbed")
                t.state = "used"
                self.c06_on = False
                return
            t.state = "used"
            iid = int(head.split()[1])
            cands = [e for e in self.inside if e["id"] == iid]
            if not cands:
                self.v("C02", f"get returned item {iid} which is not inside the store")
                return
            avail = [e for e in cands if (not self.timed) or e["ready_at"] <= self.now]
            if not avail:
                self.v("C11", f"get returned item {iid} before its delay elapsed (ready at {cands[0]['ready_at']}, now {self.now})")
                avail = cands
            # which entry? prefer the one the FIFO spec expects
            exp = self.bound.pop(tid, None) if self.c06_on else None
            e = next((x for x in avail if x["seq"] == exp), None)
            if self.c06_on:
                if e is None:
                    got = avail[0]
                    self.v("C06", f"{self.mode} discipline: retrieval {tid} (granted at line {t.gline}) returned item {iid} "
                                  f"(put #{got['seq']}), expected put #{exp}")
                    if self.family in ("slot", "cbelt"):
                        self.v("C12", f"exit order: retrieval {tid} took item {iid} (entry #{got['seq']}) although the item of entry #{exp} "
                                      f"was the one waiting at the exit for it (items leave a conveyor in entry order)", "exit-order")
                    self.c06_on = False
            if e is None: e = avail[0]
            # filter discipline
            if t.filt is not None and self.filter:
                ok = filt_ok(t.filt, e, self.td, t.gtime)
                if ok is False:
                    self.v("C06", f"filtered retrieval {tid} (filter {t.filt}) received item {iid} kind {e['kind']} "
                                  f"put at {e['ptime']} which does not satisfy the filter")
            self.inside.remove(e)
            self.released.discard(e["seq"])
            self.level_changed()
        else:
            if head.startswith("item "):
                self.v("C07", f"get accepted without a valid reservation (token {tid}, actor {a})")
                iid = int(head.split()[1])
                e = next((x for x in self.inside if x["id"] == iid), None)
                if e is not None: self.inside.remove(e)
                else: self.v("C02", f"get returned item {iid} which is not inside the store")
                if t is not None and t.state == "granted": t.state = "used"
                self.c06_on = False
            elif head != "err RuntimeError":
                self.v("C07", f"invalid get raised {head} instead of RuntimeError")

    # ---- cancel
    def on_cancel(self, op, head):
        side = "put" if op[0] == "cp" else "get"
        tid = op[1]
        t = self.toks.get(tid)
        valid = t is not None and t.side == side and t.state in ("pending", "granted")
        if valid and head.startswith("ok-but-returned"):
            # the cancellation was carried out but reports failure: Machine / Splitter (FIRST_AVAILABLE in-edges) test the return value and
            # raise ValueError("Failed to cancel reserve_get …") - a valid model aborts
            self.v("C20", f"cancellation of live token {tid} was carried out but returned {head.split('-')[-1]}: the nodes that withdraw their surplus "
                          f"requests raise on a falsy return value (a valid model aborts)", "kernel-exception")
            self.v("C07", f"cancellation of live token {tid} reports failure ({head})")
            head = "ok"
        if valid:
            if head != "ok":
                self.v("C07", f"cancellation of live token {tid} failed: {head}")
                if t.side == "get": self.c06_on = False
                return
            if t.state == "granted" and side == "get": self.cancelled_granted_get = True
            if t.state == "granted" and side == "get" and self.c06_on:
                s = self.bound.pop(tid, None)
                if s is not None:
                    self.released.add(s)
                    if self.mode == "LIFO":
                        order = {e["seq"]: (e["ready_at"], e["seq"]) for e in self.inside}
                        self.unres.append(s); self.unres.sort(key=lambda q: order.get(q, (0, q)))
                    else: self.unres.insert(0, s)
            t.state = "cancelled"
        else:
            if head == "ok":
                self.v("C07", f"cancellation of unknown / dead token {tid} accepted")
            elif head != "err RuntimeError":
                self.v("C07", f"invalid cancel raised {head} instead of RuntimeError")

    # ---- edge queries (C11)
    def on_probe(self, op, head):
        w = head.split()
        if op[1] == "stuck":
            if len(w) > 1 and w[1].isdigit() and int(w[1]) > 0:
                self.v("C12", f"{w[1]} item(s) on the belt have no travel process any more: they will never reach the exit", "stuck")
                self.v("C03", f"{w[1]} item(s) are stranded on the conveyor for ever", "stuck")
            return
        if op[1] in ("pat", "mode"): return
        if len(w) < 2 or w[1] in ("skip",): return
        if w[1] == "err":
            self.v("C11", f"query {op[1]} raised {w[2]}", "probe"); return
        if op[1] == "occ":
            if int(w[1]) != len(self.inside):
                self.v("C11", f"occupancy() = {w[1]} but {len(self.inside)} items are inside (in transit + ready)", "probe")
        elif op[1] == "can_put":
            room = True if self.cap is None else len(self.granted("put")) + len(self.inside) < self.cap
            exp = room and not self.pending("put")
            if (w[1] == "true") != exp:
                self.v("C11", f"can_put() = {w[1]} but a space reservation issued now would{'' if exp else ' not'} be granted at once", "probe")
                # the probe a non-blocking node decides on: true without room = it will wait, false with room = it will drop (C09, edge side)
                self.v("C09", f"can_put() = {w[1]} but a space reservation issued now would{'' if exp else ' not'} be granted at once: a non-blocking "
                              f"node that probes this edge {'drops an item although there is room' if exp else 'waits with a finished item'}", "probe")
                if exp:      # C10: the node holds a finished item, the out-edge has room, and the item is not pushed (it is thrown away)
                    self.v("C10", "can_put() = false although a space reservation issued now would be granted at once: the non-blocking node that probes "
                                  "this edge does not push its finished item although the out-edge has room", "probe")
        elif op[1] == "can_get" and self.quiescent:
            exp = len(self.available()) > len(self.granted("get")) and not self.pending("get")
            if (w[1] == "true") != exp:
                self.v("C11", f"can_get() = {w[1]} but a retrieval reservation issued now would{'' if exp else ' not'} be granted at once", "probe")

    # ---- statistics
    def level_changed(self):
        self.area_at_last_update = self.area; self.t_last_update = self.now

    def on_stat(self, head):
        w = head.split()
        if len(w) < 4 or w[1] == "nostat": return
        try: got = float(w[1])
        except ValueError: return
        n = int(w[2])
        if self.family == "pos" and n != len(self.inside):
            self.v("C02", f"store reports {n} items, trace says {len(self.inside)}")
        exp = self.area_at_last_update / self.t_last_update if self.t_last_update > 0 else 0.0
        if abs(got - exp) > 1e-9 * max(1.0, abs(exp)):
            self.v("C18", f"time-averaged level {got} but integral of true occupancy / time = {exp}")

    # ---- after every line: C01 bound, C04 wake-ups
    def after_line(self, op):
        if self.cap is not None:
            g = len(self.granted("put"))
            if g + len(self.inside) > self.cap:
                self.v("C01", f"{len(self.inside)} items + {g} granted space reservations > capacity {self.cap}", "cap-exceeded")
        # C04, space side: the admission test is time-independent for these families
        pp = self.pending("put")
        if pp and self.family == "cbelt":
            pp = []          # admission of the continuous belt: judged by the lock-step and the C12/C13 rules
        if pp and self.family == "slot":
            # one item enters at a time: an unused granted reservation blocks admission; with items moving, admission
            # also depends on the spacing test, which a kernel event re-evaluates at exactly entry + slot delay
            moving = [e["ptime"] for e in self.inside if e["ready_at"] >= 10 ** 9]
            if self.granted("put") or (moving and self.now <= max(moving) + self.sdelay):
                pp = []
        if pp:
            room = True if self.cap is None else len(self.granted("put")) + len(self.inside) < self.cap
            if room:
                self.v("C04", f"space request {min(pp, key=lambda t: t.key).tid} still pending although "
                              f"{len(self.inside)} items + {len(self.granted('put'))} reservations < capacity {self.cap}")
        # C04, retrieval side: only when nothing internal is left at this instant
        pg = self.pending("get")
        if pg and (self.quiescent or not (self.timed or self.filter)):
            head = min(pg, key=lambda t: t.key)
            avail = self.available()
            if self.filter:
                m = [e for e in avail if filt_ok(head.filt, e, self.td, self.now)]
            else:
                m = avail
            # pigeonhole: granted retrievals hold at most that many items
            if len(m) > len(self.granted("get")):
                self.v("C04", f"retrieval request {head.tid} (filter {head.filt}) still pending although {len(m)} matching "
                              f"available items and only {len(self.granted('get'))} granted retrievals")


def judge_prq_trace(header, ops, lines):
    """PriorityReqStore: a request is triggered only if no request of the same side with a better
    (priority, arrival) key is waiting; gets return items in put-acceptance order is not claimed."""
    viol = []
    waiting = {}      # id -> (side, prio)
    cap = int(header.split()[2])
    for ln, (op, line) in enumerate(zip(ops, lines)):
        if line.startswith("err"):
            continue
        parts = [p.strip() for p in line.split("|")]
        rid = int(parts[0].split()[1])
        if op[0] == "pput": waiting[rid] = ("put", op[1])
        elif op[0] == "pget": waiting[rid] = ("get", op[1])
        elif op[0] == "cancel": waiting.pop(op[1], None)
        for f in parts[1].split():
            i = int(f.split(":")[0])
            if i not in waiting:
                viol.append(("C05", ln, "order-or-fire", f"request {i} triggered while not waiting")); continue
            side, pr = waiting[i]
            for w, (sd, p2) in waiting.items():
                if w != i and sd == side and (p2, w) < (pr, i):
                    viol.append(("C05", ln, "order", f"{side} request {i} (prio {pr}) served while request {w} (prio {p2}) of the same side was still waiting"))
                    break
            del waiting[i]
        if int(parts[2]) > cap:
            viol.append(("C01", ln, "cap-exceeded", f"{parts[2]} items in a PriorityReqStore of capacity {cap}"))
    return viol

def judge_store_trace(header, ops, lines):
    if header.split()[1] == "prq":
        return judge_prq_trace(header, ops, lines)
    j = StoreJudge(header)
    for op, line in zip(ops, lines):
        j.feed(op, line)
    return j.viol
