"""Factories whose edges are Buffers, Fleets and both conveyors (the generated node factories of node_family.py use
Buffers only).  No model is involved here: this family serves the parts of C19 / C20 / C03 that live in the Python
runtime — every configuration is run twice in this interpreter and once in each of two FRESH interpreters with
different PYTHONHASHSEED; the complete movement logs (time, edge, put/get, item id) and the final statistics must be
identical, no exception may escape the kernel, time must advance, and the flow items must add up at the end.

    python mixed_family.py --emit <seed> <n>      (used for the fresh interpreters: prints one JSON line per factory)
"""
from common import *
import json as _json

def rand_edge(rng, into_sink, blocking_ends):
    kinds = ["buffer", "buffer", "fleet"]
    if not into_sink and blocking_ends: kinds += ["cbelt", "cbelt", "slot", "slot"]
    k = rng.choice(kinds)
    if k == "buffer":
        return dict(kind="buffer", cap=rng.choice([1, 2, 3]), delay=rng.choice([0, 1, 2]), mode=rng.choice(["FIFO", "FIFO", "LIFO"]))
    if k == "fleet":
        return dict(kind="fleet", cap=rng.choice([2, 3, 4]), delay=rng.choice([2, 4, 8]), transit=rng.choice([0, 1, 2]))
    if k == "cbelt":
        if rng.random() < 0.4:      # non-dyadic geometry: float paths (the 1e-5 tolerance, ceil of inexact quotients)
            return dict(kind="cbelt", length=rng.choice([2, 3, 4, 5]), ilen=rng.choice([1, 0.5, 0.5, 0.7, 0.8, 0.3]), speed=rng.choice([5.76, 3.0, 0.7, 1.3]),
                        acc=rng.choice([0, 1]))
        return dict(kind="cbelt", cap=rng.choice([2, 3, 4, 5]), p1=rng.choice([1, 2, 4]), acc=rng.choice([0, 1]))
    if rng.random() < 0.5:          # real-valued (non-dyadic) slot delay: float paths of the entry-slot gate and the travel timers
        return dict(kind="slot", cap=rng.choice([2, 3, 5]), fdelay=rng.choice([0.1, 0.3, 0.3, 0.7, 0.35]), acc=rng.choice([0, 1]))
    return dict(kind="slot", cap=rng.choice([2, 3, 4]), delay=rng.choice([1, 2]), acc=rng.choice([0, 1]))

def gen_mixed(rng):
    """Source -> e0 -> Machine -> e1 -> (Machine -> e2 ->) Sink; optionally a second source feeding the first machine"""
    two = rng.random() < 0.4
    nm = 2 if two else 1
    blocking = [True] + [rng.random() < 0.75 for _ in range(nm)]          # source, machines (conveyors need blocking ends)
    src_blocking = rng.random() < 0.8
    edges = []
    # e0: source -> m0
    edges.append(rand_edge(rng, False, src_blocking and True))
    for j in range(nm):
        into_sink = (j == nm - 1)
        edges.append(rand_edge(rng, into_sink, blocking[j + 1]))
    cfg = dict(edges=edges, nm=nm, src_blocking=src_blocking, blocking=blocking[1:],
               iat=[rng.choice([1, 1, 2, 3]) for _ in range(rng.randrange(1, 4))],
               pd=[[rng.choice([0, 1, 2, 4]) for _ in range(rng.randrange(1, 3))] for _ in range(nm)],
               wc=[rng.choice([1, 1, 2]) for _ in range(nm)],
               pol=[rng.choice(["FIRST_AVAILABLE", "ROUND_ROBIN", "RANDOM"]) for _ in range(nm)],
               second_source=rng.random() < 0.45, extra_first=rng.random() < 0.6, horizon=rng.choice([40, 80, 120]), rseed=rng.randrange(10 ** 6))
    if not src_blocking and edges[0]["kind"] in ("cbelt", "slot"): edges[0] = dict(kind="buffer", cap=2, delay=0, mode="FIFO")
    if edges[0].get("fdelay", 0) >= 0.3 and rng.random() < 0.8:
        cfg["iat"] = [rng.choice([1, 2]) for _ in range(rng.randrange(1, 3))]     # a space request is always waiting when the entry slot frees
    if edges[0]["kind"] == "cbelt" and rng.random() < 0.7:
        cfg["iat"] = [1]                                                          # likewise for the continuous conveyor (0.125 <= every item length / speed)
    # clock origin: a part of the factories (most of those with real-valued belt geometry) run on a clock that starts at 1e7 (simpy.Environment(initial_time=...), epoch-style
    # time stamps): differences of instants then carry rounding errors near 1e-9, which the library's own tolerances have to absorb
    if rng.random() < (0.6 if ("speed" in edges[0] or "fdelay" in edges[0]) else 0.15): cfg["t0"] = 10_000_000
    return cfg

def gen_construct(rng):
    """a factory assembled by the library's own builders (constructs/mesh.py, constructs/chain.py): the wiring they produce is part of
    the model, so it has to be the same in every interpreter (C19), the model has to run (C20) and conserve its items (C03)"""
    kind = rng.choice(["mesh_ss", "mesh_ss", "mesh", "chain"])
    rows, cols = rng.choice([(2, 2), (2, 3), (3, 2), (3, 3)])
    pol = lambda: rng.choice(["FIRST_AVAILABLE", "ROUND_ROBIN", "ROUND_ROBIN", "RANDOM", 0])
    n = rows * cols if kind != "chain" else rng.choice([2, 3, 4])
    return dict(construct=kind, rows=rows, cols=cols, count=n, edges=[],
                node=[dict(pd=[rng.choice([0, 1, 2, 3]) for _ in range(rng.randrange(1, 3))], wc=rng.choice([1, 1, 2]),
                           blocking=rng.random() < 0.8, inp=pol(), out=pol()) for _ in range(n)],
                cap=rng.choice([1, 2, 3]), delay=rng.choice([0, 0, 1]),
                iat=[rng.choice([1, 1, 2]) for _ in range(rng.randrange(1, 3))], src_out=pol(), src_blocking=rng.random() < 0.8,
                horizon=rng.choice([40, 60, 80]), rseed=rng.randrange(10 ** 6), second_source=False)

def build_and_run_construct(cfg):
    quiet()
    import random as _r
    _r.seed(cfg["rseed"])
    from factorysimpy.nodes.source import Source
    from factorysimpy.nodes.sink import Sink
    from factorysimpy.nodes.machine import Machine
    from factorysimpy.edges.buffer import Buffer
    from factorysimpy.constructs import mesh as _mesh, chain as _chain
    env = simpy.Environment()
    log = []
    def tt(x):
        t = f2t(x)
        return t if t is not None else repr(x)
    def cyc(lst):
        st = {"i": 0}
        def f():
            v = lst[st["i"] % len(lst)]; st["i"] += 1; return t2f(v)
        return f
    def nk(d): return dict(work_capacity=d["wc"], processing_delay=cyc(d["pd"]), blocking=d["blocking"],
                           in_edge_selection=d["inp"], out_edge_selection=d["out"])
    ek = dict(capacity=cfg["cap"], delay=t2f(cfg["delay"]))
    sk = dict(inter_arrival_time=cyc(cfg["iat"]), blocking=cfg["src_blocking"], out_edge_selection=cfg["src_out"])
    err = None; steps = 0
    nodes = []; edges = []; src = sink = None
    try:
        if cfg["construct"] in ("mesh_ss", "mesh"):
            R, C = cfg["rows"], cfg["cols"]
            grid = [[nk(cfg["node"][r * C + c]) for c in range(C)] for r in range(R)]
            if cfg["construct"] == "mesh_ss":
                mn, ed, src, sink = _mesh.connect_mesh_with_source_sink(env, R, C, Machine, Buffer, node_kwargs_grid=grid, edge_kwargs=dict(ek),
                                                                        source_cls=Source, sink_cls=Sink, source_kwargs=sk, sink_kwargs={})
            else:
                mn, ed = _mesh.connect_mesh(env, R, C, Machine, Buffer, node_kwargs_grid=grid, edge_kwargs=dict(ek))
                src = Source(env, "Source", **sk); sink = Sink(env, "Sink")
                for c in range(C):
                    e = Buffer(env, f"B_SRC_{c}", **ek); e.connect(src, mn[0][c]); ed[("Source", mn[0][c].id)] = e
                for c in range(C):
                    e = Buffer(env, f"B_{c}_SINK", **ek); e.connect(mn[R - 1][c], sink); ed[(mn[R - 1][c].id, "Sink")] = e
            nodes = [src] + [x for row in mn for x in row] + [sink]
            edges = [ed[k] for k in sorted(ed, key=lambda k: (str(k[0]), str(k[1])))]
        else:
            ns, es, src, sink = _chain.connect_chain_with_source_sink(env, cfg["count"], Machine, Buffer,
                                                                      node_kwargs_list=[nk(d) for d in cfg["node"]], edge_kwargs=dict(ek),
                                                                      source_cls=Source, sink_cls=Sink, source_kwargs=sk, sink_kwargs={})
            _chain.connect_nodes_with_buffers(ns, es, src, sink)
            nodes = list(ns); edges = list(es)
        for e in edges:
            op, og = e.put, e.get
            def put(ev, item, _op=op, _i=str(e.id)):
                r = _op(ev, item); log.append((tt(env.now), _i, "put", str(item.id))); return r
            def get(ev, _og=og, _i=str(e.id)):
                it = _og(ev); log.append((tt(env.now), _i, "get", str(it.id))); return it
            e.put, e.get = put, get
            st = getattr(e, "inbuiltstore", None)
            if st is not None:
                sg = st.get
                def sget(ev, _sg=sg, _i=str(e.id)):
                    it = _sg(ev); log.append((tt(env.now), _i, "sget", str(getattr(it, "id", it)))); return it
                st.get = sget
        T = t2f(cfg["horizon"]); last_t = -1; same = 0
        while env._queue and env.peek() < T:
            t = env.peek()
            same = same + 1 if t == last_t else 0
            last_t = t
            if same > 20000: err = "livelock"; break
            env.step(); steps += 1
    except Exception as ex:
        err = f"{type(ex).__name__}: {str(ex)[:100]}"
    def occ(e):
        for name in ("occupancy", "get_occupancy", "belt_occupancy"):
            f = getattr(e, name, None)
            if f is not None:
                try: return int(f())
                except Exception: pass
        return None
    ms = [n for n in nodes if type(n).__name__ == "Machine"]
    stats = dict(generated=src.stats["num_item_generated"] if src is not None else 0,
                 src_discarded=src.stats["num_item_discarded"] if src is not None else 0,
                 processed=[m.stats["num_item_processed"] for m in ms], discarded=[m.stats["num_item_discarded"] for m in ms],
                 received=sink.stats["num_item_received"] if sink is not None else 0, occ=[occ(e) for e in edges],
                 held=[len(getattr(m, "worker_thread_list", []) or []) for m in ms], steps=steps,
                 # the wiring the builder produced: the order of every node's edge lists decides what an index / FIRST_AVAILABLE / ROUND_ROBIN means
                 wiring={str(n.id): [[str(e.id) for e in (getattr(n, "in_edges", None) or [])], [str(e.id) for e in (getattr(n, "out_edges", None) or [])]] for n in nodes},
                 node_stats={str(n.id): _statrepr(getattr(n, "stats", None)) for n in nodes},
                 edge_stats={str(e.id): _statrepr(getattr(e, "stats", None)) for e in edges})
    return dict(log=log, stats=stats, error=err)


def _statrepr(x):
    if isinstance(x, dict): return "{" + ", ".join(f"{k!r}: {_statrepr(x[k])}" for k in sorted(x, key=repr)) + "}"
    if isinstance(x, (list, tuple)): return "[" + ", ".join(_statrepr(y) for y in x) + "]"
    return repr(x)

def build_and_run(cfg):
    """returns dict(log=[...], stats={...}, error=None|str)"""
    if cfg.get("construct"): return build_and_run_construct(cfg)
    quiet()
    import random as _r
    _r.seed(cfg["rseed"])
    from factorysimpy.nodes.source import Source
    from factorysimpy.nodes.sink import Sink
    from factorysimpy.nodes.machine import Machine
    from factorysimpy.edges.buffer import Buffer
    from factorysimpy.edges.fleet import Fleet
    from factorysimpy.edges.continuous_conveyor import ConveyorBelt as CBelt
    from factorysimpy.edges.slotted_conveyor import ConveyorBelt as SBelt
    t0 = float(cfg.get("t0", 0))
    env = simpy.Environment(initial_time=t0)
    log = []
    def tt(x):
        x = x - t0          # times are logged relative to the clock origin
        t = f2t(x)
        return t if t is not None else repr(x)       # exact float repr: reproducibility means bit-identical times
    # every item gets the length of the conveyor(s) in this line (one item length per factory)
    ilens = [c["ilen"] for c in cfg["edges"] if "ilen" in c]
    item_length = ilens[0] if ilens else 1
    def mk_edge(i, c):
        if c["kind"] == "buffer": e = Buffer(env, f"E{i}", capacity=c["cap"], delay=t2f(c["delay"]), mode=c["mode"])
        elif c["kind"] == "fleet": e = Fleet(env, f"E{i}", capacity=c["cap"], delay=t2f(c["delay"]), transit_delay=t2f(c["transit"]))
        elif c["kind"] == "cbelt" and "speed" in c:
            e = CBelt(env, f"E{i}", conveyor_length=c["length"], speed=c["speed"], item_length=c["ilen"], accumulating=c["acc"])
        elif c["kind"] == "cbelt": e = CBelt(env, f"E{i}", conveyor_length=c["cap"], speed=8.0 / c["p1"], item_length=1, accumulating=c["acc"])
        else: e = SBelt(env, f"E{i}", capacity=c["cap"], delay=(c["fdelay"] if "fdelay" in c else t2f(c["delay"])), accumulating=c["acc"])
        op, og = e.put, e.get
        def put(ev, item, _op=op, _i=i):
            r = _op(ev, item); log.append((tt(env.now), _i, "put", str(item.id))); return r
        def get(ev, _og=og, _i=i):
            it = _og(ev); log.append((tt(env.now), _i, "get", str(it.id))); return it
        e.put, e.get = put, get
        st = getattr(e, "inbuiltstore", None)
        if st is not None:          # the Sink takes items through edge.inbuiltstore
            sg = st.get
            def sget(ev, _sg=sg, _i=i):
                it = _sg(ev); log.append((tt(env.now), _i, "sget", str(getattr(it, "id", it)))); return it
            st.get = sget
        return e
    edges = [mk_edge(i, c) for i, c in enumerate(cfg["edges"])]
    def cyc(lst):
        st = {"i": 0}
        def f():
            v = lst[st["i"] % len(lst)]; st["i"] += 1; return t2f(v)
        return f
    src = Source(env, "S0", inter_arrival_time=cyc(cfg["iat"]), blocking=cfg["src_blocking"], item_length=item_length)
    nodes = [src]
    ms = []
    for j in range(cfg["nm"]):
        m = Machine(env, f"M{j}", work_capacity=cfg["wc"][j], processing_delay=cyc(cfg["pd"][j]), blocking=cfg["blocking"][j],
                    in_edge_selection=cfg["pol"][j], out_edge_selection="FIRST_AVAILABLE")
        ms.append(m); nodes.append(m)
    sink = Sink(env, "K"); nodes.append(sink)
    extra = None
    if cfg.get("second_source") and cfg.get("extra_first"):
        # the Buffer from the second source becomes in-edge 0 of the first machine: the Fleet / conveyor edge is then a
        # non-first in-edge, whose granted reservations a FIRST_AVAILABLE consumer cancels
        extra_e = Buffer(env, "EX", capacity=2, delay=0)
        s2 = Source(env, "S1", inter_arrival_time=cyc([3, 5]), blocking=True, item_length=item_length)
        extra_e.connect(s2, ms[0]); nodes.append(s2); extra = (s2, extra_e)
    edges[0].connect(src, ms[0])
    for j in range(cfg["nm"]):
        dst = ms[j + 1] if j + 1 < cfg["nm"] else sink
        edges[j + 1].connect(ms[j], dst)
    if cfg.get("second_source") and not cfg.get("extra_first"):
        extra_e = Buffer(env, "EX", capacity=2, delay=0)
        s2 = Source(env, "S1", inter_arrival_time=cyc([3, 5]), blocking=True, item_length=item_length)
        extra_e.connect(s2, ms[0]); nodes.append(s2); extra = (s2, extra_e)
    err = None; steps = 0; last_t = -1; same = 0
    try:
        T = t0 + t2f(cfg["horizon"])
        while env._queue and env.peek() < T:
            t = env.peek()
            same = same + 1 if t == last_t else 0
            last_t = t
            if same > 20000: err = "livelock"; break
            env.step(); steps += 1
    except Exception as ex:
        err = f"{type(ex).__name__}: {str(ex)[:100]}"
    def occ(e):
        for name in ("occupancy", "get_occupancy", "belt_occupancy"):
            f = getattr(e, name, None)
            if f is not None:
                try: return int(f())
                except Exception: pass
        return None
    stats = dict(generated=src.stats["num_item_generated"] + (extra[0].stats["num_item_generated"] if extra else 0),
                 src_discarded=src.stats["num_item_discarded"] + (extra[0].stats["num_item_discarded"] if extra else 0),
                 processed=[m.stats["num_item_processed"] for m in ms], discarded=[m.stats["num_item_discarded"] for m in ms],
                 received=sink.stats["num_item_received"], occ=[occ(e) for e in edges] + ([occ(extra[1])] if extra else []),
                 held=[len(getattr(m, "worker_thread_list", []) or []) for m in ms], steps=steps,
                 # every statistic every node and edge reports (time in states, occupancy histograms, averages …), as text:
                 # reproducibility covers the statistics too
                 node_stats={str(n.id): _statrepr(getattr(n, "stats", None)) for n in nodes},
                 edge_stats={f"E{i}": _statrepr(getattr(e, "stats", None)) for i, e in enumerate(edges)})
    return dict(log=log, stats=stats, error=err)

def _tf(x):
    """log time -> float seconds (ticks when exactly representable, else the repr of the float)"""
    return t2f(x) if isinstance(x, int) else float(x)

def edge_flow_judges(cfg, log):
    """Property oracles on the per-edge movement log of one factory run (time, edge, put/get/sget, item id) — the node-driven
    arrival and service patterns the closed-machine families do not produce.  Returns [(prop, rule, msg)].
    Only claims that follow from the property texts for ANY schedule:
      every edge : an item is retrieved only after it was put, and once per put (C02); never more than capacity inside (C01)
      Buffer     : retrieved no earlier than put + delay (C11)
      Fleet      : retrieved no earlier than put + one round trip = 2 x transit delay (C14)
      conveyors  : retrieved no earlier than put + full belt travel; successive entries at least one item length of travel
                   (one slot delay) apart; retrieved in entry order (C12)"""
    V = []
    EPS = 1e-6
    per = {}
    for (t, i, k, iid) in log:
        if not isinstance(i, int) or i >= len(cfg["edges"]): continue
        per.setdefault(i, []).append((_tf(t), k, iid))
    for i, evs in per.items():
        c = cfg["edges"][i]; kind = c["kind"]
        # a retrieval through the edge API may be logged twice (edge.get and the wrapped store.get): keep one per call
        seq = []
        for j, (t, k, iid) in enumerate(evs):
            if k == "get" and j > 0 and evs[j - 1] == (t, "sget", iid): continue
            seq.append((t, "put" if k == "put" else "get", iid))
        if kind == "buffer": cap, lag = c["cap"], t2f(c["delay"])
        elif kind == "fleet": cap, lag = c["cap"], 2 * t2f(c["transit"])
        elif kind == "slot": cap, lag = c["cap"], c["cap"] * (c["fdelay"] if "fdelay" in c else t2f(c["delay"]))
        elif "speed" in c:
            from fractions import Fraction
            cap = int(Fraction(str(c["length"])) / Fraction(str(c["ilen"])))       # whole items that fit: floor(L / l), exactly
            lag = c["length"] / c["speed"]
        else: cap, lag = c["cap"], c["cap"] * t2f(c["p1"])
        gap = None
        if kind == "slot": gap = c["fdelay"] if "fdelay" in c else t2f(c["delay"])
        elif kind == "cbelt":
            # the spacing test of the library uses the length of the ITEM (one length per factory, see build_and_run)
            ilens = [x["ilen"] for x in cfg["edges"] if "ilen" in x]
            il = ilens[0] if ilens else 1
            gap = (il / c["speed"]) if "speed" in c else il * t2f(c["p1"])
        inside = {}        # item id -> put time
        order = []         # ids in entry order, still inside
        last_put = None
        for (t, k, iid) in seq:
            if k == "put":
                if iid in inside:
                    V.append(("C02", "flow-dup-put", f"edge {i} ({kind}): item {iid} put at {t} while it is still inside")); break
                inside[iid] = t; order.append(iid)
                if len(inside) > cap:
                    V.append(("C01", "flow-capacity", f"edge {i} ({kind}, capacity {cap}) holds {len(inside)} items at t={t}"))
                    if kind in ("slot", "cbelt"):      # "never more than capacity items are on it" is part of C12 as well
                        V.append(("C12", "flow-capacity", f"edge {i} ({kind}, capacity {cap}) holds {len(inside)} items at t={t}"))
                    break
                if gap is not None and last_put is not None and t - last_put < gap - EPS:
                    V.append(("C12", "flow-spacing", f"edge {i} ({kind}): items entered at {last_put} and {t}, less than one item length of travel ({gap}) apart")); break
                last_put = t
            else:
                if iid not in inside:
                    V.append(("C02", "flow-get-unknown", f"edge {i} ({kind}): item {iid} retrieved at {t} but it is not inside (never put, or retrieved twice)")); break
                if t - inside[iid] < lag - EPS:
                    p_ = {"buffer": "C11", "fleet": "C14"}.get(kind, "C12")
                    rule_ = "flow-early"
                    if kind == "cbelt" and "speed" in c and t - inside[iid] >= c["ilen"] * cap / c["speed"] - EPS:
                        # known finding KF-D31: the code's travel time is item_length * capacity / speed, shorter than
                        # conveyor_length / speed when the item length does not divide the belt length
                        rule_ = "flow-early-short-belt"
                    V.append((p_, rule_, f"edge {i} ({kind}): item {iid} put at {inside[iid]} retrieved at {t}, earlier than the minimum {lag} after it entered")); break
                # the destination is machine i (edge i feeds ms[i]); with one worker thread its retrievals are sequential, each
                # right after its grant, so the order of the gets is the order in which the belt offered the items
                single = i < cfg["nm"] and cfg["wc"][i] == 1
                if kind in ("slot", "cbelt") and single and order and order[0] != iid:
                    V.append(("C12", "flow-order", f"edge {i} ({kind}{' accumulating' if c.get('acc') else ''}): item {iid} retrieved at {t} before item {order[0]} that entered earlier")); break
                del inside[iid]; order.remove(iid)
        # C04 seen from outside, slotted conveyor fed by the blocking source S0 whose inter-arrival times never exceed the slot
        # delay: a space request is then waiting whenever the entry slot frees, so the next item enters exactly one slot delay
        # after the previous one unless the belt was full at that instant
        if kind == "slot" and i == 0 and cfg.get("src_blocking") and not cfg.get("second_source_into_e0") \
                and max(t2f(x) for x in cfg["iat"]) <= gap + EPS:
            puts = [t for (t, k, iid) in seq if k == "put"]
            for a_, b_ in zip(puts, puts[1:]):
                due = a_ + gap
                occ = sum(1 for (t, k, _) in seq if k == "put" and t <= a_ + EPS) - sum(1 for (t, k, _) in seq if k == "get" and t < due - EPS)
                if occ < cap and b_ > due + 1e-6:
                    for p_ in ("C04", "C10"):
                        V.append((p_, "flow-late-admission", f"edge {i} (slot, delay {gap}, capacity {cap}): an item entered at {a_}, the entry slot was free again at "
                                      f"{due} with {occ} items on the belt and the blocking source waiting, but the next item entered only at {b_}"))
                    break
        # the same for the continuous conveyor, as long as the belt has never been held up: every item that reached the exit so far
        # was taken at the instant it arrived (a stalled or piled-up belt may legitimately refuse an entry), so the belt has moved all
        # the time, it is not full, and the room for the next item is there exactly item_length / speed after the previous entry
        if kind == "cbelt" and i == 0 and cfg.get("src_blocking") and not cfg.get("second_source_into_e0") \
                and max(t2f(x) for x in cfg["iat"]) <= gap - 1e-3 and il == c.get("ilen", 1):      # the items have the length the belt was built for
            travel = (c["ilen"] * cap / c["speed"]) if "speed" in c else lag
            putt = {}; gett = {}
            for (t, k, iid) in seq:
                if k == "put": putt.setdefault(iid, t)
                else: gett.setdefault(iid, t)
            puts = [(t, iid) for (t, k, iid) in seq if k == "put"]
            for (a_, _), (b_, _) in zip(puts, puts[1:]):
                due = a_ + gap
                held_up = False
                for (tp, x) in puts:
                    if tp > a_: break
                    arr = tp + travel
                    if arr > due + 1e-3: continue                   # still travelling when the room appears
                    if x not in gett or gett[x] > arr + 1e-6 or arr > due - 1e-3: held_up = True; break
                if held_up: break
                if b_ > due + 1e-6:
                    for p_ in ("C04", "C10"):
                        V.append((p_, "flow-late-admission", f"edge {i} (continuous conveyor, item length / speed {gap}, capacity {cap}, never held up so far): an item "
                                      f"entered at {a_}, the room for the next one was there at {due} with the blocking source waiting, but the next item entered only at {b_}"))
                    break
    return V

def digest(r):
    return hashlib.sha256(_json.dumps([r["log"], r["stats"], r["error"]], sort_keys=True).encode()).hexdigest()[:16]

def configs(seed, n):
    rng = random.Random(seed * 9176 + 3)
    # every fifth factory is assembled by the library's own builders (constructs/)
    out = []
    for i in range(n):
        c = gen_construct(rng) if i % 5 == 4 else gen_mixed(rng)
        if i % 6 == 1 and not c.get("construct"):
            # profile "saturated real-valued conveyor on an epoch clock": blocking source faster than the belt admits, real-valued
            # item length / speed, clock origin 1e7 - the admission instants are then decided by the library's float tolerances
            c["edges"][0] = dict(kind=rng.choice(["cbelt", "cbelt", "slot"]), length=rng.choice([2, 3, 4, 5]), ilen=rng.choice([0.5, 0.7, 0.8, 0.3, 0.1]),
                                 speed=rng.choice([5.76, 3.0, 0.7, 1.3, 1.0]), acc=rng.choice([0, 1]))
            if c["edges"][0]["kind"] == "slot":
                c["edges"][0] = dict(kind="slot", cap=rng.choice([2, 3, 5]), fdelay=rng.choice([0.1, 0.3, 0.7, 0.35]), acc=rng.choice([0, 1]))
            else:
                for e in c["edges"][1:]:
                    if "ilen" in e: e["ilen"] = c["edges"][0]["ilen"]
            c["src_blocking"] = True; c["iat"] = [rng.choice([0, 1]) or 1]; c["t0"] = 10_000_000
        out.append(c)
    return out

def emit(seed, n):
    for cfg in configs(seed, n):
        r = build_and_run(cfg)
        say(_json.dumps(dict(d=digest(r), e=r["error"], n=len(r["log"]))))

MIXED_BUDGET = {"quick": 40, "thorough": 600}

FLOW_BUDGET = {"quick": 120, "thorough": 3000}

def _flow_chunk(args):
    seed, lo, hi = args
    quiet()
    out = []; kinds = {}; moves = 0; crashes = {}
    cfgs = configs(seed, hi)[lo:hi]
    for c in cfgs:
        a = build_and_run(c)
        moves += len(a["log"])
        for e in c["edges"]: kinds[e["kind"]] = kinds.get(e["kind"], 0) + 1
        if a["error"]: crashes[a["error"].split(":")[0]] = crashes.get(a["error"].split(":")[0], 0) + 1
        for (p, rule, msg) in edge_flow_judges(c, a["log"]): out.append((p, rule, msg, c))
    return out, kinds, moves, crashes

def run_flow_family(tier, seed):
    """one run per factory, per-edge flow judges only (C01 C02 C11 C12 C14); returns the same shape as run_mixed_family"""
    import multiprocessing
    n = FLOW_BUDGET[tier]
    nproc = 1 if n <= 200 else 14
    step = (n + nproc - 1) // nproc
    chunks = [(seed + 500, i, min(n, i + step)) for i in range(0, n, step)]
    if nproc == 1: res = [_flow_chunk(chunks[0])]
    else:
        with multiprocessing.Pool(nproc) as pool: res = pool.map(_flow_chunk, chunks)
    V = []; kinds = {}; moves = 0; crashes = {}
    for out, k, m, cr in res:
        V += out; moves += m
        for a, b in k.items(): kinds[a] = kinds.get(a, 0) + b
        for a, b in cr.items(): crashes[a] = crashes.get(a, 0) + b
    return dict(n=n, viol=V, kinds=kinds, crashes=crashes, hashseeds=[], movements=moves)

def run_mixed_family(tier, seed):
    """returns dict(n, viol=[(prop, rule, msg, cfg)], kinds, crashes, hashseed_runs)"""
    n = MIXED_BUDGET[tier]
    cfgs = configs(seed, n)
    first = [build_and_run(c) for c in cfgs]
    second = [build_and_run(c) for c in cfgs]
    V = []
    for c, a in zip(cfgs, first):
        for (p, rule, msg) in edge_flow_judges(c, a["log"]): V.append((p, rule, msg, c))
    kinds = {}
    for c in cfgs:
        for e in c["edges"]: kinds[e["kind"]] = kinds.get(e["kind"], 0) + 1
    # fresh interpreters with different hash seeds
    outs = []
    for hs in ("0", "4242"):
        p = subprocess.run([sys.executable, os.path.abspath(__file__), "--emit", str(seed), str(n)], capture_output=True, text=True,
                           env=dict(os.environ, PYTHONHASHSEED=hs, PYTHONPATH=SRC, VERIF_REPO=REPO), timeout=3600)
        lines = [l for l in p.stdout.split("\n") if l.startswith("{")]
        outs.append((hs, [_json.loads(l) for l in lines] if len(lines) == n else None, p.stderr[-300:]))
    crashes = {}
    for i, (c, a, b) in enumerate(zip(cfgs, first, second)):
        if a["error"]:
            crashes[a["error"].split(":")[0]] = crashes.get(a["error"].split(":")[0], 0) + 1
        if digest(a) != digest(b):
            V.append(("C19", "repro", "two runs of the same model with the same seed in one interpreter differ", c))
        for hs, res, errtxt in outs:
            if res is None:
                V.append(("C19", "repro-infra", f"fresh interpreter (PYTHONHASHSEED={hs}) did not return {n} results: {errtxt}", c)); break
            if res[i]["d"] != digest(a):
                V.append(("C19", "repro-hashseed", f"the same model and seed give a different run in a fresh interpreter with PYTHONHASHSEED={hs} "
                                 f"({res[i]['n']} vs {len(a['log'])} movements, error {res[i]['e']} vs {a['error']})", c))
                break
        if a["error"]:
            V.append(("C20", "kernel-exception" if a["error"] != "livelock" else "livelock", f"a valid mixed-edge factory did not run to its horizon: {a['error']}", c))
        else:
            st = a["stats"]
            if None not in st["occ"]:
                inside = sum(st["occ"]) + sum(st["held"])
                total = st["received"] + st["src_discarded"] + sum(st["discarded"]) + inside
                # every source may hold one generated item it has not pushed yet
                nsrc = 2 if c.get("second_source") else 1
                if not (st["generated"] - nsrc <= total <= st["generated"]):
                    V.append(("C03", "count", f"generated {st['generated']} but received {st['received']} + discarded "
                                     f"{st['src_discarded'] + sum(st['discarded'])} + in edges {sum(st['occ'])} + in machines {sum(st['held'])}", c))
    return dict(n=n, viol=V, kinds=kinds, crashes=crashes, hashseeds=[hs for hs, _, _ in outs],
                movements=sum(len(a["log"]) for a in first))

if __name__ == "__main__":
    if len(sys.argv) >= 4 and sys.argv[1] == "--emit":
        emit(int(sys.argv[2]), int(sys.argv[3]))
