"""Adapters that execute abstract store operations on the real FactorySimPy classes and
render the observable result of each operation as one text line (same format as lean/Main.lean)."""
from common import *
from factorysimpy.helper.item import Item

FOREIGN = 900000      # token ids >= FOREIGN denote events the store has never issued
NONE_TOK = 999999     # the value None passed as a token

# watchdog: one operation on the real class must return within OP_TIMEOUT seconds OF CPU TIME of this process (a changed tree may loop
# forever; CPU time, not wall-clock time: on a loaded machine a starved worker must not be mistaken for a hanging library).
# BaseException so that no `except Exception` of the library swallows it
import signal

class EmptyCarrier(Item):
    """a user flow-item class whose instances are falsy (an empty load carrier: len() == 0).  The stores move objects, whatever their truth
    value is: every fourth object of a history is one of these."""
    def __len__(self): return 0
OP_TIMEOUT = float(os.environ.get("VERIF_OP_TIMEOUT", "10"))
class OpTimeout(BaseException): pass
def _on_alarm(signum, frame): raise OpTimeout()
def _arm():
    try:
        signal.signal(signal.SIGPROF, _on_alarm); signal.setitimer(signal.ITIMER_PROF, OP_TIMEOUT)
    except ValueError:      # not in the main thread
        pass
def _disarm():
    try: signal.setitimer(signal.ITIMER_PROF, 0)
    except ValueError: pass

def mk_filter(name):
    if name == "dflt": return None
    if name == "always": return lambda x: True
    if name == "never": return lambda x: False
    if name == "even": return lambda x: x.hid % 2 == 0
    if name.startswith("kind:"):
        k = int(name[5:]); return lambda x: x.kind == k
    raise ValueError(name)

def render(op):
    return " ".join(str(x) for x in op)

class ImplBase:
    """Common driver: token registry, actors, kernel stepping, triggered-order capture."""
    def __init__(self):
        self.env = RecEnv()
        self.toks = []            # tid -> event
        self.foreign = {}
        self.actors = {}
        self.items = {}
        self._tokid = {}

    def actor(self, i):
        if i not in self.actors: self.actors[i] = Actor(i)
        return self.actors[i]

    def item(self, hid, kind=0):
        if hid not in self.items:
            it = (EmptyCarrier if hid % 4 == 3 else Item)(f"it{hid}"); it.hid = hid; it.kind = kind
            self.items[hid] = it
        return self.items[hid]

    def tok(self, tid):
        if tid == NONE_TOK: return None
        if tid < len(self.toks): return self.toks[tid]
        if tid not in self.foreign: self.foreign[tid] = simpy.Event(self.env)
        return self.foreign[tid]

    def reg(self, ev):
        self._tokid[id(ev)] = len(self.toks)
        self.toks.append(ev)
        return len(self.toks) - 1

    def fired_since(self, mark):
        out = []
        for ev, t in self.env.fired_log[mark:]:
            tid = self._tokid.get(id(ev))
            if tid is not None: out.append(f"{tid}@{f2t(t)}")
        return out

    def call(self, actor, fn, *a):
        # actor 0 is "set-up code": it calls from outside any SimPy process (env.active_process is None, as in the library's own tests);
        # the other actors are processes.  Ownership is decided by equality, and None == None.
        self.env._active_proc = self.actor(actor) if actor not in (None, 0) else None
        try:
            return ("val", fn(*a))
        except Exception as e:       # outcome class is part of the observable
            return ("err", type(e).__name__)
        finally:
            self.env._active_proc = None

    # kernel control
    def adv(self, dt):
        if dt > 0: self.env.run(until=self.env.now + t2f(dt))
    def settle(self):
        n = 0
        while self.env.peek() == self.env.now:
            self.env.step(); n += 1
            if n > 100000: raise RuntimeError("zero-time livelock in settle")
    def kstep(self):
        mark = len(self.env.fired_log); n = 0
        while self.env.peek() == self.env.now:
            self.env.step(); n += 1
            if self.fired_since(mark) or self.observable_changed(): break
            if n > 100000: raise RuntimeError("zero-time livelock in kstep")
    def observable_changed(self):
        return False

    def do(self, op):
        mark = len(self.env.fired_log)
        if getattr(self, "_hung", False): return "err Hang | "
        try:
            _arm()
            try:
                res = self.dispatch(op)
            finally:
                _disarm()
        except OpTimeout:            # the real code did not return within OP_TIMEOUT seconds (a zero-time livelock, an endless loop)
            self._hung = True
            res = "err Hang"
        except Exception as e:       # exception escaping the kernel (adv/settle/kstep)
            res = "err " + type(e).__name__
        if res is None: return None
        if res.startswith("stat") or res.startswith("probe"): return res
        return f"{res} | {' '.join(map(str, self.fired_since(mark)))}"

    def kernel_op(self, op):
        k = op[0]
        if k == "adv": self.adv(op[1]); return "-"
        if k == "settle": self.settle(); return "-"
        if k == "kstep": self.kstep(); return "-"
        return None

    @staticmethod
    def fmt(r, kind):
        tag, v = r
        if tag == "err": return "err " + v
        if kind == "ok": return "ok"
        # an accepted cancellation reports success: the nodes test the return value (Machine / Splitter raise when it is falsy)
        if kind == "cancel": return "ok" if v else f"ok-but-returned-{v!r}"
        if kind == "item":
            it = v[0] if isinstance(v, tuple) else v
            return f"item {getattr(it, 'hid', '?')}"
        return str(v)


class PosImpl(ImplBase):
    """ReservableReqStore / ReservablePriorityReqStore / ReservablePriorityReqFilterStore."""
    def __init__(self, cap, prio, filt, td):
        super().__init__()
        self.prio, self.filt, self.td = prio, filt, td
        capacity = float("inf") if cap == "inf" else int(cap)
        self.pscale = 0.5 if (cap != "inf" and int(cap) % 2 == 1) else 1      # odd capacity: priorities in halves (same order as the model's integers)
        if filt:
            from factorysimpy.base.reservable_priority_req_filter_store import ReservablePriorityReqFilterStore as C
            # every other configuration assigns trigger_delay after construction (a public attribute the store reads when it is used), the
            # way the library's examples set node and edge parameters; decided by the header, so a replay does the same
            if (int(td) + (0 if cap == "inf" else int(cap))) % 2 == 1:
                self.store = C(self.env, capacity=capacity)
                self.store.trigger_delay = t2f(td)
            else:
                self.store = C(self.env, capacity=capacity, trigger_delay=t2f(td))
        elif prio:
            from factorysimpy.base.reservable_priority_req_store import ReservablePriorityReqStore as C
            self.store = C(self.env, capacity=capacity)
        else:
            from factorysimpy.base.reservable_req_store import ReservableReqStore as C
            self.store = C(self.env, capacity=capacity)

    def header(self, cap):
        return f"new pos {cap} {int(self.prio)} {int(self.filt)} {self.td}"

    def dispatch(self, op):
        k = op[0]; st = self.store
        r = self.kernel_op(op)
        if r is not None: return r
        if k == "rp":
            _, a, p = op
            p = p * self.pscale
            r = self.call(a, (lambda: st.reserve_put(priority=p)) if self.prio else st.reserve_put)
            if r[0] == "err": return "err " + r[1]
            return f"tok {self.reg(r[1])}"
        if k == "rg":
            _, a, p, f = op
            p = p * self.pscale
            if self.filt: fn = lambda: st.reserve_get(priority=p, filter=mk_filter(f))
            elif self.prio: fn = lambda: st.reserve_get(priority=p)
            else: fn = st.reserve_get
            r = self.call(a, fn)
            if r[0] == "err": return "err " + r[1]
            return f"tok {self.reg(r[1])}"
        if k == "put":
            _, a, t, i, kd = op
            return self.fmt(self.call(a, st.put, self.tok(t), self.item(i, kd)), "ok")
        if k == "get":
            _, a, t = op
            return self.fmt(self.call(a, st.get, self.tok(t)), "item")
        if k == "cp":
            return self.fmt(self.call(None, st.reserve_put_cancel, self.tok(op[1])), "cancel")
        if k == "cg":
            return self.fmt(self.call(None, st.reserve_get_cancel, self.tok(op[1])), "cancel")
        if k == "stat":
            now = f2t(self.env.now)
            if self.filt: return f"stat nostat {len(st.items)} {now}"
            return f"stat {st.time_averaged_num_of_items_in_store!r} {len(st.items)} {now}"
        raise ValueError(op)


class _DummyNode:
    def __init__(self, i): self.id = i

class BufImpl(ImplBase):
    """BufferStore directly (family buf) or through the Buffer edge (family bufedge)."""
    def __init__(self, family, cap, mode):
        super().__init__()
        self.family, self.mode = family, mode
        self.next_delay = 0
        if family == "bufedge":
            from factorysimpy.edges.buffer import Buffer
            self.ndraws = 0; self.naccepted = 0
            def _draw():
                self.ndraws += 1; return t2f(self.next_delay)
            # every other configuration (odd capacity) is constructed with the default delay and gets its delay source assigned afterwards,
            # the way the library's examples set edge parameters: the delay in force is the one the attribute holds at the put
            if int(cap) % 2 == 1:
                self.edge = Buffer(self.env, "B", capacity=int(cap), mode=mode)
                self.edge.delay = _draw
            else:
                self.edge = Buffer(self.env, "B", capacity=int(cap), delay=_draw, mode=mode)
            self.edge.src_node = _DummyNode("src"); self.edge.dest_node = _DummyNode("dst")
            self.store = self.edge.inbuiltstore
            self.api = self.edge
        else:
            from factorysimpy.base.buffer_store import BufferStore
            capacity = float("inf") if cap == "inf" else int(cap)
            self.store = BufferStore(self.env, capacity=capacity, mode=mode)
            self.edge = None
            self.api = self.store

    def observable_changed(self):
        n = len(self.store.ready_items)
        ch = n != getattr(self, "_nready", 0)
        self._nready = n
        return ch

    def kstep(self):
        self._nready = len(self.store.ready_items)
        super().kstep()

    def dispatch(self, op):
        k = op[0]; api = self.api
        r = self.kernel_op(op)
        if r is not None: return r
        if k == "rp":
            r = self.call(op[1], api.reserve_put)
            return "err " + r[1] if r[0] == "err" else f"tok {self.reg(r[1])}"
        if k == "rg":
            r = self.call(op[1], api.reserve_get)
            return "err " + r[1] if r[0] == "err" else f"tok {self.reg(r[1])}"
        if k == "put":
            _, a, t, i, kd, d = op
            it = self.item(i, kd)
            if self.edge is not None:
                self.next_delay = d
                r = self.fmt(self.call(a, api.put, self.tok(t), it), "ok")
                if self.family == "bufedge":       # (Fleet and the conveyors take no per-item delay)
                    if r == "ok":
                        self.naccepted += 1
                        if self.ndraws != self.naccepted:      # one draw per accepted put, none anywhere else (a rejected put may draw or not)
                            r += f" !draws={self.ndraws}/{self.naccepted}"
                    self.ndraws = self.naccepted
                return r
            return self.fmt(self.call(a, api.put, self.tok(t), (it, t2f(d))), "ok")
        if k == "get":
            return self.fmt(self.call(op[1], api.get, self.tok(op[2])), "item")
        if k == "cp":
            return self.fmt(self.call(None, api.reserve_put_cancel, self.tok(op[1])), "cancel")
        if k == "cg":
            return self.fmt(self.call(None, api.reserve_get_cancel, self.tok(op[1])), "cancel")
        if k == "final":
            if self.edge is not None:
                r = self.call(None, self.edge.update_final_buffer_avg_content, self.env.now)
                return "err " + r[1] if r[0] == "err" else "-"
            # store level: the same bookkeeping step, through the store's own method
            r = self.call(None, self.store._update_time_averaged_level)
            return "err " + r[1] if r[0] == "err" else "-"
        if k == "stat":
            now = f2t(self.env.now)
            n = len(self.store.items) + len(self.store.ready_items)
            if self.edge is not None:
                v = self.edge.stats["time_averaged_num_of_items_in_buffer"]
            else:
                v = self.store.time_averaged_num_of_items_in_store
            return f"stat {float(v)!r} {n} {now}"
        if k == "probe":
            if op[1] == "ready":
                return "probe " + " ".join(str(x.hid) for x in (self.edge.ready_items() if self.edge is not None else self.store.ready_items))
            if self.edge is None:
                # the store has no queries of its own; answer from its public lists as the edge does
                st = self.store
                if op[1] == "occ": return f"probe {len(st.items) + len(st.ready_items)}"
                return "probe skip"
            if op[1] == "can_put": r = self.call(None, self.edge.can_put)
            elif op[1] == "can_get": r = self.call(None, self.edge.can_get)
            elif op[1] == "occ": r = self.call(None, self.edge.occupancy)
            else: raise ValueError(op)
            if r[0] == "err": return "probe err " + r[1]
            v = r[1]
            return "probe " + (str(v).lower() if isinstance(v, bool) else str(v))
        raise ValueError(op)


class FleetImpl(BufImpl):
    """FleetStore through the Fleet edge.  Kernel control is event by event: `ev` processes the next
    fleet-internal kernel event (token and process-termination events in front of it are transparent),
    `adv` only moves the clock up to (not beyond) the next pending event."""
    def __init__(self, cap, delay, transit):
        ImplBase.__init__(self)
        from factorysimpy.edges.fleet import Fleet
        self.family, self.mode = "fleet", "FIFO"
        self.next_delay = 0
        self.edge = Fleet(self.env, "F", capacity=int(cap), delay=t2f(int(delay)), transit_delay=t2f(int(transit)))
        self.edge.src_node = _DummyNode("src"); self.edge.dest_node = _DummyNode("dst")
        self.store = self.edge.inbuiltstore
        self.api = self.edge
        self.edge.ready_items = self.edge.get_ready_items
        self.edge.occupancy = self.edge.get_occupancy
        self.edge.update_final_buffer_avg_content = self.edge.update_final_fleet_avg_content
        self.avail = []         # (item id, time) in the order items became retrievable
        self._seen_ready = set()

    def transparent(self, entry):
        # reservation tokens, process-termination events and the left-over `until` event of run(until=T)
        # (this SimPy re-schedules it with priority -1) have no effect on the store
        t, prio, eid, event = entry
        return prio == -1 or id(event) in self._tokid or isinstance(event, simpy.events.Process)

    def next_time(self):
        """time (ticks) of the next non-transparent event, or None"""
        c = [(t, p, e) for (t, p, e, evt) in self.env._queue if not self.transparent((t, p, e, evt))]
        return f2t(min(c)[0]) if c else None

    def ev(self):
        while self.env._queue:
            entry = self.env._queue[0]
            tr = self.transparent(entry)
            self.env.step()
            if not tr: break

    def kernel_op(self, op):
        k = op[0]
        if k == "ev": self.ev(); return f"t={f2t(self.env.now)}"
        if k == "adv": self.adv(op[1]); return "-"
        if k in ("settle", "kstep"): raise ValueError("fleet histories use ev/adv")
        return None

    def do(self, op):
        res = ImplBase.do(self, op)
        if res is None or res.startswith("stat") or res.startswith("probe"): return res
        new = [it.hid for it in self.store.ready_items if id(it) not in self._seen_ready]
        self._seen_ready = set(id(it) for it in self.store.ready_items)     # what is at the exit now
        return res + " | " + " ".join(map(str, new))

    def dispatch(self, op):
        if op[0] == "stat":
            now = f2t(self.env.now)
            n = len(self.store.items) + len(self.store.ready_items)
            return f"stat {float(self.edge.stats['time_averaged_num_of_items_in_fleet'])!r} {n} {now}"
        if type(self) is FleetImpl and op[0] in ("rp", "rg") and len(op) > 2:
            # Fleet.reserve_put / reserve_get only forward to the store; the store's `priority` argument (which no edge or node
            # passes) is exercised by calling the store's own method
            fn = self.store.reserve_put if op[0] == "rp" else self.store.reserve_get
            r = self.call(op[1], lambda: fn(priority=op[2]))
            return "err " + r[1] if r[0] == "err" else f"tok {self.reg(r[1])}"
        return BufImpl.dispatch(self, op)


class SlotImpl(FleetImpl):
    """Slotted ConveyorBelt (edges/slotted_conveyor.py) with its BeltStore; event-by-event kernel control."""
    def __init__(self, cap, delay, accumulating=True):
        ImplBase.__init__(self)
        from factorysimpy.edges.slotted_conveyor import ConveyorBelt
        self.family, self.mode = "slot", "FIFO"
        self.next_delay = 0
        self.edge = ConveyorBelt(self.env, "CB", capacity=int(cap), delay=t2f(int(delay)), accumulating=accumulating)
        self.edge.src_node = _DummyNode("src"); self.edge.dest_node = _DummyNode("dst")
        self.store = self.edge.belt
        self.api = self.edge
        self.edge.ready_items = lambda: self.store.ready_items
        self.edge.occupancy = self.edge.belt_occupancy
        self.edge.update_final_buffer_avg_content = self.edge.update_final_conveyor_avg_content
        self._seen_ready = set()
        self.env.step()          # Initialize of ConveyorBelt.behaviour: it parks on item_arrival_event (never triggered)

    def transparent(self, entry):
        t, prio, eid, event = entry
        return FleetImpl.transparent(self, entry) or event is self.store.ready_item_event

    def dispatch(self, op):
        if op[0] == "stat":
            now = f2t(self.env.now)
            n = len(self.store.items) + len(self.store.ready_items)
            return f"stat {float(self.edge.stats['time_averaged_num_of_items_in_conveyor'])!r} {n} {now}"
        if op[0] == "probe" and op[1] in ("can_put", "can_get"):
            return "probe skip"      # both raise AttributeError (defect D6); not part of the model
        if op[0] == "probe" and op[1] == "mode":
            return f"probe {self.edge.state} {self.store.noaccumulation_mode_on}"
        if op[0] == "cp":      # the edge has no cancel methods; nodes cancel through event.resourcename (the belt store)
            return self.fmt(self.call(None, self.store.reserve_put_cancel, self.tok(op[1])), "cancel")
        if op[0] == "cg":
            return self.fmt(self.call(None, self.store.reserve_get_cancel, self.tok(op[1])), "cancel")
        if op[0] in ("rp", "rg") and len(op) > 2:
            # the slotted ConveyorBelt only forwards reserve_put / reserve_get to its BeltStore; the store's `priority`
            # argument (which no edge or node passes) is exercised by calling the store's own method
            fn = self.store.reserve_put if op[0] == "rp" else self.store.reserve_get
            r = self.call(op[1], lambda: fn(priority=op[2]))
            return "err " + r[1] if r[0] == "err" else f"tok {self.reg(r[1])}"
        return BufImpl.dispatch(self, op)


class CBeltImpl(FleetImpl):
    """Continuous ConveyorBelt (edges/continuous_conveyor.py) with its BeltStore; event-by-event kernel control.
    cap, p1 (ticks of item_length/speed), accumulating flag.  item_length = 1, conveyor_length = cap, speed = 8/p1."""
    def __init__(self, cap, p1, accumulating=1):
        ImplBase.__init__(self)
        from factorysimpy.edges.continuous_conveyor import ConveyorBelt
        self.family, self.mode = "cbelt", "FIFO"
        self.next_delay = 0
        cap, p1 = int(cap), int(p1)
        assert p1 in (1, 2, 4, 8)
        self.edge = ConveyorBelt(self.env, "CB", conveyor_length=cap, speed=8.0 / p1, item_length=1, accumulating=1 if accumulating else 0)
        assert self.edge.capacity == cap
        self.edge.src_node = _DummyNode("src"); self.edge.dest_node = _DummyNode("dst")
        self.store = self.edge.belt
        self.api = self.edge
        self.edge.update_final_buffer_avg_content = self.edge.update_final_conveyor_avg_content
        self._seen_ready = set()
        self.env.step()          # Initialize of ConveyorBelt.behaviour: it parks on item_arrival_event

    def item(self, hid, kind=0):
        it = ImplBase.item(self, hid, kind)
        it.length = 1
        return it

    def do(self, op):
        prev = None
        if op[0] == "put" and self.store.items:
            last = self.store.items[-1][0]
            try:
                now = self.env.now
                ist = getattr(last, "interruption_start_time", None)
                tob = now - last.conveyor_entry_time - getattr(last, "total_interruption_time", 0) - ((now - ist) if ist is not None else 0)
                prev = f2t(tob)
            except Exception:
                prev = "?"
        elif op[0] == "put":
            prev = "-"
        res = ImplBase.do(self, op)
        if res is None or res.startswith("stat") or res.startswith("probe"): return res
        newit = [it for it in self.store.ready_items if id(it) not in self._seen_ready]
        self._seen_ready = set(id(it) for it in self.store.ready_items)
        acct = [f"a{it.hid}:{f2t(it.conveyor_entry_time)}:{f2t(getattr(it, 'total_interruption_time', 0))}" for it in newit]
        if op[0] == "put" and res.split("|")[0].strip() == "ok": acct.append(f"p{prev}")
        return res + " | " + " ".join(str(it.hid) for it in newit) + " | " + " ".join(acct)

    def urgent_pending(self):
        c = sorted((t, p, e) for (t, p, e, evt) in self.env._queue if not self.transparent((t, p, e, evt)))
        return bool(c) and c[0][0] == self.env.now and c[0][1] == 0

    def dispatch(self, op):
        if op[0] == "stat":
            now = f2t(self.env.now)
            n = len(self.store.items) + len(self.store.ready_items)
            return f"stat {float(self.edge.stats['time_averaged_num_of_items_in_conveyor'])!r} {n} {now}"
        if op[0] == "probe":
            if op[1] == "occ": return f"probe {self.edge.occupancy()}"
            if op[1] == "ready": return "probe " + " ".join(str(x.hid) for x in self.edge.ready_items())
            if op[1] == "mode": return f"probe {self.edge.state} {self.store.noaccumulation_mode_on}"
            if op[1] == "stuck":     # items on the belt whose move process has ended without delivering them
                return f"probe {sum(1 for it in self.store.items if it[0].id not in self.store.active_move_processes)}"
            if op[1] == "pat":
                try: return "probe " + self.store._get_belt_pattern()[0]
                except Exception: return "probe err"
            return "probe skip"      # can_put / can_get raise AttributeError (defect D6); not part of the model
        if op[0] == "cp":
            return self.fmt(self.call(None, self.store.reserve_put_cancel, self.tok(op[1])), "cancel")
        if op[0] == "cg":
            return self.fmt(self.call(None, self.store.reserve_get_cancel, self.tok(op[1])), "cancel")
        return BufImpl.dispatch(self, op)


class PrqImpl:
    """PriorityReqStore: the harness is the only client; requests are SimPy events."""
    def __init__(self, cap):
        from factorysimpy.base.priority_req_store import PriorityReqStore
        self.env = RecEnv()
        self.store = PriorityReqStore(self.env, capacity=int(cap))
        # priorities are numbers, not necessarily integers: a store of odd capacity is driven with halves (p / 2: -1.0, -0.5, 0.0, 0.5 …),
        # which are ordered exactly like the integers p the model sees
        self.pscale = 0.5 if int(cap) % 2 == 1 else 1
        self.reqs = []           # request events by id
        self.mark = 0
        self.items = {}

    def item(self, hid, kind):
        if hid not in self.items:
            it = (EmptyCarrier if hid % 4 == 3 else Item)(f"it{hid}"); it.hid = hid; it.kind = kind
            self.items[hid] = it
        return self.items[hid]

    def newly_fired(self):
        idx = {id(r): i for i, r in enumerate(self.reqs)}
        out = []
        for ev, _ in self.env.fired_log[self.mark:]:
            i = idx.get(id(ev))
            if i is None: continue
            v = ev.value
            out.append(f"{i}:{v.hid}" if hasattr(v, "hid") else f"{i}")
        self.mark = len(self.env.fired_log)
        return out

    def do(self, op):
        k = op[0]; n0 = len(self.reqs)
        try:
            if k == "pput":
                self.reqs.append(self.store.put(self.item(op[2], op[3]), priority=op[1] * self.pscale))
            elif k == "pget":
                self.reqs.append(self.store.get(priority=op[1] * self.pscale))
            elif k == "cancel":
                if op[1] < len(self.reqs): self.reqs[op[1]].cancel()
            elif k == "kstep":
                if self.env._queue: self.env.step()
            elif k == "settle":
                n = 0
                while self.env._queue:
                    self.env.step(); n += 1
                    if n > 100000: raise RuntimeError("livelock")
            else:
                raise ValueError(op)
        except Exception as e:
            return f"err {type(e).__name__}"
        return f"req {n0} | {' '.join(self.newly_fired())} | {len(self.store.items)}"


def make_impl(header):
    w = header.split()
    assert w[0] == "new"
    if w[1] == "pos":
        return PosImpl(w[2], w[3] != "0", w[4] != "0", int(w[5]))
    if w[1] in ("buf", "bufedge"):
        return BufImpl(w[1], w[2], w[3])
    if w[1] == "prq":
        return PrqImpl(w[2])
    if w[1] == "fleet":
        return FleetImpl(w[2], w[3], w[4])
    if w[1] == "cbelt":
        return CBeltImpl(w[2], w[3], accumulating=(w[4] != "0"))
    if w[1] == "slot":
        return SlotImpl(w[2], w[3], accumulating=(len(w) < 5 or w[4] != "0"))
    raise ValueError(header)


def lines_equal(impl_line, model_line):
    """Canonical comparison of one result line (floats are compared against exact rationals)."""
    if impl_line == model_line: return True
    a, b = impl_line.split(), model_line.split()
    if a == ["probe", "skip"] and b and b[0] == "probe": return True
    if a and b and a[0] == "stat" and b[0] == "stat":
        if a[-2:] != b[-2:]: return False
        if a[1] == "nostat": return True
        num, den = int(b[1]), int(b[2])
        exp = num / den
        got = float(a[1])
        return abs(got - exp) <= 1e-9 * max(1.0, abs(exp))
    return False
