"""Correspondence + judging for the store / edge families (closed machines)."""
from common import *
import multiprocessing, itertools
from gen_stores import gen_history, gen_flow_history, random_header, new_stats
from lockstep import run_model, run_impl, first_diff, shrink, renumber
from stores_impl import render, make_impl
from judges import judge_store_trace
import checklib

BUDGET = {  # histories per family
    "quick": {"pos": 2500, "buf": 2500, "bufedge": 2000, "prq": 2000, "fleet": 2500, "slot": 2500, "cbelt": 2500},
    "thorough": {"pos": 60000, "buf": 60000, "bufedge": 40000, "prq": 40000, "fleet": 60000, "slot": 60000, "cbelt": 60000},
}

def _gen_chunk(args):
    family, seed, n = args
    quiet()
    rng = random.Random(seed)
    st = new_stats()
    out = []
    for _ in range(n):
        h = random_header(rng, family)
        try:
            if family in ("slot", "cbelt") and rng.random() < 0.3:
                ops, lines = gen_flow_history(rng, h, rng.randrange(120, 420), stats=st)
            else:
                ops, lines = gen_history(rng, h, rng.randrange(8, 60) if family not in ("slot", "cbelt") else rng.randrange(12, 90), stats=st)
        except Exception as e:   # generator / adapter crash: report as an implementation trace that ends in an error
            ops, lines = [("settle",)], ["err " + type(e).__name__ + " |"]
        out.append((h, ops, lines))
    return out, st

def merge_stats(a, b):
    for k in ("ops", "errors"):
        for x, y in b[k].items(): a[k][x] = a[k].get(x, 0) + y
    for k in ("hist_with_pending", "hist_with_granted_cancel"): a[k] += b[k]

def generate(family, tier, seed):
    n = BUDGET[tier][family]
    nproc = 1 if n <= 3000 else 14
    chunks = [(family, seed * 1000003 + i * 7919 + hash(family) % 1000 * 0 + sum(map(ord, family)), n // nproc + (1 if i < n % nproc else 0)) for i in range(nproc)]
    st = new_stats(); traces = []
    if nproc == 1:
        res = [_gen_chunk(chunks[0])]
    else:
        with multiprocessing.Pool(nproc) as pool:
            res = pool.map(_gen_chunk, chunks)
    for out, s in res:
        traces.extend(out); merge_stats(st, s)
    return traces, st

def corpus_histories(family):
    out = []
    for f in sorted(glob_corpus()):
        try:
            h, ops = checklib.read_ops_file(f)
        except Exception:
            continue
        if h.split()[1] == family:
            out.append((os.path.relpath(f, VERIF), h, ops))
    return out

def glob_corpus():
    import glob
    return glob.glob(os.path.join(VERIF, "corpus", "*.ops"))

class FamilyResult:
    def __init__(self, family):
        self.family = family
        self.traces = []          # (header, ops, impl_lines)
        self.model = []           # model lines per trace
        self.div = []             # indices of diverging traces with first differing line
        self.stats = None
        self.model_error = None
        self.viol = {}            # trace index -> list of (prop, line, rule, msg)
        self.corpus_n = 0
        self.exhaustive = None    # summary of the bounded-exhaustive stream
        self.linecov = {}         # library file -> statements / executed / percent (quick tier)

def run_family(family, tier, seed):
    quiet()
    r = FamilyResult(family)
    # corpus first (regressions, known-finding witnesses)
    corp = corpus_histories(family)
    for name, h, ops in corp:
        try: lines = run_impl(h, ops)
        except Exception as e: lines = ["err " + type(e).__name__ + " |"]
        r.traces.append((h, ops, lines))
    r.corpus_n = len(corp)
    # line coverage of the library files this family exercises (single-process runs only; measured, reported in the evidence)
    covm = None
    if BUDGET[tier][family] <= 3000 and os.environ.get("VERIF_NO_LINECOV") != "1":
        try:
            import coverage
            os.environ.setdefault("COVERAGE_CORE", "sysmon")
            covm = coverage.Coverage(data_file=None, include=[os.path.join(SRC, "factorysimpy", "base", "*"),
                                                              os.path.join(SRC, "factorysimpy", "edges", "*")])
            covm.start()
        except Exception:
            covm = None
    try:
        gen, st = generate(family, tier, seed)
    finally:
        if covm is not None:
            try:
                covm.stop()
                r.linecov = {}
                for f in covm.get_data().measured_files():
                    _, stmts, _, missing, _ = covm.analysis2(f)
                    if len(stmts) - len(missing) > 5:
                        r.linecov[os.path.relpath(f, SRC)] = dict(statements=len(stmts), executed=len(stmts) - len(missing),
                                                                  percent=round(100.0 * (len(stmts) - len(missing)) / max(1, len(stmts)), 1))
            except Exception:
                pass
    r.traces.extend(gen); r.stats = st
    try:
        r.model = run_model([(h, ops) for h, ops, _ in r.traces])
    except Exception as e:
        r.model_error = str(e)[:500]
        r.model = [None] * len(r.traces)
    for i, ((h, ops, il), ml) in enumerate(zip(r.traces, r.model)):
        if ml is None: continue
        d = first_diff(il, ml)
        if d is not None: r.div.append((i, d))
    for i, (h, ops, il) in enumerate(r.traces):
        v = judge_store_trace(h, ops, il)
        if v: r.viol[i] = v
    # bounded-exhaustive stream: every sequence of abstract moves up to a fixed length for small capacities; compared and
    # judged inside the workers, only the failing traces come back
    if os.environ.get("VERIF_NO_EXHAUSTIVE") != "1":
        import exhaustive_family
        te = time.time()
        ex = exhaustive_family.run_exhaustive(family, tier)
        if ex is not None:
            r.exhaustive = dict(maximal_sequences=ex["sequences"], divergences=ex["n_divergences"],
                                traces_with_judge_hits_all_props=ex["n_viol"], configurations=ex["configs"],
                                wall_s=round(time.time() - te, 2))
            if ex["error"] and r.model_error is None: r.model_error = ex["error"]
            for (h, ops, il, ml, d) in ex["divergences"]:
                r.traces.append((h, ops, il)); r.model.append(ml); r.div.append((len(r.traces) - 1, d))
            for (h, ops, il, ml, v) in ex["viol"]:
                r.traces.append((h, ops, il)); r.model.append(ml); r.viol[len(r.traces) - 1] = v
    return r

def judge_fails(pid, header, ops, rule=None):
    """does the real code violate `pid` on this history (by the judge)?"""
    try: lines = run_impl(header, ops)
    except Exception: return False
    pids = pid if isinstance(pid, (list, tuple, set)) else [pid]
    return any(p in pids and (rule is None or checklib.rule_matches(rule, ru)) for p, _, ru, _ in judge_store_trace(header, ops, lines))

def diverges(header, ops):
    try:
        il = run_impl(header, ops)
        ml = run_model([(header, ops)])[0]
    except Exception:
        return False
    return first_diff(il, ml) is not None

def shrink_divergence(header, ops, max_rounds=40):
    """delta-debugging where all candidates of a round are evaluated in one model run"""
    cur = list(ops)
    for _ in range(max_rounds):
        cands = []
        n = len(cur)
        sizes = sorted(set([max(1, n // 2), max(1, n // 4), 1]), reverse=True)
        for sz in sizes:
            for i in range(0, n, sz):
                keep = [j for j in range(n) if not (i <= j < i + sz)]
                if keep: cands.append(renumber(cur, keep))
        if not cands: break
        impl_lines = []
        for c in cands:
            try: impl_lines.append(run_impl(header, c))
            except Exception: impl_lines.append(None)
        try:
            model_lines = run_model([(header, c) for c in cands])
        except Exception:
            break
        hit = None
        for c, il, ml in zip(cands, impl_lines, model_lines):
            if il is not None and first_diff(il, ml) is not None:
                hit = c; break
        if hit is None: break
        cur = hit
    return cur
