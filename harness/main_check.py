from common import *
import argparse, traceback
import checklib, store_family
from stores_impl import render
from lockstep import run_impl, run_model, first_diff, shrink

# property -> store/edge families whose correspondence it depends on
STORE_FAMILIES = {
    "C01": ["pos", "buf", "bufedge", "fleet", "slot", "cbelt"], "C02": ["pos", "buf", "bufedge", "fleet", "slot", "cbelt"],
    "C03": ["bufedge", "fleet", "slot", "cbelt"],      # the edge half of factory-wide conservation (EdgeOK in Spec/Compose.lean)
    "C04": ["pos", "buf", "bufedge", "fleet", "slot", "cbelt"],
    "C05": ["pos", "buf", "prq", "bufedge", "fleet", "slot", "cbelt"], "C06": ["pos", "buf", "bufedge", "fleet", "slot", "cbelt"],
    "C07": ["pos", "buf", "bufedge", "fleet", "slot", "cbelt"],
    "C09": ["bufedge", "fleet"],                         # the probe of the edge a non-blocking node decides on (can_put exact)
    "C10": ["pos", "buf", "bufedge", "fleet", "slot", "cbelt"], "C11": ["bufedge", "buf", "fleet"], "C12": ["slot", "cbelt"], "C13": ["slot", "cbelt"], "C14": ["fleet"],
    "C18": ["pos", "bufedge", "fleet", "slot", "cbelt"],
    "C19": ["pos", "buf", "bufedge", "fleet", "slot", "cbelt"],      # every store in lock-step with a deterministic model: an order that depends on id() or hashes diverges
    "C20": ["pos", "buf", "bufedge", "prq", "fleet", "slot", "cbelt"],
}
# judge property ids that decide each property at store level
JUDGE_PROPS = {p: [p] for p in STORE_FAMILIES}
JUDGE_PROPS["C11"] = ["C11", "C04"]
JUDGE_PROPS["C14"] = ["C14", "C06"]     # "... become available together and in loading order": the fleet store's retrieval discipline is part of C14
JUDGE_PROPS["C03"] = ["C02"]       # an edge that loses, duplicates or invents an item breaks the factory-wide identity
JUDGE_PROPS["C10"] = ["C04", "C10"]       # store side of "never stranded" = no lost wake-up   # "retrievable from t+d onwards" is judged by the wake-up rule on timed stores

# properties that (also) depend on the node automata and factory-level judges
NODE_PROPS = {"C03", "C06", "C08", "C09", "C10", "C15", "C16", "C17", "C18", "C19", "C20"}

def node_stage(pid, tier, seed, known, cov, violations, known_hits):
    import node_family
    tf = time.time()
    r = node_family.run_node_family(tier, seed)
    facs = r["factories"]
    shapes = {}
    for f in facs: shapes[f["cfg"].get("shape", "corpus")] = shapes.get(f["cfg"].get("shape", "corpus"), 0) + 1
    crashes = {}
    for f in facs:
        if f["crash"]: crashes[f["crash"][0]] = crashes.get(f["crash"][0], 0) + 1
    cov["families"]["nodes"] = dict(factories=len(facs), corpus=r["corpus"], node_runs=r["node_runs"], activations=r["activations"],
                                    divergences=len(r["divergences"]), shapes=shapes, crashes=crashes,
                                    judge_violations_all_props=sum(len(f["viol"]) for f in facs), wall_s=round(time.time() - tf, 2))
    cov["evaluations"] += len(facs)
    cov["distinct_nontrivial"] += sum(1 for f in facs if f["moves"] > 0)
    cov["traces_validated_against_impl"] += r["node_runs"] - len(r["divergences"]) if r["model_error"] is None else 0
    if facs:
        f = facs[min(len(facs) - 1, r["corpus"])]
        cov["samples"].append(dict(family="nodes", config=f["cfg"], first_activations=f.get("sample")))
    hits = [(fi, v) for fi, f in enumerate(facs) for v in f["viol"] if v[0] == pid]
    say(f"[check {pid}] family nodes: {len(facs)} factories, {r['node_runs']} node runs, {r['activations']} activations, "
        f"{len(r['divergences'])} divergences, {len(hits)} judge hits for {pid}")
    divf = {d[0] for d in r["divergences"]}
    fresh = []
    for fi, (p, rule, msg) in hits:
        k = None
        for kf in known:
            if kf["status"] == "known" and pid in kf["properties"] and kf.get("family") == "nodes" and rule.startswith(kf.get("rule", "~")):
                k = kf; break
        if k is not None and fi not in divf and r["model_error"] is None:
            known_hits[k["id"]] = known_hits.get(k["id"], 0) + 1
        else:
            fresh.append((fi, rule, msg))
    if fresh:
        fresh.sort(key=lambda x: (len(facs[x[0]]["cfg"]["nodes"]), facs[x[0]]["cfg"].get("horizon", 0)))
        fi, rule, msg = fresh[0]
        path = checklib.write_replay(pid, seed, "factory-judge", None, None,
                                     dict(message=msg, rule=rule, config=facs[fi]["cfg"], factories_failing=len({x[0] for x in fresh})))
        violations.append((path, msg))
    elif r["model_error"] is not None:
        path = checklib.write_replay(pid, seed, "model-driver", None, None, dict(facet="lockstep:nodes", error=r["model_error"]))
        violations.append((path, "no-failing-input-found"))
    elif r["divergences"]:
        fi, ni, k, a, b = min(r["divergences"], key=lambda d: len(facs[d[0]]["nodes"][d[1]][1]))
        h, ins, outs = facs[fi]["nodes"][ni]
        path = checklib.write_replay(pid, seed, "node-divergence", None, None,
                                     dict(facet="lockstep:nodes", node=h, activation=ins[k] if k < len(ins) else None,
                                          implementation=a, model=b, config=facs[fi]["cfg"],
                                          diverging_node_runs=len(r["divergences"])))
        violations.append((path, "no-failing-input-found"))

MIXED_PROPS = {"C03", "C19", "C20"}
FLOW_PROPS = {"C01", "C02", "C04", "C10", "C11", "C12", "C14"}      # per-edge flow judges on node-driven factories (one run each)

def mixed_stage(pid, tier, seed, cov, violations, known_hits=None):
    """factories with Fleet / conveyor / Buffer edges: run twice here and in two fresh interpreters with different hash seeds"""
    import mixed_family as mf
    tf = time.time()
    flow_only = pid not in MIXED_PROPS
    r = mf.run_flow_family(tier, seed) if flow_only else mf.run_mixed_family(tier, seed)
    cov["families"]["mixed-flow" if flow_only else "mixed"] = dict(factories=r["n"], edge_kinds=r["kinds"], movements=r["movements"], crashes=r["crashes"],
                                    fresh_interpreters_with_PYTHONHASHSEED=r["hashseeds"],
                                    judge_violations_all_props=len(r["viol"]), wall_s=round(time.time() - tf, 2))
    cov["evaluations"] += r["n"] * (1 if flow_only else 4); cov["distinct_nontrivial"] += r["n"]
    mine = [v for v in r["viol"] if v[0] == pid]
    # KF-D29 seen from outside: an accumulating continuous conveyor hands its items over out of entry order
    d29o = [v for v in mine if v[1] == "flow-order" and "cbelt accumulating" in v[2]]
    if d29o and known_hits is not None:
        known_hits["KF-D29"] = known_hits.get("KF-D29", 0) + len(d29o)
    mine = [v for v in mine if v not in d29o]
    # KF-D31: item length that does not divide the belt length -> travel time item_length * capacity / speed
    d31 = [v for v in mine if v[1] == "flow-early-short-belt"]
    if d31 and known_hits is not None:
        known_hits["KF-D31"] = known_hits.get("KF-D31", 0) + len(d31)
    mine = [v for v in mine if v not in d31]
    # known finding KF-D29 inside a factory: an ACCUMULATING continuous conveyor whose items are not slot-aligned lets them
    # overlap until `_get_belt_pattern` raises its "placement logic error" - identified by that very message and the edge
    d29 = [v for v in mine if v[1] == "kernel-exception" and "placement logic error" in v[2]
           and any(e["kind"] == "cbelt" and e["acc"] for e in v[3]["edges"])]
    if d29 and known_hits is not None:
        known_hits["KF-D29"] = known_hits.get("KF-D29", 0) + len(d29)
    mine = [v for v in mine if v not in d29]
    say(f"[check {pid}] family mixed: {r['n']} factories x " + ("1 run (per-edge flow judges)" if flow_only else "(2 runs here + 2 fresh interpreters)") + f", edge kinds {r['kinds']}, "
        f"{r['movements']} movements, {len(mine)} judge hits for {pid}")
    if mine:
        mine.sort(key=lambda v: (v[3].get("nm", v[3].get("count", 9)), v[3]["horizon"]))
        p_, rule, msg, cfg = mine[0]
        path = checklib.write_replay(pid, seed, "mixed-factory", None, None, dict(message=msg, rule=rule, mixed_config=cfg, factories_failing=len(mine)))
        violations.append((path, msg))

def config_stage(pid, tier, seed, cov, violations, known_hits=None):
    import config_family as cf
    tf = time.time()
    r = cf.run_config_family(tier, seed)
    # known finding KF-D19: a blocking source with inter-arrival time 0 (a VALID configuration) in front of a path without
    # any delay livelocks at t = 0; the validation model says "ok" (nothing is rejected), the run never gets past t = 0
    d19 = [(c, real, model) for (c, real, model) in r["divergences"]
           if real == "livelock" and model == "ok" and c["iat"] == "zero" and c["blk"] == "1" and c["pd"] == "zero" and c["bufDelay"] == "zero"]
    if d19 and known_hits is not None:
        known_hits["KF-D19"] = known_hits.get("KF-D19", 0) + len(d19)
    r["divergences"] = [d for d in r["divergences"] if d not in d19]
    cov["families"]["config"] = dict(configurations=r["configs"], divergences=len(r["divergences"]), outcomes=r["outcomes"],
                                     wall_s=round(time.time() - tf, 2))
    cov["evaluations"] += r["configs"]; cov["distinct_nontrivial"] += r["configs"] - r["outcomes"].get("ok", 0)
    cov["traces_validated_against_impl"] += r["configs"] - len(r["divergences"])
    say(f"[check {pid}] family config: {r['configs']} configurations, {len(r['divergences'])} divergences from the validation model")
    # parameters of Fleet and both conveyors (no validation model: the rule is the property's own list)
    ep = cf.run_edge_params()
    cov["families"]["edge-parameters"] = dict(cases=ep["cases"], outcomes=ep["outcomes"], violations=len(ep["viol"]), attributed_to_KF_D8=ep["kf_d8"])
    cov["evaluations"] += ep["cases"]
    if ep["kf_d8"] and known_hits is not None:
        known_hits["KF-D8"] = known_hits.get("KF-D8", 0) + ep["kf_d8"]
    say(f"[check {pid}] family edge-parameters: {ep['cases']} Fleet / conveyor parameter combinations, {len(ep['viol'])} violations")
    if ep["viol"]:
        kind, params, valid, o, msg = ep["viol"][0]
        path = checklib.write_replay(pid, seed, "edge-config", None, None, dict(edge_kind=kind, parameters=repr(params), valid=valid, observed=o, message=msg,
                                     cases_failing=len(ep["viol"])))
        violations.append((path, msg))
    def invalid(c):
        return (c["cap"] != "pos" or c["mode"] == "0" or "neg" in (c["bufDelay"], c["iat"], c["pd"], c["setup"]) or
                (c["iat"] == "zero" and c["blk"] == "0") or "0" in (c["srcConn"], c["machIn"], c["machOut"], c["sinkConn"]) or
                "constbad" in (c["srcPol"], c["inPol"], c["outPol"]))
    bad = [(c, real, model) for (c, real, model) in r["divergences"] if invalid(c) and real in ("ok", "livelock")]
    if r["model_error"]:
        path = checklib.write_replay(pid, seed, "model-driver", None, None, dict(facet="validate", error=r["model_error"]))
        violations.append((path, "no-failing-input-found"))
    elif bad:
        c, real, model = bad[0]
        path = checklib.write_replay(pid, seed, "config", None, None, dict(config_kinds=c, concrete_values=repr(cf.concrete(c)), observed=real, expected=model,
                                     message="an invalid configuration is simulated instead of being rejected"))
        violations.append((path, f"invalid configuration {dict((k, v) for k, v in c.items() if cf.DEFAULT.get(k) != v)} (values {cf.concrete(c)}) was not rejected: {real}"))
    elif [d for d in r["divergences"] if not invalid(d[0]) and d[1] != "ok"]:
        # a configuration inside the documented domains (the property's own list of invalid ones does not cover it) that does
        # not run: rejected at construction / start, crashed, or never gets past one instant
        c, real, model = [d for d in r["divergences"] if not invalid(d[0]) and d[1] != "ok"][0]
        path = checklib.write_replay(pid, seed, "config", None, None, dict(config_kinds=c, concrete_values=repr(cf.concrete(c)), observed=real, expected=model,
                                     message="a valid configuration does not run to completion"))
        violations.append((path, f"valid configuration {dict((k, v) for k, v in c.items() if cf.DEFAULT.get(k) != v)} (values {cf.concrete(c)}) does not run to completion: {real}"))
    elif r["divergences"]:
        c, real, model = r["divergences"][0]
        path = checklib.write_replay(pid, seed, "config-divergence", None, None, dict(facet="validate", config_kinds=c, implementation=real, model=model,
                                     diverging=len(r["divergences"])))
        violations.append((path, "no-failing-input-found"))

ASSUME = [
    "theorems are about the hand-written Lean models; the models are tied to the code by sampled lock-step runs",
    "time is integer ticks (1 tick = 1/8 time unit in the harness); real-valued histories are covered up to a common denominator",
    "SimPy's cooperative scheduling: a store method runs atomically",
]

def fmt_hist(header, ops, lines=None, upto=None):
    out = [header]
    for i, op in enumerate(ops if upto is None else ops[:upto + 1]):
        out.append(render(op) + ("    => " + lines[i] if lines else ""))
    return out

def arrival_mismatch(r):
    """Conveyor families: the theorems fix the instant at which an item is offered at the exit (entry + belt travel + time
    it was stopped).  If, on a history on which code and model agreed on EVERYTHING up to some line, that line is a kernel
    step at which exactly one of the two reports an item reaching the exit, the code offers that item earlier (or later)
    than the exact accounting allows: a concrete failing input.  (Differences in anything else stay `no-failing-input-found`.)"""
    from judges import parse_ready
    best = None
    for (j, dj) in r.div:
        hj, oj, ilj = r.traces[j]
        mlj = r.model[j]
        if mlj is None or dj >= len(mlj) or dj >= len(ilj) or oj[dj][0] != "ev": continue
        a, b = ilj[dj], mlj[dj]
        if a.startswith("err") or b in ("GAVEUP",) or "FLAGGED" in b: continue
        try: ra, rb = parse_ready(a), parse_ready(b)
        except Exception: continue
        if ra == rb: continue
        ta = a.split("|")[0].strip()
        if ra and not rb:
            msg = (f"item {ra[0]} is offered at the exit at {ta} although, by the exact travel accounting (entry + belt travel time + "
                   f"time it was stopped) that code and model agreed on up to this kernel step, it cannot be there yet")
        elif rb and not ra:
            msg = (f"item {rb[0]} must be offered at the exit at this kernel step ({b.split('|')[0].strip()}) by the exact travel accounting "
                   f"(it resumes from where it stopped), but the conveyor does not offer it")
        else:
            msg = f"the conveyor offers items {ra} at this kernel step, the exact travel accounting gives {rb}"
        if best is None or dj < best[2]: best = (hj, oj, dj, msg)
    return best

def wakeup_mismatch(r, fam):
    """No-lost-wake-up read off a divergence: on a history on which code and model agreed on EVERYTHING up to some line, the model grants a
    waiting request at that line and the code does not.  "Able to serve it" is the store's own admission rule, which the model mirrors
    (lock-step on the unchanged tree: no divergence; for the slotted store and the retrieval side of both conveyors it is also proved).
    Confirmed on the real code: the request is still pending when the instant is over (the history is run again with a `settle`)."""
    from judges import parse_line
    best = None
    for (j, dj) in r.div:
        hj, oj, ilj = r.traces[j]
        mlj = r.model[j]
        if mlj is None or dj >= len(mlj) or dj >= len(ilj): continue
        a, b = ilj[dj], mlj[dj]
        if a.startswith("err") or b in ("GAVEUP",) or "FLAGGED" in b: continue
        try: (ha, fa), (hb, fb) = parse_line(a), parse_line(b)
        except Exception: continue
        if ha != hb: continue
        missing = [tid for (tid, _) in fb if tid not in [x for (x, _) in fa]]
        if not missing or [tid for (tid, _) in fa if tid not in [x for (x, _) in fb]]: continue
        # still pending at the end of the instant on the real code?
        try:
            lines = run_impl(hj, list(oj[:dj + 1]) + [("settle",)])
            later = [tid for (tid, _) in parse_line(lines[-1])[1]] if lines and lines[-1] is not None else []
        except Exception:
            continue
        if missing[0] in later: continue
        msg = (f"request {missing[0]} is still pending at the end of the instant although the store can serve it from line {dj} on "
               f"({' '.join(map(str, oj[dj]))}): the store's own admission rule — the reference model, in lock-step agreement with the code on "
               f"everything before — grants it in that very step (no lost wake-up: a servable waiting reservation is granted at once)")
        if best is None or len(oj) < len(best[1]): best = (hj, oj, dj, msg)
    return best

def stuck_item_mismatch(r, fam):
    """C03 ("nothing is blocked forever: every item is received or discarded") read off a divergence on a conveyor: the diverging history is run
    on, event by event, until the kernel of the real code has nothing left to do.  An item that the exact travel accounting (the model) brings
    to the exit, and that in the real code is still on the belt when the kernel is idle, will never be offered to anybody."""
    from judges import parse_line
    for (j, dj) in sorted(r.div, key=lambda x: len(r.traces[x[0]][1]))[:30]:
        hj, oj, ilj = r.traces[j]
        ops = list(oj) + [("ev",)] * 150 + [("probe", "occ"), ("probe", "ready")]
        try:
            il = run_impl(hj, ops); ml = run_model([(hj, ops)])[0]
        except Exception:
            continue
        if ml is None or any(x == "GAVEUP" or "FLAGGED" in x for x in ml if x): continue
        def arrived(lines):
            got = []
            for x in lines[:-2]:
                f = x.split("|")
                if len(f) >= 3: got += f[2].split()
            return got
        a_i, a_m = arrived(il), arrived(ml)
        missing = [x for x in a_m if x not in a_i]
        idle = il[-3].split("|")[0].strip() == il[-4].split("|")[0].strip() == il[-40].split("|")[0].strip()
        if missing and idle and not il[-2].endswith(" 0") and il[-3].startswith("t="):
            msg = (f"item {missing[0]} was put on the conveyor and never reaches the exit: the kernel is idle at {il[-3].split('|')[0].strip()} with "
                   f"{il[-2]} / {il[-1]} (items still on the belt, not at the exit) - by the travel accounting it is at the exit long before; "
                   f"no client can ever receive it")
            return (hj, ops[:len(oj) + 150], len(oj) + 149, msg)
    return None

def rerun_mismatch(r, fam):
    """C19 read off a divergence, on the real code alone: the diverging history is run several times in this interpreter (with unrelated
    objects allocated and released in between, so that the heap hands out other addresses); two runs of the same history that answer
    differently are a concrete failing input."""
    import simpy as _sp
    for (j, dj) in sorted(r.div, key=lambda x: len(r.traces[x[0]][1]))[:40]:
        hj, oj, ilj = r.traces[j]
        runs = []
        junk = []
        for k in range(4):
            try: runs.append(run_impl(hj, list(oj)))
            except Exception as e: runs.append(["err " + type(e).__name__])
            env = _sp.Environment()
            junk.append([env.event() for _ in range(50 + 37 * k)])
            if k % 2: junk.pop(0)
        for k in range(1, len(runs)):
            if runs[k] != runs[0]:
                d = next((i for i, (a, b) in enumerate(zip(runs[0], runs[k])) if a != b), min(len(runs[0]), len(runs[k])))
                msg = (f"the same history run twice on the real code in one interpreter answers differently at line {d} "
                       f"({' '.join(map(str, oj[d])) if d < len(oj) else '?'}): '{runs[0][d] if d < len(runs[0]) else None}' vs '{runs[k][d] if d < len(runs[k]) else None}'")
                return (hj, list(oj), min(d, len(oj) - 1), msg)
    return None

def rejected_call_mismatch(r, fam):
    """C07 read off a divergence, on the real code alone: a call that was rejected with RuntimeError must leave the store untouched, so the
    same history WITHOUT the rejected calls has to answer every other call in the same way.  The diverging histories are run again without
    their rejected calls; a later answer that changes is a concrete failing input (no model involved in the verdict)."""
    if fam == "bufedge": return None      # a rejected put may or may not draw from the delay distribution (documented tolerance of the draw counter)
    best = None
    for (j, dj) in sorted(r.div, key=lambda x: len(r.traces[x[0]][1]))[:40]:
        hj, oj, ilj = r.traces[j]
        n = min(len(oj), dj + 6)
        ops = list(oj[:n])
        try: full = run_impl(hj, ops)
        except Exception: continue
        rej = [k for k in range(min(n, len(full))) if ops[k][0] in ("put", "get", "cp", "cg") and full[k] is not None and full[k].startswith("err RuntimeError")]
        if not rej: continue
        keep = [k for k in range(n) if k not in rej]
        try: without = run_impl(hj, [ops[k] for k in keep])
        except Exception: continue
        for pos, k in enumerate(keep):
            if pos >= len(without) or k >= len(full): break
            if without[pos] != full[k]:
                before = [x for x in rej if x < k]
                if not before: break
                msg = (f"a rejected call is not side-effect free: with the rejected call(s) at line(s) {before} ({'; '.join(' '.join(map(str, ops[x])) for x in before[:3])}) "
                       f"the later call at line {k} ({' '.join(map(str, ops[k]))}) answers '{full[k]}', without them it answers '{without[pos]}' "
                       f"(same history on the real code, only the rejected calls removed)")
                if best is None or k < best[2]: best = (hj, ops, k, msg)
                break
    return best

def check_property(pid, tier, seed):
    t0 = time.time()
    say(f"[check {pid}] tier={tier} seed={seed} repo={REPO} src={src_tree_hash()}")
    known = checklib.load_known()
    violations = []      # (replay path, note)
    known_hits = {}      # finding id -> count
    proof = checklib.proof_stage(pid, tier)
    say(f"[check {pid}] proof stage: {proof['discharged']}/{proof['obligations']} theorems audited, axioms={proof['axioms']}, {proof['build_s']}s"
        + (f", leanchecker {proof['leanchecker']}" if proof.get("leanchecker") else "")
        + ("" if proof["ok"] else "  PROBLEMS: " + "; ".join(proof["problems"])))
    fams = STORE_FAMILIES.get(pid, [])
    cov = dict(families={}, evaluations=0, traces_validated_against_impl=0, samples=[], distinct_nontrivial=0,
               rule="histories are generated adaptively against the real code from one PRNG (VERIF_SEED); "
                    "distinct = distinct (header, op sequence); non-trivial = at least one reservation was granted and one put or get succeeded")
    results = []
    for fam in fams:
        tf = time.time()
        r = store_family.run_family(fam, tier, seed)
        results.append(r)
        distinct = set(); nontriv = 0
        for h, ops, il in r.traces:
            key = (h, tuple(ops))
            if key in distinct: continue
            distinct.add(key)
            if any(l.startswith("ok") or l.startswith("item") for l in il) : nontriv += 1
        cov["families"][fam] = dict(histories=len(r.traces), corpus=r.corpus_n, lines=sum(len(t[1]) for t in r.traces),
                                   divergences=len(r.div), op_distribution=r.stats["ops"], error_kinds=r.stats["errors"],
                                   histories_with_pending_at_end=r.stats["hist_with_pending"],
                                   histories_with_cancellation=r.stats["hist_with_granted_cancel"],
                                   judge_violations_all_props=sum(len(v) for v in r.viol.values()),
                                   histories_cut_where_the_model_gives_up=sum(1 for m in r.model if m and "GAVEUP" in m),
                                   longest_history=max((len(t[1]) for t in r.traces), default=0),
                                   library_line_coverage=r.linecov,
                                   bounded_exhaustive=r.exhaustive,
                                   wall_s=round(time.time() - tf, 2))
        cov["evaluations"] += len(r.traces) + (r.exhaustive["maximal_sequences"] if r.exhaustive else 0)
        cov["distinct_nontrivial"] += nontriv
        cov["traces_validated_against_impl"] += (len(r.traces) - len(r.div) + (r.exhaustive["maximal_sequences"] - r.exhaustive["divergences"] if r.exhaustive else 0)) if r.model_error is None else 0
        if r.traces:
            h, ops, il = r.traces[min(len(r.traces) - 1, r.corpus_n)]
            cov["samples"].append(dict(family=fam, history=fmt_hist(h, ops, il)[:25]))
        say(f"[check {pid}] family {fam}: {len(r.traces)} histories, {len(r.div)} divergences, "
            f"{sum(1 for v in r.viol.values() if any(x[0] in JUDGE_PROPS[pid] for x in v))} traces with judge hits for {pid}")
        # ---- judge verdicts on implementation traces
        divset = dict(r.div)
        fresh = []
        for i, vs in r.viol.items():
            h, ops, il = r.traces[i]
            for (p, ln, rule, msg) in vs:
                if p not in JUDGE_PROPS[pid]: continue
                k = checklib.match_known(known, pid, h, rule)
                agrees = r.model_error is None and (i not in divset or divset[i] > ln)
                if k is not None and rule in k.get("gaveup_rules", []):
                    # attributed only where the mirrored model says the same thing happened (it gives up exactly where
                    # `_get_belt_pattern` raises)
                    ml = r.model[i] if i < len(r.model) else None
                    agrees = agrees and ml is not None and ln < len(ml) and ml[ln] == "GAVEUP"
                if k is not None and agrees:
                    known_hits[k["id"]] = known_hits.get(k["id"], 0) + 1
                else:
                    fresh.append((i, ln, rule, msg))
                break
        if fresh:
            fresh.sort(key=lambda x: len(r.traces[x[0]][1]))
            i, ln, rule, msg = fresh[0]
            h, ops, il = r.traces[i]
            small = shrink(h, list(ops[:ln + 1]), lambda hh, oo: store_family.judge_fails(JUDGE_PROPS[pid], hh, oo, rule))
            sl = run_impl(h, small)
            path = checklib.write_replay(pid, seed, "judge", h, small,
                                         dict(message=msg, rule=rule, observed=fmt_hist(h, small, sl), traces_failing=len(fresh)))
            violations.append((path, f"{msg}"))
        # ---- broken correspondence
        if r.model_error is not None and not violations:
            path = checklib.write_replay(pid, seed, "model-driver", None, None,
                                         dict(facet=f"lockstep:{fam}", error=r.model_error))
            violations.append((path, "no-failing-input-found"))
        elif r.div and not violations:
            i, d = min(r.div, key=lambda x: len(r.traces[x[0]][1]))
            h, ops, il = r.traces[i]
            small = store_family.shrink_divergence(h, list(ops[:d + 1]))
            sl = run_impl(h, small)
            try: ml = run_model([(h, small)])[0]
            except Exception as e: ml = ["<model error>"] * len(small)
            # search for a concrete failing input: the diverging histories first, then everything else was judged above
            found = None
            for (j, dj) in r.div:
                hj, oj, ilj = r.traces[j]
                if store_family.judge_fails(JUDGE_PROPS[pid], hj, oj):
                    found = (hj, oj); break
            detail = dict(facet=f"lockstep:{fam}", diverging_histories=len(r.div),
                          minimal=[f"{render(o)}    => impl: {a}    model: {b}" for o, a, b in zip(small, sl, ml)],
                          header=h)
            timing = None
            if not found and fam in ("slot", "cbelt") and pid in ("C12", "C13"):
                try: timing = arrival_mismatch(r)
                except Exception: timing = None
            if not found and not timing and pid in ("C04", "C10", "C13"):
                try: timing = wakeup_mismatch(r, fam)
                except Exception: timing = None
            if not found and not timing and pid == "C03" and fam in ("slot", "cbelt"):
                try: timing = stuck_item_mismatch(r, fam)
                except Exception: timing = None
            if not found and not timing and pid == "C19":
                try: timing = rerun_mismatch(r, fam)
                except Exception: timing = None
            if not found and not timing and pid == "C07":
                try: timing = rejected_call_mismatch(r, fam)
                except Exception: timing = None
            if timing:
                hj, oj, k, msg = timing
                path = checklib.write_replay(pid, seed, "arrival-time", hj, list(oj[:k + 1]),
                                             dict(detail, message=msg, observed=fmt_hist(hj, list(oj[:k + 1]), run_impl(hj, list(oj[:k + 1])))[-30:]))
                violations.append((path, msg))
            elif found:
                hj, oj = found
                sm = shrink(hj, list(oj), lambda hh, oo: store_family.judge_fails(JUDGE_PROPS[pid], hh, oo))
                path = checklib.write_replay(pid, seed, "judge-after-divergence", hj, sm, dict(detail, observed=fmt_hist(hj, sm, run_impl(hj, sm))))
                violations.append((path, "judge fails on a diverging history"))
            else:
                path = checklib.write_replay(pid, seed, "divergence", h, small, detail)
                violations.append((path, "no-failing-input-found"))
    if pid in NODE_PROPS:
        node_stage(pid, tier, seed, known, cov, violations, known_hits)
    if pid in MIXED_PROPS or pid in FLOW_PROPS:
        mixed_stage(pid, tier, seed, cov, violations, known_hits)
    if pid == "C20":
        config_stage(pid, tier, seed, cov, violations, known_hits)
    # ---- known findings / fixed findings: replay the recorded witnesses on the real code
    for k in known:
        if pid not in k["properties"]: continue
        wpath = os.path.join(VERIF, k["witness"])
        try:
            if wpath.endswith(".py"):
                # a stand-alone demonstration on the real code: exit 0 = behaves, 1 = the defect shows
                q = subprocess.run([sys.executable, wpath], capture_output=True, text=True, timeout=300,
                                   env=dict(os.environ, PYTHONPATH=SRC))
                fails = q.returncode != 0
                h, ops = None, None
            elif wpath.endswith(".factory.json"):
                import node_family
                f = node_family.eval_factory(json.load(open(wpath)))
                fails = any(v[0] == pid and (k.get("rule") is None or v[1].startswith(k["rule"])) for v in f["viol"])
                h, ops = None, None
            else:
                h, ops = checklib.read_ops_file(wpath)
                fails = store_family.judge_fails(JUDGE_PROPS.get(pid, [pid]), h, ops, k.get("rule"))
                if not fails and k.get("witness2"):
                    h2, ops2 = checklib.read_ops_file(os.path.join(VERIF, k["witness2"]))
                    fails = store_family.judge_fails(JUDGE_PROPS.get(pid, [pid]), h2, ops2, k.get("rule"))
        except Exception as e:
            say(f"[check {pid}] cannot replay witness of {k['id']}: {e}"); fails = None
        if k["status"] == "known":
            if fails or known_hits.get(k["id"]):
                say(f"KNOWN-FINDING: property={pid} {k['id']}: {k['what']}  (witness {k['witness']} "
                    f"{'still fails' if fails else 'no longer fails'}; {known_hits.get(k['id'], 0)} generated histories attributed)")
            else:
                say(f"[check {pid}] note: known finding {k['id']} no longer reproduces (witness passes, no history attributed)")
        elif k["status"] == "fixed" and fails:
            path = checklib.write_replay(pid, seed, "fixed-finding-returned", h, ops, dict(finding=k["id"], what=k["what"]))
            violations.append((path, f"fixed finding {k['id']} is back"))
    # ---- proof obligations broken: search already done above (all traces judged)
    if not proof["ok"] and not violations:
        path = checklib.write_replay(pid, seed, "proof", None, None, dict(problems=proof["problems"], theorems=proof["theorems"]))
        violations.append((path, "no-failing-input-found"))
    cov["known_findings_attributed"] = known_hits
    checklib.write_evidence(pid, tier, seed, t0, proof, cov, len(violations), ASSUME)
    for path, note in violations:
        rel = os.path.relpath(path, VERIF)
        if note == "no-failing-input-found":
            say(f"VIOLATION property={pid} replay={rel} no-failing-input-found")
        else:
            say(f"VIOLATION property={pid} replay={rel}")
            say(f"   {note}")
    say(f"[check {pid}] done in {time.time() - t0:.1f}s: {'VIOLATION' if violations else 'ok'}")
    return 1 if violations else 0

def replay(path):
    d = json.load(open(path))
    quiet()
    if not d.get("ops") and (d.get("detail") or {}).get("mixed_config"):
        import mixed_family as mf
        cfg = d["detail"]["mixed_config"]
        a = mf.build_and_run(cfg); b = mf.build_and_run(cfg)
        say("mixed factory:", json.dumps(cfg)); say("error:", a["error"], " stats:", a["stats"])
        say("digest run 1:", mf.digest(a), " run 2:", mf.digest(b), " (fresh interpreters: PYTHONHASHSEED=k python harness/mixed_family.py --emit <seed> <n>)")
        return 1 if (a["error"] or mf.digest(a) != mf.digest(b)) else 0
    if not d.get("ops"):
        cfg = (d.get("detail") or {}).get("config")
        if cfg:
            import node_family
            f = node_family.eval_factory(cfg)
            say("factory:", json.dumps(cfg))
            say("crash:", f["crash"], " activations:", f["nacts"])
            for v in f["viol"]: say("  judge:", v)
            mods = node_family.run_node_models([(h, ins) for h, ins, outs in f["nodes"]])
            bad = 0
            for (h, ins, outs), r in zip(f["nodes"], mods):
                for k, (a, b) in enumerate(zip(outs, r)):
                    if a != b:
                        bad += 1; say(f"  node '{h}' activation {k}: {ins[k]}\n     impl : {a}\n     model: {b}"); break
            return 1 if (f["viol"] or bad) else 0
        say(json.dumps(d, indent=1)); return 0
    h = d["header"]; ops = [tuple(o) for o in d["ops"]]
    il = run_impl(h, ops)
    from judges import judge_store_trace
    v = judge_store_trace(h, ops, il)
    try: ml = run_model([(h, ops)])[0]
    except Exception as e: ml = [f"<model error {e}>"] * len(ops)
    say(h)
    for o, a, b in zip(ops, il, ml):
        say(f"  {render(o):28s} impl: {a:28s} model: {b}" + ("" if a == b else "    <<< differ"))
    for x in v: say("  judge:", x)
    return 1 if (v or first_diff(il, ml) is not None) else 0

def main(argv):
    if argv and argv[0] == "replay":
        return replay(argv[1])
    ap = argparse.ArgumentParser()
    ap.add_argument("pid")
    ap.add_argument("--tier", default=tier_from_env())
    ap.add_argument("--seed", type=int, default=seed_from_env())
    a = ap.parse_args(argv)
    try:
        return check_property(a.pid, a.tier, a.seed)
    except Exception:
        loud(); traceback.print_exc()
        return 2
