#!/bin/sh
# Build the Lean models, proofs and property theorems from files on disk (offline).
set -e
cd "$(dirname "$0")/lean"
lake build
lake build $(ls FsVerif/Props/*.lean | sed 's|/|.|g; s|\.lean$||')
