/-
C17 — State-time accounting partitions elapsed time and reflects actual activity.   (partial)
Proved here: the arithmetic core of `Machine.update_state_rep` — for every representation
(#processing, #blocked) with non-negative entries the elapsed time is charged to exactly one state
of each documented group, and never to SETUP — and its inductive step on the automaton state
(`updRep_mstat`), plus the occupancy-histogram step; and, for EVERY activation sequence, the partition
for Source and Sink (`source_time_partition`, `sink_time_partition`: the per-state totals add up to
last state change − start, and the last change never lies in the future) and for the MACHINE
(`machine_time_partition`: both documented state groups and the worker-occupancy histogram partition
the time since the end of the set-up period, the set-up period is charged to SETUP_STATE).  Not proved:
that the state charged is the state the workers are actually in ("reflects actual activity" — decided by
the truthful-accounting judge on recorded runs) and the float-rounding half.  Combiner / Splitter:
`pack_time_partition` (the four state totals add up to the time from construction to the last change).
-/
import FsVerif.Proofs.MachineStat
import FsVerif.Proofs.NodeClock
import FsVerif.Proofs.MachineStatRun
import FsVerif.Proofs.MachineTruth
import FsVerif.Proofs.PackClock
import FsVerif.Proofs.PackB
import FsVerif.Proofs.SplitTruth
import FsVerif.Props.C09
namespace FsVerif.Props.C17
open FsVerif MacState

/-- the two classifications are partitions: exactly `e` is added to each group, nothing to SETUP -/
theorem classification_partitions (m : MTT) (p b : Int) (e : Nat) (hp : 0 ≤ p) (hb : 0 ≤ b) :
    sumA (m.bump p b e) = sumA m + e ∧ sumB (m.bump p b e) = sumB m + e ∧ (m.bump p b e).setup = m.setup :=
  bump_sums m p b e hp hb

/-- inductive step: if the group totals equal the time since the end of set-up before an
    `update_state_rep(now)`, they do so afterwards; the representation stored is the true count
    of processing / blocked workers -/
theorem update_state_rep_step {s : MacState} {t : Nat} (h : MStat s) (ht : s.now = t) (hl : s.last ≠ none) :
    MStat (s.updRep t) ∧ (∃ p b, s.rep = some (p, b)) → (s.updRep t).rep = some s.count := by
  intro ⟨_, p, b, hr⟩
  unfold updRep
  cases hlast : s.last with
  | none => exact absurd hlast hl
  | some l => simp [hr]

theorem update_state_rep_keeps_partition {s : MacState} {t : Nat} (h : MStat s) (ht : s.now = t) (hl : s.last ≠ none) :
    MStat (s.updRep t) := updRep_mstat' h ht hl

/-- worker-occupancy histogram: every ADD / REMOVE charges the time since the last change to the
    current bucket, so the histogram always adds up to the time of the last change -/
theorem occupancy_step {s : MacState} {t : Nat} (h : MStat s) (ht : s.now = t) (hi : s.numWorkers < s.occ.length) :
    (s.occAdd t).occ.sum = t ∧ (s.occRemove t).occ.sum = t := by
  have h1 := (occAdd_mstat h ht hi).occSum.1
  have h2 := (occRemove_mstat h ht hi).occSum.1
  simp only [occAdd, occRemove] at h1 h2 ⊢
  exact ⟨h1, h2⟩

example : sumA (({} : MTT).bump 2 1 5) = 5 ∧ sumB (({} : MTT).bump 2 1 5) = 5 := by decide

/-! ### Source and Sink: the partition over all activation sequences -/

/-- Sink (one state): after any activation sequence its total is exactly the time from construction to the last recorded state change,
    which is not in the future -/
theorem sink_time_partition (n : Nat) (acts : List SinkState.Act) :
    let s := SinkState.runActs (SinkState.init n) acts
    ∃ l, s.clock.last = some l ∧ l ≤ s.now ∧ s.clock.tot.sum = l := by
  have h := SinkState.run_sk acts (SinkState.init_sk n)
  obtain ⟨⟨_, hl⟩, _, hn⟩ := h
  cases hlast : (SinkState.runActs (SinkState.init n) acts).clock.last with
  | none => exact absurd hlast hn
  | some l =>
    rw [hlast] at hl
    obtain ⟨h1, t0, h2, _, h4⟩ := hl
    have : t0 = 0 := by cases h2; rfl
    subst this
    exact ⟨l, hlast, h1, by simpa using h4⟩

/-- Source (SETUP / GENERATING / BLOCKED): after any activation sequence the model accepts, the three totals add up to the time from
    its first activation to the last recorded state change; before the first change nothing is charged -/
theorem source_time_partition (cfg : SrcCfg) (acts : List SrcState.Act)
    (hok : (SrcState.runActs (SrcState.init cfg) acts).flagged = false) :
    let s := SrcState.runActs (SrcState.init cfg) acts
    s.clock.tot.length = 3 ∧
    match s.clock.last with
    | none => s.clock.tot.sum = 0
    | some l => l ≤ s.now ∧ ∃ t0, s.tStart = some t0 ∧ t0 ≤ l ∧ s.clock.tot.sum = l - t0 := by
  have h := SrcState.run_sc acts hok (SrcState.init_sc cfg)
  exact ⟨h.len, h.ok.2⟩

/-- Source, the set-up period (node_setup_time is an inherited attribute, assigned before the run): the first activation stamps the clock and
    waits exactly the set-up time; the activation that ends the wait charges exactly that time to SETUP_STATE and nothing to the other states -/
theorem source_setup_is_charged (cfg : SrcCfg) (t : Nat) (a a' : Ans) (d : Nat) (ds : List Nat)
    (hpol : ∀ k, cfg.pol = .const k → ¬ (k < 0 ∨ k ≥ cfg.nout)) (hd : a'.draws = d :: ds) :
    let s1 := ((SrcState.init cfg).behaviour t a)
    let s2 := (s1.1.behaviour (t + cfg.setup) a')
    s1.2 = [.wait cfg.setup] ∧ s2.1.clock.tot = [cfg.setup, 0, 0] ∧ s2.1.clock.cur = 1 := by
  cases hp : cfg.pol with
  | const k =>
    have := hpol k hp
    simp [SrcState.behaviour, SrcState.init, hp, this, SrcState.loopTop, hd, StateClock.update, addAt]
  | rr => simp [SrcState.behaviour, SrcState.init, hp, SrcState.loopTop, hd, StateClock.update, addAt]
  | rnd => simp [SrcState.behaviour, SrcState.init, hp, SrcState.loopTop, hd, StateClock.update, addAt]
  | user => simp [SrcState.behaviour, SrcState.init, hp, SrcState.loopTop, hd, StateClock.update, addAt]
  | fa => simp [SrcState.behaviour, SrcState.init, hp, SrcState.loopTop, hd, StateClock.update, addAt]

example : (((SrcState.init { setup := 3 }).behaviour 0 {}).1.behaviour 3 { draws := [2] }).1.clock.tot = [3, 0, 0] := by decide +kernel

/-! ### Machine: the partition over all activation sequences -/

/-- after ANY activation sequence: once the set-up period is over (a last state change is recorded) both state groups add up to the time
    between the end of the set-up period and that last change, which is not in the future; SETUP_STATE holds exactly the set-up time;
    the occupancy histogram adds up to the time of its last change -/
theorem machine_time_partition (cfg : MacCfg) (acts : List MacState.Act) :
    let s := MacState.runActs (MacState.init cfg) acts
    (∀ l, s.last = some l → l ≤ s.now ∧ ∃ te, s.tEnd = some te ∧ te ≤ l ∧ sumA s.tt = l - te ∧ sumB s.tt = l - te) ∧
    (s.last = none → sumA s.tt = 0 ∧ sumB s.tt = 0) ∧
    s.tt.setup = (if s.tEnd.isSome then s.cfg.setup else 0) ∧
    s.occ.sum = s.lastOcc ∧ s.lastOcc ≤ s.now := by
  have h := (MacState.runActs_mr acts (MacState.init_mr cfg)).st
  obtain ⟨a, b, c, _⟩ := h
  refine ⟨?_, ?_, b, c.1, c.2⟩
  · intro l hl
    rw [hl] at a
    obtain ⟨h1, te, h2, h3, h4, h5, _⟩ := a
    exact ⟨h1, te, h2, h3, h4, h5⟩
  · intro hl
    rw [hl] at a
    exact a

/-- non-vacuity on the RECORDED blocking-machine run of Props/C09: last change at 10, set-up ended at 0, both groups add up to 10 -/
example : let s := MacState.runActs (MacState.init { wc := 1, blocking := true }) C09.demoBlocking
    (s.last, s.tEnd, sumA s.tt, sumB s.tt) = (some 10, some 0, 10, 10) := by decide +kernel

/-! ### "The time charged to processing, blocked and idle states equals the time the node actually spent …": the state representation
the machine publishes — (#workers processing, #workers blocked), the argument of the NEXT charge of `update_state_rep` — is the actual
state of its workers after every activation that follows the set-up period, for every activation sequence in which no activation dies of
the IndexError of `time_per_work_occupancy[num_workers]` (`NoIndexCrash`; whether that branch is reachable is C20's business).  Time
passes only between activations and is charged to the states named by that representation (`update_state_rep_step`), so the time charged
to a state is the time the workers actually were in it. -/

theorem machine_rep_is_actual_activity (cfg : MacCfg) (acts : List MacState.Act) (hq : MacState.NoIndexCrash (MacState.init cfg) acts) :
    let s := MacState.runActs (MacState.init cfg) acts
    s.last ≠ none →
    s.rep = some ((((s.workers.filter (fun w => w.inList && !w.blocked)).length : Nat) : Int), (((s.workers.filter (fun w => w.inList && w.blocked)).length : Nat) : Int)) := by
  intro s hl
  rcases MacState.runActs_tr acts (MacState.init_mr cfg) (Or.inl rfl) hq with h | h
  · exact absurd h hl
  · exact h.rep

instance decNoIndexCrash : ∀ (acts : List MacState.Act) (s : MacState), Decidable (MacState.NoIndexCrash s acts)
  | [], _ => isTrue trivial
  | x :: xs, s =>
    have := decNoIndexCrash xs (s.step x.proc x.t x.ans).1
    (inferInstance : Decidable (Call.crash .index ∉ (s.step x.proc x.t x.ans).2 ∧ MacState.NoIndexCrash (s.step x.proc x.t x.ans).1 xs))

/-- non-vacuity on the RECORDED blocking-machine run of Props/C09: no activation dies, and at its end one worker is blocked -/
example : MacState.NoIndexCrash (MacState.init { wc := 1, blocking := true }) C09.demoBlocking ∧
    (MacState.runActs (MacState.init { wc := 1, blocking := true }) C09.demoBlocking).rep = some (0, 1) := by decide +kernel

/-! ### Combiner and Splitter: the partition over all activation sequences -/

theorem pack_run_pk (acts : List PackState.Act) : ∀ (s : PackState), PackState.PK s s.now → PackState.PK (PackState.run s acts) (PackState.run s acts).now := by
  induction acts with
  | nil => intro s h; exact h
  | cons x xs ih => intro s h; exact ih _ (PackState.PK.step x.1 x.2.1 x.2.2 h)

/-- SETUP + IDLE + PROCESSING + BLOCKED = time from construction to the last recorded state change, which is not in the future -/
theorem pack_time_partition (cfg : PackCfg) (acts : List PackState.Act) :
    let s := PackState.run (PackState.init cfg) acts
    s.clock.tot.length = 4 ∧ ∃ l, s.clock.last = some l ∧ l ≤ s.now ∧ s.clock.tot.sum = l := by
  have h := pack_run_pk acts _ (PackState.init_pk cfg)
  obtain ⟨⟨_, hl⟩, hlen, hn, _⟩ := h
  refine ⟨hlen, ?_⟩
  cases hlast : (PackState.run (PackState.init cfg) acts).clock.last with
  | none => exact absurd hlast hn
  | some l =>
    rw [hlast] at hl
    obtain ⟨h1, t0, h2, _, h4⟩ := hl
    have : t0 = 0 := by cases h2; rfl
    subst this
    exact ⟨l, rfl, h1, by simpa using h4⟩

/-- non-vacuity on the combiner run of Props/C16.demoComb -/
example : ((PackState.run (PackState.init { kind := .combiner, nin := 2, nout := 1, target := [1, 2] }) C16.demoComb).clock.last,
           (PackState.run (PackState.init { kind := .combiner, nin := 2, nout := 1, target := [1, 2] }) C16.demoComb).clock.tot.sum) = (some 8, 8) := by decide +kernel

/-- Splitter: the state it publishes (0 SETUP, 1 IDLE, 2 PROCESSING, 3 BLOCKED) is, after every activation, either still SETUP or the
    classification of its workers' ACTUAL flags (no worker processing or blocked: idle; some worker processing: processing; otherwise every
    worker in the list is blocked) — for every activation sequence in which no activation dies of the IndexError of
    `time_per_work_occupancy[num_workers]`.  Whenever a worker's flags change, the state check runs in the same activation after the change;
    the time between activations is charged to the published state (`pack_time_partition`), hence to the state the workers are really in.
    (The Combiner processes inside its behaviour process and sets PROCESSING by hand: its truthfulness is judged on recorded runs.) -/
theorem splitter_state_is_actual_activity (cfg : PackCfg) (hk : cfg.kind = .splitter) (acts : List PackState.Act)
    (hq : PackState.NoIndexCrash (PackState.init cfg) acts) :
    let s := PackState.run (PackState.init cfg) acts
    s.clock.cur = 0 ∨ s.clock.cur = PackState.cls s :=
  PackState.run_tp acts _ (PackState.init_inv cfg) hk (Or.inl rfl) hq

instance decNoIndexCrashP : ∀ (acts : List PackState.Act) (s : PackState), Decidable (PackState.NoIndexCrash s acts)
  | [], _ => isTrue trivial
  | x :: xs, s =>
    have := decNoIndexCrashP xs (s.step x.1 x.2.1 x.2.2).1
    (inferInstance : Decidable (Call.crash .index ∉ (s.step x.1 x.2.1 x.2.2).2 ∧ PackState.NoIndexCrash (s.step x.1 x.2.1 x.2.2).1 xs))

/-- non-vacuity on the splitter run of Props/C16.demoSplit: no activation dies; at its end the published state is the actual one -/
example : PackState.NoIndexCrash (PackState.init { kind := .splitter, nin := 1, nout := 1 }) C16.demoSplit ∧
    (PackState.run (PackState.init { kind := .splitter, nin := 1, nout := 1 }) C16.demoSplit).clock.cur =
      PackState.cls (PackState.run (PackState.init { kind := .splitter, nin := 1, nout := 1 }) C16.demoSplit) := by decide +kernel

end FsVerif.Props.C17
