/-
C12 — Conveyors preserve order, spacing, capacity and minimum travel time.

SLOTTED conveyor (edges/slotted_conveyor.py on base/slotted_belt_store.py, after the repair 1772714 of
defect D24): Model/SlotBelt.lean, tied to the code by the lock-step correspondence of the `slot` family
(every API call and every single kernel event compared) and by the C12 judge on the real traces.
The theorems hold for EVERY operation sequence (`Reach`): any interleaving of reservations, puts,
gets, cancellations (valid or not), clock moves and single kernel events, every capacity and every slot
delay (zero included, unless stated).  Ghost state: `entered` (every accepted put with its entry time
and ordinal), `readyAt` ((ordinal, time) for every item that reached the exit, in that order).

Proved for the slotted conveyor, at full strength:
  capacity (`slot_capacity`), at most one item entering (`slot_one_entering`), spacing of successive
  entries ≥ one slot delay (`slot_spacing`), exact travel time capacity × delay for every item that is
  offered at the exit — never earlier, and, the belt never stopping (D9), never later — (`slot_travel_exact`,
  `slot_no_overdue`), items reach the exit in entry order (`slot_order`, slot delay > 0).
Partial: `slot_order` for slot delay = 0 is not claimed (everything happens in one instant; the order is
  then that of the kernel queue).  What leaves the exit first among several waiting items is C06's binding
  discipline (FIFO, also after cancellation), not repeated here.

CONTINUOUS conveyor (edges/continuous_conveyor.py on base/belt_store.py): see the second half of this
file once Model/CBelt.lean is present; until then only the slotted conveyor is covered (stated in
MANIFEST.json / the evidence file).
-/
import FsVerif.Proofs.SlotBelt3
namespace FsVerif.Props.C12
open FsVerif SlotBelt

/-- reachable states of the slotted-conveyor model: any operation sequence from the initial state -/
def Reach (s : SlotBelt) : Prop := ∃ cfg ops, s = SlotBelt.run (SlotBelt.init cfg) ops

theorem reach_inv {s : SlotBelt} (h : Reach s) : Inv s := by
  obtain ⟨cfg, ops, rfl⟩ := h
  exact run_inv ops _ (init_inv cfg)

/-- never more than `capacity` items on the conveyor, granted-unused space reservations included -/
theorem slot_capacity {s : SlotBelt} (h : Reach s) : s.putRes.length + (s.items.length + s.ready.length) ≤ s.cfg.cap :=
  (reach_inv h).room.room

/-- one item enters at a time: at most one granted-unused space reservation -/
theorem slot_one_entering {s : SlotBelt} (h : Reach s) : s.putRes.length ≤ 1 := (reach_inv h).room.one

/-- successive items enter at least one slot delay apart (all pairs, hence successive ones) -/
theorem slot_spacing {s : SlotBelt} (h : Reach s) :
    s.entered.Pairwise (fun a b => a.entry + s.cfg.delay ≤ b.entry) := (reach_inv h).si.spaced

/-- an item is offered at the exit exactly capacity × delay after it entered (so: never earlier) -/
theorem slot_travel_exact {s : SlotBelt} (h : Reach s) :
    ∀ x ∈ s.readyAt, ∃ e ∈ s.entered, e.seq = x.1 ∧ x.2 = e.entry + s.cfg.cap * s.cfg.delay :=
  (reach_inv h).ks.readyOK

/-- the clock cannot pass a pending travel event: an item whose travel time is over has been offered
    (with `slot_travel_exact`: the travel time is exactly capacity × delay when the destination takes
    every item as soon as it is offered — and also when it does not: this belt never stops, see C13) -/
theorem slot_no_overdue {s : SlotBelt} (h : Reach s) : ∀ ev ∈ s.queue, s.now ≤ ev.time := (reach_inv h).ks.clock

/-- items reach the exit in the order in which they entered -/
theorem slot_order {s : SlotBelt} (h : Reach s) (hd : 0 < s.cfg.delay) :
    s.readyAt.Pairwise (fun a b => a.1 < b.1) := (reach_inv h).si.order hd

/-- entry ordinals are the order of the accepted puts, and entry times never decrease -/
theorem slot_entered_sorted {s : SlotBelt} (h : Reach s) :
    s.entered.Pairwise (fun a b => a.seq < b.seq) ∧ ∀ e ∈ s.entered, e.entry ≤ s.now :=
  ⟨(reach_inv h).si.seqSorted, (reach_inv h).ks.entryLe⟩

/-! ### non-vacuity: two producers ask in the same instant; the second is admitted one slot delay later;
both items are offered 4 × 2 ticks after they entered, in order -/

def demo : List Op :=
  [.reservePut 0, .reservePut 1, .put 0 0 { id := 5 }, .ev, .adv 2, .ev, .ev, .put 1 1 { id := 6 },
   .ev, .adv 2, .ev, .ev, .adv 4, .ev, .adv 2, .ev]

example : (SlotBelt.run (init { cap := 4, delay := 2 }) demo).entered.map (fun e => (e.seq, e.entry)) = [(0, 0), (1, 2)] ∧
    (SlotBelt.run (init { cap := 4, delay := 2 }) demo).readyAt = [(0, 8), (1, 10)] := by decide

end FsVerif.Props.C12
