/-
C12 — Conveyors preserve order, spacing, capacity and minimum travel time.

SLOTTED conveyor (edges/slotted_conveyor.py on base/slotted_belt_store.py, after the repair 1772714 of
defect D24): Model/SlotBelt.lean, tied to the code by the lock-step correspondence of the `slot` family
(every API call and every single kernel event compared) and by the C12 judge on the real traces.
The theorems hold for EVERY operation sequence (`Reach`): any interleaving of reservations, puts,
gets, cancellations (valid or not), clock moves and single kernel events, every capacity and every slot
delay (zero included, unless stated).  Ghost state: `entered` (every accepted put with its entry time
and ordinal), `readyAt` ((ordinal, time) for every item that reached the exit, in that order).

Proved for the slotted conveyor, at full strength:
  capacity (`slot_capacity`), at most one item entering (`slot_one_entering`), spacing of successive
  entries ≥ one slot delay (`slot_spacing`), exact travel time capacity × delay for every item that is
  offered at the exit — never earlier, and, the belt never stopping (D9), never later — (`slot_travel_exact`,
  `slot_no_overdue`), items reach the exit in entry order (`slot_order`, slot delay > 0).
Partial: `slot_order` for slot delay = 0 is not claimed (everything happens in one instant; the order is
  then that of the kernel queue).  What leaves the exit first among several waiting items is C06's binding
  discipline (FIFO, also after cancellation), not repeated here.

CONTINUOUS conveyor (edges/continuous_conveyor.py on base/belt_store.py, after the repairs ee8962d (D11c),
8772181 (D10), 180d48c (D25), 8de3dbd (D26)): Model/CBelt.lean — the conveyor's state machine, one move process per
item with its two-phase timer and interrupt / resume, the delayed-interrupt processes, the belt-pattern analysis and
every kernel event explicit — tied to the code by the lock-step correspondence of the `cbelt` family (every API call
and every single kernel event compared, plus the probes `mode`, `pat`, `stuck`) and by the C12 judge.
Proved for the continuous conveyor, for EVERY operation / kernel-event sequence (`ReachC`), both accumulation modes:
  capacity (`cbelt_capacity`), one item entering at a time (`cbelt_one_entering`),
  EXACT travel accounting (`cbelt_travel_exact`): an item is offered at the exit at exactly
      entry + capacity·(item_length/speed) + (time it spent stopped by interrupts),
  hence never earlier than the full belt travel time (`cbelt_min_travel`) and exactly the belt travel time when it
  was never stopped (`cbelt_exact_when_never_stopped`); along a run in which the state machine never stalls — the
  destination takes every item as soon as it is offered — nothing is ever interrupted and every travel time is exactly
  capacity·p1 (`cbelt_exact_travel_when_never_stalled`, via the invariant NS of Proofs/CBeltNever.lean);
  the clock cannot pass a pending travel timer (`cbelt_clock`).
  successive items enter at least item_length/speed apart (`cbelt_spacing`, all pairs, full strength).
  Arrival order: the arrival log is in time order (`cbelt_arrivals_in_time_order`); an item can be offered before an
  item that entered earlier only if that earlier item was stopped at least one entry gap (≥ p1) longer
  (`cbelt_overtake_only_by_longer_stop`, every reachable state, both modes); hence along a run that never stalls items
  are offered in entry order (`cbelt_order_when_never_stalled`).
NOT proved for the continuous conveyor (decided only by the lock-step check and the judge rules `order`, `exit-order`,
  `overlap`): arrival in entry order for runs WITH stalls (it needs "all items on a non-accumulating belt are stopped
  together", which is not proved).  On an accumulating belt whose items are not slot-aligned the order / no-overlap
  claim is in fact false as the code stands (known finding KF-D29, Props/C13).  Stated here so that the gap is visible.
Domain of the model: every item has the conveyor's item length; an object is put only while it is not on the belt;
histories in which `_get_belt_pattern` raises are cut there (`gaveUp`; none in the sampled histories after the repairs).
-/
import FsVerif.Proofs.SlotBelt3
import FsVerif.Proofs.CBeltNever
import FsVerif.Proofs.CBeltArr
import FsVerif.Proofs.CBeltCfg
namespace FsVerif.Props.C12
open FsVerif SlotBelt

/-- reachable states of the slotted-conveyor model: any operation sequence from the initial state -/
def Reach (s : SlotBelt) : Prop := ∃ cfg ops, s = SlotBelt.run (SlotBelt.init cfg) ops

theorem reach_inv {s : SlotBelt} (h : Reach s) : Inv s := by
  obtain ⟨cfg, ops, rfl⟩ := h
  exact run_inv ops _ (init_inv cfg)

/-- never more than `capacity` items on the conveyor, granted-unused space reservations included -/
theorem slot_capacity {s : SlotBelt} (h : Reach s) : s.putRes.length + (s.items.length + s.ready.length) ≤ s.cfg.cap :=
  (reach_inv h).room.room

/-- one item enters at a time: at most one granted-unused space reservation -/
theorem slot_one_entering {s : SlotBelt} (h : Reach s) : s.putRes.length ≤ 1 := (reach_inv h).room.one

/-- successive items enter at least one slot delay apart (all pairs, hence successive ones) -/
theorem slot_spacing {s : SlotBelt} (h : Reach s) :
    s.entered.Pairwise (fun a b => a.entry + s.cfg.delay ≤ b.entry) := (reach_inv h).si.spaced

/-- an item is offered at the exit exactly capacity × delay after it entered (so: never earlier) -/
theorem slot_travel_exact {s : SlotBelt} (h : Reach s) :
    ∀ x ∈ s.readyAt, ∃ e ∈ s.entered, e.seq = x.1 ∧ x.2 = e.entry + s.cfg.cap * s.cfg.delay :=
  (reach_inv h).ks.readyOK

/-- the clock cannot pass a pending travel event: an item whose travel time is over has been offered
    (with `slot_travel_exact`: the travel time is exactly capacity × delay when the destination takes
    every item as soon as it is offered — and also when it does not: this belt never stops, see C13) -/
theorem slot_no_overdue {s : SlotBelt} (h : Reach s) : ∀ ev ∈ s.queue, s.now ≤ ev.time := (reach_inv h).ks.clock

/-- items reach the exit in the order in which they entered -/
theorem slot_order {s : SlotBelt} (h : Reach s) (hd : 0 < s.cfg.delay) :
    s.readyAt.Pairwise (fun a b => a.1 < b.1) := (reach_inv h).si.order hd

/-- entry ordinals are the order of the accepted puts, and entry times never decrease -/
theorem slot_entered_sorted {s : SlotBelt} (h : Reach s) :
    s.entered.Pairwise (fun a b => a.seq < b.seq) ∧ ∀ e ∈ s.entered, e.entry ≤ s.now :=
  ⟨(reach_inv h).si.seqSorted, (reach_inv h).ks.entryLe⟩

/-! ### non-vacuity: two producers ask in the same instant; the second is admitted one slot delay later;
both items are offered 4 × 2 ticks after they entered, in order -/

def demo : List Op :=
  [.reservePut 0, .reservePut 1, .put 0 0 { id := 5 }, .ev, .adv 2, .ev, .ev, .put 1 1 { id := 6 },
   .ev, .adv 2, .ev, .ev, .adv 4, .ev, .adv 2, .ev]

example : (SlotBelt.run (init { cap := 4, delay := 2 }) demo).entered.map (fun e => (e.seq, e.entry)) = [(0, 0), (1, 2)] ∧
    (SlotBelt.run (init { cap := 4, delay := 2 }) demo).readyAt = [(0, 8), (1, 10)] := by decide

/-! ## continuous conveyor -/

open CBelt in
/-- reachable states of the continuous-conveyor model -/
def ReachC (s : CBelt) : Prop := ∃ cfg ops, s = CBelt.run (CBelt.init cfg) ops

theorem reachC_ti {s : CBelt} (h : ReachC s) : CBelt.TI s := by
  obtain ⟨cfg, ops, rfl⟩ := h
  exact CBelt.run_ti ops _ (CBelt.init_ti cfg)

theorem reachC_room {s : CBelt} (h : ReachC s) : CBelt.RoomC s := by
  obtain ⟨cfg, ops, rfl⟩ := h
  exact CBelt.run_roomC ops _ (CBelt.init_roomC cfg)

theorem reachC_inv {s : CBelt} (h : ReachC s) : CBelt.InvC s := by
  obtain ⟨cfg, ops, rfl⟩ := h
  exact CBelt.run_invC ops _ (CBelt.init_invC cfg)

/-- successive items enter at least one item length of belt travel (p1 ticks) apart — all pairs, hence successive ones -/
theorem cbelt_spacing {s : CBelt} (h : ReachC s) :
    s.entered.Pairwise (fun a b => a.entry + s.cfg.p1 ≤ b.entry) := (reachC_inv h).sp.spaced

/-- a space reservation is granted only when every item that ever entered did so at least p1 ago -/
theorem cbelt_grant_after_spacing {s : CBelt} (h : ReachC s) (hg : s.putRes ≠ []) :
    ∀ e ∈ s.entered, e.entry + s.cfg.p1 ≤ s.now := (reachC_inv h).sp.grantOK hg

/-- never more than `capacity` items on the conveyor, granted-unused space reservations included -/
theorem cbelt_capacity {s : CBelt} (h : ReachC s) : s.putRes.length + (s.items.length + s.ready.length) ≤ s.cfg.cap :=
  (reachC_room h).room

/-- one item enters at a time -/
theorem cbelt_one_entering {s : CBelt} (h : ReachC s) : s.putRes.length ≤ 1 := (reachC_room h).one

/-- every item that was offered at the exit was offered at exactly entry + capacity·p1 + its total interruption time -/
theorem cbelt_travel_exact {s : CBelt} (h : ReachC s) :
    ∀ a ∈ s.arrivals, ∃ e ∈ s.entered, e.seq = a.q ∧ a.t = e.entry + s.cfg.cap * s.cfg.p1 + a.ti :=
  (reachC_ti h).arrOK

/-- … never earlier than the full belt travel time after it entered -/
theorem cbelt_min_travel {s : CBelt} (h : ReachC s) :
    ∀ a ∈ s.arrivals, ∃ e ∈ s.entered, e.seq = a.q ∧ e.entry + s.cfg.cap * s.cfg.p1 ≤ a.t := by
  intro a ha
  obtain ⟨e, he, h1, h2⟩ := cbelt_travel_exact h a ha
  exact ⟨e, he, h1, by omega⟩

/-- … and exactly the belt travel time if it was never stopped -/
theorem cbelt_exact_when_never_stopped {s : CBelt} (h : ReachC s) :
    ∀ a ∈ s.arrivals, a.ti = 0 → ∃ e ∈ s.entered, e.seq = a.q ∧ a.t = e.entry + s.cfg.cap * s.cfg.p1 := by
  intro a ha h0
  obtain ⟨e, he, h1, h2⟩ := cbelt_travel_exact h a ha
  exact ⟨e, he, h1, by omega⟩

/-- "If the destination takes every item as soon as it is offered, the travel time is exactly belt length / speed":
    along a run in which the conveyor's state machine never finds the head item waiting unreserved (it never enters a
    STALLED state: the ghost flag is clear after every operation), nothing is ever interrupted, and every item that was
    offered at the exit was offered exactly capacity·p1 after it entered -/
theorem cbelt_exact_travel_when_never_stalled (cfg : CCfg) (ops : List CBelt.Op)
    (hn : ∀ k, k ≤ ops.length → (CBelt.run (CBelt.init cfg) (ops.take k)).everStalled = false) :
    ∀ a ∈ (CBelt.run (CBelt.init cfg) ops).arrivals, ∃ e ∈ (CBelt.run (CBelt.init cfg) ops).entered,
      e.seq = a.q ∧ a.t = e.entry + (CBelt.run (CBelt.init cfg) ops).cfg.cap * (CBelt.run (CBelt.init cfg) ops).cfg.p1 := by
  intro a ha
  have hns := CBelt.run_ns ops (CBelt.init cfg) (CBelt.init_ns cfg) hn
  have hr : ReachC (CBelt.run (CBelt.init cfg) ops) := ⟨cfg, ops, rfl⟩
  obtain ⟨e, he, h1, h2⟩ := cbelt_travel_exact hr a ha
  have hz := hns.zeroA a ha
  exact ⟨e, he, h1, by omega⟩

/-- the clock cannot pass a pending kernel event (in particular a travel timer) -/
theorem cbelt_clock {s : CBelt} (h : ReachC s) : ∀ ev ∈ s.queue, s.now ≤ ev.time := (reachC_ti h).clock

/-! ### non-vacuity: capacity 3, p1 = 2 (travel 6), non-accumulating: item 5 enters at 0 and is offered at 6; nobody
takes it until t = 18; item 6 entered at 2, is stopped from 6 to 18 (12 ticks) and is offered at 2 + 6 + 12 = 20 -/

def demoC : List CBelt.Op :=
  [.reservePut 0, .put 0 0 { id := 5 }, .ev, .adv 2, .ev, .ev, .ev, .reservePut 0, .put 0 1 { id := 6 }, .ev] ++
  List.replicate 9 .ev ++ [.adv 2, .ev, .adv 8, .reserveGet 1, .get 1 2] ++ List.replicate 12 .ev

example : (CBelt.run (CBelt.init { cap := 3, p1 := 2, acc := false }) demoC).arrivals.map (fun a => (a.q, a.t, a.ti)) = [(0, 6, 0), (1, 20, 12)] := by
  decide

/-- non-vacuity of `cbelt_exact_travel_when_never_stalled`: a consumer reserves before the item arrives and takes it at
    once; the flag stays clear after every operation and the item is offered exactly 3·2 = 6 ticks after it entered -/
def demoFree : List CBelt.Op :=
  [.reserveGet 1, .reservePut 0, .put 0 1 { id := 5 }, .ev, .adv 2, .ev, .ev, .adv 4, .ev, .ev, .ev, .get 1 0, .ev, .ev, .ev]

example : (∀ k, k ≤ demoFree.length → (CBelt.run (CBelt.init { cap := 3, p1 := 2, acc := true }) (demoFree.take k)).everStalled = false) ∧
    (CBelt.run (CBelt.init { cap := 3, p1 := 2, acc := true }) demoFree).arrivals.map (fun a => (a.q, a.t, a.ti)) = [(0, 6, 0)] ∧
    (CBelt.run (CBelt.init { cap := 3, p1 := 2, acc := true }) demoFree).gotLog.map (·.id) = [5] := by
  decide +kernel

/-! ### arrival order on the continuous conveyor -/

theorem reachC_as {s : CBelt} (h : ReachC s) : CBelt.AS s := by
  obtain ⟨cfg, ops, rfl⟩ := h
  exact CBelt.run_as ops _ (CBelt.init_as cfg)

/-- the arrival log is in time order -/
theorem cbelt_arrivals_in_time_order {s : CBelt} (h : ReachC s) : s.arrivals.Pairwise (fun a b => a.t ≤ b.t) :=
  (reachC_as h).sorted

/-- entries that carry a smaller put ordinal entered at least p1 earlier -/
theorem entered_earlier {l : List CItem} {p1 : Nat} (hs : l.Pairwise (fun a b => a.seq < b.seq))
    (hp : l.Pairwise (fun a b => a.entry + p1 ≤ b.entry)) :
    ∀ x ∈ l, ∀ y ∈ l, x.seq < y.seq → x.entry + p1 ≤ y.entry := by
  induction l with
  | nil => intro x hx; cases hx
  | cons z l ih =>
    rw [List.pairwise_cons] at hs hp
    intro x hx y hy hxy
    rcases List.mem_cons.mp hx with rfl | hx'
    · rcases List.mem_cons.mp hy with rfl | hy'
      · omega
      · exact hp.1 y hy'
    · rcases List.mem_cons.mp hy with rfl | hy'
      · have := hs.1 x hx'; omega
      · exact ih hs.2 hp.2 x hx' y hy' hxy

/-- **An item can be overtaken only while it is stopped**: if `a` was offered at the exit before `b` although `b` entered
    first, then `b`'s total interruption time exceeds `a`'s by at least their entry gap (≥ p1).  Holds in every reachable
    state, both accumulation modes. -/
theorem cbelt_overtake_only_by_longer_stop {s : CBelt} (h : ReachC s) :
    s.arrivals.Pairwise (fun a b => b.q < a.q → a.ti + s.cfg.p1 ≤ b.ti) := by
  have hso := cbelt_arrivals_in_time_order h
  have hinv := reachC_inv h
  have hex := cbelt_travel_exact h
  refine List.Pairwise.imp_of_mem ?_ hso
  intro a b ha hb hab hq
  obtain ⟨ea, hea, ha1, ha2⟩ := hex a ha
  obtain ⟨eb, heb, hb1, hb2⟩ := hex b hb
  have := entered_earlier hinv.sp.entSorted hinv.sp.spaced eb heb ea hea (by omega)
  omega

/-- "Items leave a conveyor in the order in which they entered" — proved for the runs in which nothing is ever stopped
    (the state machine never enters a STALLED state: the destination takes every item as soon as it is offered): no item is
    offered at the exit before an item that entered earlier.  (With stalls: `cbelt_overtake_only_by_longer_stop`; the
    accumulating belt does overtake, KF-D29.) -/
theorem cbelt_order_when_never_stalled (cfg : CCfg) (ops : List CBelt.Op) (hp : 0 < cfg.p1)
    (hn : ∀ k, k ≤ ops.length → (CBelt.run (CBelt.init cfg) (ops.take k)).everStalled = false) :
    (CBelt.run (CBelt.init cfg) ops).arrivals.Pairwise (fun a b => a.q ≤ b.q) := by
  have hns := CBelt.run_ns ops (CBelt.init cfg) (CBelt.init_ns cfg) hn
  have hr : ReachC (CBelt.run (CBelt.init cfg) ops) := ⟨cfg, ops, rfl⟩
  have hc : (CBelt.run (CBelt.init cfg) ops).cfg = cfg := CBelt.run_cfg ops _
  refine List.Pairwise.imp_of_mem ?_ (cbelt_overtake_only_by_longer_stop hr)
  intro a b ha hb hab
  have hza := hns.zeroA a ha
  have hzb := hns.zeroA b hb
  rw [hc] at hab
  by_cases hq : b.q < a.q
  · have := hab hq; omega
  · omega

/-- non-vacuity of `cbelt_order_when_never_stalled`: the consumer has reserved twice in advance; item 5 enters at 0, item 6
    at 2 (one item length later); they are offered at 6 and 8, in order, and the flag is clear after every operation -/
def demoOrder : List CBelt.Op :=
  [.reserveGet 1, .reserveGet 1, .reservePut 0, .reservePut 0, .put 0 2 { id := 5 }, .ev, .ev, .adv 2, .ev, .ev,
   .put 0 3 { id := 6 }] ++ List.replicate 14 .ev

example : (∀ k, k ≤ demoOrder.length → (CBelt.run (CBelt.init { cap := 3, p1 := 2, acc := true }) (demoOrder.take k)).everStalled = false) ∧
    (CBelt.run (CBelt.init { cap := 3, p1 := 2, acc := true }) demoOrder).arrivals.map (fun a => (a.q, a.t, a.ti)) = [(0, 6, 0), (1, 8, 0)] := by
  decide +kernel

end FsVerif.Props.C12
