/-
C15 — Edge-selection policies are obeyed exactly and recorded truthfully.
Pure decision logic of the selectors (utils/utils.py, `_get_in_edge_index` / `_get_out_edge_index`,
`next(e for e in events if e.triggered)`) as used by the node automata.  The part "the recorded
history equals the routing that happened" is compared on real runs (lock-step on stats lists +
judge); it is known to be false for the non-blocking FIRST_AVAILABLE out-branch (finding D13).
-/
import FsVerif.Model.Node.Machine
import FsVerif.Model.Node.Source
import FsVerif.Proofs.MachineSel
import FsVerif.Props.C09
import FsVerif.Proofs.Pack
namespace FsVerif.Props.C15
open FsVerif

/-- ROUND_ROBIN: the generator yields its state and advances it by one modulo the number of edges -/
theorem rr_step (rr n : Nat) (a : Ans) : selIdx .rr rr n a = (some (rr : Int), (rr + 1) % n, []) := rfl

/-- … so the k-th consultation (starting from state 0) answers `k % n`. -/
def rrIter (n : Nat) : Nat → Nat
  | 0 => 0
  | k + 1 => (rrIter n k + 1) % n

theorem rr_seq (n k : Nat) (hn : 0 < n) : rrIter n k = k % n := by
  induction k with
  | zero => simp [rrIter]
  | succ k ih => simp [rrIter, ih, Nat.add_mod]

/-- constant index: always that edge, nobody is consulted -/
theorem const_sel (k : Int) (rr n : Nat) (a : Ans) : selIdx (.const k) rr n a = (some k, rr, []) := rfl

/-- user callable / generator: consulted exactly once (one `sel` call), its answer is the index used -/
theorem user_once (rr n : Nat) (k : Int) (rest : List Int) (a : Ans) (h : a.sels = k :: rest) :
    selIdx .user rr n a = (some k, rr, [.sel k]) := by
  simp [selIdx, h]

/-- FIRST_AVAILABLE: the chosen position is the lowest list index whose token is triggered at the
    instant of resumption -/
theorem first_available_lowest (toks trig : List Nat) (i : Nat) (h : firstTrig toks trig = some i) :
    (∃ t, toks[i]? = some t ∧ t ∈ trig) ∧ ∀ j, j < i → ∀ t, toks[j]? = some t → t ∉ trig := by
  unfold firstTrig at h
  have := List.findIdx?_eq_some_iff_getElem.mp h
  obtain ⟨hi, hp, hmin⟩ := this
  constructor
  · exact ⟨toks[i], by simp [hi], by simpa using hp⟩
  · intro j hj t ht htm
    have hjl : j < toks.length := by omega
    have := hmin j hj
    rw [List.getElem?_eq_getElem hjl] at ht
    simp at ht
    rw [ht] at this
    simp [htm] at this

/-- nothing is triggered ⇒ no choice (the node raises instead of guessing) -/
theorem first_available_none (toks trig : List Nat) (h : ∀ t ∈ toks, t ∉ trig) : firstTrig toks trig = none := by
  unfold firstTrig
  rw [List.findIdx?_eq_none_iff]
  intro x hx
  simpa using h x hx

/-- the tokens cancelled are exactly those at the other positions -/
theorem others_are_the_rest (toks : List Nat) (i j t : Nat) :
    (j, t) ∈ others toks i ↔ toks[j]? = some t ∧ j ≠ i := by
  unfold others
  simp only [List.mem_map, List.mem_filter, Prod.mk.injEq, Prod.exists]
  constructor
  · rintro ⟨t', j', ⟨hm, hne⟩, rfl, rfl⟩
    have := List.mem_zipIdx_iff_getElem?.mp hm
    exact ⟨by simpa using this, by simpa using hne⟩
  · rintro ⟨ht, hne⟩
    exact ⟨t, j, ⟨List.mem_zipIdx_iff_getElem?.mpr (by simpa using ht), by simpa using hne⟩, rfl, rfl⟩

/-- Source: an index outside `[0, n)` is rejected with IndexError and nothing is routed -/
theorem source_rejects_out_of_range (s : SrcState) (t : Nat) (a : Ans) (k : Int) (rest : List Int)
    (hpc : s.pc = .iatWait) (hpol : s.cfg.pol = .user) (hs : a.sels = k :: rest) (hk : k < 0 ∨ k ≥ s.cfg.nout) :
    (s.behaviour t a).2 = [.sel k, .crash .index] ∧ (s.behaviour t a).1.pc = .dead := by
  unfold SrcState.behaviour
  simp [hpc, hpol, selIdx, hs, hk, SrcState.crash]

/-- Machine, in-edge side: a user selector that answers an index outside `[0, nin)` ends the behaviour process with the range assertion;
nothing is requested from any in-edge and nothing is recorded in `in_edge_selection` -/
theorem machine_in_rejects_out_of_range (s : MacState) (t : Nat) (a : Ans) (k : Int) (rest : List Int)
    (hpc : s.bpc = .slotWait) (hg : s.granted = true) (hocc : s.numWorkers < s.occ.length)
    (hpol : s.cfg.inPol = .user) (hs : a.sels = k :: rest) (hk : k < 0 ∨ k ≥ s.cfg.nin) :
    (s.behaviour t a).2 = [.sel k, .crash .assertion] ∧ (s.behaviour t a).1.bpc = .dead ∧ (s.behaviour t a).1.insel = s.insel := by
  unfold MacState.behaviour
  have h2 : ¬ (s.numWorkers ≥ s.occ.length) := by omega
  simp [hpc, hg, h2, hpol, selIdx, hs, hk, MacState.crashB, MacState.occAdd]

/-- Machine, out-edge side: the worker whose user selector answers an index outside `[0, nout)` ends with the range assertion; no out-edge is
asked for room or probed, nothing is recorded in `out_edge_selection` -/
theorem machine_out_rejects_out_of_range (s : MacState) (i : Nat) (w : Worker) (t : Nat) (a : Ans) (k : Int) (rest : List Int)
    (hpc : w.pc = .timer) (hpol : s.cfg.outPol = .user) (hs : a.sels = k :: rest) (hk : k < 0 ∨ k ≥ s.cfg.nout) :
    (s.worker i w t a).2 = [.sel k, .crash .assertion] ∧ (s.worker i w t a).1.outsel = s.outsel := by
  unfold MacState.worker
  simp [hpc, hpol, selIdx, hs, hk, MacState.setWorker]

/-- Splitter / Combiner, out-edge side: the routing decision for a unit under a user selector that answers outside `[0, nout)` is the crash;
no edge is named in it -/
theorem pack_rejects_out_of_range (cfg : PackCfg) (rr : Nat) (cans : List Bool) (k : Int) (rest : List Int)
    (hpol : cfg.outPol = .user) (hk : k < 0 ∨ k ≥ cfg.nout) :
    (PackState.route cfg rr cans (k :: rest)).dec = .crash ∧ (PackState.route cfg rr cans (k :: rest)).calls = [.sel k] ∧
    (PackState.route cfg rr cans (k :: rest)).sel = none := by
  unfold PackState.route
  simp [hpol, selIdx, hk]

/-- the hypotheses are met by concrete states: a machine with two in-edges whose selector answers -1, a worker whose selector answers 2 of 2
out-edges, a splitter decision with the answer -2 -/
example : let s : MacState := { MacState.init { inPol := .user, nin := 2 } with bpc := .slotWait, granted := true }
    (s.behaviour 5 { sels := [-1, 0] }).2 = [.sel (-1), .crash .assertion] ∧ s.numWorkers < s.occ.length := by decide +kernel
example : let s : MacState := MacState.init { outPol := .user, nout := 2 }
    (s.worker 0 { ord := 1, item := 4, delay := 2, pc := .timer } 7 { sels := [2] }).2 = [.sel 2, .crash .assertion] := by decide +kernel
example : (PackState.route { kind := .splitter, outPol := .user, nout := 3, blocking := false } 0 [true, true, true] [-2, 1]).dec = .crash := by decide +kernel

/-! ### "The selection history a node records equals the routing that actually happened" - Machine, in-edge side, every schedule.
While the machine waits for the reservation it placed on the in-edge `e` it SELECTED (ROUND_ROBIN, constant, user callable / generator),
`e` is the last entry of `in_edge_selection`; the `get` it issues when that token is granted is a get on `e`.  Under FIRST_AVAILABLE the
edge of the get and the entry recorded are chosen in the same activation and are the same index. -/

theorem machine_selected_edge_is_recorded (cfg : MacCfg) (acts : List MacState.Act) (e tok : Nat)
    (h : (MacState.runActs (MacState.init cfg) acts).bpc = .inTok e tok) :
    (MacState.runActs (MacState.init cfg) acts).insel.getLast? = some e :=
  MacState.runActs_ins acts (MacState.init_ins cfg) e tok h

theorem machine_pulls_from_selected_edge (s : MacState) (t : Nat) (a : Ans) (e tok : Nat) (it : GotItem) (rest : List GotItem)
    (hpc : s.bpc = .inTok e tok) (ht : a.trig.contains tok = true) (hi : a.items = it :: rest) :
    ∃ tail, (s.behaviour t a).2 = Call.get e tok it.id :: tail := by
  unfold MacState.behaviour
  simp only [hpc, ht, hi, Bool.not_true, Bool.false_eq_true, ↓reduceIte]
  unfold MacState.afterPull
  split
  · exact ⟨_, rfl⟩
  · exact ⟨_, rfl⟩

theorem machine_first_available_records_pull (s : MacState) (t : Nat) (a : Ans) (toks : List Nat) (idx d : Nat) (it : GotItem)
    (rest : List GotItem) (ds : List Nat)
    (hpc : s.bpc = .inAny toks) (hf : firstTrig toks a.trig = some idx) (hi : a.items = it :: rest) (hdraw : a.draws = d :: ds) :
    (s.behaviour t a).1.insel = s.insel ++ [idx] ∧ Call.get idx (toks.getD idx 0) it.id ∈ (s.behaviour t a).2 := by
  unfold MacState.behaviour
  simp [hpc, hf, hi, MacState.afterPull, hdraw, MacState.requestSlot]
  split <;> simp

/-! ### out-edge side of the Machine: the edge a worker pushes on is the edge the node records.
Blocking FIRST_AVAILABLE: the worker reserves on every out-edge, and in the step in which it resumes it records the lowest-index
granted edge, withdraws every other request and puts on exactly that edge.  Index / ROUND_ROBIN / user policies (blocking): the selected
edge is recorded and a space request is placed on that edge only; the later put goes to the edge that was requested. -/

theorem updRep_outsel (s : MacState) (t : Nat) : (s.updRep t).outsel = s.outsel := by
  unfold MacState.updRep; split <;> rfl

theorem machine_first_available_push_records_edge (s : MacState) (i : Nat) (w : Worker) (t : Nat) (a : Ans) (toks : List Nat) (idx : Nat)
    (hpc : w.pc = .outAny toks) (hf : firstTrig toks a.trig = some idx) :
    (s.worker i w t a).1.outsel = s.outsel ++ [idx] ∧
    (s.worker i w t a).2 = (others toks idx).map (fun p => Call.cp p.1 p.2) ++ [.put idx (toks.getD idx 0) w.item, .awaitReq] := by
  unfold MacState.worker
  simp only [hpc, hf]
  refine ⟨?_, trivial⟩
  show ((MacState.updRep _ t).release i w).outsel = _
  have : ∀ (x : MacState), (x.release i w).outsel = x.outsel := fun x => by simp [MacState.release, MacState.setWorker]
  rw [this, updRep_outsel]

theorem machine_policy_push_requests_selected_edge (s : MacState) (i : Nat) (w : Worker) (t : Nat) (a : Ans) (k : Int) (rr' : Nat) (c0 : List Call)
    (hpc : w.pc = .timer) (hpol : s.cfg.outPol ≠ .fa) (hb : s.cfg.blocking = true)
    (hsel : selIdx s.cfg.outPol s.rrOut s.cfg.nout a = (some k, rr', c0)) (h0 : 0 ≤ k) (h1 : k < s.cfg.nout) :
    (s.worker i w t a).1.outsel = s.outsel ++ [k.toNat] ∧
    ∃ tok, (s.worker i w t a).2 = c0 ++ [.rp k.toNat tok, .awaitTok] := by
  have hk : ¬ (k < 0 ∨ k ≥ (s.cfg.nout : Int)) := by omega
  unfold MacState.worker
  simp only [hpc]
  cases hp : s.cfg.outPol with
  | fa => exact absurd hp hpol
  | rr => rw [hp] at hsel; simp only [hsel, hk, ↓reduceIte, hb]; exact ⟨by simp [MacState.setWorker, updRep_outsel], ⟨_, rfl⟩⟩
  | rnd => rw [hp] at hsel; simp only [hsel, hk, ↓reduceIte, hb]; exact ⟨by simp [MacState.setWorker, updRep_outsel], ⟨_, rfl⟩⟩
  | const c => rw [hp] at hsel; simp only [hsel, hk, ↓reduceIte, hb]; exact ⟨by simp [MacState.setWorker, updRep_outsel], ⟨_, rfl⟩⟩
  | user => rw [hp] at hsel; simp only [hsel, hk, ↓reduceIte, hb]; exact ⟨by simp [MacState.setWorker, updRep_outsel], ⟨_, rfl⟩⟩

theorem machine_policy_put_goes_to_requested_edge (s : MacState) (i : Nat) (w : Worker) (t : Nat) (a : Ans) (e tok : Nat)
    (hpc : w.pc = .outTok e tok) (ht : a.trig.contains tok = true) :
    (s.worker i w t a).2 = [.put e tok w.item, .awaitReq] := by
  unfold MacState.worker
  simp only [hpc, ht, Bool.not_true, Bool.false_eq_true, ↓reduceIte]

/-! ### Combiner / Splitter, out-edge side per unit: under blocking FIRST_AVAILABLE the worker asks EVERY out-edge for space and waits for the
first grant; under an index / ROUND_ROBIN / user policy it asks the selected out-edge only. -/

theorem chk!_nextTok (s : PackState) (t : Nat) : (s.chk! t).nextTok = s.nextTok := by
  obtain ⟨c, hc⟩ := PackState.chk!_eq s t; rw [hc]

theorem pack_first_available_requests_every_out_edge (s : PackState) (i : Nat) (w : PWorker) (t : Nat) (u : Unit') (rest : List Unit') :
    (s.startAny i w t u rest).2 = (List.range s.cfg.nout).map (fun j => Call.rp j (s.nextTok + j)) ++ [.awaitAny s.cfg.nout] := by
  unfold PackState.startAny
  simp only
  have : (((s.chk! t).setW i (PackState.markW w u rest)).chk! t).nextTok = s.nextTok := by
    rw [chk!_nextTok]; show (s.chk! t).nextTok = _; rw [chk!_nextTok]
  rw [this]

theorem pack_policy_requests_selected_edge (s : PackState) (i : Nat) (w : PWorker) (t : Nat) (u : Unit') (rest : List Unit') (r : PackState.Route) (j : Nat) :
    (s.startTok i w t u rest r j).2 = [.rp j s.nextTok, .awaitTok] := by
  unfold PackState.startTok
  simp only
  have : (((s.commit r).setW i (PackState.markW w u rest)).chk! t).nextTok = s.nextTok := by
    rw [chk!_nextTok]; rfl
  rw [this]

/-- non-vacuity on the RECORDED run of Props/C09 (blocking machine, FIRST_AVAILABLE in): the recorded history [0, 0, 0] is the
    sequence of in-edges the three pulls used -/
example : (MacState.runActs (MacState.init { wc := 1, blocking := true }) C09.demoBlocking).insel = [0, 0, 0] := by decide +kernel

end FsVerif.Props.C15
