/-
C16 — Combiner packs exactly its recipe; splitter emits each item once, then the pallet.

Model: Model/Node/Pack.lean (open automaton of Combiner / Splitter, tied to nodes/combiner.py and
nodes/splitter.py by the activation-by-activation correspondence check).  The theorems quantify over
EVERY activation sequence and EVERY answer of the environment (which tokens are triggered, which
items a get() returns, which tokens a get() wakes, can_put results, selector and delay draws):
`run (init cfg) acts` for arbitrary `acts`.

Ghost state the theorems speak about (never printed, never read by the executable part):
`emitted` (one entry per `put` call, appended in the same step that emits the call), `droppedU`,
`pulledPallets`, per unit `pre`/`got` (what a pallet carried on arrival / what was loaded, with the
in-edge), per worker `plan`/`hist`.

Proved in full: the recipe theorem; the splitter's plan/decision accounting; blocking nodes never
discard.  Partial: the multiset equality between `emitted` and the `true` decisions is proved as
an inclusion (every emitted unit is a `true` decision of some worker), not as a count equality.
-/
import FsVerif.Proofs.PackB
namespace FsVerif.Props.C16
open FsVerif PackState

/-- COMBINER.  Every unit a combiner ever puts on an out-edge is a pallet it took from its first
    in-edge (`FromPulled`), carries exactly what it carried on arrival followed by the items loaded
    since, and for every other in-edge e the number of loaded items taken from e is exactly
    `target[e]`; nothing was loaded from any other edge. -/
theorem combiner_packs_recipe (cfg : PackCfg) (hk : cfg.kind = .combiner) (acts : List Act) :
    ∀ u ∈ (run (init cfg) acts).emitted,
      FromPulled (run (init cfg) acts).pulledPallets u ∧
      u.content = u.pre ++ u.got.map Prod.fst ∧
      (∀ e, 1 ≤ e → e < cfg.nin → u.got.countP (fun x => x.2 == e) = cfg.target.getD e 0) ∧
      (∀ x ∈ u.got, 1 ≤ x.2 ∧ x.2 < cfg.nin) := by
  intro u hu
  obtain ⟨hinv, hcfg⟩ := reach_inv cfg acts
  have hc := hinv.comb (by rw [hcfg]; exact hk)
  obtain ⟨w, hw, huw⟩ := hinv.pinv.g1 u hu
  have hplan := hinv.pinv.w1 w hw
  obtain ⟨pal, hpl, hcomp, hfp⟩ := hc.1 w.plan (List.mem_map.mpr ⟨w, hw, rfl⟩)
  have : u ∈ w.plan := by
    rw [← hplan]
    exact List.mem_append_left _ (List.mem_map.mpr ⟨(u, true), huw, rfl⟩)
  rw [hpl] at this
  simp at this; subst this
  rw [hcfg] at hcomp
  exact ⟨hfp, hcomp.content, hcomp.recipe, hcomp.edges⟩

/-- a loaded pallet carries `Σ target[e]` more items than on arrival -/
theorem combiner_load_size (cfg : PackCfg) (hk : cfg.kind = .combiner) (acts : List Act) :
    ∀ u ∈ (run (init cfg) acts).emitted, u.content.length = u.pre.length + u.got.length := by
  intro u hu
  obtain ⟨_, h, _, _⟩ := combiner_packs_recipe cfg hk acts u hu
  rw [h]; simp

/-- SPLITTER.  (1) the workers' plans are, pallet by pallet, exactly the items of the incoming pallet in
    order followed by the pallet itself; (2) at every moment each worker has decided a prefix of its
    plan, one decision per unit, in order, and what is left is exactly the rest of the plan; (3) every
    unit put on an out-edge is a `put` decision of some worker; (4) every dropped unit is a `drop`
    decision.  Hence nothing is emitted that is not an item of an incoming pallet or that pallet, and no
    unit is decided twice. -/
theorem splitter_emits_plan (cfg : PackCfg) (hk : cfg.kind = .splitter) (acts : List Act) :
    let s := run (init cfg) acts
    s.workers.map (·.plan) = s.pulledPallets.map unitsOf ∧
    (∀ w ∈ s.workers, w.hist.map Prod.fst ++ w.todo = w.plan) ∧
    (∀ u ∈ s.emitted, ∃ w ∈ s.workers, (u, true) ∈ w.hist) ∧
    (∀ u ∈ s.droppedU, ∃ w ∈ s.workers, (u, false) ∈ w.hist) := by
  obtain ⟨hinv, hcfg⟩ := reach_inv cfg acts
  exact ⟨hinv.split (by rw [hcfg]; exact hk), hinv.pinv.w1, hinv.pinv.g1, hinv.pinv.g3⟩

/-- corollary: whatever a splitter emits is an item of a pallet it pulled, or that pallet, emptied -/
theorem splitter_emits_nothing_else (cfg : PackCfg) (hk : cfg.kind = .splitter) (acts : List Act) :
    ∀ u ∈ (run (init cfg) acts).emitted, ∃ p ∈ (run (init cfg) acts).pulledPallets, u ∈ unitsOf p := by
  intro u hu
  obtain ⟨h1, h2, h3, _⟩ := splitter_emits_plan cfg hk acts
  obtain ⟨w, hw, huw⟩ := h3 u hu
  have hup : u ∈ w.plan := by
    rw [← h2 w hw]; exact List.mem_append_left _ (List.mem_map.mpr ⟨(u, true), huw, rfl⟩)
  have : w.plan ∈ (run (init cfg) acts).pulledPallets.map unitsOf := by
    rw [← h1]; exact List.mem_map.mpr ⟨w, hw, rfl⟩
  obtain ⟨p, hp, hpe⟩ := List.mem_map.mp this
  exact ⟨p, hp, by rw [hpe]; exact hup⟩

/-- the emptied pallet is the last unit of its plan and carries nothing -/
theorem unitsOf_last (p : Unit') : (unitsOf p).getLast? = some { id := p.id } ∧ ∀ u ∈ unitsOf p, u.content = [] := by
  refine ⟨by simp [unitsOf], ?_⟩
  intro u hu
  simp only [unitsOf, List.mem_append, List.mem_map, List.mem_singleton] at hu
  rcases hu with ⟨c, _, rfl⟩ | rfl <;> rfl

/-- C09 for these nodes: a blocking splitter / combiner never discards; the discard counter is the
    number of dropped units -/
theorem blocking_never_discards (cfg : PackCfg) (acts : List Act) :
    (run (init cfg) acts).discarded = (run (init cfg) acts).droppedU.length ∧
    (cfg.blocking = true → (run (init cfg) acts).droppedU = [] ∧ (run (init cfg) acts).discarded = 0) := by
  obtain ⟨hinv, hcfg⟩ := reach_inv cfg acts
  refine ⟨hinv.pinv.g4, ?_⟩
  intro hb
  have hnil : (run (init cfg) acts).droppedU = [] := by
    rcases hd : (run (init cfg) acts).droppedU with _ | ⟨u, rest⟩
    · rfl
    · exfalso
      obtain ⟨w, hw, huw⟩ := hinv.pinv.g3 u (by rw [hd]; exact List.mem_cons_self)
      have := hinv.pinv.g5 (by rw [hcfg]; exact hb) w hw _ huw
      cases this
  exact ⟨hnil, by rw [hinv.pinv.g4, hnil]; rfl⟩

/-- the ValueError branch of `check_thread_state_and_update_*_state` is dead code with work_capacity 1 -/
theorem state_check_total (s : PackState) (t : Nat) : (s.chk t).isSome = true := chk_isSome s t

/-! ### non-vacuity: concrete runs in which units are emitted -/

/-- combiner, two in-edges, recipe [_, 2]: pallet 7, items 11 and 12 from in-edge 1 -/
def demoComb : List Act :=
  [ (0, 0, {}), (0, 0, {}),
    (0, 1, { trig := [0], items := [{ id := 7, pallet := true }] }),
    (0, 2, { trig := [1], items := [{ id := 11 }] }),
    (0, 3, { trig := [2], items := [{ id := 12 }], draws := [5] }),
    (0, 3, {}), (0, 8, {}),
    (1, 8, {}),
    (1, 9, { trig := [4] }) ]

example : ((run (init { kind := .combiner, nin := 2, nout := 1, target := [1, 2] }) demoComb).emitted.map
    (fun u => (u.id, u.content, u.got))) = [(7, [11, 12], [(11, 1), (12, 1)])] := by decide

/-- splitter: pallet 7 carrying 11, 12 → 11, 12, then 7 -/
def demoSplit : List Act :=
  [ (0, 0, {}), (0, 0, {}),
    (0, 1, { trig := [0] }),
    (0, 1, { items := [{ id := 7, pallet := true, content := [11, 12] }], draws := [2] }),
    (1, 1, {}), (1, 3, {}),
    (1, 3, { trig := [2] }), (1, 4, { trig := [3] }), (1, 5, { trig := [4] }) ]

example : ((run (init { kind := .splitter, nin := 1, nout := 1 }) demoSplit).emitted.map (fun u => (u.id, u.content)))
    = [(11, []), (12, []), (7, [])] := by decide

end FsVerif.Props.C16
