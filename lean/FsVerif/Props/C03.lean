/-
C03 — Flow items are conserved across the whole factory.
Per node: accounting laws of the node automata, for EVERY activation sequence (every schedule,
every environment).  Per edge: C02.  Composition: Spec/Compose.lean, for every graph.
Per-node laws here: Machine, Source, Sink.  Combiner / Splitter unit accounting: Props/C16 (plan / emitted / dropped);
Edge laws: Props/C02 (positional stores, BufferStore, FleetStore, slotted and continuous conveyor); their count form is instantiated below
(`*_edgesum`), so every premise `EdgeSum.ok` / `NodeSum.ok` of the factory identity is discharged by a model theorem.
-/
import FsVerif.Proofs.Machine
import FsVerif.Proofs.SourceSink
import FsVerif.Spec.Compose
import FsVerif.Props.C09
import FsVerif.Proofs.FleetStat
import FsVerif.Proofs.SlotStat
import FsVerif.Proofs.CBeltStat
namespace FsVerif.Props.C03
open FsVerif

/-- Machine: everything pulled is held by a worker, was put downstream, or was dropped — as
    multisets, after every activation, whatever the schedule. -/
theorem machine_accounting (cfg : MacCfg) (acts : List MacState.Act) :
    let s := MacState.runActs (MacState.init cfg) acts
    s.pulled.Perm (s.held ++ s.pushedItems ++ s.dropped) ∧ s.discarded = s.dropped.length :=
  ⟨(MacState.reach_minv cfg acts).account, (MacState.reach_minv cfg acts).disc⟩

/-- Source: everything created is still in hand (at most one item), was put downstream, or was dropped. -/
theorem source_accounting (cfg : SrcCfg) (acts : List SrcState.Act) :
    let s := SrcState.runActs (SrcState.init cfg) acts
    s.created.Perm (s.hand ++ s.pushed ++ s.dropped) ∧ s.hand.length ≤ 1 ∧
    s.generated = s.created.length ∧ s.discarded = s.dropped.length :=
  let h := SrcState.reach_sinv cfg acts
  ⟨h.account, h.hand1, h.gen, h.disc⟩

/-- Sink: the received counter is the number of items taken. -/
theorem sink_accounting (n : Nat) (acts : List SinkState.Act) :
    (SinkState.runActs (SinkState.init n) acts).received = (SinkState.runActs (SinkState.init n) acts).got.length :=
  (SinkState.reach_kinv n acts).recv

/-- Factory level, any graph: generated = in nodes + in edges + discarded + received. -/
theorem factory_counts (ns : List Compose.NodeSum) (es : List Compose.EdgeSum)
    (hn : ∀ n ∈ ns, n.ok) (he : ∀ e ∈ es, e.ok)
    (hput : Compose.sumBy (·.pushed) ns = Compose.sumBy (·.put) es)
    (hgot : Compose.sumBy (·.pulled) ns = Compose.sumBy (·.got) es) :
    Compose.sumBy (·.created) ns =
      Compose.sumBy (·.held) ns + Compose.sumBy (·.inside) es + Compose.sumBy (·.dropped) ns + Compose.sumBy (·.received) ns :=
  Compose.factory_conservation ns es hn he hput hgot

theorem factory_quiescent (ns : List Compose.NodeSum) (es : List Compose.EdgeSum)
    (hn : ∀ n ∈ ns, n.ok) (he : ∀ e ∈ es, e.ok)
    (hput : Compose.sumBy (·.pushed) ns = Compose.sumBy (·.put) es)
    (hgot : Compose.sumBy (·.pulled) ns = Compose.sumBy (·.got) es)
    (hheld : Compose.sumBy (·.held) ns = 0) (hin : Compose.sumBy (·.inside) es = 0) :
    Compose.sumBy (·.created) ns = Compose.sumBy (·.dropped) ns + Compose.sumBy (·.received) ns :=
  Compose.factory_quiescent ns es hn he hput hgot hheld hin

/-- the machine's law instantiates `NodeSum.ok` -/
theorem machine_nodesum (cfg : MacCfg) (acts : List MacState.Act) :
    (Compose.NodeSum.ok { created := 0, pulled := (MacState.runActs (MacState.init cfg) acts).pulled.length,
                          held := (MacState.runActs (MacState.init cfg) acts).held.length,
                          pushed := (MacState.runActs (MacState.init cfg) acts).pushedItems.length,
                          dropped := (MacState.runActs (MacState.init cfg) acts).dropped.length, received := 0 }) := by
  have := (MacState.reach_minv cfg acts).account.length_eq
  simp only [Compose.NodeSum.ok, List.length_append] at *
  omega

/-- … and so do the source's and the sink's -/
theorem source_nodesum (cfg : SrcCfg) (acts : List SrcState.Act) :
    (Compose.NodeSum.ok { created := (SrcState.runActs (SrcState.init cfg) acts).created.length, pulled := 0,
                          held := (SrcState.runActs (SrcState.init cfg) acts).hand.length,
                          pushed := (SrcState.runActs (SrcState.init cfg) acts).pushed.length,
                          dropped := (SrcState.runActs (SrcState.init cfg) acts).dropped.length, received := 0 }) := by
  have := (SrcState.reach_sinv cfg acts).account.length_eq
  simp only [Compose.NodeSum.ok, List.length_append] at *
  omega

theorem sink_nodesum (n : Nat) (acts : List SinkState.Act) :
    (Compose.NodeSum.ok { created := 0, pulled := (SinkState.runActs (SinkState.init n) acts).got.length, held := 0, pushed := 0, dropped := 0,
                          received := (SinkState.runActs (SinkState.init n) acts).received }) := by
  have := (SinkState.reach_kinv n acts).recv
  simp only [Compose.NodeSum.ok]
  omega

/-! ### the edge laws as counts: every edge kind instantiates `EdgeSum.ok` (put = got + inside) in every reachable state -/

theorem buf_edgesum {s : BufStore} (h : BufStore.ReachD s) :
    (Compose.EdgeSum.ok { put := s.putLog.length, got := s.gotLog.length, inside := s.transit.length + s.ready.length }) := by
  have := (BufStore.reachD_binv h).toPre.count
  simp only [Compose.EdgeSum.ok, BufStore.level] at *
  omega

theorem fleet_edgesum {s : FleetStore} (h : FleetStore.ReachD s) :
    (Compose.EdgeSum.ok { put := s.b.putLog.length, got := s.b.gotLog.length, inside := s.b.transit.length + s.b.ready.length }) := by
  have := (FleetStore.reachD_kt h).core.toPre.count
  simp only [Compose.EdgeSum.ok, BufStore.level] at *
  omega

theorem slot_edgesum (cfg : SlotCfg) (ops : List SlotBelt.Op) :
    let s := SlotBelt.run (SlotBelt.init cfg) ops
    (Compose.EdgeSum.ok { put := s.entered.length, got := s.gotLog.length, inside := s.items.length + s.ready.length }) := by
  intro s
  have : s.level + s.gotLog.length = s.entered.length := (SlotBelt.run_cons ops _ (SlotBelt.init_inv cfg) (SlotBelt.init_cons cfg)).count
  simp only [Compose.EdgeSum.ok, SlotBelt.level] at *
  omega

theorem cbelt_edgesum (cfg : CCfg) (ops : List CBelt.Op) :
    let s := CBelt.run (CBelt.init cfg) ops
    (Compose.EdgeSum.ok { put := s.entered.length, got := s.gotLog.length, inside := s.items.length + s.ready.length }) := by
  intro s
  have : s.level + s.gotLog.length = s.entered.length := (CBelt.run_rc ops _ (CBelt.init_rc cfg)).cons.count
  simp only [Compose.EdgeSum.ok, CBelt.level] at *
  omega

/-! ### non-vacuity on the two RECORDED machine runs of Props/C09: 6 pulled = 0 held + 2 pushed + 4 dropped (non-blocking);
3 pulled = 1 held + 2 pushed + 0 dropped (blocking) -/

example : let s := MacState.runActs (MacState.init { wc := 1, blocking := false }) C09.demoNonBlocking
    (s.pulled.length, s.held.length, s.pushedItems.length, s.dropped.length) = (6, 0, 2, 4) := by decide +kernel

example : let s := MacState.runActs (MacState.init { wc := 1, blocking := true }) C09.demoBlocking
    (s.pulled.length, s.held.length, s.pushedItems.length, s.dropped.length) = (3, 1, 2, 0) := by decide +kernel

end FsVerif.Props.C03
