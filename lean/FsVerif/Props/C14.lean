/-
C14 — Fleet delivers whole batches after a full round trip.

Model: Model/FleetStore.lean (FleetStore + the queries of the Fleet edge, after the repair cbd3dcc of
defect D4), tied to base/fleet_store.py and edges/fleet.py by the lock-step correspondence of the
`fleet` family (every API call and every single kernel event compared) and by the C14 judge on the
real traces.  Theorems hold for EVERY operation sequence in which an object is loaded only while it
is not inside (`ReachD`): any interleaving of reservations, puts, gets, cancellations, clock moves
and single kernel events, every capacity, delay and transit delay (zero included).

Ghost state: `departed` (every trip with its batch and departure time), `readyAt` ((put ordinal, time)
for every item that became retrievable), `due` of an entry = its put time.

Proved: exact round trip and batch membership; a batch arrives in one step, in loading order; the batch
is exactly what waits at departure; every waiting item has its departure scheduled within one delay
period; hence put + 2·transit ≤ available ≤ put + delay + 2·transit; capacity.
Partial (`_partial`): "departs when the number of items reaches capacity" is proved as: the capacity
trigger is raised by the put that fills the fleet (one step), not as a reachable-state invariant that
the departure then happens in the same instant under every interleaving.
Known finding (not a theorem): delay = 0 makes the activation loop spin at one instant (KF-D8).
-/
import FsVerif.Proofs.FleetWait
namespace FsVerif.Props.C14
open FsVerif FleetStore

/-- Every item that ever became retrievable did so exactly one round trip after the departure of the
    trip whose batch it belongs to; it had been loaded before that departure, and the departure came at
    most one delay period after it was loaded. -/
theorem fleet_round_trip {s : FleetStore} (h : ReachD s) :
    ∀ x ∈ s.readyAt, ∃ t ∈ s.departed, ∃ e ∈ t.batch, e.seq = x.1 ∧
      x.2 = t.depart + 2 * s.cfg.transit ∧ e.due ≤ t.depart ∧ t.depart ≤ e.due + s.cfg.delay := by
  intro x hx
  obtain ⟨t, ht, e, he, h1, h2⟩ := (reachD_kt h).readyOK x hx
  exact ⟨t, ht, e, he, h1, h2, (reachD_kt h).departLe t ht e he, (reachD_bw h).b3 t ht e he⟩

/-- … hence: loaded at p ⇒ retrievable no earlier than p + 2·transit and no later than p + delay + 2·transit -/
theorem fleet_wait_bounds {s : FleetStore} (h : ReachD s) :
    ∀ x ∈ s.readyAt, ∃ t ∈ s.departed, ∃ e ∈ t.batch, e.seq = x.1 ∧
      e.due + 2 * s.cfg.transit ≤ x.2 ∧ x.2 ≤ e.due + s.cfg.delay + 2 * s.cfg.transit := by
  intro x hx
  obtain ⟨t, ht, e, he, h1, h2, h3, h4⟩ := fleet_round_trip h x hx
  exact ⟨t, ht, e, he, h1, by omega, by omega⟩

/-- A departure takes exactly what is waiting — loaded and not under way — in loading order, and records
    the departure time. -/
theorem departure_takes_waiting (s : FleetStore) (hw : s.waiting ≠ []) :
    ∃ t, s.body.departed = s.departed ++ [t] ∧ t.batch = s.waiting ∧ t.depart = s.now ∧
      s.waiting = s.b.transit.filter (fun e => !s.inTransit.contains e) := by
  refine ⟨{ id := s.nextTrip, batch := s.waiting, depart := s.now, lo := s.upTo, hi := s.b.putLog.length }, ?_, rfl, rfl, rfl⟩
  have hne : s.waiting.isEmpty = false := by cases h : s.waiting <;> simp_all
  unfold FleetStore.body
  simp only [hne, Bool.false_eq_true, if_false]
  rw [(enterLoop_fields _).2.2.2.2.1]
  split <;> rfl

/-- When the second transit timeout of a trip fires, its whole batch becomes retrievable in that one
    step, in batch (= loading) order, stamped with the current time. -/
theorem batch_arrives_together {s : FleetStore} (h : KT s) (m : Nat)
    (hm : ∃ t ∈ s.departed, t.id = m ∧ s.now = t.depart + 2 * s.cfg.transit) :
    (∀ t ∈ s.trips, t.id ≠ m) ∨ ∃ t ∈ s.trips, t.id = m ∧
      (s.arriveTrip m).readyAt = s.readyAt ++ t.batch.map (fun e => (e.seq, s.now)) :=
  (h.arriveTrip m hm).2.2.2.2.2.2.2

/-- A waiting item has its departure scheduled: the event the activation process is waiting for is in
    the queue and due no later than one delay period after the item was loaded.  (The clock cannot pass
    a queued event: `clock_discipline`.) -/
theorem waiting_has_departure {s : FleetStore} (h : ReachD s) :
    ∀ e ∈ s.waiting, ∃ ev ∈ s.queue, ev.kind = s.wkind ∧ ev.time + s.slack ≤ e.due + s.cfg.delay :=
  (reachD_bw h).b1

theorem clock_discipline {s : FleetStore} (h : ReachD s) : ∀ ev ∈ s.queue, s.now ≤ ev.time := (reachD_kt h).clock

/-- the capacity trigger: the put that makes loaded + delivered items equal to the capacity raises
    activate_fleet in the same step (unless it is already raised and not yet consumed) -/
theorem capacity_trigger_partial (s : FleetStore) (hfull : capFull s.cfg s.b = true) (hnot : s.actTriggered = false) :
    s.trigger.actTriggered = true ∧ ∃ ev ∈ s.trigger.queue, ev.kind = .act s.curAct ∧ ev.time = s.now := by
  unfold FleetStore.trigger
  simp only [hfull, hnot, Bool.not_false, Bool.and_self, if_true]
  exact ⟨rfl, _, mem_insEv.mpr (Or.inl rfl), rfl, rfl⟩

/-- C01 for the fleet: items on board + delivered + granted space reservations never exceed the capacity;
    trips only carry loaded items, every item under way is still counted -/
theorem fleet_capacity {s : FleetStore} (h : ReachD s) (c : Nat) (hc : s.cfg.cap = some c) :
    s.b.putRes.length + (s.b.transit.length + s.b.ready.length) ≤ c ∧ (∀ e ∈ s.inTransit, e ∈ s.b.transit) := by
  have hk := reachD_kt h
  exact ⟨hk.core.cap c (by rw [hk.cfgB]; exact hc), hk.sub⟩

/-! ### non-vacuity -/

def demo : List Op :=
  [.ev, .reservePut 0, .put 0 0 { id := 5 }, .reservePut 0, .put 0 1 { id := 6 }, .adv 4, .ev, .ev, .ev,
   .reservePut 0, .put 0 2 { id := 7 }, .adv 1, .ev, .adv 1, .ev]

example : (FleetStore.run (init { cap := some 4, delay := 4, transit := 1 }) demo).readyAt = [(0, 6), (1, 6)] ∧
    ((FleetStore.run (init { cap := some 4, delay := 4, transit := 1 }) demo).waiting.map (·.item.id)) = [7] := by decide

end FsVerif.Props.C14
