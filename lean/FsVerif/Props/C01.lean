/-
C01 — Store capacity is never exceeded; a granted space reservation is always honoured.
Property theorems only; helper lemmas live in Proofs/.
-/
import FsVerif.Proofs.PosExtra
import FsVerif.Proofs.BufExtra
import FsVerif.Proofs.Fleet
import FsVerif.Proofs.SlotBelt3
import FsVerif.Proofs.CBeltRoom
import FsVerif.Proofs.PrioReqCap
namespace FsVerif.Props.C01
open FsVerif PosStore

/-- Positional stores (ReservableReqStore, ReservablePriorityReqStore, …FilterStore): in every
    reachable state, items held + granted-unused space reservations ≤ capacity. -/
theorem pos_capacity {s : PosStore} (h : Reachable s) (c : Nat) (hc : s.cfg.cap = some c) :
    s.items.length + s.putRes.length ≤ c := by
  have := (reachable_inv h).cap c hc; omega

/-- A put made with a granted, un-cancelled reservation by its owner succeeds … -/
theorem pos_put_honoured {s : PosStore} (h : Reachable s) {t : Tok} (ht : t ∈ s.putRes) (x : Item) :
    (s.step (.put t.proc t.id x)).2 = .ok := by
  have hi := clearFired_inv (reachable_inv h)
  unfold step
  exact put_accept x hi ⟨t, ht, rfl, rfl⟩

/-- … and the store it leaves behind is again within capacity (every step preserves the bound,
    whatever the call: accepted, rejected, timer). -/
theorem pos_step_capacity {s : PosStore} (h : Reachable s) (op : Op) (c : Nat) (hc : s.cfg.cap = some c) :
    (s.step op).1.items.length + (s.step op).1.putRes.length ≤ c := by
  have hi := (reachable_inv (reachable_step h op)).cap c (by rw [step_cfg]; exact hc)
  omega

/-- The second capacity test inside `_do_put` is dead code on reachable states. -/
theorem pos_second_test_dead {s : PosStore} (h : Reachable s) {t : Tok} (ht : t ∈ s.putRes) :
    ((s.dropPutRes t).addTimer).capRoom = true :=
  capRoom_of_granted (reachable_inv h).cap ht

/-- Non-vacuity: a reachable full store with a waiting request. -/
example : ∃ s : PosStore, Reachable s ∧ s.cfg.cap = some 1 ∧ s.putRes.length = 1 ∧ s.putQ.length = 1 :=
  ⟨run (init { cap := some 1 }) [.reservePut 0 0, .reservePut 1 0], ⟨_, _, rfl⟩, by decide⟩


/-! ### BufferStore / Buffer (per-item delay, FIFO and LIFO) -/

/-- in transit + ready + granted-unused space reservations ≤ capacity, in every state reachable
    while no object is stored twice at the same time -/
theorem buf_capacity {s : BufStore} (h : BufStore.ReachD s) (c : Nat) (hc : s.cfg.cap = some c) :
    s.transit.length + s.ready.length + s.putRes.length ≤ c := by
  have := (BufStore.reachD_binv h).cap c hc
  simp only [BufStore.level] at this; omega

theorem buf_put_honoured {s : BufStore} (h : BufStore.ReachD s) {t : Tok} (ht : t ∈ s.putRes) (x : Item) (d : Nat) :
    (s.step (.put t.proc t.id x d)).2 = .ok := by
  have hi := BufStore.clearFired_core (BufStore.reachD_binv h).toCore
  unfold BufStore.step
  exact BufStore.put_accept x d hi.toPre ⟨t, ht, rfl, rfl⟩

/-- the overflow guard in `move_to_ready_items` never fires and no undocumented exception escapes -/
theorem buf_move_guard_dead {s : BufStore} (h : BufStore.ReachD s) :
    s.crashed = false ∧ ∀ e ∈ s.transit, s.moveRoom e = true :=
  ⟨(BufStore.reachD_binv h).alive, fun _ he => BufStore.moveRoom_of_transit (BufStore.reachD_binv h).toPre he⟩

/-- `Buffer.occupancy()` counts in-transit and ready items -/
theorem buf_occupancy (s : BufStore) : s.occupancy = s.transit.length + s.ready.length := rfl

/-! ### FleetStore / Fleet, both conveyor stores, PriorityReqStore -/

/-- the store inside a Fleet: items waiting for the vehicle or under way + delivered items + granted-unused space reservations never
    exceed the capacity, in every reachable state (kernel events of the fleet's processes included) -/
theorem fleet_capacity {s : FleetStore} (h : FleetStore.ReachD s) (c : Nat) (hc : s.cfg.cap = some c) :
    s.b.putRes.length + (s.b.transit.length + s.b.ready.length) ≤ c := by
  have hk := FleetStore.reachD_kt h
  have := hk.core.cap c (by rw [hk.cfgB]; exact hc)
  simpa [BufStore.level] using this

/-- slotted conveyor: items travelling + items at the exit + granted-unused space reservations ≤ capacity, for every operation sequence -/
theorem slot_capacity (cfg : SlotCfg) (ops : List SlotBelt.Op) :
    let s := SlotBelt.run (SlotBelt.init cfg) ops
    s.putRes.length + (s.items.length + s.ready.length) ≤ s.cfg.cap :=
  (SlotBelt.run_inv ops _ (SlotBelt.init_inv cfg)).room.room

/-- continuous conveyor: the same, interrupts / resumes / the state machine included -/
theorem cbelt_capacity (cfg : CCfg) (ops : List CBelt.Op) :
    let s := CBelt.run (CBelt.init cfg) ops
    s.putRes.length + (s.items.length + s.ready.length) ≤ s.cfg.cap :=
  (CBelt.run_roomC ops _ (CBelt.init_roomC cfg)).room

/-- PriorityReqStore: a put request is triggered only while there is room -/
theorem prq_capacity {s : PrioReq} (h : PrioReq.Reachable s) : s.items.length ≤ s.cap :=
  PrioReq.reachable_cap h

/-- non-vacuity: a PriorityReqStore of capacity 1 holding one item with a second put waiting -/
example : (PrioReq.run (PrioReq.init 1) [.put 0 ⟨1, 0⟩, .put 0 ⟨2, 0⟩]).items.length = 1 ∧
          (PrioReq.run (PrioReq.init 1) [.put 0 ⟨1, 0⟩, .put 0 ⟨2, 0⟩]).putQ.length = 1 := by decide

end FsVerif.Props.C01
