/-
C20 — Every valid model runs to completion: no crash, no zero-time livelock.   (partial)
Proved: (1) the validation logic — every configuration the property calls invalid is rejected with
an error (at construction, in the first activation of the node concerned, or at the first draw),
and a configuration with all parameters in their domains passes every check; (2) per-component
termination: the operations of every store model are total functions, all internal events due at
one instant are processed by structural recursion over a finite list (`settle`), and for the
request store `settle` provably reaches a state with nothing pending; a node activation is a total
function producing a finite list of calls.  NOT proved: factory-wide absence of zero-time livelock
(it is false: finding D19, a blocking source with inter-arrival time 0 in front of a path that never
blocks spins at t = 0), crash freedom of components that are not modelled (conveyors, fleet,
splitter, combiner).  Crashes and livelocks are detected on recorded runs by a watchdog.
-/
import FsVerif.Model.Config
import FsVerif.Proofs.PrioReq
import FsVerif.Proofs.BufExtra
import FsVerif.Proofs.SlotWake
import FsVerif.Proofs.CBeltProc
import FsVerif.Proofs.CBeltBind
import FsVerif.Proofs.Fleet
namespace FsVerif.Props.C20
open FsVerif

theorem firstSome_ne_ok {l : List (Option (Stage × Err))} {x : Option (Stage × Err)} (hx : x ∈ l) (hs : x.isSome = true) :
    ∃ st e, firstSome l = .rejected st e := by
  unfold firstSome
  obtain ⟨v, hv⟩ := Option.isSome_iff_exists.mp hs
  have hm : v ∈ l.filterMap id := List.mem_filterMap.mpr ⟨x, hx, by simp [hv]⟩
  cases hl : l.filterMap id with
  | nil => rw [hl] at hm; simp at hm
  | cons y ys => exact ⟨y.1, y.2, rfl⟩

theorem firstSome_ok {l : List (Option (Stage × Err))} (h : ∀ x ∈ l, x = none) : firstSome l = .ok := by
  unfold firstSome
  have : l.filterMap id = [] := by
    rw [List.filterMap_eq_nil_iff]
    intro x hx; rw [h x hx]; rfl
  rw [this]

/-- every invalid configuration is rejected with an error instead of being simulated -/
theorem invalid_rejected (c : LineCfg) (h : Invalid c) : ∃ st e, validate c = .rejected st e := by
  unfold validate
  unfold Invalid at h
  rcases h with h | h | h | h | h | h | h | h | h | h | h | h | h | h
  · exact firstSome_ne_ok (x := if c.cap = .pos then none else some (.construction, .value)) (by simp) (by simp [h])
  · exact firstSome_ne_ok (x := if c.modeOK then none else some (.construction, .value)) (by simp) (by simp [h])
  · exact firstSome_ne_ok (x := if c.bufDelay = .neg then some (.firstUse, .assertion) else none) (by simp) (by simp [h])
  · exact firstSome_ne_ok (x := if c.iat = .neg then some (.firstUse, .assertion) else none) (by simp) (by simp [h])
  · exact firstSome_ne_ok (x := if c.pd = .neg then some (.firstUse, .assertion) else none) (by simp) (by simp [h])
  · exact firstSome_ne_ok (x := if c.setup = .neg then some (.start, .value) else none) (by simp) (by simp [h])
  · exact firstSome_ne_ok (x := if c.iat = .zero ∧ c.srcBlocking = false then some (.construction, .value) else none) (by simp) (by simp [h])
  · exact firstSome_ne_ok (x := if c.srcConnected then none else some (.start, .assertion)) (by simp) (by simp [h])
  · exact firstSome_ne_ok (x := if c.machIn ∧ c.machOut then none else some (.start, .assertion)) (by simp) (by simp [h])
  · exact firstSome_ne_ok (x := if c.machIn ∧ c.machOut then none else some (.start, .assertion)) (by simp) (by simp [h])
  · exact firstSome_ne_ok (x := if c.sinkConnected then none else some (.start, .assertion)) (by simp) (by simp [h])
  · exact firstSome_ne_ok (x := (polStart c.srcPol).map fun e => (.start, e)) (by simp) (by simp [h, polStart])
  · exact firstSome_ne_ok (x := (polStart c.inPol).map fun e => (.start, e)) (by simp) (by simp [h, polStart])
  · exact firstSome_ne_ok (x := (polStart c.outPol).map fun e => (.start, e)) (by simp) (by simp [h, polStart])

/-- all parameters in their documented domains -/
def Clean (c : LineCfg) : Prop :=
  c.cap = .pos ∧ c.modeOK = true ∧ (c.bufDelay = .zero ∨ c.bufDelay = .pos) ∧
  (c.iat = .pos ∨ (c.iat = .zero ∧ c.srcBlocking = true)) ∧ (c.pd = .zero ∨ c.pd = .pos) ∧ (c.setup = .zero ∨ c.setup = .pos) ∧
  polStart c.srcPol = none ∧ polStart c.inPol = none ∧ polStart c.outPol = none ∧
  c.srcConnected = true ∧ c.machIn = true ∧ c.machOut = true ∧ c.sinkConnected = true

/-- … and a configuration with every parameter in its domain passes every check -/
theorem clean_accepted (c : LineCfg) (h : Clean c) : validate c = .ok := by
  obtain ⟨h1, h2, h3, h4, h5, h6, h7, h8, h9, h10, h11, h12, h13⟩ := h
  unfold validate
  apply firstSome_ok
  intro x hx
  simp only [List.mem_cons, List.mem_nil_iff, or_false] at hx
  rcases hx with rfl | rfl | rfl | rfl | rfl | rfl | rfl | rfl | rfl | rfl | rfl | rfl | rfl | rfl | rfl | rfl | rfl | rfl | rfl | rfl | rfl | rfl
  · simp [h1]
  · simp [h2]
  · rcases h3 with h | h <;> simp [h]
  · rcases h4 with h | ⟨h, hb⟩ <;> simp [h, *]
  · rcases h4 with h | ⟨h, hb⟩ <;> simp [h]
  · rcases h6 with h | h <;> simp [h]
  · rcases h5 with h | h <;> simp [h]
  · simp [h10]
  · simp [h7]
  · rcases h4 with h | ⟨h, hb⟩ <;> simp [h]
  · simp [h11]
  · simp [h8]
  · simp [h12]
  · simp [h9]
  · rcases h5 with h | h <;> simp [h]
  · simp [h11, h12]
  · rcases h6 with h | h <;> simp [h]
  · simp [h13]
  · rcases h4 with h | ⟨h, hb⟩ <;> simp [h]
  · rcases h3 with h | h <;> simp [h]
  · rcases h3 with h | h <;> simp [h]
  · rcases h5 with h | h <;> simp [h]

/-- the request store: processing the pending request events of one instant terminates with nothing
    left pending (finitely many events per instant) -/
theorem prq_settle_terminates (s : PrioReq) : s.settle.pending = [] := PrioReq.settle_quiescent s

/-- BufferStore: after `settle` no move process is due at this instant any more (C11.buf_settle_quiescent)
    — the per-instant work of the buffer is one pass over a finite timer list. -/
theorem buf_instant_finite {s : BufStore} (h : BufStore.ReachD s) : BufStore.quiescent s.settle := by
  have hf := BufStore.reachD_full h
  have hc : BufStore.Core { s with timers := s.timers.filter (fun e => !(decide (e.due ≤ s.now))) } :=
    BufStore.core_of_eq hf.toCore rfl rfl rfl rfl rfl rfl rfl rfl rfl rfl rfl rfl rfl
  have hp := (BufStore.filter_split_perm s.timers (fun e => decide (e.due ≤ s.now))).trans hf.timers
  have hp' : (s.timers.filter (fun e => decide (e.due ≤ s.now)) ++
      ({ s with timers := s.timers.filter (fun e => !(decide (e.due ≤ s.now))) } : BufStore).timers).Perm
      ({ s with timers := s.timers.filter (fun e => !(decide (e.due ≤ s.now))) } : BufStore).transit := by
    simpa using hp
  intro e he
  rw [(BufStore.settle_full hf).2]
  unfold BufStore.settle at he
  rw [BufStore.fireAll_timers' _ _ hc hp'] at he
  have := (List.mem_filter.mp he).2
  simp at this; omega

/-- the slotted conveyor store never takes one of its failure branches: `items.index(item)` in `move_to_ready_items` always finds the
    item, its overflow guard never fires, `_trigger_reserve_get` never runs past the ready list — for every operation sequence (valid or
    invalid calls, any clock moves) and every kernel event.  (`crashed` is set exactly in those branches of the model.) -/
theorem slot_store_never_raises_internally (cfg : SlotCfg) (ops : List SlotBelt.Op) :
    (SlotBelt.run (SlotBelt.init cfg) ops).crashed = false :=
  SlotBelt.run_alive ops _ (SlotBelt.init_inv cfg) (SlotBelt.init_w cfg) (SlotBelt.init_bd cfg) rfl

/-- BufferStore / the store inside a Fleet: the same (every reachable state is alive) -/
theorem buf_store_never_raises_internally {s : BufStore} (h : BufStore.ReachD s) : s.crashed = false :=
  (BufStore.reachD_binv h).alive

theorem fleet_store_never_raises_internally {s : FleetStore} (h : FleetStore.ReachD s) : s.b.crashed = false :=
  (FleetStore.reachD_kt h).core.alive

/-- continuous conveyor store: `move_to_ready_items` never fails — in every reachable state (every API call, every kernel event,
    interrupts / resumes and the state machine included) every live move process finds its item on the belt (`items.index(item)`) and the
    overflow guard has room for it; and `_trigger_reserve_get` never runs past the ready list (the binding invariant).  What CAN make the
    continuous conveyor give up is `_get_belt_pattern` raising its placement error on an accumulating belt (known finding KF-D29). -/
theorem cbelt_arrival_never_fails (cfg : CCfg) (ops : List CBelt.Op) :
    let s := CBelt.run (CBelt.init cfg) ops
    ∀ p ∈ s.procs, ∃ e, s.items.find? (fun e => e.seq == p.q) = some e ∧ s.ready.length + (s.items.erase e).length < s.cfg.cap := by
  intro s p hp
  have hpi : CBelt.PI s := CBelt.run_pi ops _ (CBelt.init_pi cfg)
  have hrc : CBelt.RC s := CBelt.run_rc ops _ (CBelt.init_rc cfg)
  exact CBelt.arrive_ok hpi hrc.room (hpi p hp)

theorem cbelt_trigger_get_in_range (cfg : CCfg) (ops : List CBelt.Op) :
    let s := CBelt.run (CBelt.init cfg) ops
    s.getRes.length < s.ready.length → ∃ e, s.ready[s.resEv.length]? = some e := by
  intro s hlt
  have hb : CBelt.Bd s := CBelt.run_bd ops _ (CBelt.init_bd cfg)
  have hk : s.resEv.length < s.ready.length := by rw [hb.ev.length_eq]; exact hlt
  exact ⟨s.ready[s.resEv.length], List.getElem?_eq_getElem hk⟩

example : validate {} = .ok := by decide
example : validate { cap := .zero } = .rejected .construction .value := by decide
example : validate { iat := .zero, srcBlocking := false } = .rejected .construction .value := by decide
example : validate { outPol := .constBad } = .rejected .start .assertion := by decide

end FsVerif.Props.C20
