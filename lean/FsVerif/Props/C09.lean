/-
C09 — Blocking nodes never discard; non-blocking nodes never wait.
(Source and Machine automata; Splitter / Combiner not yet modelled.  "never waits" additionally
needs that can_put is exact (C11): then the reservation issued right after a positive probe is
granted at once.)
-/
import FsVerif.Proofs.Machine
import FsVerif.Proofs.SourceSink
namespace FsVerif.Props.C09
open FsVerif

theorem machine_blocking_never_discards (cfg : MacCfg) (acts : List MacState.Act)
    (hb : (MacState.runActs (MacState.init cfg) acts).cfg.blocking = true) :
    (MacState.runActs (MacState.init cfg) acts).discarded = 0 ∧ (MacState.runActs (MacState.init cfg) acts).dropped = [] := by
  have h := MacState.reach_minv cfg acts
  have h0 := h.blk hb
  exact ⟨h0, by have := h.disc; rw [h0] at this; exact List.eq_nil_of_length_eq_zero this.symm⟩

theorem source_blocking_never_discards (cfg : SrcCfg) (acts : List SrcState.Act)
    (hb : (SrcState.runActs (SrcState.init cfg) acts).cfg.blocking = true) :
    (SrcState.runActs (SrcState.init cfg) acts).discarded = 0 :=
  (SrcState.reach_sinv cfg acts).blk hb

/-- discard count and dropped items go together: the counter rises by exactly one per dropped item -/
theorem discard_counts_exactly (cfg : MacCfg) (acts : List MacState.Act) (scfg : SrcCfg) (sacts : List SrcState.Act) :
    (MacState.runActs (MacState.init cfg) acts).discarded = (MacState.runActs (MacState.init cfg) acts).dropped.length ∧
    (SrcState.runActs (SrcState.init scfg) sacts).discarded = (SrcState.runActs (SrcState.init scfg) sacts).dropped.length :=
  ⟨(MacState.reach_minv cfg acts).disc, (SrcState.reach_sinv scfg sacts).disc⟩

end FsVerif.Props.C09
