/-
C09 — Blocking nodes never discard; non-blocking nodes never wait.
(Source and Machine automata here; Splitter / Combiner: `pack_blocking_never_discards` below, from Proofs/Pack*.lean.  "never waits" additionally
needs that can_put is exact (C11): then the reservation issued right after a positive probe is
granted at once.)
-/
import FsVerif.Proofs.Machine
import FsVerif.Proofs.SourceSink
import FsVerif.Props.C16
namespace FsVerif.Props.C09
open FsVerif

theorem machine_blocking_never_discards (cfg : MacCfg) (acts : List MacState.Act)
    (hb : (MacState.runActs (MacState.init cfg) acts).cfg.blocking = true) :
    (MacState.runActs (MacState.init cfg) acts).discarded = 0 ∧ (MacState.runActs (MacState.init cfg) acts).dropped = [] := by
  have h := MacState.reach_minv cfg acts
  have h0 := h.blk hb
  exact ⟨h0, by have := h.disc; rw [h0] at this; exact List.eq_nil_of_length_eq_zero this.symm⟩

theorem source_blocking_never_discards (cfg : SrcCfg) (acts : List SrcState.Act)
    (hb : (SrcState.runActs (SrcState.init cfg) acts).cfg.blocking = true) :
    (SrcState.runActs (SrcState.init cfg) acts).discarded = 0 :=
  (SrcState.reach_sinv cfg acts).blk hb

/-- discard count and dropped items go together: the counter rises by exactly one per dropped item -/
theorem discard_counts_exactly (cfg : MacCfg) (acts : List MacState.Act) (scfg : SrcCfg) (sacts : List SrcState.Act) :
    (MacState.runActs (MacState.init cfg) acts).discarded = (MacState.runActs (MacState.init cfg) acts).dropped.length ∧
    (SrcState.runActs (SrcState.init scfg) sacts).discarded = (SrcState.runActs (SrcState.init scfg) sacts).dropped.length :=
  ⟨(MacState.reach_minv cfg acts).disc, (SrcState.reach_sinv scfg sacts).disc⟩

/-- Combiner and Splitter: a blocking one never discards a unit (pallet or item), under every schedule; the discard counter
    is the number of dropped units -/
theorem pack_blocking_never_discards (cfg : PackCfg) (acts : List PackState.Act) (hb : cfg.blocking = true) :
    (PackState.run (PackState.init cfg) acts).droppedU = [] ∧ (PackState.run (PackState.init cfg) acts).discarded = 0 :=
  (C16.blocking_never_discards cfg acts).2 hb

/-! ### non-vacuity: two RECORDED runs of the real Machine (tools/lean_demo.py: Source every 2 → Buffer → Machine with
processing delay 1 → Buffer of capacity 1 and delay 6 → Sink, 14 time units).  The non-blocking machine finds the out-edge full
four times and discards four items; the blocking machine waits instead and discards nothing. -/

def demoNonBlocking : List MacState.Act :=
[ ⟨0, 0, {}⟩,
  ⟨0, 0, {}⟩,
  ⟨0, 0, {}⟩,
  ⟨0, 2, { trig := [0], draws := [1], items := [{ id := 1, created := 2 }] }⟩,
  ⟨1, 2, {}⟩,
  ⟨1, 3, { cans := [true] }⟩,
  ⟨2, 3, {}⟩,
  ⟨2, 3, { trig := [1] }⟩,
  ⟨1, 3, {}⟩,
  ⟨1, 3, {}⟩,
  ⟨0, 3, {}⟩,
  ⟨0, 4, { trig := [2], draws := [1], items := [{ id := 2, created := 4 }] }⟩,
  ⟨3, 4, {}⟩,
  ⟨3, 5, { cans := [false] }⟩,
  ⟨3, 5, {}⟩,
  ⟨0, 5, {}⟩,
  ⟨0, 6, { trig := [3], draws := [1], items := [{ id := 3, created := 6 }] }⟩,
  ⟨4, 6, {}⟩,
  ⟨4, 7, { cans := [false] }⟩,
  ⟨4, 7, {}⟩,
  ⟨0, 7, {}⟩,
  ⟨0, 8, { trig := [4], draws := [1], items := [{ id := 4, created := 8 }] }⟩,
  ⟨5, 8, {}⟩,
  ⟨5, 9, { cans := [false] }⟩,
  ⟨5, 9, {}⟩,
  ⟨0, 9, {}⟩,
  ⟨0, 10, { trig := [5], draws := [1], items := [{ id := 5, created := 10 }] }⟩,
  ⟨6, 10, {}⟩,
  ⟨6, 11, { cans := [true] }⟩,
  ⟨7, 11, {}⟩,
  ⟨7, 11, { trig := [6] }⟩,
  ⟨6, 11, {}⟩,
  ⟨6, 11, {}⟩,
  ⟨0, 11, {}⟩,
  ⟨0, 12, { trig := [7], draws := [1], items := [{ id := 6, created := 12 }] }⟩,
  ⟨8, 12, {}⟩,
  ⟨8, 13, { cans := [false] }⟩,
  ⟨8, 13, {}⟩,
  ⟨0, 13, {}⟩ ]

def demoBlocking : List MacState.Act :=
[ ⟨0, 0, {}⟩,
  ⟨0, 0, {}⟩,
  ⟨0, 0, {}⟩,
  ⟨0, 2, { trig := [0], draws := [1], items := [{ id := 1, created := 2 }] }⟩,
  ⟨1, 2, {}⟩,
  ⟨1, 3, {}⟩,
  ⟨1, 3, { trig := [1] }⟩,
  ⟨1, 3, {}⟩,
  ⟨0, 3, {}⟩,
  ⟨0, 4, { trig := [2], draws := [1], items := [{ id := 2, created := 4 }] }⟩,
  ⟨2, 4, {}⟩,
  ⟨2, 5, {}⟩,
  ⟨2, 9, { trig := [3] }⟩,
  ⟨2, 9, {}⟩,
  ⟨0, 9, {}⟩,
  ⟨0, 9, { trig := [4], draws := [1], items := [{ id := 3, created := 6 }] }⟩,
  ⟨3, 9, {}⟩,
  ⟨3, 10, {}⟩ ]

example : (MacState.runActs (MacState.init { wc := 1, blocking := false }) demoNonBlocking).discarded = 4 ∧
    (MacState.runActs (MacState.init { wc := 1, blocking := false }) demoNonBlocking).dropped = [2, 3, 4, 6] ∧
    (MacState.runActs (MacState.init { wc := 1, blocking := false }) demoNonBlocking).flagged = false := by decide +kernel

example : (MacState.runActs (MacState.init { wc := 1, blocking := true }) demoBlocking).discarded = 0 ∧
    (MacState.runActs (MacState.init { wc := 1, blocking := true }) demoBlocking).pulled = [1, 2, 3] ∧
    (MacState.runActs (MacState.init { wc := 1, blocking := true }) demoBlocking).flagged = false := by decide +kernel

end FsVerif.Props.C09
