/-
C05 — Requests are served by priority, first-come-first-served among equals.
-/
import FsVerif.Proofs.PosExtra
import FsVerif.Proofs.PrioReq
import FsVerif.Proofs.FleetSorted
import FsVerif.Proofs.SlotSorted
import FsVerif.Proofs.Fcfs
namespace FsVerif.Props.C05
open FsVerif PosStore

/-- Both waiting queues are always in service order: increasing priority value, and by arrival
    (token ids are allocated in arrival order) among equal priorities.  Priority and id of a
    token never change, so the relative order of two waiting requests is fixed for good: arrival,
    use or cancellation of other requests cannot change it. -/
theorem pos_queues_sorted {s : PosStore} (h : Reachable s) : QSorted s.putQ ∧ QSorted s.getQ :=
  (reachable_inv h).sorted

/-- `before` is a strict order determined by the two tokens alone. -/
theorem before_asymm (a b : Tok) : a.before b → ¬ b.before a := by
  unfold Tok.before; omega

/-- Only the head of a queue is ever served (space side): a token granted by the trigger precedes
    every request still waiting afterwards. -/
theorem pos_put_grant_is_min {s : PosStore} (h : Reachable s) :
    ∀ g ∈ s.trigPut.putRes, g ∉ s.putRes → ∀ w ∈ s.trigPut.putQ, g.before w :=
  trigPut_grant_min (reachable_inv h).sorted.1

theorem pos_get_grant_is_min {s : PosStore} (h : Reachable s) :
    ∀ g ∈ s.trigGet.getRes, g ∉ s.getRes → ∀ w ∈ s.trigGet.getQ, g.before w :=
  trigGet_grant_min (reachable_inv h).sorted.2

/-- The stable sort performed by `reserve_*` on the (sorted) queue is one ordered insertion that
    leaves the relative order of the requests already waiting untouched. -/
theorem pos_insert_stable {s : PosStore} (h : Reachable s) (t : Tok) :
    stableSort (s.putQ ++ [t]) = insSorted t s.putQ ∧ s.putQ.Sublist (insSorted t s.putQ) := by
  refine ⟨stableSort_append_one (reachable_inv h).sorted.1, ?_⟩
  generalize s.putQ = q
  induction q with
  | nil => simp [insSorted]
  | cons x xs ih =>
    unfold insSorted
    split
    · exact List.Sublist.cons _ (List.Sublist.refl _)
    · exact List.Sublist.cons_cons _ ih

/-- FCFS class (`ReservableReqStore`): `reserve_*` take no priority; every request is filed with
    priority 0 … -/
theorem pos_fcfs_prio (s : PosStore) (hp : s.cfg.prio = false) (pr : Int) : s.effPrio pr = 0 := by
  simp [effPrio, hp]

/-- … and among equal priorities service order is arrival order. -/
theorem before_of_equal_prio {a b : Tok} (h : a.prio = b.prio) : a.before b ↔ a.id < b.id := by
  unfold Tok.before; omega

/-- Non-vacuity: three waiting requests with priorities 1, -1, -1 are queued as (-1, first), (-1, second), (1). -/
example : (run (init { cap := some 1 }) [.reservePut 0 0, .reservePut 1 1, .reservePut 2 (-1), .reservePut 3 (-1)]).putQ.map (·.id)
    = [2, 3, 1] := by decide


/-! ### PriorityReqStore (put / get requests with priorities on a plain SimPy store) -/

/-- request queues sorted by (priority, arrival) in every reachable state -/
theorem prq_queues_sorted {s : PrioReq} (h : PrioReq.Reachable s) :
    PrioReq.PSorted s.putQ ∧ QSorted s.getQ :=
  ⟨(PrioReq.reachable_inv h).putS, (PrioReq.reachable_inv h).getS⟩

/-- the trigger serves the head only, and the head precedes everything behind it -/
theorem prq_head_is_min {s : PrioReq} (h : PrioReq.Reachable s) :
    (∀ t x q, s.putQ = (t, x) :: q → ∀ w ∈ q, t.before w.1) ∧ (∀ t q, s.getQ = t :: q → ∀ w ∈ q, t.before w) :=
  ⟨fun _ _ _ hq => PrioReq.trigPut_min (PrioReq.reachable_inv h) hq,
   fun _ _ hq => PrioReq.trigGet_min (PrioReq.reachable_inv h) hq⟩

example : ((PrioReq.run (PrioReq.init 1) [.get 1, .get 1, .get (-1), .put 0 ⟨5, 0⟩, .put 0 ⟨6, 0⟩, .settle]).getQ.map (·.id)) = [1] := by
  decide

/-! ### FleetStore and the slotted BeltStore (`reserve_put(priority)` / `reserve_get(priority)`): both request queues are in service
order - by priority, first come first served among equals - in every reachable state: every API call with any priorities and every
kernel event.  Only the head of a queue is ever granted (`trigPut` / `trigGet` pop the head), cancellation erases one request and
keeps the order of the rest (the queues of the next state are sublists of the previous ones plus one stable insertion). -/

theorem fleet_queues_sorted (cfg : FleetCfg) (ops : List FleetStore.Op) :
    QSorted (FleetStore.run (FleetStore.init cfg) ops).b.putQ ∧ QSorted (FleetStore.run (FleetStore.init cfg) ops).b.getQ :=
  let h := FleetStore.run_qs ops _ (FleetStore.init_qs cfg)
  ⟨h.sp, h.sg⟩

theorem slot_queues_sorted (cfg : SlotCfg) (ops : List SlotBelt.Op) :
    QSorted (SlotBelt.run (SlotBelt.init cfg) ops).putQ ∧ QSorted (SlotBelt.run (SlotBelt.init cfg) ops).getQ :=
  let h := SlotBelt.run_qs ops _ (SlotBelt.init_qs cfg)
  ⟨h.sp, h.sg⟩

/-- non-vacuity: three space requests with priorities 0, 2, −1 on a full fleet of capacity 1 queue up as −1, 2 (token 0 was granted) -/
def demoFleetPrio : List FleetStore.Op := [.reservePutP 0 0, .reservePutP 1 2, .reservePutP 2 (-1)]

example : ((FleetStore.run (FleetStore.init { cap := some 1, delay := 4, transit := 1 }) demoFleetPrio).b.putQ.map (fun t => (t.id, t.prio))) = [(2, -1), (1, 2)] := by
  decide

/-! ### stores WITHOUT priorities serve strictly first-come-first-served: BufferStore (through the Buffer edge) and the continuous
conveyor's BeltStore.  In every reachable state — any operation sequence, every kernel event, no assumption on the client — both request
queues are in arrival order (`Arrival`: token ids strictly increasing, ids are handed out in arrival order); the trigger functions only
ever grant the head of a queue; use and cancellation of other requests remove entries, a new request is appended at the tail: nothing
is ever reordered (`Proofs/Fcfs.lean`: the queues of the next state are sublists of the previous ones, or the previous ones plus the new
token at the end). -/

theorem buf_fcfs (cfg : BufCfg) (ops : List BufStore.Op) :
    Arrival (BufStore.run (BufStore.init cfg) ops).putQ ∧ Arrival (BufStore.run (BufStore.init cfg) ops).getQ :=
  let h := BufStore.run_aq ops _ (BufStore.init_aq cfg)
  ⟨h.ap, h.ag⟩

theorem buf_only_head_granted (s : BufStore) :
    (s.trigPut.putQ = s.putQ ∨ ∃ t, s.putQ = t :: s.trigPut.putQ ∧ s.trigPut.putRes = s.putRes ++ [t]) ∧
    (s.trigGet.getQ = s.getQ ∨ ∃ t, s.getQ = t :: s.trigGet.getQ ∧ s.trigGet.getRes = s.getRes ++ [t]) :=
  ⟨BufStore.trigPut_head s, BufStore.trigGet_head s⟩

theorem cbelt_fcfs (cfg : CCfg) (ops : List CBelt.Op) :
    Arrival (CBelt.run (CBelt.init cfg) ops).putQ ∧ Arrival (CBelt.run (CBelt.init cfg) ops).getQ :=
  let h := CBelt.run_aq ops _ (CBelt.init_aq cfg)
  ⟨h.ap, h.ag⟩

theorem cbelt_only_head_granted (s : CBelt) :
    (s.trigPut.putQ = s.putQ ∨ ∃ t, s.putQ = t :: s.trigPut.putQ ∧ s.trigPut.putRes = s.putRes ++ [t]) ∧
    (s.trigGet.getQ = s.getQ ∨ ∃ t, s.getQ = t :: s.trigGet.getQ ∧ s.trigGet.getRes = s.getRes ++ [t]) :=
  ⟨CBelt.trigPut_head s, CBelt.trigGet_head s⟩

/-- non-vacuity: three space requests on a full buffer of capacity 1 wait in arrival order, the middle one is cancelled -/
example : ((BufStore.run (BufStore.init { cap := some 1, mode := .fifo })
    [.reservePut 0, .reservePut 1, .reservePut 2, .reservePut 3, .cancelPut 2]).putQ.map (·.id)) = [1, 3] := by decide

end FsVerif.Props.C05
