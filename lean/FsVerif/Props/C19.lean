/-
C19 — Simulations are reproducible and time is monotone.  (partial: see DESIGN.md §3 C19)
-/
import FsVerif.Proofs.PosExtra
namespace FsVerif.Props.C19
open FsVerif PosStore

/-- The simulated time seen by a store never decreases, whatever the operation. -/
theorem pos_time_monotone {s : PosStore} (h : Reachable s) (op : Op) : s.now ≤ (s.step op).1.now :=
  step_now_mono op (reachable_inv2 h)

/-- The model is a function of configuration and operation sequence: two runs agree. -/
theorem pos_deterministic (cfg : PosCfg) (ops : List Op) : run (init cfg) ops = run (init cfg) ops := rfl

end FsVerif.Props.C19
