/-
C19 — Simulations are reproducible and time is monotone.  (partial: see DESIGN.md §3 C19)
-/
import FsVerif.Proofs.PosExtra
import FsVerif.Proofs.BufExtra
import FsVerif.Proofs.Machine
namespace FsVerif.Props.C19
open FsVerif PosStore

/-- The simulated time seen by a store never decreases, whatever the operation. -/
theorem pos_time_monotone {s : PosStore} (h : Reachable s) (op : Op) : s.now ≤ (s.step op).1.now :=
  step_now_mono op (reachable_inv2 h)

/-- The model is a function of configuration and operation sequence: two runs agree. -/
theorem pos_deterministic (cfg : PosCfg) (ops : List Op) : run (init cfg) ops = run (init cfg) ops := rfl


/-- BufferStore: the clock only moves forward (adv adds, settle / kstep keep it). -/
theorem buf_time_monotone {s : BufStore} (h : BufStore.ReachD s) :
    (∀ dt, (s.adv dt).now = s.now + dt) ∧ s.settle.now = s.now ∧ s.kstep.now = s.now :=
  ⟨BufStore.adv_now s, (BufStore.settle_full (BufStore.reachD_full h)).2, (BufStore.kstep_full (BufStore.reachD_full h)).2⟩

/-- Node automata reject (flag, ignore) an activation whose time lies before the latest one they
    have seen: no component model ever processes a decreasing clock. -/
theorem machine_rejects_past (s : MacState) (proc t : Nat) (a : Ans) (h : t < s.now) :
    (s.step proc t a) = ({ s with flagged := true }, [.bad]) := by
  unfold MacState.step; simp [h]

end FsVerif.Props.C19
