/-
C19 — Simulations are reproducible and time is monotone.  (partial: see DESIGN.md §3 C19)
-/
import FsVerif.Proofs.PosExtra
import FsVerif.Proofs.BufExtra
import FsVerif.Proofs.Machine
import FsVerif.Proofs.PosEquiv
import FsVerif.Proofs.CBeltClock
import FsVerif.Proofs.FleetStat
namespace FsVerif.Props.C19
open FsVerif PosStore

/-- The simulated time seen by a store never decreases, whatever the operation. -/
theorem pos_time_monotone {s : PosStore} (h : Reachable s) (op : Op) : s.now ≤ (s.step op).1.now :=
  step_now_mono op (reachable_inv2 h)

/-- Every model is a FUNCTION of configuration and operation sequence (a Lean definition has no hidden state), so two
    runs of the same history agree by construction; that needs no theorem.  What does need one: the stores do not compute
    with the identity of the objects they hold — the formal counterpart of "no dependence on id() values or hashing".
    For the FCFS and priority classes: for every injective renaming g of item identities, the renamed history yields the
    renamed final state and the renamed results, operation by operation. -/
theorem pos_item_identity_equivariance (g : Nat → Nat) (hg : Function.Injective g) (cfg : PosCfg) (hf : cfg.filter = false)
    (ops : List Op) :
    run (init cfg) (ops.map (mapOp g)) = mapS g (run (init cfg) ops) ∧
    outputs (init cfg) (ops.map (mapOp g)) = (outputs (init cfg) ops).map (mapRes g) :=
  run_equivariant g hg ops (init cfg) hf

/-- non-vacuity: renaming item 7 ↦ 107, 8 ↦ 108 in a history with a cancellation -/
def demoOps : List Op :=
  [.reservePut 0 0, .reservePut 0 0, .put 0 0 ⟨7, 0⟩, .put 0 1 ⟨8, 1⟩, .reserveGet 1 0 .always,
   .reserveGet 1 0 .always, .cancelGet 2, .get 1 3]

example : outputs (init { cap := some 2 }) (demoOps.map (mapOp (· + 100))) = (outputs (init { cap := some 2 }) demoOps).map (mapRes (· + 100)) ∧
    (outputs (init { cap := some 2 }) demoOps).getLast? = some (.item ⟨8, 1⟩) := by decide +kernel

/-- The simulated time of both conveyor models never decreases, whatever the operation (any state). -/
theorem conveyors_time_monotone :
    (∀ (s : CBelt) (op : CBelt.Op), s.now ≤ (s.step op).1.now) ∧ (∀ (s : SlotBelt) (op : SlotBelt.Op), s.now ≤ (s.step op).1.now) :=
  ⟨CBelt.step_now_mono, SlotBelt.step_now_mono⟩


/-- The fleet model: the clock never goes back, whatever the operation or kernel event (any state). -/
theorem fleet_time_monotone (s : FleetStore) (op : FleetStore.Op) : s.now ≤ (s.step op).1.now :=
  FleetStore.step_now_mono s op

/-- BufferStore: the clock only moves forward (adv adds, settle / kstep keep it). -/
theorem buf_time_monotone {s : BufStore} (h : BufStore.ReachD s) :
    (∀ dt, (s.adv dt).now = s.now + dt) ∧ s.settle.now = s.now ∧ s.kstep.now = s.now :=
  ⟨BufStore.adv_now s, (BufStore.settle_full (BufStore.reachD_full h)).2, (BufStore.kstep_full (BufStore.reachD_full h)).2⟩

/-- Node automata reject (flag, ignore) an activation whose time lies before the latest one they
    have seen: no component model ever processes a decreasing clock. -/
theorem machine_rejects_past (s : MacState) (proc t : Nat) (a : Ans) (h : t < s.now) :
    (s.step proc t a) = ({ s with flagged := true }, [.bad]) := by
  unfold MacState.step; simp [h]

end FsVerif.Props.C19
