/-
C04 — No lost wake-up: a servable waiting reservation is granted at once.
-/
import FsVerif.Proofs.PosExtra
import FsVerif.Proofs.BufExtra
import FsVerif.Proofs.Fleet
import FsVerif.Proofs.SlotBind
import FsVerif.Proofs.CBeltBind
import FsVerif.Proofs.SlotWake
import FsVerif.Proofs.CBeltTrig
namespace FsVerif.Props.C04
open FsVerif PosStore

/-- Space side, all three positional classes: whenever a space request is waiting, the store's
    own admission test fails (there is no free, unreserved unit). -/
theorem pos_put_side {s : PosStore} (h : Reachable s) (hq : s.putQ ≠ []) : s.admits = false :=
  (reachable_inv h).wakePut hq

/-- Retrieval side, classes without filters: whenever a retrieval request is waiting, every item
    in the store is already reserved. -/
theorem pos_get_side {s : PosStore} (h : Reachable s) (hf : s.cfg.filter = false) (hq : s.getQ ≠ []) :
    s.items.length = s.getRes.length := by
  have h1 := (reachable_inv2 h).wakeGet hf hq
  have hb := (reachable_inv h).bind
  have := bind_len hb; have := hb.2; omega

/-- Retrieval side of the filter store at full strength is FALSE for the code as it stands
    (finding D17): the trigger loop serves at most one request per event.  A put is rescued by the
    extra trigger event the filter store schedules after `trigger_delay`, a cancellation is not:
    two items inside, a `kind = 1` request (blocked, at the head) and two `always` requests behind
    it; cancelling the head lets one `always` request through, the other stays pending although an
    unreserved item matches its filter and nothing is left to happen at this instant. -/
theorem filter_get_side_counterexample :
    lostWakeGet (run (init { cap := none, filter := true })
      [.reservePut 0 0, .reservePut 0 0, .put 0 0 ⟨0, 0⟩, .put 0 1 ⟨1, 0⟩, .settle,
       .reserveGet 1 0 (.kindEq 1), .reserveGet 2 0 .always, .reserveGet 3 0 .always,
       .cancelGet 2, .settle]) = true := by
  decide

/- No partial positive result is proved for the retrieval side of the filter store (the put side above covers it:
   `pos_put_side` holds for all three classes). -/

/-! ### BufferStore: both sides, at every reachable state (timer expiries included) -/

theorem buf_put_side {s : BufStore} (h : BufStore.ReachD s) (hq : s.putQ ≠ []) : s.admits = false :=
  (BufStore.reachD_binv h).wakePut hq

theorem buf_get_side {s : BufStore} (h : BufStore.ReachD s) (hq : s.getQ ≠ []) : s.ready.length = s.getRes.length := by
  have hi := BufStore.reachD_binv h
  have := hi.wakeGet hq
  have := hi.bindLe; have := hi.bindEv.length_eq; omega

/-! ### FleetStore (the store inside a Fleet edge): both sides, at every reachable state — every API call and every kernel
event of the fleet's processes (activation loop, transit timers, arrivals) included -/

theorem fleet_put_side {s : FleetStore} (h : FleetStore.ReachD s) (hq : s.b.putQ ≠ []) : s.b.admits = false :=
  (FleetStore.reachD_kt h).core.wakePut hq

theorem fleet_get_side {s : FleetStore} (h : FleetStore.ReachD s) (hq : s.b.getQ ≠ []) : s.b.ready.length = s.b.getRes.length := by
  have hi := (FleetStore.reachD_kt h).core
  have := hi.wakeGet hq
  have := hi.bindLe; have := hi.bindEv.length_eq; omega

/-! ### both conveyor stores, retrieval side: in every reachable state (every API call and every kernel event: arrivals at the exit,
interrupts, resumes, the state machine), whenever a retrieval request is waiting every item at the exit is bound to a granted
retrieval — no request waits while an unreserved item is available.  (The put side of the slotted conveyor is proved further below; for the continuous conveyor only its operation-local part is,
`cbelt_put_side_partial`.) -/

theorem slot_get_side (cfg : SlotCfg) (ops : List SlotBelt.Op) :
    let s := SlotBelt.run (SlotBelt.init cfg) ops
    s.getQ ≠ [] → s.ready.length = s.getRes.length := by
  intro s hq
  have h : SlotBelt.Bd s := SlotBelt.run_bd ops _ (SlotBelt.init_bd cfg)
  have := h.wake hq; have := h.le; have := h.ev.length_eq
  omega

theorem cbelt_get_side (cfg : CCfg) (ops : List CBelt.Op) :
    let s := CBelt.run (CBelt.init cfg) ops
    s.getQ ≠ [] → s.ready.length = s.getRes.length := by
  intro s hq
  have h : CBelt.Bd s := CBelt.run_bd ops _ (CBelt.init_bd cfg)
  have := h.wake hq; have := h.le; have := h.ev.length_eq
  omega

/-- non-vacuity: a retrieval request waits on a slotted conveyor whose two delivered items are both reserved -/
example : (SlotBelt.run (SlotBelt.init { cap := 2, delay := 1 })
    [.reservePut 0, .put 0 0 { id := 5 }, .ev, .ev, .ev, .ev, .reservePut 0, .put 0 1 { id := 6 }, .ev, .ev, .ev, .ev,
     .reserveGet 1, .reserveGet 2, .reserveGet 3]).getQ ≠ [] := by decide +kernel

/-! ### slotted conveyor, put side.  The admission rule is time dependent (the last item must have entered at least one slot delay ago), so
"granted at the very instant the store becomes able to serve it" is a statement about the kernel events of that instant: in every reachable
state in which a space request waits although the belt would admit an item, an event of the CURRENT instant is still pending whose
processing re-evaluates the queue (the phase-1 timer of the youngest item, the re-trigger event it schedules, an arrival, or — with slot
delay 0 — the Initialize of the move process).  Hence at the end of every instant no space request waits while the belt admits.
Proved with the tracking invariant of `Proofs/SlotWake.lean` (pending move events = travelling items, as multisets). -/

theorem slot_put_side (cfg : SlotCfg) (ops : List SlotBelt.Op) :
    let s := SlotBelt.run (SlotBelt.init cfg) ops
    s.putQ ≠ [] → s.admits = true → ∃ ev ∈ s.queue, ev.time ≤ s.now ∧ ∀ q, ev.kind = .init q → s.cfg.delay = 0 := by
  intro s hq ha
  exact (SlotBelt.run_w ops _ (SlotBelt.init_inv cfg) (SlotBelt.init_w cfg)).wp hq ha

theorem slot_put_side_end_of_instant (cfg : SlotCfg) (ops : List SlotBelt.Op) :
    let s := SlotBelt.run (SlotBelt.init cfg) ops
    (∀ ev ∈ s.queue, s.now < ev.time) → s.putQ ≠ [] → s.admits = false := by
  intro s hfut hq
  cases ha : s.admits with
  | false => rfl
  | true =>
    obtain ⟨ev, hev, h1, _⟩ := slot_put_side cfg ops hq ha
    have h1' : ev.time ≤ s.now := h1
    have := hfut ev hev
    omega

/-- non-vacuity: a space request waits on a slotted conveyor whose youngest item entered less than one slot delay ago -/
example : let s := SlotBelt.run (SlotBelt.init { cap := 3, delay := 2 }) [.reservePut 0, .put 0 0 { id := 5 }, .ev, .reservePut 0]
    s.putQ ≠ [] ∧ s.admits = false ∧ s.queue.map (·.time) = [2] := by decide +kernel

/-! ### continuous conveyor, put side — PARTIAL.  Full statement: in every reachable state in which a space request waits although the belt
would admit an item, a kernel event of the current instant that re-evaluates the queue is still pending (as `slot_put_side` for the slotted
store).  Proved here: the operation-local part — every operation of the store that can make room or free the entry ends by re-evaluating the
queue, and right after it no servable request is left: a new request, the cancellation of a waiting or granted space request, an accepted
`get`, the arrival of an item at the exit (for every live move process, in every reachable state), the end of an item's entry phase.
Missing: the clock-driven case — that the entry-phase timer of the youngest item is still pending whenever its entry slot is not yet free
(it needs the accounting of interrupted items); it is decided by the lock-step correspondence and the wake-up reading of a divergence. -/

theorem cbelt_put_side_partial (cfg : CCfg) (ops : List CBelt.Op) :
    let s := CBelt.run (CBelt.init cfg) ops
    (∀ p, CBelt.Settled (s.reservePut p).1) ∧
    (∀ tid, (s.cancelPut tid).2 = .ok → CBelt.Settled (s.cancelPut tid).1) ∧
    (∀ p tid x, (s.get p tid).2 = .item x → CBelt.Settled (s.get p tid).1) ∧
    (∀ p ∈ s.procs, CBelt.Settled (s.arrive p)) ∧
    CBelt.Settled (s.handle .p1e) := by
  intro s
  have hpi : CBelt.PI s := CBelt.run_pi ops _ (CBelt.init_pi cfg)
  have hrc : CBelt.RC s := CBelt.run_rc ops _ (CBelt.init_rc cfg)
  exact ⟨fun p => CBelt.reservePut_settled s p, fun tid h => CBelt.cancelPut_settled s tid h, fun p tid x h => CBelt.get_settled s p tid x h,
         fun p hp => CBelt.arrive_settled hpi hrc.room hp, CBelt.p1e_settled s⟩

/-- non-vacuity: two space requests on an empty continuous conveyor, the granted one cancelled: the waiting one is granted in that step -/
example : ((CBelt.run (CBelt.init { cap := 3, p1 := 4, acc := true }) [.reservePut 1, .reservePut 1]).cancelPut 0).1.putRes.map (·.id) = [1] := by
  decide +kernel

/-! ### non-vacuity: reachable states in which a request IS waiting (the premises are satisfiable): a full positional store
with a second space request queued, and a BufferStore whose only item is still in its delay while a retrieval waits -/

example : ∃ s : PosStore, Reachable s ∧ s.putQ ≠ [] ∧ s.admits = false :=
  ⟨run (init { cap := some 1 }) [.reservePut 0 0, .reservePut 1 0], ⟨_, _, rfl⟩, by decide⟩

example : ∃ s : PosStore, Reachable s ∧ s.cfg.filter = false ∧ s.getQ ≠ [] :=
  ⟨run (init { cap := some 2 }) [.reservePut 0 0, .put 0 0 ⟨7, 0⟩, .reserveGet 1 0 .always, .reserveGet 2 0 .always], ⟨_, _, rfl⟩, by decide⟩

end FsVerif.Props.C04
