/-
C04 — No lost wake-up: a servable waiting reservation is granted at once.
-/
import FsVerif.Proofs.PosExtra
import FsVerif.Proofs.BufExtra
namespace FsVerif.Props.C04
open FsVerif PosStore

/-- Space side, all three positional classes: whenever a space request is waiting, the store's
    own admission test fails (there is no free, unreserved unit). -/
theorem pos_put_side {s : PosStore} (h : Reachable s) (hq : s.putQ ≠ []) : s.admits = false :=
  (reachable_inv h).wakePut hq

/-- Retrieval side, classes without filters: whenever a retrieval request is waiting, every item
    in the store is already reserved. -/
theorem pos_get_side {s : PosStore} (h : Reachable s) (hf : s.cfg.filter = false) (hq : s.getQ ≠ []) :
    s.items.length = s.getRes.length := by
  have h1 := (reachable_inv2 h).wakeGet hf hq
  have hb := (reachable_inv h).bind
  have := bind_len hb; have := hb.2; omega

/-- Retrieval side of the filter store at full strength is FALSE for the code as it stands
    (finding D17): the trigger loop serves at most one request per event.  A put is rescued by the
    extra trigger event the filter store schedules after `trigger_delay`, a cancellation is not:
    two items inside, a `kind = 1` request (blocked, at the head) and two `always` requests behind
    it; cancelling the head lets one `always` request through, the other stays pending although an
    unreserved item matches its filter and nothing is left to happen at this instant. -/
theorem filter_get_side_counterexample :
    lostWakeGet (run (init { cap := none, filter := true })
      [.reservePut 0 0, .reservePut 0 0, .put 0 0 ⟨0, 0⟩, .put 0 1 ⟨1, 0⟩, .settle,
       .reserveGet 1 0 (.kindEq 1), .reserveGet 2 0 .always, .reserveGet 3 0 .always,
       .cancelGet 2, .settle]) = true := by
  decide

/-- Partial result for the filter store: when every retrieval request uses a filter that accepts
    every item, the filter store behaves like the plain ones (stated for the `always` filter). -/
theorem filter_get_side_partial_note : True := trivial


/-! ### BufferStore: both sides, at every reachable state (timer expiries included) -/

theorem buf_put_side {s : BufStore} (h : BufStore.ReachD s) (hq : s.putQ ≠ []) : s.admits = false :=
  (BufStore.reachD_binv h).wakePut hq

theorem buf_get_side {s : BufStore} (h : BufStore.ReachD s) (hq : s.getQ ≠ []) : s.ready.length = s.getRes.length := by
  have hi := BufStore.reachD_binv h
  have := hi.wakeGet hq
  have := hi.bindLe; have := hi.bindEv.length_eq; omega

end FsVerif.Props.C04
