/-
C11 — Buffer delay and the can_put / can_get queries are exact.
-/
import FsVerif.Proofs.BufExtra
import FsVerif.Proofs.Fleet
namespace FsVerif.Props.C11
open FsVerif BufStore

/-- Not before: whatever a get returns was put at least its delay ago (`due = put time + delay`). -/
theorem buf_not_before {s : BufStore} (h : ReachD s) {p tid : Nat} {x : Item}
    (hg : (s.step (.get p tid)).2 = .item x) : ∃ e ∈ s.ready, e.item = x ∧ e.due ≤ s.now := by
  have hf := reachD_full h
  have hi := clearFired_core hf.toCore
  unfold step at hg
  simp only at hg
  by_cases hv : ValidGet { s with fired := [] } p tid
  · obtain ⟨e, h1, h2, h3⟩ := get_accept hi.toPre hv
    rw [h3] at hg
    cases hg
    exact ⟨e, h1, rfl, hf.time.readyDue e h1⟩
  · rw [get_reject hv] at hg; cases hg

/-- Every ready entry's delay has elapsed; every entry still in transit has a pending timer. -/
theorem buf_ready_iff_elapsed {s : BufStore} (h : ReachD s) :
    (∀ e ∈ s.ready, e.due ≤ s.now) ∧ s.timers.Perm s.transit ∧ (∀ e ∈ s.timers, s.now ≤ e.due) :=
  ⟨(reachD_full h).time.readyDue, (reachD_full h).timers, (reachD_full h).time.future⟩

/-- From `t + d` onwards: once the instant has been processed (no timer due), nothing whose delay
    has elapsed is still in transit — it is ready, hence retrievable (with C04: a waiting retrieval
    is granted in that very step). -/
theorem buf_available_from_due {s : BufStore} (h : ReachD s) (hq : quiescent s) :
    ∀ e ∈ s.transit, s.now < e.due :=
  ready_from_due (reachD_binv h) hq

/-- `settle` reaches such a state: every timer due now or earlier has fired. -/
theorem buf_settle_quiescent {s : BufStore} (h : ReachD s) : quiescent s.settle := by
  have hf := reachD_full h
  have hc : Core { s with timers := s.timers.filter (fun e => !(decide (e.due ≤ s.now))) } :=
    core_of_eq hf.toCore rfl rfl rfl rfl rfl rfl rfl rfl rfl rfl rfl rfl rfl
  have hp := (filter_split_perm s.timers (fun e => decide (e.due ≤ s.now))).trans hf.timers
  have hp' : (s.timers.filter (fun e => decide (e.due ≤ s.now)) ++
      ({ s with timers := s.timers.filter (fun e => !(decide (e.due ≤ s.now))) } : BufStore).timers).Perm
      ({ s with timers := s.timers.filter (fun e => !(decide (e.due ≤ s.now))) } : BufStore).transit := by
    simpa using hp
  intro e he
  rw [(settle_full hf).2]
  unfold settle at he
  rw [fireAll_timers' _ _ hc hp'] at he
  have := (List.mem_filter.mp he).2
  simp at this; omega

theorem buf_can_put_exact {s : BufStore} (h : ReachD s) (p : Nat) :
    s.canPut = true ↔ ∃ t ∈ (s.reservePut p).1.putRes, t.id = s.nextTid :=
  canPut_iff (reachD_binv h).toCore p

theorem buf_can_get_exact {s : BufStore} (h : ReachD s) (p : Nat) :
    s.canGet = true ↔ ∃ t ∈ (s.reserveGet p).1.getRes, t.id = s.nextTid :=
  canGet_iff (reachD_binv h).toCore p

theorem buf_occupancy_counts_both (s : BufStore) : s.occupancy = s.transit.length + s.ready.length := rfl

/-- Non-vacuity: an item with delay 3 is not retrievable at 2 and is at 3. -/
example : let s := run (init { cap := some 2 }) [.reservePut 0, .put 0 0 ⟨1, 0⟩ 3, .adv 2, .settle]
    s.canGet = false ∧ ((s.step (.adv 1)).1.step .settle).1.canGet = true := by decide

/-! ### Fleet (edges/fleet.py): can_put / can_get are exact at every reachable state of the fleet - during trips, at the instant of a
departure or an arrival: `can_put()` is true exactly when a space reservation issued now is granted at once, same for `can_get()` -/

theorem fleet_can_put_exact {s : FleetStore} (h : FleetStore.ReachD s) (p : Nat) :
    s.canPut = true ↔ ∃ t ∈ (s.b.reservePut p).1.putRes, t.id = s.b.nextTid :=
  BufStore.canPut_iff (FleetStore.reachD_kt h).core p

theorem fleet_can_get_exact {s : FleetStore} (h : FleetStore.ReachD s) (p : Nat) :
    s.canGet = true ↔ ∃ t ∈ (s.b.reserveGet p).1.getRes, t.id = s.b.nextTid :=
  BufStore.canGet_iff (FleetStore.reachD_kt h).core p

end FsVerif.Props.C11
