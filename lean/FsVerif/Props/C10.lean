/-
C10 — Work is never stranded: nodes take input and deliver output without delay.   (partial)
Proved: the local obligations of the node automata — in the activation in which an awaited token
is seen granted the node acts on it at once (cancels every other request of that round, then gets /
puts), and it re-requests input / a worker slot in the same activation; the store side is C04 (a
servable request is granted at once).  The global statement ("at the end of every instant no free
worker faces an available item") is their conjunction plus SimPy's delivery of the resumption within
the instant, which is checked on recorded runs (end-of-instant judge: leaked tokens, late
resumption, idle node not requesting).  A full token-hygiene invariant over all activation
sequences is not yet proved.
-/
import FsVerif.Proofs.Machine
import FsVerif.Proofs.SourceSink
import FsVerif.Props.C04
import FsVerif.Props.C09
namespace FsVerif.Props.C10
open FsVerif

/-- Sink: when one of its requests is granted it withdraws all the others, takes the item and asks
    again on every in-edge — all in the same activation. -/
theorem sink_acts_at_once (s : SinkState) (t : Nat) (a : Ans) (toks : List Nat) (idx : Nat) (it : GotItem) (rest : List GotItem)
    (hpc : s.pc = some toks) (hd : s.dead = false) (hnow : s.now ≤ t)
    (hf : firstTrig toks a.trig = some idx) (hi : a.items = it :: rest) :
    (s.step 0 t a).2 = (others toks idx).map (fun p => Call.cg p.1 p.2) ++ [.get idx (toks.getD idx 0) it.id] ++
      ((List.range s.nin).map (fun j => Call.rg j (s.nextTok + j)) ++ [.awaitAny s.nin]) := by
  unfold SinkState.step
  have h1 : ¬ t < s.now := by omega
  simp [h1, hd, hpc, hf, hi, SinkState.arm]

/-- Machine behaviour process, FIRST_AVAILABLE in-edges: granted token seen ⇒ cancel the others, get,
    draw the delay, start the worker and request the next slot, in one activation. -/
theorem machine_pulls_at_once (s : MacState) (t : Nat) (a : Ans) (toks : List Nat) (idx d : Nat) (it : GotItem)
    (rest : List GotItem) (ds : List Nat)
    (hpc : s.bpc = .inAny toks) (hf : firstTrig toks a.trig = some idx) (hi : a.items = it :: rest) (hdraw : a.draws = d :: ds) :
    (s.behaviour t a).2 = (others toks idx).map (fun p => Call.cg p.1 p.2) ++ [.get idx (toks.getD idx 0) it.id] ++
      [.draw d, .spawn s.nextProc, .awaitReq] := by
  unfold MacState.behaviour
  simp [hpc, hf, hi, MacState.afterPull, hdraw]

/-- after such a round none of its tokens stays open (no reservation is left behind) -/
theorem machine_round_leaves_nothing (s : MacState) (t : Nat) (a : Ans) (toks : List Nat) (idx d : Nat) (it : GotItem)
    (rest : List GotItem) (ds : List Nat)
    (hpc : s.bpc = .inAny toks) (hf : firstTrig toks a.trig = some idx) (hi : a.items = it :: rest) (hdraw : a.draws = d :: ds) :
    ∀ x ∈ (s.behaviour t a).1.openToks, x ∉ toks := by
  unfold MacState.behaviour
  simp only [hpc, hf, hi, MacState.afterPull, hdraw]
  intro x hx
  simp only [MacState.requestSlot_openToks, MacState.updRep_openToks] at hx
  have := (List.mem_filter.mp hx).2
  simpa using this

/-- store side: re-export of C04 for the classes the nodes use -/
theorem buffer_grants_at_once {s : BufStore} (h : BufStore.ReachD s) :
    (s.putQ ≠ [] → s.admits = false) ∧ (s.getQ ≠ [] → s.ready.length = s.getRes.length) :=
  ⟨C04.buf_put_side h, C04.buf_get_side h⟩

/-! ### non-vacuity of `machine_pulls_at_once` on a RECORDED run (Props/C09.demoBlocking): after its first three activations the
real machine waits on `any_of` over token 0; in the fourth its token is granted, it gets item 1, draws delay 1, spawns worker 1
and requests the next slot — the premises of the theorem hold there and its conclusion is what the recording shows -/

example : let s := MacState.runActs (MacState.init { wc := 1, blocking := true }) (C09.demoBlocking.take 3)
    s.bpc = .inAny [0] ∧ firstTrig [0] [0] = some 0 ∧
    ((s.step 0 2 { trig := [0], draws := [1], items := [{ id := 1, created := 2 }] }).2 =
       [.get 0 0 1, .draw 1, .spawn 1, .awaitReq]) := by decide +kernel

end FsVerif.Props.C10
