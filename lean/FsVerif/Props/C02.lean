/-
C02 — Stores conserve items: every get returns one distinct, previously put item; each granted
retrieval is backed by its own item.
-/
import FsVerif.Proofs.PosExtra
import FsVerif.Proofs.BufExtra
import FsVerif.Proofs.Fleet
import FsVerif.Proofs.SlotCons
import FsVerif.Proofs.CBeltCons
import FsVerif.Props.C12
import FsVerif.Proofs.SlotBind
import FsVerif.Proofs.CBeltBind
namespace FsVerif.Props.C02
open FsVerif PosStore

/-- Multiset equation after every call: put = got + still inside. -/
theorem pos_conservation {s : PosStore} (h : Reachable s) :
    (s.gotLog ++ s.items.map (·.item)).Perm s.putLog :=
  (reachable_inv h).cons

/-- Stored entries are pairwise distinct puts (ghost sequence numbers are unique and point into
    the put log), so nothing is duplicated or invented even when equal objects are stored twice. -/
theorem pos_entries_distinct {s : PosStore} (h : Reachable s) :
    (s.items.map (·.seq)).Nodup ∧ ∀ e ∈ s.items, s.putLog[e.seq]? = some e.item :=
  ⟨(reachable_inv2 h).fifo.nodup, (reachable_inv2 h).fifo.link⟩

/-- Each granted retrieval owns its own slot: the slot list is a duplicate-free rearrangement of
    the granted retrievals and every slot is backed by an item. -/
theorem pos_binding {s : PosStore} (h : Reachable s) :
    s.resEv.Perm s.getRes ∧ s.resEv.Nodup ∧ s.resEv.length ≤ s.items.length := by
  have hi := reachable_inv h
  refine ⟨hi.bind.1, ?_, hi.bind.2⟩
  have hnd : (allToks s).Nodup := nodup_of_nodup_map hi.tok.1
  have : s.getRes.Nodup := by
    unfold allToks at hnd
    exact (List.nodup_append.mp hnd).2.1
  exact hi.bind.1.nodup_iff.mpr this

/-- A get with a granted, un-cancelled reservation by its owner returns an item that is in the
    store — in every reachable state, i.e. whatever was used or cancelled in between. -/
theorem pos_get_honoured {s : PosStore} (h : Reachable s) {t : Tok} (ht : t ∈ s.getRes) :
    ∃ e ∈ s.items, (s.step (.get t.proc t.id)).2 = .item e.item := by
  have hi := clearFired_inv (reachable_inv h)
  unfold step
  exact get_accept hi ⟨t, ht, rfl, rfl⟩

/-- Non-vacuity: two granted retrievals outstanding on two items. -/
example : ∃ s : PosStore, Reachable s ∧ s.getRes.length = 2 ∧ s.items.length = 2 :=
  ⟨run (init { cap := some 2 })
     [.reservePut 0 0, .reservePut 0 0, .put 0 0 ⟨7, 0⟩, .put 0 1 ⟨8, 0⟩, .reserveGet 1 0 .always, .reserveGet 2 0 .always],
   ⟨_, _, rfl⟩, by decide⟩


/-! ### BufferStore -/

theorem buf_conservation {s : BufStore} (h : BufStore.ReachD s) :
    (s.gotLog ++ (s.transit ++ s.ready).map (·.item)).Perm s.putLog :=
  (BufStore.reachD_binv h).cons

/-- every granted retrieval owns its own ready entry: the reserved entries are exactly the first
    (FIFO) / top (LIFO) `k` ready entries, one per granted retrieval, pairwise different -/
theorem buf_binding {s : BufStore} (h : BufStore.ReachD s) :
    s.resEv.Perm s.getRes ∧ s.resItems.length = s.getRes.length ∧ s.resItems.Nodup ∧
    (∀ e ∈ s.resItems, e ∈ s.ready) ∧ s.resItems.Perm (BufStore.resPart s) := by
  have hi := BufStore.reachD_binv h
  refine ⟨hi.bindEv, by have := hi.bindLen; have := hi.bindEv.length_eq; omega, ?_, BufStore.resItems_sub hi.toPre, hi.bindItems⟩
  refine hi.bindItems.nodup_iff.mpr ?_
  have hnd := BufStore.ready_nodup hi.dist
  unfold BufStore.resPart
  split
  · exact hnd.sublist (List.take_sublist _ _)
  · exact hnd.sublist (List.drop_sublist _ _)

theorem buf_get_honoured {s : BufStore} (h : BufStore.ReachD s) {t : Tok} (ht : t ∈ s.getRes) :
    ∃ e ∈ s.ready, (s.step (.get t.proc t.id)).2 = .item e.item := by
  have hi := BufStore.clearFired_core (BufStore.reachD_binv h).toCore
  unfold BufStore.step
  obtain ⟨e, h1, _, h3⟩ := BufStore.get_accept hi.toPre ⟨t, ht, rfl, rfl⟩
  exact ⟨e, h1, h3⟩

/-! ### FleetStore: the same laws for the store inside a Fleet edge, at every reachable state (kernel events included) -/

theorem fleet_conservation {s : FleetStore} (h : FleetStore.ReachD s) :
    (s.b.gotLog ++ (s.b.transit ++ s.b.ready).map (·.item)).Perm s.b.putLog :=
  (FleetStore.reachD_kt h).core.cons

/-- items on the vehicle, under way and delivered are pairwise different objects -/
theorem fleet_entries_distinct {s : FleetStore} (h : FleetStore.ReachD s) :
    ((s.b.transit ++ s.b.ready).map (·.item.id)).Nodup :=
  (FleetStore.reachD_kt h).core.dist

/-- every granted retrieval owns its own delivered item -/
theorem fleet_binding {s : FleetStore} (h : FleetStore.ReachD s) :
    s.b.resEv.Perm s.b.getRes ∧ s.b.resItems.length = s.b.getRes.length ∧ (∀ e ∈ s.b.resItems, e ∈ s.b.ready) := by
  have hi := (FleetStore.reachD_kt h).core
  exact ⟨hi.bindEv, by have := hi.bindLen; have := hi.bindEv.length_eq; omega, BufStore.resItems_sub hi.toPre⟩

/-! ### slotted conveyor (slotted_belt_store.py through edges/slotted_conveyor.py): conservation at every reachable state -
every API call and every kernel event of the travel processes.  The overflow guard of `move_to_ready_items`, the only place
where the code could drop an item, is dead by the capacity invariant. -/

theorem slot_conservation (cfg : SlotCfg) (ops : List SlotBelt.Op) :
    let s := SlotBelt.run (SlotBelt.init cfg) ops
    (s.gotLog.map (·.id) ++ (s.items ++ s.ready).map (·.item.id)).Perm (s.entered.map (·.item.id)) :=
  SlotBelt.run_cons ops _ (SlotBelt.init_inv cfg) (SlotBelt.init_cons cfg)

/-- non-vacuity: two items put, one taken, one still travelling -/
def demoSlot : List SlotBelt.Op :=
  [.reservePut 0, .put 0 0 { id := 5 }, .ev, .adv 1, .ev, .ev, .reservePut 0, .put 0 1 { id := 6 }, .ev, .adv 1, .ev, .ev, .ev, .reserveGet 1, .get 1 2]

example : ((SlotBelt.run (SlotBelt.init { cap := 2, delay := 1 }) demoSlot).gotLog.map (·.id),
           ((SlotBelt.run (SlotBelt.init { cap := 2, delay := 1 }) demoSlot).items ++ (SlotBelt.run (SlotBelt.init { cap := 2, delay := 1 }) demoSlot).ready).map (·.item.id),
           (SlotBelt.run (SlotBelt.init { cap := 2, delay := 1 }) demoSlot).entered.map (·.item.id)) = ([5], [6], [5, 6]) := by decide +kernel

/-! ### continuous conveyor (belt_store.py through edges/continuous_conveyor.py): conservation at every reachable state - every
API call and every kernel event (travel timers, interrupts, resumes, the state machine), both accumulation modes.  Interrupts and
resumes rewrite an item's travel bookkeeping, never its identity; the state machine's bookkeeping never touches the contents. -/

theorem cbelt_conservation (cfg : CCfg) (ops : List CBelt.Op) :
    let s := CBelt.run (CBelt.init cfg) ops
    (s.gotLog.map (·.id) ++ (s.items.map (·.item.id) ++ s.ready.map (·.item.id))).Perm (s.entered.map (·.item.id)) :=
  (CBelt.run_rc ops _ (CBelt.init_rc cfg)).cons

/-- non-vacuity on the stall scenario of Props/C12.demoC (item 5 taken after a long stall, item 6 interrupted and resumed) -/
example : ((CBelt.run (CBelt.init { cap := 3, p1 := 2, acc := false }) C12.demoC).gotLog.map (·.id),
           (CBelt.run (CBelt.init { cap := 3, p1 := 2, acc := false }) C12.demoC).items.map (·.item.id) ++
             (CBelt.run (CBelt.init { cap := 3, p1 := 2, acc := false }) C12.demoC).ready.map (·.item.id),
           (CBelt.run (CBelt.init { cap := 3, p1 := 2, acc := false }) C12.demoC).entered.map (·.item.id)) = ([5], [6], [5, 6]) := by decide +kernel

/-! ### both conveyor stores: every granted retrieval owns its own item, in every reachable state (no assumption on the client:
identities may even repeat — the statement is about multisets of identities).  The reservation events and the granted retrievals are
the same tokens, there is exactly one reserved item per granted retrieval, and the reserved items are the first k items waiting at the
exit (k = number of granted retrievals), so no two granted retrievals share an item and none is bound to an item that is not there. -/

theorem slot_binding (cfg : SlotCfg) (ops : List SlotBelt.Op) :
    let s := SlotBelt.run (SlotBelt.init cfg) ops
    s.resEv.Perm s.getRes ∧ s.resItems.length = s.getRes.length ∧ s.getRes.length ≤ s.ready.length ∧
    (s.resItems.map (·.item.id)).Perm ((s.ready.take s.getRes.length).map (·.item.id)) := by
  intro s
  have h := SlotBelt.run_bd ops _ (SlotBelt.init_bd cfg)
  have hl := h.ev.length_eq
  exact ⟨h.ev, by rw [← h.len, hl], by rw [← hl]; exact h.le, by rw [← hl]; exact h.items⟩

theorem cbelt_binding (cfg : CCfg) (ops : List CBelt.Op) :
    let s := CBelt.run (CBelt.init cfg) ops
    s.resEv.Perm s.getRes ∧ s.resItems.length = s.getRes.length ∧ s.getRes.length ≤ s.ready.length ∧
    (s.resItems.map (·.item.id)).Perm ((s.ready.take s.getRes.length).map (·.item.id)) := by
  intro s
  have h := CBelt.run_bd ops _ (CBelt.init_bd cfg)
  have hl := h.ev.length_eq
  exact ⟨h.ev, by rw [← h.len, hl], by rw [← hl]; exact h.le, by rw [← hl]; exact h.items⟩

/-- non-vacuity: two items at the exit of a slotted conveyor, two granted retrievals bound to them, a third request waiting -/
def demoSlotBind : List SlotBelt.Op :=
  [.reservePut 0, .put 0 0 { id := 5 }, .ev, .ev, .ev, .ev, .reservePut 0, .put 0 1 { id := 6 }, .ev, .ev, .ev, .ev,
   .reserveGet 1, .reserveGet 2, .reserveGet 3]

example : ((SlotBelt.run (SlotBelt.init { cap := 2, delay := 1 }) demoSlotBind).resItems.map (·.item.id),
           (SlotBelt.run (SlotBelt.init { cap := 2, delay := 1 }) demoSlotBind).getRes.map (·.id),
           (SlotBelt.run (SlotBelt.init { cap := 2, delay := 1 }) demoSlotBind).getQ.map (·.id)) = ([5, 6], [2, 3], [4]) := by decide +kernel

end FsVerif.Props.C02
