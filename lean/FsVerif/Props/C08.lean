/-
C08 — Machine holds ≤ work_capacity items, each for exactly its processing delay.
(Machine automaton.  Combiner and Splitter have work_capacity 1 by construction; their automata are in Model/Node/Pack.lean.)
-/
import FsVerif.Proofs.Machine
import FsVerif.Props.C09
import FsVerif.Props.C15
import FsVerif.Model.Node.Pack
namespace FsVerif.Props.C08
open FsVerif MacState

/-- never more than `work_capacity` items inside, under every schedule -/
theorem machine_capacity (cfg : MacCfg) (acts : List Act) :
    (runActs (init cfg) acts).held.length ≤ (runActs (init cfg) acts).cfg.wc :=
  held_le_wc (reach_minv cfg acts)

/-- the slots in use never exceed `work_capacity` and are exactly: active workers + the slot the
    behaviour process holds while it pulls -/
theorem machine_slots (cfg : MacCfg) (acts : List Act) :
    let s := runActs (init cfg) acts
    s.users ≤ s.cfg.wc ∧ s.users = nActive s + s.bSlot.toNat :=
  ⟨(reach_minv cfg acts).usersLe, (reach_minv cfg acts).usersEq⟩

/-- the processing delay is drawn exactly once per pulled item -/
theorem machine_one_draw_per_item (cfg : MacCfg) (acts : List Act) :
    let s := runActs (init cfg) acts
    s.pds.length = s.pulled.length ∧ s.workers.length = s.pulled.length := by
  have h := reach_minv cfg acts
  exact ⟨by rw [h.lenPd, h.lenPulled], h.lenPulled.symm⟩

/-- a worker that starts waits for exactly the delay drawn for its item (`yield env.timeout(delay)`)
    and in the activation in which that timer fires it offers the item downstream: it issues
    reserve_put / can_put (or drops the item) — the `timer` program counter has no other exit -/
theorem worker_waits_its_delay (s : MacState) (i : Nat) (w : Worker) (t : Nat) (a : Ans) (h : w.pc = .start) :
    (s.worker i w t a).2 = [.wait w.delay] := by
  unfold worker; simp [h]

/-! ### Combiner / Splitter (work_capacity 1): the unit of work is held for exactly the delay drawn for it -/

/-- Splitter: the worker created for a pulled pallet waits exactly the delay that was drawn when the pallet was pulled -/
theorem splitter_worker_waits_its_delay (s : PackState) (i : Nat) (w : PWorker) (t : Nat) (a : Ans)
    (hk : s.cfg.kind = .splitter) (h : w.pc = .start) : (s.worker i w t a).2 = [.wait w.delay] := by
  unfold PackState.worker; simp [h, hk]

/-- Combiner: once the slot is granted it waits exactly the delay it drew when the pallet was complete -/
theorem combiner_waits_drawn_delay (s : PackState) (t : Nat) (a : Ans) (pal : Unit') (d : Nat)
    (hpc : s.bpc = .cSlotWait pal d) (hg : s.granted = true) (ho : s.numWorkers < s.occ.length) :
    (s.bComb t a).2 = [.wait d] := by
  unfold PackState.bComb
  have : ¬ s.numWorkers ≥ s.occ.length := by omega
  simp [hpc, hg, this]

/-- one slot: a Combiner / Splitter never has more than one user of its worker slot after a request -/
theorem pack_request_single (s : PackState) : s.requestSlot.users ≤ max s.users 1 := by
  unfold PackState.requestSlot; split <;> simp <;> omega

/-! ### non-vacuity on a RECORDED run of the real Machine (Props/C09.demoBlocking, work_capacity 1, processing delay 1): three
items pulled, one delay drawn per item, one worker per item, never more than one item inside -/

example : let s := runActs (init { wc := 1, blocking := true }) C09.demoBlocking
    s.pulled = [1, 2, 3] ∧ s.pds = [1, 1, 1] ∧ s.workers.length = 3 ∧ s.held.length ≤ 1 ∧ s.users ≤ 1 := by decide +kernel

/-! ### "… offers it downstream exactly one processing delay later; it leaves later only while every out-edge its policy permits is full."
Node side, per step: when a blocking machine's processing timer ends, the worker — in that very activation — places a space request on
EVERY out-edge (FIRST_AVAILABLE) resp. on the selected out-edge (index / ROUND_ROBIN / user policy) and suspends on `any_of` of those
requests resp. on that one token; the edge side (a request that the edge can serve is granted at once: Props/C04) then gives: the item
leaves at the first instant at which a permitted edge has room.  (A non-blocking machine decides in the same activation: Props/C09.) -/

theorem updRep_nextTok (s : MacState) (t : Nat) : (s.updRep t).nextTok = s.nextTok := by
  unfold MacState.updRep; split <;> rfl

theorem machine_blocking_fa_requests_every_out_edge (s : MacState) (i : Nat) (w : Worker) (t : Nat) (a : Ans)
    (hpc : w.pc = .timer) (hpol : s.cfg.outPol = .fa) (hb : s.cfg.blocking = true) :
    (s.worker i w t a).2 = (List.range s.cfg.nout).map (fun j => Call.rp j (s.nextTok + j)) ++ [.awaitAny s.cfg.nout] := by
  unfold MacState.worker
  simp only [hpc, hpol, hb, ↓reduceIte]
  have key : ∀ w' : Worker, (((s.updRep t).setWorker i w').updRep t).nextTok = s.nextTok := by
    intro w'; rw [updRep_nextTok]; show (s.updRep t).nextTok = _; rw [updRep_nextTok]
  simp only [key]

theorem machine_blocking_policy_requests_selected_edge (s : MacState) (i : Nat) (w : Worker) (t : Nat) (a : Ans) (k : Int) (rr' : Nat) (c0 : List Call)
    (hpc : w.pc = .timer) (hpol : s.cfg.outPol ≠ .fa) (hb : s.cfg.blocking = true)
    (hsel : selIdx s.cfg.outPol s.rrOut s.cfg.nout a = (some k, rr', c0)) (h0 : 0 ≤ k) (h1 : k < s.cfg.nout) :
    ∃ tok, (s.worker i w t a).2 = c0 ++ [.rp k.toNat tok, .awaitTok] :=
  (C15.machine_policy_push_requests_selected_edge s i w t a k rr' c0 hpc hpol hb hsel h0 h1).2

end FsVerif.Props.C08
