/-
C13 — Conveyor stalls: non-accumulating belts stop, accumulating belts close up.

SLOTTED conveyor.  `ConveyorBelt.behaviour` (edges/slotted_conveyor.py) parks on `item_arrival_event`,
which nothing ever triggers: the state machine never leaves IDLE_STATE, `noaccumulation_mode_on` stays
False and no move process is ever interrupted (defect D9, known finding KF-D9; the lock-step check
compares `state` and `noaccumulation_mode_on` through the `mode` probe on every sampled history, so a
tree in which the state machine does wake up diverges from this model).  Consequences, all theorems
about Model/SlotBelt.lean:

* `slot_nonaccumulating_counterexample`: the non-accumulating half of the statement is FALSE for the
  slotted conveyor — kernel-checked on the witness corpus/kf_d9_slot_never_stalls.ops: while the head
  item waits unreserved at the exit the next item keeps advancing and reaches the exit too, and a new
  item is admitted.
* `slot_belt_never_stops`: every item reaches the exit exactly capacity × delay after it entered,
  whatever waits at the exit (for all operation sequences).
* accumulating half: items behind a waiting head keep advancing (`slot_belt_never_stops`), never
  overtake (`C12.slot_order`), never overlap in time at the entrance (`C12.slot_spacing`), and new items
  are admitted while the belt holds fewer than capacity items (`slot_admission_rule`: the admission
  test is room + spacing + nobody entering, independent of what waits at the exit).  "Close up until
  they touch" has no counterpart in a model without positions: items that have reached the exit all sit
  in `ready`; stated as such, not claimed beyond that.

CONTINUOUS conveyor: covered by Model/CBelt.lean when present (see MANIFEST.json for what is claimed).
-/
import FsVerif.Proofs.SlotBelt3
import FsVerif.Props.C12
namespace FsVerif.Props.C13
open FsVerif SlotBelt

/-- the witness of KF-D9: capacity 3, slot delay 1, NON-accumulating; item 0 enters at 0, item 1 at 1;
    nobody reserves a retrieval -/
def d9 : List Op :=
  [.reservePut 0, .put 0 0 { id := 0 }, .ev, .ev, .ev, .reservePut 0, .put 0 1 { id := 1 },
   .ev, .ev, .ev, .ev, .ev, .ev, .ev]

/-- item 0 waits at the exit from t = 3 on, unreserved (no retrieval was ever requested); item 1
    nevertheless advances and reaches the exit at t = 4 -/
theorem slot_nonaccumulating_counterexample :
    let s := SlotBelt.run (init { cap := 3, delay := 1 }) d9
    s.readyAt = [(0, 3), (1, 4)] ∧ s.getRes = [] ∧ s.getQ = [] ∧ s.ready.map (·.item.id) = [0, 1] := by decide

/-- … and a new item is admitted while the head waits unreserved -/
theorem slot_nonaccumulating_admits_counterexample :
    let s := SlotBelt.run (init { cap := 3, delay := 1 }) (d9 ++ [.reservePut 2])
    s.ready.map (·.item.id) = [0, 1] ∧ s.getRes = [] ∧ s.putRes.map (·.proc) = [2] := by decide

/-- the belt never stops: whatever waits at the exit, every item that is offered was offered exactly
    capacity × delay after it entered, and no travel event is ever overdue -/
theorem slot_belt_never_stops {s : SlotBelt} (h : C12.Reach s) :
    (∀ x ∈ s.readyAt, ∃ e ∈ s.entered, e.seq = x.1 ∧ x.2 = e.entry + s.cfg.cap * s.cfg.delay) ∧
    (∀ ev ∈ s.queue, s.now ≤ ev.time) :=
  ⟨C12.slot_travel_exact h, C12.slot_no_overdue h⟩

/-- the admission rule does not look at the exit: a waiting request at the head of the queue is granted
    by a trigger iff nobody is entering, there is room, and the last moving item entered at least one
    slot delay ago -/
theorem slot_admission_rule (s : SlotBelt) (t : Tok) (q : List Tok) (hq : s.putQ = t :: q) :
    (s.trigPut.putRes = s.putRes ++ [t] ↔
      (s.putRes = [] ∧ s.items.length + s.ready.length < s.cfg.cap ∧
        ∀ e, s.items.getLast? = some e → e.entry + s.cfg.delay ≤ s.now)) := by
  unfold SlotBelt.trigPut
  rw [hq]
  simp only
  unfold admits
  cases hres : s.putRes with
  | nil =>
    cases hl : s.items.getLast? with
    | none =>
      by_cases h1 : s.items.length + s.ready.length < s.cfg.cap <;> simp [level, h1, hres]
    | some e =>
      by_cases h1 : s.items.length + s.ready.length < s.cfg.cap <;> by_cases h2 : e.entry + s.cfg.delay ≤ s.now <;>
        simp [level, h1, h2, hres]
  | cons a as => simp [hres]

end FsVerif.Props.C13
