/-
C13 — Conveyor stalls: non-accumulating belts stop, accumulating belts close up.

SLOTTED conveyor.  `ConveyorBelt.behaviour` (edges/slotted_conveyor.py) parks on `item_arrival_event`,
which nothing ever triggers: the state machine never leaves IDLE_STATE, `noaccumulation_mode_on` stays
False and no move process is ever interrupted (defect D9, known finding KF-D9; the lock-step check
compares `state` and `noaccumulation_mode_on` through the `mode` probe on every sampled history, so a
tree in which the state machine does wake up diverges from this model).  Consequences, all theorems
about Model/SlotBelt.lean:

* `slot_nonaccumulating_counterexample`: the non-accumulating half of the statement is FALSE for the
  slotted conveyor — kernel-checked on the witness corpus/kf_d9_slot_never_stalls.ops: while the head
  item waits unreserved at the exit the next item keeps advancing and reaches the exit too, and a new
  item is admitted.
* `slot_belt_never_stops`: every item reaches the exit exactly capacity × delay after it entered,
  whatever waits at the exit (for all operation sequences).
* accumulating half: items behind a waiting head keep advancing (`slot_belt_never_stops`), never
  overtake (`C12.slot_order`), never overlap in time at the entrance (`C12.slot_spacing`), and new items
  are admitted while the belt holds fewer than capacity items (`slot_admission_rule`: the admission
  test is room + spacing + nobody entering, independent of what waits at the exit).  "Close up until
  they touch" has no counterpart in a model without positions: items that have reached the exit all sit
  in `ready`; stated as such, not claimed beyond that.

CONTINUOUS conveyor (Model/CBelt.lean, after the repairs D10 D11c D25 D26; lock-step family `cbelt`).
Proved:
* `cbelt_nonacc_no_admission` (every state): a non-accumulating belt with an item at its exit grants no space
  reservation — whatever else holds; `cbelt_acc_admission_ignores_exit`: on an accumulating belt the admission test does
  not look at the exit at all (room + nobody entering + spacing against the last moving item).
* `cbelt_stop_interrupts_every_item` (every state): when the state machine enters STALLED_NONACCUMULATING from a
  running state, an Interruption is scheduled, in that very step and for the current instant, for every item on the belt
  that has a live move process.
* `cbelt_interrupt_keeps_remaining` / `cbelt_resume_exact` (all reachable states): an interrupted item waits with
  exactly the travel it had left (stopped-since + remaining = entry + earlier interruptions + target of its phase), so on
  release it resumes from where it stopped; with `C12.cbelt_travel_exact`: it arrives exactly (time stopped) later.
* `cbelt_cancel_stall_counterexample` (kernel-checked, known finding KF-D27): a head item whose granted retrieval is
  cancelled waits unreserved while the non-accumulating belt keeps running and the next item reaches the exit.
* `cbelt_accumulating_overlap_counterexample` (kernel-checked, known finding KF-D29): the accumulating stop plan works
  on ceil-slots; items that are not slot-aligned end up less than one item length apart.  So "never overlapping" is FALSE
  for the accumulating continuous conveyor as the code stands.
NOT proved (lock-step + judge only): the accumulating plan (items advance until they touch the item ahead, no
  overlap, no overtaking) — `_get_belt_pattern`, the gap-based delays and `handle_new_item_during_interruption` are in
  the model and compared event by event with the code, but no theorem about positions is stated.
-/
import FsVerif.Proofs.SlotBelt3
import FsVerif.Props.C12
namespace FsVerif.Props.C13
open FsVerif SlotBelt

/-- the witness of KF-D9: capacity 3, slot delay 1, NON-accumulating; item 0 enters at 0, item 1 at 1;
    nobody reserves a retrieval -/
def d9 : List Op :=
  [.reservePut 0, .put 0 0 { id := 0 }, .ev, .ev, .ev, .reservePut 0, .put 0 1 { id := 1 },
   .ev, .ev, .ev, .ev, .ev, .ev, .ev]

/-- item 0 waits at the exit from t = 3 on, unreserved (no retrieval was ever requested); item 1
    nevertheless advances and reaches the exit at t = 4 -/
theorem slot_nonaccumulating_counterexample :
    let s := SlotBelt.run (init { cap := 3, delay := 1 }) d9
    s.readyAt = [(0, 3), (1, 4)] ∧ s.getRes = [] ∧ s.getQ = [] ∧ s.ready.map (·.item.id) = [0, 1] := by decide

/-- … and a new item is admitted while the head waits unreserved -/
theorem slot_nonaccumulating_admits_counterexample :
    let s := SlotBelt.run (init { cap := 3, delay := 1 }) (d9 ++ [.reservePut 2])
    s.ready.map (·.item.id) = [0, 1] ∧ s.getRes = [] ∧ s.putRes.map (·.proc) = [2] := by decide

/-- the belt never stops: whatever waits at the exit, every item that is offered was offered exactly
    capacity × delay after it entered, and no travel event is ever overdue -/
theorem slot_belt_never_stops {s : SlotBelt} (h : C12.Reach s) :
    (∀ x ∈ s.readyAt, ∃ e ∈ s.entered, e.seq = x.1 ∧ x.2 = e.entry + s.cfg.cap * s.cfg.delay) ∧
    (∀ ev ∈ s.queue, s.now ≤ ev.time) :=
  ⟨C12.slot_travel_exact h, C12.slot_no_overdue h⟩

/-- the admission rule does not look at the exit: a waiting request at the head of the queue is granted
    by a trigger iff nobody is entering, there is room, and the last moving item entered at least one
    slot delay ago -/
theorem slot_admission_rule (s : SlotBelt) (t : Tok) (q : List Tok) (hq : s.putQ = t :: q) :
    (s.trigPut.putRes = s.putRes ++ [t] ↔
      (s.putRes = [] ∧ s.items.length + s.ready.length < s.cfg.cap ∧
        ∀ e, s.items.getLast? = some e → e.entry + s.cfg.delay ≤ s.now)) := by
  unfold SlotBelt.trigPut
  rw [hq]
  simp only
  unfold admits
  cases hres : s.putRes with
  | nil =>
    cases hl : s.items.getLast? with
    | none =>
      by_cases h1 : s.items.length + s.ready.length < s.cfg.cap <;> simp [level, h1, hres]
    | some e =>
      by_cases h1 : s.items.length + s.ready.length < s.cfg.cap <;> by_cases h2 : e.entry + s.cfg.delay ≤ s.now <;>
        simp [level, h1, h2, hres]
  | cons a as => simp [hres]

/-! ## continuous conveyor -/

/-- a non-accumulating belt with an item waiting at its exit grants nothing (any state) -/
theorem cbelt_nonacc_no_admission (s : CBelt) (hacc : s.cfg.acc = false) (hr : s.ready ≠ []) (hg : s.gaveUp = false) :
    s.trigPut.putRes = s.putRes ∧ (s.trigPut.gaveUp = false → s.trigPut.putQ = s.putQ) := by
  have hre : s.ready.isEmpty = false := by cases h : s.ready <;> simp_all
  unfold CBelt.trigPut
  split
  · exact ⟨rfl, fun _ => rfl⟩
  · have had : s.admits = some false ∨ s.admits = none := by
      unfold CBelt.admits
      split
      · exact Or.inl rfl
      · split
        · split
          · simp [hacc, hre]
          · exact Or.inl rfl
        · simp [hacc, hre]
    rcases had with had | had
    · rw [had]; exact ⟨rfl, fun _ => rfl⟩
    · rw [had]; exact ⟨rfl, fun hc => by simp [CBelt.giveUp] at hc⟩

theorem mem_foldl_interrupt (l : List CItem) : ∀ (s : CBelt) (it : CItem) (q : Nat), it ∈ l →
    CBelt.dictGet s.activeMove it.item.id = some q →
    ∃ ev ∈ (l.foldl (fun s it => s.interruptItem it.item.id) s).queue, ev.kind = .intr (.move q) ∧ ev.time = s.now ∧ ev.urgent = true := by
  induction l with
  | nil => intro s it q h; cases h
  | cons x xs ih =>
    intro s it q hit hq
    simp only [List.foldl_cons]
    have hfr := CBelt.Fr.foldl (fun s (it : CItem) => s.interruptItem it.item.id) (fun s a => CBelt.Fr.interruptItem s _) xs (s.interruptItem x.item.id)
    rcases List.mem_cons.mp hit with rfl | hit
    · -- the event for this item is scheduled now and kept by the rest of the loop
      have : ∃ ev ∈ (s.interruptItem it.item.id).queue, ev.kind = .intr (.move q) ∧ ev.time = s.now ∧ ev.urgent = true := by
        unfold CBelt.interruptItem
        rw [hq]
        exact ⟨_, CBelt.mem_insCEv.mpr (Or.inl rfl), rfl, rfl, rfl⟩
      obtain ⟨ev, hev, h1⟩ := this
      exact ⟨ev, hfr.qOld ev hev, h1⟩
    · have hsame : (s.interruptItem x.item.id).activeMove = s.activeMove := by
        unfold CBelt.interruptItem; split <;> rfl
      have hnow : (s.interruptItem x.item.id).now = s.now := (CBelt.Fr.interruptItem s _).now
      obtain ⟨ev, hev, h1, h2, h3⟩ := ih (s.interruptItem x.item.id) it q hit (by rw [hsame]; exact hq)
      exact ⟨ev, hev, h1, by rw [h2, hnow], h3⟩

/-- entering the stopped state of a non-accumulating belt interrupts every item that is travelling -/
theorem cbelt_stop_interrupts_every_item (s : CBelt) (hacc : s.cfg.acc = false) (hst : s.st.stalled = false) :
    ∀ it ∈ s.items, ∀ q, CBelt.dictGet s.activeMove it.item.id = some q →
      ∃ ev ∈ (s.setState .stalledNon).queue, ev.kind = .intr (.move q) ∧ ev.time = s.now ∧ ev.urgent = true := by
  intro it hit q hq
  have h1 : (CState.stalledNon).stalled = true := rfl
  have hne : s.items.isEmpty = false := by cases h : s.items <;> simp_all
  have key : s.setState .stalledNon =
      s.items.foldl (fun s it => s.interruptItem it.item.id) ({ s with st := .stalledNon, everStalled := s.everStalled || true, noacc := true } : CBelt) := by
    unfold CBelt.setState
    simp only [hst, h1, hacc, Bool.not_false, Bool.and_self, if_true]
    unfold CBelt.selectiveInterrupt
    simp only [hne, Bool.false_eq_true, if_false, if_true]
  rw [key]
  exact mem_foldl_interrupt s.items ({ s with st := .stalledNon, everStalled := s.everStalled || true, noacc := true } : CBelt) it q hit hq

/-- an interrupted item waits with exactly the travel it had left; a running one is accounted for exactly -/
theorem cbelt_resume_exact {s : CBelt} (h : C12.ReachC s) :
    ∀ p ∈ s.procs, ∀ it ∈ s.items, it.seq = p.q →
      (∀ ph rm ist g, p.pc = .wait ph rm ist g → it.intStart = some ist ∧ ist + rm = it.entry + it.totalInt + CBelt.target s.cfg ph) ∧
      (∀ ph st rm u, p.pc = .run ph st rm u → it.intStart = none ∧ st + rm = it.entry + it.totalInt + CBelt.target s.cfg ph) := by
  intro p hp it hit hs
  have := (C12.reachC_ti h).pcOK p hp (by simp) it hit hs
  unfold CBelt.PcOK at this
  constructor
  · intro ph rm ist g hpc; rw [hpc] at this; exact ⟨this.1, this.2.1⟩
  · intro ph st rm u hpc; rw [hpc] at this; exact ⟨this.1, this.2.1⟩

/-- the step that interrupts a running item: what is left is what was left -/
theorem cbelt_interrupt_keeps_remaining (s : CBelt) (q : Nat) (p : MProc) (ph st rm u : Nat)
    (hp : s.procs.find? (fun p => p.q == q) = some p) (hpc : p.pc = .run ph st rm u) :
    ∀ p' ∈ (s.onInterrupt (.move q)).procs, p'.q = q → p'.pc = .wait ph (rm - (s.now - st)) s.now s.reGen := by
  unfold CBelt.onInterrupt
  simp only [hp, hpc]
  intro p' hp' hq'
  simp only [CBelt.setProc, CBelt.setItem] at hp'
  obtain ⟨p0, hp0, rfl⟩ := List.mem_map.mp hp'
  by_cases h0 : (p0.q == q) = true
  · simp only [h0, if_true]
  · simp only [h0] at hq' ⊢
    exact absurd (by simpa using hq') h0

/-- KF-D27 on the mirrored model: capacity 2, p1 = 2, non-accumulating.  Item 0 is at the exit at t = 4 with a granted
    retrieval; the retrieval is cancelled at t = 6: the head now waits unreserved, yet item 1 reaches the exit at t = 8 -/
def d27 : List CBelt.Op :=
  [.reservePut 0, .put 0 0 { id := 0 }, .ev, .reserveGet 1, .ev, .ev, .reservePut 0, .ev, .ev, .ev, .ev,
   .put 0 2 { id := 1 }, .ev, .ev, .ev, .ev, .cancelGet 1, .ev, .ev, .ev, .ev]

theorem cbelt_cancel_stall_counterexample :
    let s := CBelt.run (CBelt.init { cap := 2, p1 := 2, acc := false }) d27
    s.arrivals.map (fun a => (a.q, a.t)) = [(0, 4), (1, 8)] ∧ s.getRes = [] ∧ s.ready.map (·.item.id) = [0, 1] := by decide

/-- KF-D29 on the mirrored model: capacity 5, p1 = 4 (travel 20), ACCUMULATING.  Entries at 0, 9, 20; the head waits
    unreserved from 20 to 41.  Item 1 (not slot-aligned) is stopped where it is, item 2 advances by whole slots: after
    the release they reach the exit at 50 and 53 — less than one item length (4) of belt travel apart -/
def d29 : List CBelt.Op :=
  [.reservePut 0, .put 0 0 { id := 0 }, .ev, .ev, .adv 4, .ev, .ev, .adv 5, .reservePut 0, .put 0 1 { id := 1 },
   .ev, .ev, .ev, .adv 4, .ev, .ev, .reservePut 0, .adv 7, .ev, .ev, .ev, .ev, .put 0 2 { id := 2 }, .ev, .ev,
   .ev, .ev, .adv 4, .ev, .ev, .adv 4, .ev, .ev, .adv 1, .ev, .adv 11, .ev, .adv 1, .reserveGet 10, .get 10 3,
   .ev, .ev, .ev, .adv 9, .ev, .ev, .ev, .reserveGet 10, .get 10 4, .ev, .ev, .ev, .adv 3, .ev, .ev, .ev, .adv 3]

theorem cbelt_accumulating_overlap_counterexample :
    (CBelt.run (CBelt.init { cap := 5, p1 := 4, acc := true }) d29).arrivals.map (fun a => (a.q, a.t)) = [(0, 20), (1, 50), (2, 53)] := by
  decide +kernel

end FsVerif.Props.C13
