/-
C06 — FIFO, LIFO and filter retrieval discipline holds, also after cancellation.
(positional stores are FIFO only; LIFO exists in BufferStore)
-/
import FsVerif.Proofs.PosExtra
import FsVerif.Proofs.BufExtra
import FsVerif.Proofs.Fleet
import FsVerif.Proofs.SlotFifo
import FsVerif.Proofs.BufFifo
import FsVerif.Proofs.BufLifo
import FsVerif.Proofs.CBeltFifo
namespace FsVerif.Props.C06
open FsVerif PosStore

/-- Every entry inside carries its put order (`seq`).  `everRes` is the ghost set of entries that
    were bound to a retrieval at some time.  A grant binds the first unreserved entry `x`, and for
    every other unreserved entry `y`: `x` is a released item, or neither was ever reserved and `x`
    was put before `y`.  (FIFO among never-reserved items; released items go first.) -/
theorem pos_fifo_grant {s : PosStore} (h : Reachable s) {t : Tok} {q : List Tok}
    (hq : s.getQ = t :: q) (hs : s.serves t = true) :
    ∃ x, s.items[s.resEv.length]? = some x ∧
      s.trigGet.resEv = s.resEv ++ [t] ∧
      ∀ y ∈ s.items.drop (s.resEv.length + 1), Ahead s.everRes x.seq y.seq := by
  have hi := reachable_inv h
  have h2 := (reachable_inv2 h).fifo
  have hlt : s.resEv.length < s.items.length := by
    have := serves_lt hs; have := bind_len hi.bind; omega
  refine ⟨s.items[s.resEv.length], List.getElem?_eq_getElem hlt, ?_, ?_⟩
  · unfold trigGet; simp [hq, hs]
  · have hord := h2.order
    unfold seqs at hord
    rw [← List.map_drop, List.drop_eq_getElem_cons hlt, List.map_cons] at hord
    have := (List.pairwise_cons.mp hord).1
    intro y hy
    exact this y.seq (List.mem_map.mpr ⟨y, hy, rfl⟩)

/-- Items that were never reserved keep their put order among the unreserved items. -/
theorem pos_never_reserved_in_order {s : PosStore} (h : Reachable s) :
    (((seqs s).drop s.resEv.length).filter (fun a => decide (a ∉ s.everRes))).Pairwise (· < ·) := by
  have hord := (reachable_inv2 h).fifo.order
  refine List.Pairwise.imp_of_mem ?_ (hord.sublist List.filter_sublist)
  intro a b ha hb hab
  have ha' := (List.mem_filter.mp ha).2
  simp at ha'
  rcases hab with hab | ⟨_, hab⟩
  · exact absurd hab ha'
  · exact hab

/-- A released item (reserved before, reservation cancelled) is served ahead of every
    never-reserved item: no never-reserved entry precedes a released one. -/
theorem pos_released_first {s : PosStore} (h : Reachable s) :
    ((seqs s).drop s.resEv.length).Pairwise (fun a b => b ∈ s.everRes → a ∈ s.everRes) := by
  have hord := (reachable_inv2 h).fifo.order
  refine List.Pairwise.imp ?_ hord
  intro a b hab hb
  rcases hab with hab | ⟨hnb, _⟩
  · exact hab
  · exact absurd hb hnb

/-- … and every never-reserved item is newer than everything that was ever reserved, so the
    released item indeed "preceded" them. -/
theorem pos_never_reserved_newer {s : PosStore} (h : Reachable s) :
    ∀ a ∈ seqs s, a ∉ s.everRes → ∀ r ∈ s.everRes, r < a :=
  (reachable_inv2 h).fifo.newer

/-- The filter store at full strength is FALSE for the code as it stands (finding D3): a
    filtered retrieval is granted when *some* unreserved item matches, but it is bound to the
    *first* unreserved item.  Items of kind 0 and kind 1 inside, request `kind = 1`: granted, and
    its `get` returns the item of kind 0. -/
theorem filter_binding_counterexample :
    ((run (init { cap := none, filter := true })
      [.reservePut 0 0, .reservePut 0 0, .put 0 0 ⟨10, 0⟩, .put 0 1 ⟨11, 1⟩,
       .reserveGet 1 0 (.kindEq 1)]).step (.get 1 2)).2 = .item ⟨10, 0⟩ := by
  decide

/-- Non-vacuity: [a, b, c] inside, reserve (binds a), cancel, reserve again: a is bound again,
    b and c keep their order behind it. -/
example : (run (init { cap := none })
      [.reservePut 0 0, .reservePut 0 0, .reservePut 0 0, .put 0 0 ⟨1, 0⟩, .put 0 1 ⟨2, 0⟩, .put 0 2 ⟨3, 0⟩,
       .reserveGet 1 0 .always, .cancelGet 3, .reserveGet 1 0 .always]).items.map (·.item.id) = [1, 2, 3] := by
  decide

/-! ### BufferStore (FIFO and LIFO) and the store inside a Fleet: the positional discipline.  In every reachable state the granted
retrievals own exactly the FIRST k ready entries (FIFO) / the TOP k (LIFO), k = number of granted retrievals; a new grant binds the
entry right behind that block: `ready[k]` (FIFO: the oldest entry nobody holds) / `ready[len - 1 - k]` (LIFO: the most recent one).
What the order of `ready` itself is - the order in which entries became available, a released entry going back next to the block - is
proved below for the FIFO BufferStore, the LIFO BufferStore (a stack), the store inside a Fleet and the two conveyor stores. -/

theorem buf_reserved_block {s : BufStore} (h : BufStore.ReachD s) : s.resItems.Perm (BufStore.resPart s) ∧ s.resEv.length = s.getRes.length :=
  ⟨(BufStore.reachD_binv h).bindItems, (BufStore.reachD_binv h).bindEv.length_eq⟩

theorem buf_grant_binds_next {s : BufStore} (h : BufStore.Core s) {t : Tok} {q : List Tok} (hq : s.getQ = t :: q) (hs : s.serves = true) :
    ∃ e, s.trigGet.resItems = s.resItems ++ [e] ∧
      ((s.cfg.mode = .fifo → s.ready[s.resEv.length]? = some e) ∧
       (s.cfg.mode = .lifo → s.ready[s.ready.length - 1 - s.resEv.length]? = some e)) := by
  have hlen : s.resEv.length = s.getRes.length := h.bindEv.length_eq
  have hlt : s.resEv.length < s.ready.length := by have := (BufStore.serves_iff s).mp hs; omega
  rcases BufStore.trigGet_cases s with ⟨_, hn | hn⟩ | ⟨t', q', e, hq', _, hb, he⟩ | ⟨t', q', hq', _, hb, _⟩
  · rw [hq] at hn; cases hn
  · rw [hs] at hn; cases hn
  · refine ⟨e, by rw [he], ?_, ?_⟩
    · intro hm; unfold BufStore.bindIdx at hb; rw [hm] at hb; simpa using hb
    · intro hm; unfold BufStore.bindIdx at hb; rw [hm] at hb; simp only [hlt, ↓reduceIte] at hb; simpa using hb
  · exfalso
    unfold BufStore.bindIdx at hb
    cases hm : s.cfg.mode with
    | fifo =>
      rw [hm] at hb
      simp at hb; omega
    | lifo =>
      rw [hm] at hb
      simp only [hlt, ↓reduceIte] at hb
      simp at hb; omega

/-- the same for the store inside a Fleet (always FIFO): a grant binds the oldest delivered item nobody holds -/
theorem fleet_grant_binds_next {s : FleetStore} (h : FleetStore.ReachD s) {t : Tok} {q : List Tok} (hq : s.b.getQ = t :: q) (hs : s.b.serves = true) :
    ∃ e, s.b.trigGet.resItems = s.b.resItems ++ [e] ∧ s.b.ready[s.b.resEv.length]? = some e := by
  have hk := FleetStore.reachD_kt h
  obtain ⟨e, h1, h2, _⟩ := buf_grant_binds_next hk.core hq hs
  exact ⟨e, h1, h2 (by rw [hk.cfgB])⟩



/-! ### FIFO BufferStore / Buffer and the store inside a Fleet: the ready list is a queue, cancellation included
(`free` = the ready entries no granted retrieval holds, in `ready_items` order; same four laws as for the conveyors below) -/

theorem buf_fifo_grant_takes_front {s : BufStore} (h : BufStore.ReachD s) (hm : s.cfg.mode = .fifo) :
    ∃ g, BufStore.free s = g ++ BufStore.free s.trigGet ∧ s.trigGet.resItems = s.resItems ++ g ∧ g.length ≤ 1 :=
  BufStore.trigGet_queue (BufStore.reachD_binv h).bindEv.length_eq hm

theorem buf_fifo_available_joins_back {s : BufStore} (h : BufStore.ReachD s) (hm : s.cfg.mode = .fifo) (e : BEntry) :
    ∃ new g, BufStore.free s ++ new = g ++ BufStore.free (s.move e) ∧ (s.move e).resItems = s.resItems ++ g ∧ new.length ≤ 1 ∧ g.length ≤ 1 :=
  BufStore.move_queue (BufStore.reachD_binv h).toPre hm e

theorem buf_fifo_get_keeps_free {s : BufStore} (h : BufStore.ReachD s) (hm : s.cfg.mode = .fifo) (p tid : Nat) :
    BufStore.free (s.get p tid).1 = BufStore.free s :=
  BufStore.get_queue (BufStore.reachD_binv h).toPre hm p tid

theorem buf_fifo_cancel_releases_to_front {s : BufStore} (h : BufStore.ReachD s) (hm : s.cfg.mode = .fifo) (tid : Nat) :
    ∃ rel g base, rel ++ BufStore.free s = g ++ BufStore.free (s.cancelGet tid).1 ∧ (s.cancelGet tid).1.resItems = base ++ g ∧ g.length ≤ 1 ∧
      ((rel = [] ∧ base = s.resItems) ∨
       (∃ t e, findTok s.getRes tid = some t ∧ s.resItems[s.resEv.idxOf t]? = some e ∧ rel = [e] ∧
               base = s.resItems.eraseIdx (s.resEv.idxOf t))) :=
  BufStore.cancelGet_queue (BufStore.reachD_binv h).toPre hm tid

theorem fleet_delivery_joins_back {s : FleetStore} (h : FleetStore.ReachD s) (e : BEntry) :
    ∃ new g, BufStore.free s.b ++ new = g ++ BufStore.free (s.moveOne e).b ∧ (s.moveOne e).b.resItems = s.b.resItems ++ g ∧ new.length ≤ 1 ∧ g.length ≤ 1 :=
  FleetStore.moveOne_queue (FleetStore.reachD_kt h) e

theorem fleet_get_keeps_free {s : FleetStore} (h : FleetStore.ReachD s) (p tid : Nat) :
    BufStore.free (s.b.get p tid).1 = BufStore.free s.b :=
  BufStore.get_queue (FleetStore.reachD_kt h).core.toPre (by rw [(FleetStore.reachD_kt h).cfgB]) p tid

theorem fleet_cancel_releases_to_front {s : FleetStore} (h : FleetStore.ReachD s) (tid : Nat) :
    ∃ rel g base, rel ++ BufStore.free s.b = g ++ BufStore.free (s.b.cancelGet tid).1 ∧ (s.b.cancelGet tid).1.resItems = base ++ g ∧ g.length ≤ 1 ∧
      ((rel = [] ∧ base = s.b.resItems) ∨
       (∃ t e, findTok s.b.getRes tid = some t ∧ s.b.resItems[s.b.resEv.idxOf t]? = some e ∧ rel = [e] ∧
               base = s.b.resItems.eraseIdx (s.b.resEv.idxOf t))) :=
  BufStore.cancelGet_queue (FleetStore.reachD_kt h).core.toPre (by rw [(FleetStore.reachD_kt h).cfgB]) tid

/-! ### LIFO BufferStore: the unreserved part of `ready_items` is a stack (`freeL` = the ready entries below the reserved block, bottom
first).  A grant takes its TOP — the most recently available unreserved item —, an entry that becomes available is pushed on top, a `get`
does not touch it, cancelling a granted retrieval pushes the released entry back on top (it is served next, ahead of every
never-reserved entry). -/

theorem buf_lifo_grant_takes_top {s : BufStore} (h : BufStore.ReachD s) (hm : s.cfg.mode = .lifo) :
    ∃ g, BufStore.freeL s = BufStore.freeL s.trigGet ++ g ∧ s.trigGet.resItems = s.resItems ++ g ∧ g.length ≤ 1 :=
  BufStore.trigGet_stack (BufStore.reachD_binv h).bindEv.length_eq hm

theorem buf_lifo_available_pushed_on_top {s : BufStore} (h : BufStore.ReachD s) (hm : s.cfg.mode = .lifo) (e : BEntry) :
    ∃ new g, BufStore.freeL s ++ new = BufStore.freeL (s.move e) ++ g ∧ (s.move e).resItems = s.resItems ++ g ∧ new.length ≤ 1 ∧ g.length ≤ 1 :=
  BufStore.move_stack (BufStore.reachD_binv h).toPre hm e

theorem buf_lifo_get_keeps_free {s : BufStore} (h : BufStore.ReachD s) (hm : s.cfg.mode = .lifo) (p tid : Nat) :
    BufStore.freeL (s.get p tid).1 = BufStore.freeL s :=
  BufStore.get_stack (BufStore.reachD_binv h).toPre hm p tid

theorem buf_lifo_cancel_releases_to_top {s : BufStore} (h : BufStore.ReachD s) (hm : s.cfg.mode = .lifo) (tid : Nat) :
    ∃ rel g base, BufStore.freeL s ++ rel = BufStore.freeL (s.cancelGet tid).1 ++ g ∧ (s.cancelGet tid).1.resItems = base ++ g ∧ g.length ≤ 1 ∧
      ((rel = [] ∧ base = s.resItems) ∨
       (∃ t e, findTok s.getRes tid = some t ∧ s.resItems[s.resEv.idxOf t]? = some e ∧ rel = [e] ∧
               base = s.resItems.eraseIdx (s.resEv.idxOf t))) :=
  BufStore.cancelGet_stack (BufStore.reachD_binv h).toPre hm tid

/-- non-vacuity: items 1, 2, 3 ready in a LIFO buffer (delay 0): the first grant binds 3, the second 2; cancelling the first puts 3 back
    on top of the free part [1], a new request gets 3 again -/
example : ((BufStore.run (BufStore.init { cap := none, mode := .lifo })
      [.reservePut 0, .reservePut 0, .reservePut 0, .put 0 0 ⟨1, 0⟩ 0, .put 0 1 ⟨2, 0⟩ 0, .put 0 2 ⟨3, 0⟩ 0, .settle,
       .reserveGet 1, .reserveGet 1, .cancelGet 3]).ready.map (·.item.id),
           (BufStore.freeL (BufStore.run (BufStore.init { cap := none, mode := .lifo })
      [.reservePut 0, .reservePut 0, .reservePut 0, .put 0 0 ⟨1, 0⟩ 0, .put 0 1 ⟨2, 0⟩ 0, .put 0 2 ⟨3, 0⟩ 0, .settle,
       .reserveGet 1, .reserveGet 1, .cancelGet 3])).map (·.item.id)) = ([1, 3, 2], [1, 3]) := by decide +kernel

/-! ### both conveyor stores: the exit is a FIFO queue, cancellation included.
`free s` = the items waiting at the exit that no granted retrieval holds, in `ready_items` order.  In every reachable state
(`Bd`, Proofs/SlotBind.lean / CBeltBind.lean — no assumption on the client):
  * a grant takes the FRONT of the free list (`…_grant_takes_front`);
  * an item that reaches the exit joins at the BACK (`…_arrival_joins_back`: free ++ [arrived] = granted ++ free');
  * a `get` does not touch the free list (`…_get_keeps_free`): never-reserved items keep their order;
  * cancelling a GRANTED retrieval puts its item back at the FRONT — ahead of every never-reserved item — and nothing else moves;
    cancelling a waiting request moves nothing (`…_cancel_releases_to_front`).
Together: successive grants receive the items in the order in which they became available, a released item is served next. -/

theorem slot_grant_takes_front (cfg : SlotCfg) (ops : List SlotBelt.Op) :
    let s := SlotBelt.run (SlotBelt.init cfg) ops
    ∃ g, SlotBelt.free s = g ++ SlotBelt.free s.trigGet ∧ s.trigGet.resItems = s.resItems ++ g ∧ g.length ≤ 1 :=
  SlotBelt.trigGet_queue (SlotBelt.run_bd ops _ (SlotBelt.init_bd cfg)).to0

theorem slot_arrival_joins_back (cfg : SlotCfg) (ops : List SlotBelt.Op) (q : Nat) :
    let s := SlotBelt.run (SlotBelt.init cfg) ops
    ∃ new g, SlotBelt.free s ++ new = g ++ SlotBelt.free (s.arrive q) ∧ (s.arrive q).resItems = s.resItems ++ g ∧ new.length ≤ 1 ∧ g.length ≤ 1 :=
  SlotBelt.arrive_queue (SlotBelt.run_bd ops _ (SlotBelt.init_bd cfg)) q

theorem slot_get_keeps_free (cfg : SlotCfg) (ops : List SlotBelt.Op) (p tid : Nat) :
    let s := SlotBelt.run (SlotBelt.init cfg) ops
    SlotBelt.free (s.get p tid).1 = SlotBelt.free s :=
  SlotBelt.get_queue (SlotBelt.run_bd ops _ (SlotBelt.init_bd cfg)) p tid

theorem slot_cancel_releases_to_front (cfg : SlotCfg) (ops : List SlotBelt.Op) (tid : Nat) :
    let s := SlotBelt.run (SlotBelt.init cfg) ops
    ∃ rel g base, rel ++ SlotBelt.free s = g ++ SlotBelt.free (s.cancelGet tid).1 ∧ (s.cancelGet tid).1.resItems = base ++ g ∧ g.length ≤ 1 ∧
      ((rel = [] ∧ base = s.resItems) ∨
       (∃ t e, findTok s.getRes tid = some t ∧ s.resItems[s.resEv.idxOf t]? = some e ∧ rel = [e] ∧
               base = s.resItems.eraseIdx (s.resEv.idxOf t))) :=
  SlotBelt.cancelGet_queue (SlotBelt.run_bd ops _ (SlotBelt.init_bd cfg)) tid

theorem cbelt_grant_takes_front (cfg : CCfg) (ops : List CBelt.Op) :
    let s := CBelt.run (CBelt.init cfg) ops
    ∃ g, CBelt.free s = g ++ CBelt.free s.trigGet ∧ s.trigGet.resItems = s.resItems ++ g ∧ g.length ≤ 1 :=
  CBelt.trigGet_queue (CBelt.run_bd ops _ (CBelt.init_bd cfg)).to0

theorem cbelt_arrival_joins_back (cfg : CCfg) (ops : List CBelt.Op) (p : MProc) :
    let s := CBelt.run (CBelt.init cfg) ops
    ∃ new g, CBelt.free s ++ new = g ++ CBelt.free (s.arrive p) ∧ (s.arrive p).resItems = s.resItems ++ g ∧ new.length ≤ 1 ∧ g.length ≤ 1 :=
  CBelt.arrive_queue (CBelt.run_bd ops _ (CBelt.init_bd cfg)) p

theorem cbelt_get_keeps_free (cfg : CCfg) (ops : List CBelt.Op) (p tid : Nat) :
    let s := CBelt.run (CBelt.init cfg) ops
    CBelt.free (s.get p tid).1 = CBelt.free s :=
  CBelt.get_queue (CBelt.run_bd ops _ (CBelt.init_bd cfg)) p tid

theorem cbelt_cancel_releases_to_front (cfg : CCfg) (ops : List CBelt.Op) (tid : Nat) :
    let s := CBelt.run (CBelt.init cfg) ops
    ∃ rel g base, rel ++ CBelt.free s = g ++ CBelt.free (s.cancelGet tid).1 ∧ (s.cancelGet tid).1.resItems = base ++ g ∧ g.length ≤ 1 ∧
      ((rel = [] ∧ base = s.resItems) ∨
       (∃ t e, findTok s.getRes tid = some t ∧ s.resItems[s.resEv.idxOf t]? = some e ∧ rel = [e] ∧
               base = s.resItems.eraseIdx (s.resEv.idxOf t))) :=
  CBelt.cancelGet_queue (CBelt.run_bd ops _ (CBelt.init_bd cfg)) tid

/-- non-vacuity: items 5, 6, 7 at the exit of a slotted conveyor; two retrievals granted (5, 6), the first one cancelled: 5 goes back in
    front of the never-reserved 7, a new request is served with 5 again -/
def demoSlotFifo : List SlotBelt.Op :=
  [.reservePut 0, .put 0 0 { id := 5 }, .ev, .ev, .ev, .ev, .reservePut 0, .put 0 1 { id := 6 }, .ev, .ev, .ev, .ev,
   .reservePut 0, .put 0 2 { id := 7 }, .ev, .ev, .ev, .ev, .reserveGet 1, .reserveGet 2]

example : ((SlotBelt.free (SlotBelt.run (SlotBelt.init { cap := 3, delay := 1 }) demoSlotFifo)).map (·.item.id),
           (SlotBelt.free (SlotBelt.run (SlotBelt.init { cap := 3, delay := 1 }) (demoSlotFifo ++ [.cancelGet 3]))).map (·.item.id),
           (SlotBelt.run (SlotBelt.init { cap := 3, delay := 1 }) (demoSlotFifo ++ [.cancelGet 3, .reserveGet 3])).resItems.map (·.item.id))
    = ([7], [5, 7], [6, 5]) := by decide +kernel

end FsVerif.Props.C06
