/-
C06 — FIFO, LIFO and filter retrieval discipline holds, also after cancellation.
(positional stores are FIFO only; LIFO exists in BufferStore)
-/
import FsVerif.Proofs.PosExtra
import FsVerif.Proofs.BufExtra
import FsVerif.Proofs.Fleet
namespace FsVerif.Props.C06
open FsVerif PosStore

/-- Every entry inside carries its put order (`seq`).  `everRes` is the ghost set of entries that
    were bound to a retrieval at some time.  A grant binds the first unreserved entry `x`, and for
    every other unreserved entry `y`: `x` is a released item, or neither was ever reserved and `x`
    was put before `y`.  (FIFO among never-reserved items; released items go first.) -/
theorem pos_fifo_grant {s : PosStore} (h : Reachable s) {t : Tok} {q : List Tok}
    (hq : s.getQ = t :: q) (hs : s.serves t = true) :
    ∃ x, s.items[s.resEv.length]? = some x ∧
      s.trigGet.resEv = s.resEv ++ [t] ∧
      ∀ y ∈ s.items.drop (s.resEv.length + 1), Ahead s.everRes x.seq y.seq := by
  have hi := reachable_inv h
  have h2 := (reachable_inv2 h).fifo
  have hlt : s.resEv.length < s.items.length := by
    have := serves_lt hs; have := bind_len hi.bind; omega
  refine ⟨s.items[s.resEv.length], List.getElem?_eq_getElem hlt, ?_, ?_⟩
  · unfold trigGet; simp [hq, hs]
  · have hord := h2.order
    unfold seqs at hord
    rw [← List.map_drop, List.drop_eq_getElem_cons hlt, List.map_cons] at hord
    have := (List.pairwise_cons.mp hord).1
    intro y hy
    exact this y.seq (List.mem_map.mpr ⟨y, hy, rfl⟩)

/-- Items that were never reserved keep their put order among the unreserved items. -/
theorem pos_never_reserved_in_order {s : PosStore} (h : Reachable s) :
    (((seqs s).drop s.resEv.length).filter (fun a => decide (a ∉ s.everRes))).Pairwise (· < ·) := by
  have hord := (reachable_inv2 h).fifo.order
  refine List.Pairwise.imp_of_mem ?_ (hord.sublist List.filter_sublist)
  intro a b ha hb hab
  have ha' := (List.mem_filter.mp ha).2
  simp at ha'
  rcases hab with hab | ⟨_, hab⟩
  · exact absurd hab ha'
  · exact hab

/-- A released item (reserved before, reservation cancelled) is served ahead of every
    never-reserved item: no never-reserved entry precedes a released one. -/
theorem pos_released_first {s : PosStore} (h : Reachable s) :
    ((seqs s).drop s.resEv.length).Pairwise (fun a b => b ∈ s.everRes → a ∈ s.everRes) := by
  have hord := (reachable_inv2 h).fifo.order
  refine List.Pairwise.imp ?_ hord
  intro a b hab hb
  rcases hab with hab | ⟨hnb, _⟩
  · exact hab
  · exact absurd hb hnb

/-- … and every never-reserved item is newer than everything that was ever reserved, so the
    released item indeed "preceded" them. -/
theorem pos_never_reserved_newer {s : PosStore} (h : Reachable s) :
    ∀ a ∈ seqs s, a ∉ s.everRes → ∀ r ∈ s.everRes, r < a :=
  (reachable_inv2 h).fifo.newer

/-- The filter store at full strength is FALSE for the code as it stands (finding D3): a
    filtered retrieval is granted when *some* unreserved item matches, but it is bound to the
    *first* unreserved item.  Items of kind 0 and kind 1 inside, request `kind = 1`: granted, and
    its `get` returns the item of kind 0. -/
theorem filter_binding_counterexample :
    ((run (init { cap := none, filter := true })
      [.reservePut 0 0, .reservePut 0 0, .put 0 0 ⟨10, 0⟩, .put 0 1 ⟨11, 1⟩,
       .reserveGet 1 0 (.kindEq 1)]).step (.get 1 2)).2 = .item ⟨10, 0⟩ := by
  decide

/-- Non-vacuity: [a, b, c] inside, reserve (binds a), cancel, reserve again: a is bound again,
    b and c keep their order behind it. -/
example : (run (init { cap := none })
      [.reservePut 0 0, .reservePut 0 0, .reservePut 0 0, .put 0 0 ⟨1, 0⟩, .put 0 1 ⟨2, 0⟩, .put 0 2 ⟨3, 0⟩,
       .reserveGet 1 0 .always, .cancelGet 3, .reserveGet 1 0 .always]).items.map (·.item.id) = [1, 2, 3] := by
  decide

/-! ### BufferStore (FIFO and LIFO) and the store inside a Fleet: the positional discipline.  In every reachable state the granted
retrievals own exactly the FIRST k ready entries (FIFO) / the TOP k (LIFO), k = number of granted retrievals; a new grant binds the
entry right behind that block: `ready[k]` (FIFO: the oldest entry nobody holds) / `ready[len - 1 - k]` (LIFO: the most recent one).
What the order of `ready` itself is - the order in which entries became available, a released entry going back next to the block - is
what the lock-step comparison and the C06 judge decide; no theorem states it. -/

theorem buf_reserved_block {s : BufStore} (h : BufStore.ReachD s) : s.resItems.Perm (BufStore.resPart s) ∧ s.resEv.length = s.getRes.length :=
  ⟨(BufStore.reachD_binv h).bindItems, (BufStore.reachD_binv h).bindEv.length_eq⟩

theorem buf_grant_binds_next {s : BufStore} (h : BufStore.Core s) {t : Tok} {q : List Tok} (hq : s.getQ = t :: q) (hs : s.serves = true) :
    ∃ e, s.trigGet.resItems = s.resItems ++ [e] ∧
      ((s.cfg.mode = .fifo → s.ready[s.resEv.length]? = some e) ∧
       (s.cfg.mode = .lifo → s.ready[s.ready.length - 1 - s.resEv.length]? = some e)) := by
  have hlen : s.resEv.length = s.getRes.length := h.bindEv.length_eq
  have hlt : s.resEv.length < s.ready.length := by have := (BufStore.serves_iff s).mp hs; omega
  rcases BufStore.trigGet_cases s with ⟨_, hn | hn⟩ | ⟨t', q', e, hq', _, hb, he⟩ | ⟨t', q', hq', _, hb, _⟩
  · rw [hq] at hn; cases hn
  · rw [hs] at hn; cases hn
  · refine ⟨e, by rw [he], ?_, ?_⟩
    · intro hm; unfold BufStore.bindIdx at hb; rw [hm] at hb; simpa using hb
    · intro hm; unfold BufStore.bindIdx at hb; rw [hm] at hb; simp only [hlt, ↓reduceIte] at hb; simpa using hb
  · exfalso
    unfold BufStore.bindIdx at hb
    cases hm : s.cfg.mode with
    | fifo =>
      rw [hm] at hb
      simp at hb; omega
    | lifo =>
      rw [hm] at hb
      simp only [hlt, ↓reduceIte] at hb
      simp at hb; omega

/-- the same for the store inside a Fleet (always FIFO): a grant binds the oldest delivered item nobody holds -/
theorem fleet_grant_binds_next {s : FleetStore} (h : FleetStore.ReachD s) {t : Tok} {q : List Tok} (hq : s.b.getQ = t :: q) (hs : s.b.serves = true) :
    ∃ e, s.b.trigGet.resItems = s.b.resItems ++ [e] ∧ s.b.ready[s.b.resEv.length]? = some e := by
  have hk := FleetStore.reachD_kt h
  obtain ⟨e, h1, h2, _⟩ := buf_grant_binds_next hk.core hq hs
  exact ⟨e, h1, h2 (by rw [hk.cfgB])⟩

end FsVerif.Props.C06
