/-
C18 — Counters, time-averaged occupancy and cycle times are truthful.
(store part: the time-weighted level bookkeeping)
-/
import FsVerif.Proofs.PosExtra
import FsVerif.Proofs.BufExtra
import FsVerif.Proofs.Machine
import FsVerif.Proofs.SourceSink
import FsVerif.Proofs.FleetStat
import FsVerif.Proofs.SlotStat
import FsVerif.Proofs.CBeltStat
namespace FsVerif.Props.C18
open FsVerif PosStore

/-- `area` is the ghost integral ∫ len(items) dt, advanced only when the clock moves.  In every
    reachable state of a store that keeps statistics: the recorded level is the true level, and
    weighted sum + (level × time since the last update) equals the integral — i.e. finalising at
    any `T ≥ now` yields exactly the time integral of the true occupancy. -/
theorem pos_level_integral {s : PosStore} (h : Reachable s) (hf : s.cfg.filter = false) :
    s.lastLevel = s.items.length ∧ s.lastChange ≤ s.now ∧
    s.wsum + s.lastLevel * (s.now - s.lastChange) = s.area := by
  have := (reachable_inv2 h).stat
  exact ⟨this.level hf, this.change, this.integral hf⟩

/-- Finalisation at `T` (what `update_final_*_avg_content(T)` computes) equals the integral
    extended to `T` at the current true level. -/
theorem pos_final_average {s : PosStore} (h : Reachable s) (hf : s.cfg.filter = false) (T : Nat) (hT : s.now ≤ T) :
    s.wsum + s.lastLevel * (T - s.lastChange) = s.area + s.items.length * (T - s.now) := by
  obtain ⟨h1, h2, h3⟩ := pos_level_integral h hf
  have : T - s.lastChange = (s.now - s.lastChange) + (T - s.now) := by omega
  rw [this, Nat.mul_add, ← h3, h1]; omega

example : (run (init { cap := some 2 }) [.reservePut 0 0, .put 0 0 ⟨1, 0⟩, .adv 5, .reserveGet 0 0 .always, .get 0 1, .adv 3]).area = 5 := by
  decide


/-! ### BufferStore / Buffer: level = in transit + ready -/

theorem buf_level_integral {s : BufStore} (h : BufStore.ReachD s) :
    s.lastLevel = s.transit.length + s.ready.length ∧ s.lastChange ≤ s.now ∧
    s.wsum + s.lastLevel * (s.now - s.lastChange) = s.area := by
  have := (BufStore.reachD_full h).time
  exact ⟨this.level, this.change, this.integral⟩

/-- `Buffer.update_final_buffer_avg_content(T)` with `T = now`: afterwards the weighted sum IS the
    integral of the true occupancy over [0, now]. -/
theorem buf_final {s : BufStore} (h : BufStore.ReachD s) : (s.step .final).1.wsum = s.area := by
  obtain ⟨h1, h2, h3⟩ := buf_level_integral h
  simp [BufStore.step, BufStore.final, BufStore.updLevel]; exact h3


/-! ### Fleet / FleetStore: level = items waiting for the vehicle or under way + delivered items -/

/-- In every reachable state of the fleet model (kernel events included): the recorded level is the true occupancy, and
    weighted sum + level × time since the last update is the integral of the true occupancy (ghost `area`, advanced only
    where the clock moves, by the true level × the elapsed time). -/
theorem fleet_level_integral {s : FleetStore} (h : FleetStore.ReachD s) :
    s.b.lastLevel = s.b.transit.length + s.b.ready.length ∧ s.b.lastChange ≤ s.b.now ∧
    s.b.wsum + s.b.lastLevel * (s.b.now - s.b.lastChange) = s.b.area := by
  have hs := FleetStore.reachD_statB h
  have hc := (FleetStore.reachD_kt h).core.toPre.count
  refine ⟨?_, hs.chg, hs.int⟩
  have := hs.lvl
  simp only [BufStore.level] at hc
  omega

/-- `Fleet.update_final_fleet_avg_content(now)`: afterwards the published average is integral / elapsed time. -/
theorem fleet_final {s : FleetStore} (h : FleetStore.ReachD s) (hpos : 0 < s.b.now) :
    (s.step .final).1.b.avgNum = s.b.area ∧ (s.step .final).1.b.avgDen = s.b.now := by
  obtain ⟨_, _, h3⟩ := fleet_level_integral h
  simp [FleetStore.step, BufStore.final, BufStore.updLevel, hpos]; exact h3

/-- a run with two puts, one vehicle trip, one retrieval: ∫ = 1·3 + 2·5 + 1·2 = 15 over 10 time units -/
def demoFleet : FleetStore := FleetStore.run (FleetStore.init { cap := some 2, delay := 5, transit := 1 })
  [.ev, .reservePut 0, .put 0 0 ⟨1, 0⟩, .adv 3, .reservePut 0, .put 0 1 ⟨2, 0⟩, .ev, .ev, .ev, .ev, .ev, .ev, .ev,
   .reserveGet 1, .get 1 2, .ev, .adv 2, .final]
example : demoFleet.b.area = 15 ∧ demoFleet.b.now = 10 ∧ demoFleet.b.avgNum = 15 ∧ demoFleet.b.avgDen = 10 ∧
    demoFleet.b.gotLog.length = 1 ∧ demoFleet.flagged = false := by decide +kernel

/-! ### the two conveyors: level = items travelling + items waiting at the exit.
The integral is defined on the run (`areaRun`: occupancy before a step × the amount by which the step moves the clock),
not inside the model. -/

theorem slot_level_integral (cfg : SlotCfg) (ops : List SlotBelt.Op) :
    let s := (SlotBelt.init cfg).run ops
    s.lastLevel = s.items.length + s.ready.length ∧ s.lastChange ≤ s.now ∧
    s.wsum + s.lastLevel * (s.now - s.lastChange) = (SlotBelt.init cfg).areaRun ops := by
  intro s
  have hs := SlotBelt.run_statI ops _ 0 (SlotBelt.init_inv cfg) (SlotBelt.init_cons cfg) (SlotBelt.init_statI cfg)
  have hc := SlotBelt.run_cons ops _ (SlotBelt.init_inv cfg) (SlotBelt.init_cons cfg)
  rw [Nat.zero_add] at hs
  exact ⟨hs.level hc, hs.chg, hs.int⟩

/-- `ConveyorBelt.update_final_conveyor_avg_content(now)` (slotted): the published average is integral / elapsed time. -/
theorem slot_final (cfg : SlotCfg) (ops : List SlotBelt.Op) (hpos : 0 < ((SlotBelt.init cfg).run ops).now) :
    let s := (SlotBelt.init cfg).run ops
    (s.step .final).1.avgNum = (SlotBelt.init cfg).areaRun ops ∧ (s.step .final).1.avgDen = s.now := by
  intro s
  obtain ⟨_, _, h3⟩ := slot_level_integral cfg ops
  simp only [SlotBelt.step, SlotBelt.updLevel]
  have hp : s.now > 0 := hpos
  simp only [hp, if_true]
  exact ⟨h3, trivial⟩

def demoSlotOps : List SlotBelt.Op :=
  [.reservePut 0, .put 0 0 ⟨1, 0⟩, .ev, .ev, .reservePut 0, .put 0 1 ⟨2, 0⟩, .ev, .ev, .ev, .reserveGet 1, .get 1 2, .ev, .ev, .final]
def demoSlot : SlotBelt := (SlotBelt.init { cap := 2, delay := 1 }).run demoSlotOps
example : (SlotBelt.init { cap := 2, delay := 1 }).areaRun demoSlotOps = 3 ∧ demoSlot.now = 2 ∧ demoSlot.avgNum = 3 ∧ demoSlot.avgDen = 2 ∧
    demoSlot.gotLog.length = 1 ∧ demoSlot.flagged = false := by decide +kernel

theorem cbelt_level_integral (cfg : CCfg) (ops : List CBelt.Op) :
    let s := (CBelt.init cfg).run ops
    s.lastLevel = s.items.length + s.ready.length ∧ s.lastChange ≤ s.now ∧
    s.wsum + s.lastLevel * (s.now - s.lastChange) = (CBelt.init cfg).areaRun ops := by
  intro s
  have hs := CBelt.run_statI ops _ 0 (CBelt.init_rc cfg) (CBelt.init_statI cfg)
  have hc := CBelt.run_rc ops _ (CBelt.init_rc cfg)
  rw [Nat.zero_add] at hs
  exact ⟨hs.level hc.cons, hs.chg, hs.int⟩

/-- `ConveyorBelt.update_final_conveyor_avg_content(now)` (continuous): the published average is integral / elapsed time. -/
theorem cbelt_final (cfg : CCfg) (ops : List CBelt.Op) (hpos : 0 < ((CBelt.init cfg).run ops).now) :
    let s := (CBelt.init cfg).run ops
    (s.step .final).1.avgNum = (CBelt.init cfg).areaRun ops ∧ (s.step .final).1.avgDen = s.now := by
  intro s
  obtain ⟨_, _, h3⟩ := cbelt_level_integral cfg ops
  simp only [CBelt.step, CBelt.updLevel]
  have hp : s.now > 0 := hpos
  simp only [hp, if_true]
  exact ⟨h3, trivial⟩

def demoCBeltOps : List CBelt.Op :=
  [.reservePut 0, .put 0 0 ⟨1, 0⟩, .ev, .ev, .ev, .ev, .ev, .reservePut 0, .put 0 1 ⟨2, 0⟩, .ev, .ev, .ev, .ev, .ev,
   .reserveGet 1, .get 1 2, .ev, .ev, .ev, .final]
def demoCBelt : CBelt := (CBelt.init { cap := 2, p1 := 1, acc := true }).run demoCBeltOps
example : (CBelt.init { cap := 2, p1 := 1, acc := true }).areaRun demoCBeltOps = 2 ∧ demoCBelt.now = 2 ∧ demoCBelt.avgNum = 2 ∧ demoCBelt.avgDen = 2 ∧
    demoCBelt.gotLog.length = 1 ∧ demoCBelt.flagged = false := by decide +kernel

/-! ### node counters -/

/-- Source: generated = items created; discarded = items dropped. -/
theorem source_counters (cfg : SrcCfg) (acts : List SrcState.Act) :
    (SrcState.runActs (SrcState.init cfg) acts).generated = (SrcState.runActs (SrcState.init cfg) acts).created.length ∧
    (SrcState.runActs (SrcState.init cfg) acts).discarded = (SrcState.runActs (SrcState.init cfg) acts).dropped.length :=
  ⟨(SrcState.reach_sinv cfg acts).gen, (SrcState.reach_sinv cfg acts).disc⟩

/-- Machine: discarded = items dropped (processed is compared activation by activation in lock-step). -/
theorem machine_counters (cfg : MacCfg) (acts : List MacState.Act) :
    (MacState.runActs (MacState.init cfg) acts).discarded = (MacState.runActs (MacState.init cfg) acts).dropped.length :=
  (MacState.reach_minv cfg acts).disc

/-- Sink: received = items absorbed; total cycle time = Σ (reception time − creation stamp). -/
theorem sink_counters (n : Nat) (acts : List SinkState.Act) :
    (SinkState.runActs (SinkState.init n) acts).received = (SinkState.runActs (SinkState.init n) acts).got.length ∧
    (SinkState.runActs (SinkState.init n) acts).cycle =
      ((SinkState.runActs (SinkState.init n) acts).gotAt.map (fun p => p.1 - p.2)).sum :=
  ⟨(SinkState.reach_kinv n acts).recv, (SinkState.reach_kinv n acts).cyc⟩

end FsVerif.Props.C18
