/-
C18 — Counters, time-averaged occupancy and cycle times are truthful.
(store part: the time-weighted level bookkeeping)
-/
import FsVerif.Proofs.PosExtra
import FsVerif.Proofs.BufExtra
import FsVerif.Proofs.Machine
import FsVerif.Proofs.SourceSink
namespace FsVerif.Props.C18
open FsVerif PosStore

/-- `area` is the ghost integral ∫ len(items) dt, advanced only when the clock moves.  In every
    reachable state of a store that keeps statistics: the recorded level is the true level, and
    weighted sum + (level × time since the last update) equals the integral — i.e. finalising at
    any `T ≥ now` yields exactly the time integral of the true occupancy. -/
theorem pos_level_integral {s : PosStore} (h : Reachable s) (hf : s.cfg.filter = false) :
    s.lastLevel = s.items.length ∧ s.lastChange ≤ s.now ∧
    s.wsum + s.lastLevel * (s.now - s.lastChange) = s.area := by
  have := (reachable_inv2 h).stat
  exact ⟨this.level hf, this.change, this.integral hf⟩

/-- Finalisation at `T` (what `update_final_*_avg_content(T)` computes) equals the integral
    extended to `T` at the current true level. -/
theorem pos_final_average {s : PosStore} (h : Reachable s) (hf : s.cfg.filter = false) (T : Nat) (hT : s.now ≤ T) :
    s.wsum + s.lastLevel * (T - s.lastChange) = s.area + s.items.length * (T - s.now) := by
  obtain ⟨h1, h2, h3⟩ := pos_level_integral h hf
  have : T - s.lastChange = (s.now - s.lastChange) + (T - s.now) := by omega
  rw [this, Nat.mul_add, ← h3, h1]; omega

example : (run (init { cap := some 2 }) [.reservePut 0 0, .put 0 0 ⟨1, 0⟩, .adv 5, .reserveGet 0 0 .always, .get 0 1, .adv 3]).area = 5 := by
  decide


/-! ### BufferStore / Buffer: level = in transit + ready -/

theorem buf_level_integral {s : BufStore} (h : BufStore.ReachD s) :
    s.lastLevel = s.transit.length + s.ready.length ∧ s.lastChange ≤ s.now ∧
    s.wsum + s.lastLevel * (s.now - s.lastChange) = s.area := by
  have := (BufStore.reachD_full h).time
  exact ⟨this.level, this.change, this.integral⟩

/-- `Buffer.update_final_buffer_avg_content(T)` with `T = now`: afterwards the weighted sum IS the
    integral of the true occupancy over [0, now]. -/
theorem buf_final {s : BufStore} (h : BufStore.ReachD s) : (s.step .final).1.wsum = s.area := by
  obtain ⟨h1, h2, h3⟩ := buf_level_integral h
  simp [BufStore.step, BufStore.final, BufStore.updLevel]; exact h3

/-! ### node counters -/

/-- Source: generated = items created; discarded = items dropped. -/
theorem source_counters (cfg : SrcCfg) (acts : List SrcState.Act) :
    (SrcState.runActs (SrcState.init cfg) acts).generated = (SrcState.runActs (SrcState.init cfg) acts).created.length ∧
    (SrcState.runActs (SrcState.init cfg) acts).discarded = (SrcState.runActs (SrcState.init cfg) acts).dropped.length :=
  ⟨(SrcState.reach_sinv cfg acts).gen, (SrcState.reach_sinv cfg acts).disc⟩

/-- Machine: discarded = items dropped (processed is compared activation by activation in lock-step). -/
theorem machine_counters (cfg : MacCfg) (acts : List MacState.Act) :
    (MacState.runActs (MacState.init cfg) acts).discarded = (MacState.runActs (MacState.init cfg) acts).dropped.length :=
  (MacState.reach_minv cfg acts).disc

/-- Sink: received = items absorbed; total cycle time = Σ (reception time − creation stamp). -/
theorem sink_counters (n : Nat) (acts : List SinkState.Act) :
    (SinkState.runActs (SinkState.init n) acts).received = (SinkState.runActs (SinkState.init n) acts).got.length ∧
    (SinkState.runActs (SinkState.init n) acts).cycle =
      ((SinkState.runActs (SinkState.init n) acts).gotAt.map (fun p => p.1 - p.2)).sum :=
  ⟨(SinkState.reach_kinv n acts).recv, (SinkState.reach_kinv n acts).cyc⟩

end FsVerif.Props.C18
