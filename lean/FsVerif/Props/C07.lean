/-
C07 — Protocol enforced: no put/get without a valid reservation of one's own.
-/
import FsVerif.Proofs.PosExtra
import FsVerif.Proofs.BufExtra
import FsVerif.Proofs.Fleet
import FsVerif.Proofs.SlotBelt3
import FsVerif.Proofs.CBeltRoom
import FsVerif.Proofs.SlotBind
import FsVerif.Proofs.CBeltBind
namespace FsVerif.Props.C07
open FsVerif PosStore

/-- The only thing a rejected call changes is the per-step list of freshly fired tokens, which is
    reset at the start of every step (it is the step's output, not store state). -/
def Untouched (s s' : PosStore) : Prop := s' = { s with fired := [] }

theorem pos_put_rejected {s : PosStore} {p tid : Nat} (x : Item) (h : ¬ ValidPut s p tid) :
    Untouched s (s.step (.put p tid x)).1 ∧ (s.step (.put p tid x)).2 = .err .runtime := by
  unfold step Untouched
  simp only
  rw [put_reject x (by simpa [ValidPut] using h)]
  exact ⟨rfl, rfl⟩

theorem pos_put_accepted {s : PosStore} (hr : Reachable s) {p tid : Nat} (x : Item) (h : ValidPut s p tid) :
    (s.step (.put p tid x)).2 = .ok := by
  unfold step
  exact put_accept x (clearFired_inv (reachable_inv hr)) (by simpa [ValidPut] using h)

theorem pos_get_rejected {s : PosStore} {p tid : Nat} (h : ¬ ValidGet s p tid) :
    Untouched s (s.step (.get p tid)).1 ∧ (s.step (.get p tid)).2 = .err .runtime := by
  unfold step Untouched
  simp only
  rw [get_reject (by simpa [ValidGet] using h)]
  exact ⟨rfl, rfl⟩

theorem pos_get_accepted {s : PosStore} (hr : Reachable s) {p tid : Nat} (h : ValidGet s p tid) :
    ∃ e ∈ s.items, (s.step (.get p tid)).2 = .item e.item := by
  unfold step
  exact get_accept (clearFired_inv (reachable_inv hr)) (by simpa [ValidGet] using h)

theorem pos_cancelPut_rejected {s : PosStore} {tid : Nat} (h : ¬ KnownPut s tid) :
    Untouched s (s.step (.cancelPut tid)).1 ∧ (s.step (.cancelPut tid)).2 = .err .runtime := by
  unfold step Untouched
  simp only
  rw [cancelPut_reject (by simpa [KnownPut] using h)]
  exact ⟨rfl, rfl⟩

theorem pos_cancelGet_rejected {s : PosStore} {tid : Nat} (h : ¬ KnownGet s tid) :
    Untouched s (s.step (.cancelGet tid)).1 ∧ (s.step (.cancelGet tid)).2 = .err .runtime := by
  unfold step Untouched
  simp only
  rw [cancelGet_reject (by simpa [KnownGet] using h)]
  exact ⟨rfl, rfl⟩

theorem pos_cancelPut_accepted {s : PosStore} {tid : Nat} (h : KnownPut s tid) :
    (s.step (.cancelPut tid)).2 = .ok := by
  unfold step
  exact cancelPut_accept (by simpa [KnownPut] using h)

theorem pos_cancelGet_accepted {s : PosStore} (hr : Reachable s) {tid : Nat} (h : KnownGet s tid) :
    (s.step (.cancelGet tid)).2 = .ok := by
  unfold step
  exact cancelGet_accept (clearFired_inv (reachable_inv hr)) (by simpa [KnownGet] using h)

/-- Token ids are unique over both sides and all queues: a token of the other side, a token still
    pending, or a token already removed can never satisfy `ValidPut` / `ValidGet`. -/
theorem pos_token_unique {s : PosStore} (hr : Reachable s) {a b : Tok}
    (ha : a ∈ allToks s) (hb : b ∈ allToks s) (hid : a.id = b.id) : a = b :=
  tok_unique (reachable_inv hr).tok ha hb hid

/-- A token is consumed by its use: after a successful put the same token id is no longer valid
    for anybody (second use is rejected). -/
theorem pos_put_consumes {s : PosStore} (hr : Reachable s) {p tid : Nat} (x : Item)
    (hok : (s.step (.put p tid x)).2 = .ok) (p' : Nat) :
    ¬ ValidPut (s.step (.put p tid x)).1 p' tid := by
  have hi := clearFired_inv (reachable_inv hr)
  intro ⟨t', ht', hid', _⟩
  unfold step at hok ht'
  simp only at hok ht'
  rcases put_cases { s with fired := [] } p tid x with ⟨he, _⟩ | ⟨t, ht, hid, _, ⟨_, he⟩ | ⟨_, he⟩⟩
  · rw [he] at hok; simp at hok
  · rw [he] at ht'
    simp only [updLevel_putRes, trigGet_putRes, addItem, addTimer_putRes, dropPutRes] at ht'
    have hnd : (allToks { s with fired := [] }).Nodup := nodup_of_nodup_map hi.tok.1
    have hpn : ({ s with fired := [] } : PosStore).putRes.Nodup := by
      unfold allToks at hnd
      exact (List.nodup_append.mp (List.nodup_append.mp (List.nodup_append.mp hnd).1).1).2.1
    have hmem : t' ∈ ({ s with fired := [] } : PosStore).putRes := List.mem_of_mem_erase ht'
    have : t' = t := tok_unique hi.tok (by unfold allToks; simp [hmem]) (by unfold allToks; simp [ht]) (by rw [hid', hid])
    rw [this] at ht'
    exact (List.Nodup.mem_erase_iff hpn).mp ht' |>.1 rfl
  · rw [he] at hok; simp at hok

/-- Non-vacuity: a state with a granted put token of process 1; process 2 is rejected, process 1 accepted. -/
example : let s := run (init { cap := some 1 }) [.reservePut 1 0]
    (s.step (.put 2 0 ⟨5, 0⟩)).2 = .err .runtime ∧ (s.step (.put 1 0 ⟨5, 0⟩)).2 = .ok := by decide


/-! ### BufferStore -/

def BUntouched (s s' : BufStore) : Prop := s' = { s with fired := [] }

theorem buf_put_rejected {s : BufStore} {p tid : Nat} (x : Item) (d : Nat) (h : ¬ BufStore.ValidPut s p tid) :
    BUntouched s (s.step (.put p tid x d)).1 ∧ (s.step (.put p tid x d)).2 = .err .runtime := by
  unfold BufStore.step BUntouched
  simp only
  rw [BufStore.put_reject x d (by simpa [BufStore.ValidPut] using h)]
  exact ⟨rfl, rfl⟩

theorem buf_get_rejected {s : BufStore} {p tid : Nat} (h : ¬ BufStore.ValidGet s p tid) :
    BUntouched s (s.step (.get p tid)).1 ∧ (s.step (.get p tid)).2 = .err .runtime := by
  unfold BufStore.step BUntouched
  simp only
  rw [BufStore.get_reject (by simpa [BufStore.ValidGet] using h)]
  exact ⟨rfl, rfl⟩

theorem buf_cancelPut_rejected {s : BufStore} {tid : Nat} (h : ¬ BufStore.KnownPut s tid) :
    BUntouched s (s.step (.cancelPut tid)).1 ∧ (s.step (.cancelPut tid)).2 = .err .runtime := by
  unfold BufStore.step BUntouched
  simp only
  rw [BufStore.cancelPut_reject (by simpa [BufStore.KnownPut] using h)]
  exact ⟨rfl, rfl⟩

theorem buf_cancelGet_rejected {s : BufStore} {tid : Nat} (h : ¬ BufStore.KnownGet s tid) :
    BUntouched s (s.step (.cancelGet tid)).1 ∧ (s.step (.cancelGet tid)).2 = .err .runtime := by
  unfold BufStore.step BUntouched
  simp only
  rw [BufStore.cancelGet_reject (by simpa [BufStore.KnownGet] using h)]
  exact ⟨rfl, rfl⟩

theorem buf_put_accepted {s : BufStore} (hr : BufStore.ReachD s) {p tid : Nat} (x : Item) (d : Nat)
    (h : BufStore.ValidPut s p tid) : (s.step (.put p tid x d)).2 = .ok := by
  unfold BufStore.step
  exact BufStore.put_accept x d (BufStore.clearFired_core (BufStore.reachD_binv hr).toCore).toPre (by simpa [BufStore.ValidPut] using h)

theorem buf_get_accepted {s : BufStore} (hr : BufStore.ReachD s) {p tid : Nat} (h : BufStore.ValidGet s p tid) :
    ∃ e ∈ s.ready, (s.step (.get p tid)).2 = .item e.item := by
  unfold BufStore.step
  obtain ⟨e, h1, _, h3⟩ := BufStore.get_accept (BufStore.clearFired_core (BufStore.reachD_binv hr).toCore).toPre (by simpa [BufStore.ValidGet] using h)
  exact ⟨e, h1, h3⟩

theorem buf_cancel_accepted {s : BufStore} (hr : BufStore.ReachD s) {tid : Nat} :
    (BufStore.KnownPut s tid → (s.step (.cancelPut tid)).2 = .ok) ∧
    (BufStore.KnownGet s tid → (s.step (.cancelGet tid)).2 = .ok) := by
  constructor
  · intro h; unfold BufStore.step; exact BufStore.cancelPut_accept (by simpa [BufStore.KnownPut] using h)
  · intro h; unfold BufStore.step
    exact BufStore.cancelGet_accept (BufStore.clearFired_core (BufStore.reachD_binv hr).toCore).toPre (by simpa [BufStore.KnownGet] using h)

/-! ### FleetStore (the store inside a Fleet edge): a call without a valid reservation of one's own is rejected with RuntimeError
and leaves the fleet exactly as it was — contents, every reservation, the kernel queue and the trips -/

def FUntouched (s s' : FleetStore) : Prop := s' = { s with b := { s.b with fired := [] }, newReady := [] }

theorem fleet_put_rejected {s : FleetStore} {p tid : Nat} (x : Item) (h : ¬ BufStore.ValidPut s.b p tid) :
    FUntouched s (s.step (.put p tid x)).1 ∧ (s.step (.put p tid x)).2 = .err .runtime := by
  unfold FleetStore.step FleetStore.put FUntouched
  simp only
  rw [BufStore.put_reject x 0 (by simpa [BufStore.ValidPut] using h)]
  exact ⟨rfl, rfl⟩

theorem fleet_get_rejected {s : FleetStore} {p tid : Nat} (h : ¬ BufStore.ValidGet s.b p tid) :
    FUntouched s (s.step (.get p tid)).1 ∧ (s.step (.get p tid)).2 = .err .runtime := by
  unfold FleetStore.step FleetStore.liftB FUntouched
  simp only
  rw [BufStore.get_reject (by simpa [BufStore.ValidGet] using h)]
  exact ⟨rfl, rfl⟩

theorem fleet_cancelPut_rejected {s : FleetStore} {tid : Nat} (h : ¬ BufStore.KnownPut s.b tid) :
    FUntouched s (s.step (.cancelPut tid)).1 ∧ (s.step (.cancelPut tid)).2 = .err .runtime := by
  unfold FleetStore.step FleetStore.liftB FUntouched
  simp only
  rw [BufStore.cancelPut_reject (by simpa [BufStore.KnownPut] using h)]
  exact ⟨rfl, rfl⟩

theorem fleet_cancelGet_rejected {s : FleetStore} {tid : Nat} (h : ¬ BufStore.KnownGet s.b tid) :
    FUntouched s (s.step (.cancelGet tid)).1 ∧ (s.step (.cancelGet tid)).2 = .err .runtime := by
  unfold FleetStore.step FleetStore.liftB FUntouched
  simp only
  rw [BufStore.cancelGet_reject (by simpa [BufStore.KnownGet] using h)]
  exact ⟨rfl, rfl⟩

/-- … and a call WITH a valid reservation of one's own is accepted, in every reachable state of the fleet -/
theorem fleet_get_accepted {s : FleetStore} (hr : FleetStore.ReachD s) {p tid : Nat} (h : BufStore.ValidGet s.b p tid) :
    ∃ e ∈ s.b.ready, (s.step (.get p tid)).2 = .item e.item := by
  unfold FleetStore.step FleetStore.liftB
  obtain ⟨e, h1, _, h3⟩ := BufStore.get_accept (BufStore.clearFired_core (FleetStore.reachD_kt hr).core).toPre (by simpa [BufStore.ValidGet] using h)
  exact ⟨e, h1, h3⟩

theorem fleet_put_accepted {s : FleetStore} (hr : FleetStore.ReachD s) {p tid : Nat} (x : Item) (h : BufStore.ValidPut s.b p tid) :
    (s.step (.put p tid x)).2 = .ok := by
  have hb := BufStore.put_accept (s := { s.b with fired := [] }) x 0 (BufStore.clearFired_core (FleetStore.reachD_kt hr).core).toPre
    (by simpa [BufStore.ValidPut] using h)
  unfold FleetStore.step FleetStore.put
  simp only
  generalize hput : BufStore.put { s.b with fired := [] } p tid x 0 = r at hb
  obtain ⟨b1, res⟩ := r
  simp only at hb
  subst hb
  rfl

/-! ### both conveyor stores (slotted_belt_store.py, belt_store.py behind their edges): a put / get without a granted reservation of
the caller's own, and a cancellation of a token the store does not hold, are rejected with RuntimeError and change NOTHING - contents,
reservations, travel processes, kernel queue, state machine (the whole model state is returned as it was).  Any state, reachable or not. -/

theorem slot_put_rejected (s : SlotBelt) (p tid : Nat) (x : Item) (h : ¬ ∃ t ∈ s.putRes, t.id = tid ∧ t.proc = p) :
    s.put p tid x = (s, .err .runtime) := by
  unfold SlotBelt.put
  split
  · rfl
  · split
    · rfl
    · rename_i t ht
      exfalso
      have hm := List.mem_of_find?_eq_some ht
      have hp := List.find?_some ht
      simp only [Bool.and_eq_true, beq_iff_eq] at hp
      exact h ⟨t, hm, hp.1, hp.2⟩

theorem slot_get_rejected (s : SlotBelt) (p tid : Nat) (h : ¬ ∃ t ∈ s.getRes, t.id = tid ∧ t.proc = p) :
    s.get p tid = (s, .err .runtime) := by
  unfold SlotBelt.get
  split
  · rfl
  · split
    · rfl
    · rename_i t ht
      exfalso
      have hm := List.mem_of_find?_eq_some ht
      have hp := List.find?_some ht
      simp only [Bool.and_eq_true, beq_iff_eq] at hp
      exact h ⟨t, hm, hp.1, hp.2⟩

theorem slot_cancelPut_rejected (s : SlotBelt) (tid : Nat) (h : ¬ ∃ t ∈ s.putQ ++ s.putRes, t.id = tid) :
    s.cancelPut tid = (s, .err .runtime) := by
  unfold SlotBelt.cancelPut
  split
  · rename_i t ht
    exfalso
    have := findTok_some ht
    exact h ⟨t, List.mem_append_left _ this.1, this.2⟩
  · split
    · rename_i t ht
      exfalso
      have := findTok_some ht
      exact h ⟨t, List.mem_append_right _ this.1, this.2⟩
    · rfl

theorem slot_cancelGet_rejected (s : SlotBelt) (tid : Nat) (h : ¬ ∃ t ∈ s.getQ ++ s.getRes, t.id = tid) :
    s.cancelGet tid = (s, .err .runtime) := by
  unfold SlotBelt.cancelGet
  split
  · rename_i t ht
    exfalso
    have := findTok_some ht
    exact h ⟨t, List.mem_append_left _ this.1, this.2⟩
  · split
    · rename_i t ht
      exfalso
      have := findTok_some ht
      exact h ⟨t, List.mem_append_right _ this.1, this.2⟩
    · rfl

theorem cbelt_put_rejected (s : CBelt) (p tid : Nat) (x : Item) (h : ¬ ∃ t ∈ s.putRes, t.id = tid ∧ t.proc = p) :
    s.put p tid x = (s, .err .runtime) := by
  unfold CBelt.put
  split
  · rfl
  · split
    · rfl
    · rename_i t ht
      exfalso
      have hm := List.mem_of_find?_eq_some ht
      have hp := List.find?_some ht
      simp only [Bool.and_eq_true, beq_iff_eq] at hp
      exact h ⟨t, hm, hp.1, hp.2⟩

theorem cbelt_get_rejected (s : CBelt) (p tid : Nat) (h : ¬ ∃ t ∈ s.getRes, t.id = tid ∧ t.proc = p) :
    s.get p tid = (s, .err .runtime) := by
  unfold CBelt.get
  split
  · rfl
  · split
    · rfl
    · rename_i t ht
      exfalso
      have hm := List.mem_of_find?_eq_some ht
      have hp := List.find?_some ht
      simp only [Bool.and_eq_true, beq_iff_eq] at hp
      exact h ⟨t, hm, hp.1, hp.2⟩

theorem cbelt_cancelPut_rejected (s : CBelt) (tid : Nat) (h : ¬ ∃ t ∈ s.putQ ++ s.putRes, t.id = tid) :
    s.cancelPut tid = (s, .err .runtime) := by
  unfold CBelt.cancelPut
  split
  · rename_i t ht
    exfalso
    have := findTok_some ht
    exact h ⟨t, List.mem_append_left _ this.1, this.2⟩
  · split
    · rename_i t ht
      exfalso
      have := findTok_some ht
      exact h ⟨t, List.mem_append_right _ this.1, this.2⟩
    · rfl

theorem cbelt_cancelGet_rejected (s : CBelt) (tid : Nat) (h : ¬ ∃ t ∈ s.getQ ++ s.getRes, t.id = tid) :
    s.cancelGet tid = (s, .err .runtime) := by
  unfold CBelt.cancelGet
  split
  · rename_i t ht
    exfalso
    have := findTok_some ht
    exact h ⟨t, List.mem_append_left _ this.1, this.2⟩
  · split
    · rename_i t ht
      exfalso
      have := findTok_some ht
      exact h ⟨t, List.mem_append_right _ this.1, this.2⟩
    · rfl

/-! … and a put WITH a granted reservation of the caller's own is accepted on both conveyors in every reachable state: the capacity
invariant leaves room for every granted reservation (the second capacity test inside `_do_put` never fires) -/

theorem slot_put_accepted (cfg : SlotCfg) (ops : List SlotBelt.Op) (p tid : Nat) (x : Item)
    (h : ∃ t ∈ (SlotBelt.run (SlotBelt.init cfg) ops).putRes, t.id = tid ∧ t.proc = p) :
    ((SlotBelt.run (SlotBelt.init cfg) ops).put p tid x).2 = .ok := by
  have hr := (SlotBelt.run_inv ops _ (SlotBelt.init_inv cfg)).room
  generalize SlotBelt.run (SlotBelt.init cfg) ops = s at h hr
  obtain ⟨t0, ht0, hid, hpr⟩ := h
  unfold SlotBelt.put
  have hne : s.putRes.isEmpty = false := by
    cases hq : s.putRes with
    | nil => rw [hq] at ht0; cases ht0
    | cons a b => rfl
  simp only [hne, Bool.false_eq_true, ↓reduceIte]
  split
  · rename_i hnone
    exfalso
    have := List.find?_eq_none.mp hnone t0 ht0
    simp [hid, hpr] at this
  · rename_i t ht
    have hm : t ∈ s.putRes := List.mem_of_find?_eq_some ht
    have hl : (s.putRes.erase t).length + 1 = s.putRes.length := by
      rw [List.length_erase_of_mem hm]; have := List.length_pos_of_mem hm; omega
    have hroom := hr.room
    simp only [SlotBelt.level] at hroom ⊢
    have hlt : s.items.length + s.ready.length < s.cfg.cap := by omega
    simp [hlt]

theorem cbelt_put_accepted (cfg : CCfg) (ops : List CBelt.Op) (p tid : Nat) (x : Item)
    (h : ∃ t ∈ (CBelt.run (CBelt.init cfg) ops).putRes, t.id = tid ∧ t.proc = p) :
    ((CBelt.run (CBelt.init cfg) ops).put p tid x).2 = .ok := by
  have hr := CBelt.run_roomC ops _ (CBelt.init_roomC cfg)
  generalize CBelt.run (CBelt.init cfg) ops = s at h hr
  obtain ⟨t0, ht0, hid, hpr⟩ := h
  unfold CBelt.put
  have hne : s.putRes.isEmpty = false := by
    cases hq : s.putRes with
    | nil => rw [hq] at ht0; cases ht0
    | cons a b => rfl
  simp only [hne, Bool.false_eq_true, ↓reduceIte]
  split
  · rename_i hnone
    exfalso
    have := List.find?_eq_none.mp hnone t0 ht0
    simp [hid, hpr] at this
  · rename_i t ht
    have hm : t ∈ s.putRes := List.mem_of_find?_eq_some ht
    have hl : (s.putRes.erase t).length + 1 = s.putRes.length := by
      rw [List.length_erase_of_mem hm]; have := List.length_pos_of_mem hm; omega
    have hroom := hr.room
    simp only [CBelt.level] at hroom ⊢
    have hlt : s.items.length + s.ready.length < s.cfg.cap := by omega
    simp [hlt]

/-! … a `get` with a granted retrieval of the caller's own returns the item bound to that reservation, and cancelling a waiting or a
granted request is accepted, on both conveyors in every reachable state (the binding invariant of Proofs/SlotBind.lean /
CBeltBind.lean: the ValueError / IndexError / RuntimeError branches of `get` and `reserve_get_cancel` are dead for valid calls) -/

theorem slot_get_accepted (cfg : SlotCfg) (ops : List SlotBelt.Op) (p tid : Nat)
    (h : ∃ t ∈ (SlotBelt.run (SlotBelt.init cfg) ops).getRes, t.id = tid ∧ t.proc = p) :
    ∃ e ∈ (SlotBelt.run (SlotBelt.init cfg) ops).resItems, ((SlotBelt.run (SlotBelt.init cfg) ops).get p tid).2 = .item e.item :=
  let ⟨e, he, hr, _⟩ := (SlotBelt.run_bd ops _ (SlotBelt.init_bd cfg)).get_accept p tid h
  ⟨e, he, hr⟩

theorem cbelt_get_accepted (cfg : CCfg) (ops : List CBelt.Op) (p tid : Nat)
    (h : ∃ t ∈ (CBelt.run (CBelt.init cfg) ops).getRes, t.id = tid ∧ t.proc = p) :
    ∃ e ∈ (CBelt.run (CBelt.init cfg) ops).resItems, ((CBelt.run (CBelt.init cfg) ops).get p tid).2 = .item e.item :=
  let ⟨e, he, hr, _⟩ := (CBelt.run_bd ops _ (CBelt.init_bd cfg)).get_accept p tid h
  ⟨e, he, hr⟩

theorem slot_cancelGet_accepted (cfg : SlotCfg) (ops : List SlotBelt.Op) (tid : Nat)
    (h : ∃ t, t ∈ (SlotBelt.run (SlotBelt.init cfg) ops).getQ ++ (SlotBelt.run (SlotBelt.init cfg) ops).getRes ∧ t.id = tid) :
    ((SlotBelt.run (SlotBelt.init cfg) ops).cancelGet tid).2 = .ok :=
  (SlotBelt.run_bd ops _ (SlotBelt.init_bd cfg)).cancelGet_accept tid h

theorem cbelt_cancelGet_accepted (cfg : CCfg) (ops : List CBelt.Op) (tid : Nat)
    (h : ∃ t, t ∈ (CBelt.run (CBelt.init cfg) ops).getQ ++ (CBelt.run (CBelt.init cfg) ops).getRes ∧ t.id = tid) :
    ((CBelt.run (CBelt.init cfg) ops).cancelGet tid).2 = .ok :=
  (CBelt.run_bd ops _ (CBelt.init_bd cfg)).cancelGet_accept tid h

/-- non-vacuity: the granted retrieval 2 of actor 1 on a slotted conveyor is served with item 5 -/
example : ((SlotBelt.run (SlotBelt.init { cap := 2, delay := 1 })
    [.reservePut 0, .put 0 0 { id := 5 }, .ev, .ev, .ev, .ev, .reserveGet 1]).get 1 1).2 = .item { id := 5 } := by decide +kernel

end FsVerif.Props.C07
