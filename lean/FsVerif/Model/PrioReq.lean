/-
Model of base/priority_req_store.py (PriorityReqStore): a plain `simpy.Store` whose put / get
request queues are `SortedQueue`s keyed by (priority, request time).  Requests are SimPy events;
when a triggered request event is *processed* by the kernel its callback re-triggers the opposite
side (`Put.__init__` registers `_trigger_get`, `Get.__init__` registers `_trigger_put`).
Time never decreases, so sorting by (priority, time) with Python's stable sort is the same as a
stable sort by priority on arrival order.
-/
import FsVerif.Model.Basic
namespace FsVerif

structure PrioReq where
  cap : Nat
  nextId : Nat := 0
  items : List Item := []
  putQ : List (Tok × Item) := []       -- waiting put requests, sorted
  getQ : List Tok := []                -- waiting get requests, sorted
  pending : List (Bool × Nat) := []    -- triggered, not yet processed request events (true = put), kernel order
  fired : List (Nat × Option Item) := []   -- requests triggered during this step, with the value of a get
  trig : List Nat := []                -- every request triggered so far
  err : Bool := false                  -- the last call raised (cancel of a request that is neither waiting nor triggered)
  deriving Repr, Inhabited

namespace PrioReq

def init (cap : Nat) : PrioReq := { cap := cap }

def insPut (t : Tok × Item) : List (Tok × Item) → List (Tok × Item)
  | [] => [t]
  | x :: xs => if t.1.prio < x.1.prio then t :: x :: xs else x :: insPut t xs

/-- `_trigger_put`: `_do_put` returns None, so only the head is served. -/
def trigPut (s : PrioReq) : PrioReq :=
  match s.putQ with
  | [] => s
  | (t, x) :: q =>
    if s.items.length < s.cap then
      { s with putQ := q, items := s.items ++ [x], pending := s.pending ++ [(true, t.id)],
               fired := s.fired ++ [(t.id, none)], trig := s.trig ++ [t.id] }
    else s

def trigGet (s : PrioReq) : PrioReq :=
  match s.getQ with
  | [] => s
  | t :: q =>
    match s.items with
    | [] => s
    | x :: xs =>
      { s with getQ := q, items := xs, pending := s.pending ++ [(false, t.id)],
               fired := s.fired ++ [(t.id, some x)], trig := s.trig ++ [t.id] }

inductive Op where
  | put (prio : Int) (x : Item)
  | get (prio : Int)
  | cancel (id : Nat)
  | kstep
  | settle
  deriving Repr, Inhabited

def put (s : PrioReq) (prio : Int) (x : Item) : PrioReq :=
  let t : Tok := { id := s.nextId, proc := 0, prio := prio }
  ({ s with nextId := s.nextId + 1, putQ := insPut (t, x) s.putQ }).trigPut

def get (s : PrioReq) (prio : Int) : PrioReq :=
  let t : Tok := { id := s.nextId, proc := 0, prio := prio }
  ({ s with nextId := s.nextId + 1, getQ := insSorted t s.getQ }).trigGet

/-- `request.cancel()`: an untriggered request leaves its queue; no re-trigger. -/
def cancel (s : PrioReq) (id : Nat) : PrioReq :=
  if s.putQ.any (fun p => p.1.id == id) || s.getQ.any (fun t => t.id == id) then
    { s with putQ := s.putQ.filter (fun p => p.1.id != id), getQ := s.getQ.filter (fun t => t.id != id) }
  else if s.trig.contains id || id ≥ s.nextId then s      -- `if not self.triggered:` guard / unknown handle
  else { s with err := true }                              -- queue.remove → ValueError

/-- the kernel processes one triggered request event -/
def kstep (s : PrioReq) : PrioReq :=
  match s.pending with
  | [] => s
  | (isPut, _) :: rest =>
    let s1 := { s with pending := rest }
    if isPut then s1.trigGet else s1.trigPut

def settleAux : Nat → PrioReq → PrioReq
  | 0, s => s
  | n + 1, s => if s.pending.isEmpty then s else settleAux n s.kstep

def settle (s : PrioReq) : PrioReq := settleAux (s.pending.length + s.putQ.length + s.getQ.length + 1) s

def step (s0 : PrioReq) (op : Op) : PrioReq :=
  let s := { s0 with fired := [], err := false }
  match op with
  | .put p x => s.put p x
  | .get p => s.get p
  | .cancel i => s.cancel i
  | .kstep => s.kstep
  | .settle => s.settle

def run (s : PrioReq) (ops : List Op) : PrioReq := ops.foldl step s
def Reachable (s : PrioReq) : Prop := ∃ cap ops, s = run (init cap) ops

end PrioReq
end FsVerif
