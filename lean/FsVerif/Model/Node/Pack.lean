/-
Combiner (nodes/combiner.py) and Splitter (nodes/splitter.py) as open automata.
Both have work_capacity 1, a `behaviour` process (0), `worker` processes and `_push_item`
sub-processes numbered in spawn order.  A worker has a list of units to emit, one after the other
(Splitter: every item of the pallet, then the emptied pallet; Combiner: the loaded pallet); each unit
is routed like a machine item.  State indices: 0 SETUP, 1 IDLE, 2 PROCESSING, 3 BLOCKED.
-/
import FsVerif.Model.Node.Common
namespace FsVerif

/-- a unit that leaves the node: its id and (for a pallet) what it carries -/
structure Unit' where
  id : Nat
  content : List Nat := []
  -- ghost (combiner): what the pallet carried when it was pulled, and what was loaded since: (item, in-edge)
  pre : List Nat := []
  got : List (Nat × Nat) := []
  deriving DecidableEq, Repr, Inhabited

inductive OPc where
  | start | timer
  | outAny (toks : List Nat)
  | outTok (edge tok : Nat)
  | pushWait (sub : Nat) (countAfter : Bool)
  | released | done | crashed
  deriving Repr, Inhabited, DecidableEq

structure PWorker where
  ord : Nat
  delay : Nat := 0
  cur : Option Unit' := none       -- the unit being pushed right now
  todo : List Unit' := []          -- units still to emit after `cur`
  pc : OPc := .start
  blocked : Bool := false
  inList : Bool := true
  notPallet : Bool := false        -- splitter: the pulled object has no `.items`
  -- ghost
  plan : List Unit' := []          -- the units this worker was created to emit, in order
  hist : List (Unit' × Bool) := [] -- units decided so far: (unit, true = put downstream / false = discarded)
  deriving Repr, Inhabited, DecidableEq

structure PPush where
  ord : Nat
  edge : Nat
  unit : Unit'
  tok : Option Nat := none
  done : Bool := false
  deriving Repr, Inhabited, DecidableEq

inductive PKind where | combiner | splitter
  deriving Repr, Inhabited, DecidableEq

structure PackCfg where
  kind : PKind := .combiner
  nodeIdx : Nat := 0
  setup : Nat := 0
  blocking : Bool := true
  inPol : Pol := .fa             -- splitter only
  outPol : Pol := .fa
  nin : Nat := 1
  nout : Nat := 1
  target : List Nat := [1]       -- combiner: target_quantity_of_each_item
  deriving Repr, Inhabited, DecidableEq

inductive PBPc where
  | start | setupWait
  -- combiner
  | palletWait (tok : Nat)
  | gather (toks : List (Nat × Nat)) (pallet : Unit')       -- remaining (token, in-edge) pairs; pallet so far
  | cSlotWait (pallet : Unit') (delay : Nat)
  | cProc (pallet : Unit')
  -- splitter
  | inAny (toks : List Nat)
  | inTok (edge tok : Nat)
  | sSlotWait (edge tok : Nat)
  | dead
  deriving Repr, Inhabited, DecidableEq

structure PackState where
  cfg : PackCfg
  bpc : PBPc := .start
  granted : Bool := false
  users : Nat := 0
  workers : List PWorker := []
  pushes : List PPush := []
  nextTok : Nat := 0
  nextProc : Nat := 1
  rrIn : Nat := 0
  rrOut : Nat := 0
  clock : StateClock 4 := { cur := 0, last := some 0, tot := [0, 0, 0, 0] }   -- the state clock starts at construction (time 0)
  occ : List Nat := [0, 0]
  numWorkers : Nat := 0
  lastOcc : Nat := 0
  processed : Nat := 0
  discarded : Nat := 0
  insel : List Nat := []
  outsel : List Nat := []
  pds : List Nat := []
  -- ghost
  emitted : List Unit' := []      -- every unit put on an out-edge, in order, with its content at that moment
  droppedU : List Unit' := []
  pulledPallets : List Unit' := []
  flagged : Bool := false
  now : Nat := 0
  deriving Repr, Inhabited

namespace PackState

def init (cfg : PackCfg) : PackState := { cfg := cfg }

def count (s : PackState) : Nat × Nat :=
  ((s.workers.filter (fun w => w.inList && !w.blocked)).length,
   (s.workers.filter (fun w => w.inList && w.blocked)).length)

/-- `check_thread_state_and_update_*_state()`; none = the ValueError branch -/
def chk (s : PackState) (t : Nat) : Option PackState :=
  let (p, b) := s.count
  let n := (s.workers.filter (·.inList)).length
  if p = 0 ∧ b = 0 then some { s with clock := s.clock.update 1 t }
  else if p > 0 then some { s with clock := s.clock.update 2 t }
  else if b = n then some { s with clock := s.clock.update 3 t }
  else none

/-- with work_capacity 1 the ValueError branch is dead (`chk_isSome` in Proofs/Pack.lean): p = 0 forces b = n -/
def chk! (s : PackState) (t : Nat) : PackState := (s.chk t).getD s

def crashB (s : PackState) (e : Err) (pre : List Call) : PackState × List Call :=
  ({ s with bpc := .dead }, pre ++ [.crash e])

def setW (s : PackState) (i : Nat) (w : PWorker) : PackState := { s with workers := s.workers.set i w }

def releaseW (s : PackState) (i : Nat) (w : PWorker) : PackState :=
  let s1 := s.setW i { w with pc := .released, cur := none }
  { s1 with users := s1.users - 1 }

def waitingSlot : PBPc → Bool
  | .cSlotWait _ _ | .sSlotWait _ _ => true
  | _ => false

def grantQueued (s : PackState) : PackState :=
  if waitingSlot s.bpc ∧ !s.granted ∧ s.users < 1 then { s with users := s.users + 1, granted := true } else s

def requestSlot (s : PackState) : PackState :=
  if s.users < 1 then { s with users := s.users + 1, granted := true } else { s with granted := false }

def putCall (e tok : Nat) (u : Unit') : Call := .putU e tok u.id u.content

/-- one scan `for edge in out_edges: if edge.can_put(): …; break`, consuming answers -/
def scanCans (cans : List Bool) (n : Nat) : List Call × Option Nat × List Bool :=
  let rec go (j : Nat) (cs : List Bool) (fuel : Nat) (acc : List Call) : List Call × Option Nat × List Bool :=
    match fuel, cs with
    | 0, cs => (acc, none, cs)
    | _ + 1, [] => (acc ++ [.bad], none, [])
    | f + 1, c :: cs => if c then (acc ++ [.can j true], some j, cs) else go (j + 1) cs f (acc ++ [.can j false])
  go 0 cans n []

/-- what the node decides for one finished unit -/
inductive Dec where
  | any                              -- blocking FIRST_AVAILABLE: reserve on every out-edge, wait for the first
  | tok (j : Nat)                    -- blocking, chosen edge j: reserve there, wait
  | push (j : Nat) (fa : Bool)       -- non-blocking, edge j has room: hand the unit to a `_push_item` process
  | drop (mark : Bool)               -- non-blocking, no room: discard (mark: the worker was already marked BLOCKED)
  | crash                            -- selector answer out of range: AssertionError
  | badAct                           -- answers missing: not an activation the kernel can deliver
  deriving Repr, DecidableEq, Inhabited

structure Route where
  dec : Dec
  calls : List Call := []
  cans : List Bool := []
  sels : List Int := []
  rr : Nat := 0
  sel : Option Nat := none           -- the entry appended to stats["out_edge_selection"] at decision time
  deriving Repr, Inhabited

/-- routing decision for one unit: depends only on the configuration, the round-robin position and the answers -/
def route (cfg : PackCfg) (rr : Nat) (cans : List Bool) (sels : List Int) : Route :=
  match cfg.outPol with
  | .fa =>
    if cfg.blocking then { dec := .any, cans := cans, sels := sels, rr := rr }
    else
      let (calls, found, cans') := scanCans cans cfg.nout
      match found with
      | some j => { dec := .push j true, calls := calls, cans := cans', sels := sels, rr := rr, sel := some j }
      | none => if calls.contains .bad then { dec := .badAct } else { dec := .drop false, calls := calls, cans := cans', sels := sels, rr := rr }
  | pol =>
    let (k?, rr', c0) := selIdx pol rr cfg.nout { sels := sels }
    let sels' := match pol with | .rnd | .user => sels.drop 1 | _ => sels
    match k? with
    | none => { dec := .badAct }
    | some k =>
      if k < 0 ∨ k ≥ cfg.nout then { dec := .crash, calls := c0, cans := cans, sels := sels', rr := rr' }
      else
        let j := k.toNat
        if cfg.blocking then { dec := .tok j, calls := c0, cans := cans, sels := sels', rr := rr', sel := some j }
        else match cans with
          | true :: cans' => { dec := .push j false, calls := c0 ++ [.can j true], cans := cans', sels := sels', rr := rr', sel := some j }
          | false :: cans' => { dec := .drop true, calls := c0 ++ [.can j false], cans := cans', sels := sels', rr := rr', sel := some j }
          | [] => { dec := .badAct }

def commit (s : PackState) (r : Route) : PackState := { s with rrOut := r.rr, outsel := s.outsel ++ r.sel.toList }

/-- the worker is marked BLOCKED for unit `u` (decided: it will be put) -/
def markW (w : PWorker) (u : Unit') (rest : List Unit') : PWorker :=
  { w with blocked := true, cur := some u, todo := rest, hist := w.hist ++ [(u, true)] }

def startAny (s : PackState) (i : Nat) (w : PWorker) (t : Nat) (u : Unit') (rest : List Unit') : PackState × List Call :=
  let w1 := markW w u rest
  let s2 := ((s.chk! t).setW i w1).chk! t
  let toks := (List.range s.cfg.nout).map (· + s2.nextTok)
  (({ s2 with nextTok := s2.nextTok + s.cfg.nout }).setW i { w1 with pc := .outAny toks },
   (List.range s.cfg.nout).map (fun j => Call.rp j (s2.nextTok + j)) ++ [.awaitAny s.cfg.nout])

def startTok (s : PackState) (i : Nat) (w : PWorker) (t : Nat) (u : Unit') (rest : List Unit') (r : Route) (j : Nat) : PackState × List Call :=
  let w1 := markW w u rest
  let s1 := ((s.commit r).setW i w1).chk! t
  (({ s1 with nextTok := s1.nextTok + 1 }).setW i { w1 with pc := .outTok j s1.nextTok }, [.rp j s1.nextTok, .awaitTok])

def startPush (s : PackState) (i : Nat) (w : PWorker) (t : Nat) (u : Unit') (rest : List Unit') (r : Route) (j : Nat) (fa : Bool) : PackState × List Call :=
  let w1 := { markW w u rest with cur := none }
  let s0 := if fa then s.chk! t else s
  let s1 := ((s0.commit r).setW i w1).chk! t
  let p : PPush := { ord := s1.nextProc, edge := j, unit := u }
  (({ s1 with pushes := s1.pushes ++ [p], nextProc := s1.nextProc + 1 }).setW i { w1 with pc := .pushWait p.ord fa },
   [.spawn p.ord, .awaitProc])

def dropUnit (s : PackState) (i : Nat) (w : PWorker) (t : Nat) (u : Unit') (rest : List Unit') (r : Route) (mark : Bool) : PackState × PWorker :=
  let w1 := { w with blocked := w.blocked || mark, cur := none, todo := rest, hist := w.hist ++ [(u, false)] }
  let s1 := (s.commit r).setW i w1
  let s2 := if mark then s1.chk! t else s1
  ({ s2 with discarded := s2.discarded + 1, droppedU := s2.droppedU ++ [u] }, w1)

/-- emit the units of `todo` one after the other until one has to wait (or all are gone).
    Returns the new state and the calls made; answers (`cans`, `sels`) are consumed in order. -/
def emitLoop (s : PackState) (i : Nat) (w : PWorker) (t : Nat) : List Unit' → List Bool → List Int → List Call → PackState × List Call
  | [], _, _, acc => (s.releaseW i { w with todo := [] }, acc ++ [.awaitReq])
  | u :: rest, cans, sels, acc =>
    let r := route s.cfg s.rrOut cans sels
    match r.dec with
    | .badAct => ({ s with flagged := true }, acc ++ [.bad])
    | .crash => ((s.commit r).setW i { w with pc := .crashed, cur := none, todo := u :: rest }, acc ++ r.calls ++ [.crash .assertion])
    | .any => let (s', cs) := s.startAny i w t u rest; (s', acc ++ r.calls ++ cs)
    | .tok j => let (s', cs) := s.startTok i w t u rest r j; (s', acc ++ r.calls ++ cs)
    | .push j fa => let (s', cs) := s.startPush i w t u rest r j fa; (s', acc ++ r.calls ++ cs)
    | .drop mark =>
      let (s', w') := s.dropUnit i w t u rest r mark
      emitLoop s' i w' t rest r.cans r.sels (acc ++ r.calls)

def worker (s : PackState) (i : Nat) (w : PWorker) (t : Nat) (a : Ans) : PackState × List Call :=
  match w.pc with
  | .start =>
    match s.cfg.kind with
    | .splitter => ((s.chk! t).setW i { w with pc := .timer }, [.wait w.delay])
    | .combiner => s.emitLoop i w t w.todo a.cans a.sels []
  | .timer =>
    if w.notPallet then (s.setW i { w with pc := .crashed }, [.crash .attribute]) else
    s.emitLoop i w t w.todo a.cans a.sels []
  | .outAny toks =>
    match firstTrig toks a.trig, w.cur with
    | some idx, some u =>
      let tok := toks.getD idx 0
      let cancels := (others toks idx).map (fun p => Call.cp p.1 p.2)
      let s1 := { s with outsel := s.outsel ++ [idx], processed := s.processed + 1, emitted := s.emitted ++ [u] }
      (s1.setW i { w with cur := none }).emitLoop i { w with cur := none } t w.todo a.cans a.sels (cancels ++ [putCall idx tok u])
    | _, _ => (s.setW i { w with pc := .crashed }, [.crash .value])
  | .outTok e tok =>
    match w.cur with
    | some u =>
      if !a.trig.contains tok then ({ s with flagged := true }, [.bad]) else
      let s1 := { s with processed := s.processed + 1, emitted := s.emitted ++ [u] }
      (s1.setW i { w with cur := none }).emitLoop i { w with cur := none } t w.todo a.cans a.sels [putCall e tok u]
    | none => ({ s with flagged := true }, [.bad])
  | .pushWait sub _ =>
    match s.pushes.find? (fun p => p.ord = sub) with
    | some p =>
      if !p.done then ({ s with flagged := true }, [.bad]) else
      let s1 := { s with processed := s.processed + 1 }
      s1.emitLoop i w t w.todo a.cans a.sels []
    | none => ({ s with flagged := true }, [.bad])
  | .released =>
    let s0 := s.grantQueued
    if s0.numWorkers ≥ s0.occ.length ∨ s0.numWorkers = 0 then (s0.setW i { w with pc := .done, inList := false }, [.crash .index]) else
    let s1 := s0.setW i { w with pc := .done, inList := false }
    let s2 := { s1 with occ := addAt s1.occ s1.numWorkers (t - s1.lastOcc), numWorkers := s1.numWorkers - 1, lastOcc := t }
    (s2.chk! t, [])
  | .done => ({ s with flagged := true }, [.bad])
  | .crashed => ({ s with flagged := true }, [.bad])

def pushStep (s : PackState) (p : PPush) (a : Ans) : PackState × List Call :=
  match p.tok with
  | none =>
    let p' := { p with tok := some s.nextTok }
    ({ s with pushes := s.pushes.map (fun (q : PPush) => if q.ord = p.ord then p' else q), nextTok := s.nextTok + 1 },
     [.rp p.edge s.nextTok, .awaitTok])
  | some tok =>
    if p.done ∨ !a.trig.contains tok then ({ s with flagged := true }, [.bad])
    else
      let p' := { p with done := true }
      ({ s with pushes := s.pushes.map (fun (q : PPush) => if q.ord = p.ord then p' else q), emitted := s.emitted ++ [p.unit] },
       [putCall p.edge tok p.unit])

/-- splitter, top of the loop: state check, then reserve on the in-edge(s) the policy names -/
def splitterTop (s : PackState) (t : Nat) (a : Ans) (pre : List Call) : PackState × List Call :=
  let s1 := s.chk! t
  match s.cfg.inPol with
  | .fa =>
    let toks := (List.range s.cfg.nin).map (· + s1.nextTok)
    ({ s1 with bpc := .inAny toks, nextTok := s1.nextTok + s.cfg.nin },
     pre ++ (List.range s.cfg.nin).map (fun j => .rg j (s1.nextTok + j)) ++ [.awaitAny s.cfg.nin])
  | _ =>
    let (k?, rr', c0) := selIdx s.cfg.inPol s1.rrIn s.cfg.nin a
    match k? with
    | none => ({ s1 with bpc := .dead, flagged := true }, pre ++ [.bad])
    | some k =>
      if k < 0 ∨ k ≥ s.cfg.nin then ({ s1 with rrIn := rr' }).crashB .assertion (pre ++ c0)
      else
        let j := k.toNat
        ({ s1 with rrIn := rr', insel := s1.insel ++ [j], bpc := .inTok j s1.nextTok, nextTok := s1.nextTok + 1 },
         pre ++ c0 ++ [.rg j s1.nextTok, .awaitTok])

def combinerTop (s : PackState) (t : Nat) (pre : List Call) : PackState × List Call :=
  let s1 := s.chk! t
  ({ s1 with bpc := .palletWait s1.nextTok, nextTok := s1.nextTok + 1 }, pre ++ [.rg 0 s1.nextTok, .awaitTok])

/-- the tokens the combiner reserves for one pallet: `target[e]` on every in-edge e ≥ 1, in edge
    order; `false` if the recipe vector is too short (IndexError after the reservations already made) -/
def recipeToks (target : List Nat) (nin first : Nat) : List (Nat × Nat) × Bool :=
  let rec go (e : Nat) (fuel : Nat) (next : Nat) (acc : List (Nat × Nat)) : List (Nat × Nat) × Bool :=
    match fuel with
    | 0 => (acc, true)
    | f + 1 =>
      match target[e]? with
      | none => (acc, false)
      | some q => go (e + 1) f (next + q) (acc ++ (List.range q).map (fun k => (next + k, e)))
  go 1 (nin - 1) first []

inductive GRes where | ok | badAct | wrongType
  deriving DecidableEq, Repr

/-- combiner gather loop: take every token that is triggered now, first in list order, until none is;
    a get() may itself trigger further tokens of this node (`woke`) -/
def gatherLoop : Nat → List (Nat × Nat) → Unit' → List Nat → List GotItem → List Call →
    (List (Nat × Nat) × Unit' × List Call × GRes)
  | 0, toks, pal, _, _, acc => (toks, pal, acc, .ok)
  | fuel + 1, toks, pal, trig, items, acc =>
    match toks.findIdx? (fun p => trig.contains p.1) with
    | none => (toks, pal, acc, .ok)
    | some idx =>
      match toks[idx]?, items with
      | some (tok, e), it :: items' =>
        if it.pallet then (toks, pal, acc ++ [.get e tok it.id], .wrongType) else
        gatherLoop fuel (toks.eraseIdx idx) { pal with content := pal.content ++ [it.id], got := pal.got ++ [(it.id, e)] }
          (trig ++ it.woke) items' (acc ++ [.get e tok it.id])
      | _, _ => (toks, pal, acc ++ [.bad], .badAct)

/-- `reset()`: a constant edge index out of range fails its assertion -/
def badCfg (cfg : PackCfg) : Bool :=
  (match cfg.kind, cfg.inPol with | .splitter, .const k => decide (k < 0 ∨ k ≥ cfg.nin) | _, _ => false) ||
  (match cfg.outPol with | .const k => decide (k < 0 ∨ k ≥ cfg.nout) | _ => false)

/-- `reset()` and the two assertions, then the set-up delay -/
def startB (s : PackState) : PackState × List Call :=
  if badCfg s.cfg then s.crashB .assertion [] else ({ s with bpc := .setupWait }, [.wait s.cfg.setup])

def bad (s : PackState) : PackState × List Call := ({ s with flagged := true }, [.bad])

/-- the slot is granted: occupancy histogram -/
def slotGranted (s : PackState) (t : Nat) : PackState :=
  { s with occ := addAt s.occ s.numWorkers (t - s.lastOcc), numWorkers := s.numWorkers + 1, lastOcc := t, granted := false }

def spawnW (s : PackState) (w : PWorker) : PackState := { s with workers := s.workers ++ [w], nextProc := s.nextProc + 1 }

/-- Combiner.behaviour -/
def bComb (s : PackState) (t : Nat) (a : Ans) : PackState × List Call :=
  match s.bpc with
  | .start => s.startB
  | .setupWait => ({ s with clock := s.clock.update 1 t }).combinerTop t []
  | .palletWait tok =>
    if !a.trig.contains tok then s.bad else
    match a.items with
    | it :: _ =>
      if !it.pallet then s.crashB .runtime [.get 0 tok it.id] else       -- "The first in_edge must supply Pallet type items only."
      let pal : Unit' := { id := it.id, content := it.content, pre := it.content }
      let (toks, ok) := recipeToks s.cfg.target s.cfg.nin s.nextTok
      let s1 := { s with nextTok := s.nextTok + toks.length, pulledPallets := s.pulledPallets ++ [pal] }
      let calls := [Call.get 0 tok it.id] ++ toks.map (fun p => Call.rg p.2 p.1)
      if !ok then s1.crashB .index calls
      else ({ s1 with bpc := .gather toks pal }, calls ++ [.awaitAny toks.length])
    | [] => s.bad
  | .gather toks pal =>
    let (toks', pal', calls, res) := gatherLoop (toks.length + 1) toks pal a.trig a.items []
    if res = .badAct then ({ s with flagged := true }, calls) else
    if res = .wrongType then s.crashB .runtime calls else
    if toks'.isEmpty then
      match a.draws with
      | d :: _ => ({ s.requestSlot with bpc := .cSlotWait pal' d }, calls ++ [.draw d, .awaitReq])
      | [] => ({ s with flagged := true }, calls ++ [.bad])
    else ({ s with bpc := .gather toks' pal' }, calls ++ [.awaitAny toks'.length])
  | .cSlotWait pal d =>
    if !s.granted then s.bad else
    if s.numWorkers ≥ s.occ.length then s.crashB .index [] else
    let s1 := { s.slotGranted t with pds := s.pds ++ [d] }
    ({ s1 with clock := s1.clock.update 2 t, bpc := .cProc pal }, [.wait d])
  | .cProc pal =>
    let w : PWorker := { ord := s.nextProc, todo := [pal], plan := [pal] }
    ((s.spawnW w).chk! t).combinerTop t [.spawn w.ord]
  | _ => s.bad

/-- the units a splitter worker has to emit for the pulled object: its items in order, then the object itself -/
def unitsOfItem (it : GotItem) : List Unit' := it.content.map (fun c => ({ id := c } : Unit')) ++ [{ id := it.id }]

def mkSplitWorker (ord : Nat) (it : GotItem) (d : Nat) : PWorker :=
  { ord := ord, delay := d, todo := unitsOfItem it, notPallet := !it.pallet, plan := unitsOfItem it }

def pulledSplit (s : PackState) (t : Nat) (w : PWorker) (d : Nat) (pal : Unit') : PackState :=
  { (s.slotGranted t).spawnW w with pds := s.pds ++ [d], pulledPallets := s.pulledPallets ++ [pal] }

/-- Splitter.behaviour -/
def bSplit (s : PackState) (t : Nat) (a : Ans) : PackState × List Call :=
  match s.bpc with
  | .start => s.startB
  | .setupWait => ({ s with clock := s.clock.update 1 t }).splitterTop t a []
  | .inAny toks =>
    match firstTrig toks a.trig with
    | some idx =>
      let tok := toks.getD idx 0
      let cancels := (others toks idx).map (fun p => Call.cg p.1 p.2)
      let s1 := ({ s with insel := s.insel ++ [idx] }).requestSlot
      ({ s1 with bpc := .sSlotWait idx tok }, cancels ++ [.awaitReq])
    | none => s.crashB .value []
  | .inTok e tok =>
    if !a.trig.contains tok then s.bad else
    ({ s.requestSlot with bpc := .sSlotWait e tok }, [.awaitReq])
  | .sSlotWait e tok =>
    if !s.granted then s.bad else
    if s.numWorkers ≥ s.occ.length then s.crashB .index [] else
    match a.items, a.draws with
    | it :: _, d :: _ =>
      let w := mkSplitWorker s.nextProc it d
      let s2 := s.pulledSplit t w d { id := it.id, content := it.content }
      (s2.chk! t).splitterTop t a [.get e tok it.id, .draw d, .spawn w.ord]
    | _, _ => s.bad
  | _ => s.bad

def behaviour (s : PackState) (t : Nat) (a : Ans) : PackState × List Call :=
  match s.cfg.kind with
  | .combiner => s.bComb t a
  | .splitter => s.bSplit t a

def step (s0 : PackState) (proc t : Nat) (a : Ans) : PackState × List Call :=
  if t < s0.now then ({ s0 with flagged := true }, [.bad]) else
  let s := { s0 with now := t }
  if proc = 0 then s.behaviour t a
  else match s.workers.findIdx? (fun w => w.ord = proc) with
    | some i =>
      match s.workers[i]? with
      | some w => s.worker i w t a
      | none => ({ s with flagged := true }, [.bad])
    | none =>
      match s.pushes.find? (fun p => p.ord = proc) with
      | some p => s.pushStep p a
      | none => ({ s with flagged := true }, [.bad])

/-- `update_final_state_time(T)` called after `env.run(until=T)`; none = the ValueError branch of
    `_update_worker_occupancy("UPDATE")` (num_workers ≠ number of slot users) -/
def finalize (s : PackState) (T : Nat) : Option PackState :=
  if T < s.now then none else
  if s.numWorkers ≠ s.users ∨ s.numWorkers ≥ s.occ.length then none else
  some { s with clock := { s.clock with tot := addAt s.clock.tot s.clock.cur (T - s.clock.last.getD T) }, occ := addAt s.occ s.numWorkers (T - s.lastOcc), lastOcc := T, now := T }

def stats (s : PackState) : String :=
  s!"proc={s.processed} disc={s.discarded} state={s.clock.cur} last={match s.clock.last with | some l => toString l | none => "-"} tt={s.clock.tot} occ={s.occ} insel={s.insel} outsel={s.outsel} pd={s.pds}"

end PackState
end FsVerif
