/-
Source node (nodes/source.py) as an open automaton.  Process 0 is `behaviour`; processes 1, 2, …
are `_push_item` sub-processes.  State indices: 0 SETUP, 1 GENERATING, 2 BLOCKED.
Mirrors the code after the repair of the non-blocking FIRST_AVAILABLE branch (finding D5:
`out_edge_to_put` is reset before every scan).
-/
import FsVerif.Model.Node.Common
namespace FsVerif

structure SrcCfg where
  nodeIdx : Nat := 0
  blocking : Bool := true
  pol : Pol := .fa
  nout : Nat := 1
  setup : Nat := 0               -- node_setup_time (the constructor does not take it: assigned to the attribute before the run)
  deriving Repr, Inhabited, DecidableEq

inductive SrcPc where
  | start | setupWait | iatWait
  | faWait (toks : List Nat)
  | pushWait (sub : Nat) (thenGenerating : Bool)
  | dead
  deriving Repr, Inhabited, DecidableEq

structure PushProc where
  ord : Nat
  edge : Nat
  item : Nat
  tok : Option Nat := none      -- none: not started
  done : Bool := false
  deriving Repr, Inhabited, DecidableEq

structure SrcState where
  cfg : SrcCfg
  pc : SrcPc := .start
  i : Nat := 0
  nextTok : Nat := 0
  nextProc : Nat := 1
  rr : Nat := 0
  subs : List PushProc := []
  item : Option Nat := none
  clock : StateClock 3 := { cur := 0, last := none, tot := [0, 0, 0] }
  generated : Nat := 0
  discarded : Nat := 0
  -- ghost
  created : List Nat := []
  pushed : List Nat := []
  dropped : List Nat := []
  openToks : List Nat := []             -- reserve tokens issued and neither used nor cancelled
  flagged : Bool := false               -- an impossible activation was offered
  hand : List Nat := []                 -- ghost: the item the source has created and not yet put or dropped
  now : Nat := 0
  tStart : Option Nat := none           -- ghost: time of the first activation
  deriving Repr, Inhabited

namespace SrcState

def init (cfg : SrcCfg) : SrcState := { cfg := cfg }

def itemName (s : SrcState) (i : Nat) : Nat := s.cfg.nodeIdx * 100000 + i

/-- loop top in GENERATING_STATE: `update_state(state, now)`, draw the inter-arrival time, wait -/
def loopTop (s : SrcState) (t : Nat) (a : Ans) : SrcState × List Call :=
  let s1 := { s with clock := s.clock.update s.clock.cur t }
  match a.draws with
  | d :: _ => ({ s1 with pc := .iatWait, item := none }, [.draw d, .wait d])
  | [] => ({ s1 with pc := .dead, flagged := true }, [.bad])

def crash (s : SrcState) (e : Err) (pre : List Call) : SrcState × List Call :=
  ({ s with pc := .dead }, pre ++ [.crash e])

/-- reserve on every out-edge, tokens numbered consecutively -/
def reserveAll (n first : Nat) : List Call := (List.range n).map (fun j => .rp j (first + j))

def spawnPush (s : SrcState) (edge item : Nat) (thenGen : Bool) : SrcState × List Call :=
  ({ s with subs := s.subs ++ [{ ord := s.nextProc, edge := edge, item := item }],
            nextProc := s.nextProc + 1, pc := .pushWait s.nextProc thenGen }, [.spawn s.nextProc, .awaitProc])

/-- the scan `for edge in out_edges: if edge.can_put(): …; break` -/
def scanCan (cans : List Bool) (n : Nat) : List Call × Option Nat :=
  let rec go (j : Nat) (cs : List Bool) (fuel : Nat) (acc : List Call) : List Call × Option Nat :=
    match fuel, cs with
    | 0, _ => (acc, none)
    | _ + 1, [] => (acc ++ [.bad], none)          -- an out-edge was not probed although none before it had room
    | f + 1, c :: cs => if c then (acc ++ [.can j true], some j) else go (j + 1) cs f (acc ++ [.can j false])
  go 0 cans n []

def behaviour (s : SrcState) (t : Nat) (a : Ans) : SrcState × List Call :=
  match s.pc with
  | .start =>
    -- asserts on edges hold by construction of the configuration; reset(): constant index range
    match s.cfg.pol with
    | .const k =>
      if k < 0 ∨ k ≥ s.cfg.nout then s.crash .assertion []
      else ({ s with clock := s.clock.update 0 t, pc := .setupWait }, [.wait s.cfg.setup])
    | _ => ({ s with clock := s.clock.update 0 t, pc := .setupWait }, [.wait s.cfg.setup])
  | .setupWait =>
    let s1 := { s with clock := s.clock.update 1 t }
    s1.loopTop t a
  | .iatWait =>
    let it := s.itemName (s.i + 1)
    let s1 := { s with i := s.i + 1, generated := s.generated + 1, item := some it, created := s.created ++ [it], hand := [it] }
    match s.cfg.pol with
    | .fa =>
      if s.cfg.blocking then
        let toks := (List.range s.cfg.nout).map (· + s1.nextTok)
        ({ s1 with clock := s1.clock.update 2 t, nextTok := s1.nextTok + s.cfg.nout, pc := .faWait toks,
                   openToks := s1.openToks ++ toks }, reserveAll s.cfg.nout s1.nextTok ++ [.awaitAny s.cfg.nout])
      else
        let (calls, found) := scanCan a.cans s.cfg.nout
        match found with
        | none =>
          let s2 := { s1 with discarded := s1.discarded + 1, dropped := s1.dropped ++ [it], hand := [] }
          let (s3, c) := s2.loopTop t { a with cans := [] }
          (s3, calls ++ c)
        | some j =>
          let s2 := { s1 with clock := s1.clock.update 2 t }
          let (s3, c) := s2.spawnPush j it true
          (s3, calls ++ c)
    | _ =>
      match (selIdx s.cfg.pol s.rr s.cfg.nout a).1 with
      | none => ({ s1 with pc := .dead, flagged := true }, [.bad])
      | some k =>
        let s2 := { s1 with rr := (selIdx s.cfg.pol s.rr s.cfg.nout a).2.1 }
        let c0 := (selIdx s.cfg.pol s.rr s.cfg.nout a).2.2
        if k < 0 ∨ k ≥ s.cfg.nout then s2.crash .index c0
        else
          let j := k.toNat
          if s.cfg.blocking then
            let s3 := { s2 with clock := s2.clock.update 2 t }
            let (s4, c) := s3.spawnPush j it true
            (s4, c0 ++ c)
          else
            match a.cans with
            | true :: _ =>
              let (s4, c) := s2.spawnPush j it false
              (s4, c0 ++ [.can j true] ++ c)
            | false :: _ =>
              let s3 := { s2 with discarded := s2.discarded + 1, dropped := s2.dropped ++ [it], hand := [] }
              let (s4, c) := s3.loopTop t { a with cans := [] }
              (s4, c0 ++ [.can j false] ++ c)
            | [] => ({ s2 with pc := .dead, flagged := true }, [.bad])
  | .faWait toks =>
    match firstTrig toks a.trig, s.hand with
    | some idx, it :: _ =>
      let tok := toks.getD idx 0
      let cancels := (others toks idx).map (fun p => Call.cp p.1 p.2)
      let s1 := { s with clock := s.clock.update 1 t, pushed := s.pushed ++ [it], hand := [],
                         openToks := s.openToks.filter (fun x => !toks.contains x) }
      let (s2, c) := s1.loopTop t a
      (s2, cancels ++ [.put idx tok it] ++ c)
    | _, _ => s.crash .value []         -- `out_edge_events.index(None)`
  | .pushWait sub thenGen =>
    match s.subs.find? (fun p => p.ord = sub) with
    | some p =>
      if p.done && s.hand.isEmpty then      -- done ⇒ the item was handed over
        let s1 := if thenGen then { s with clock := s.clock.update 1 t } else s
        s1.loopTop t a
      else ({ s with flagged := true }, [.bad])
    | none => ({ s with flagged := true }, [.bad])
  | .dead => ({ s with flagged := true }, [.bad])

def pushStep (s : SrcState) (p : PushProc) (a : Ans) : SrcState × List Call :=
  match p.tok with
  | none =>
    let p' := { p with tok := some s.nextTok }
    ({ s with subs := s.subs.map (fun q => if q.ord = p.ord then p' else q), nextTok := s.nextTok + 1,
              openToks := s.openToks ++ [s.nextTok] }, [.rp p.edge s.nextTok, .awaitTok])
  | some tok =>
    if p.done ∨ !a.trig.contains tok then ({ s with flagged := true }, [.bad])
    else
      match s.hand with
      | [] => ({ s with flagged := true }, [.bad])
      | it :: _ =>
        let p' := { p with done := true }
        ({ s with subs := s.subs.map (fun q => if q.ord = p.ord then p' else q), pushed := s.pushed ++ [it], hand := [],
                  openToks := s.openToks.filter (· != tok) }, [.put p.edge tok it])

/-- one activation of process `proc` at time `t` -/
def step (s0 : SrcState) (proc t : Nat) (a : Ans) : SrcState × List Call :=
  if t < s0.now then ({ s0 with flagged := true }, [.bad]) else
  let s := { s0 with now := t, tStart := match s0.tStart with | some x => some x | none => some t }
  if proc = 0 then s.behaviour t a
  else match s.subs.find? (fun p => p.ord = proc) with
    | some p => s.pushStep p a
    | none => ({ s with flagged := true }, [.bad])

def stats (s : SrcState) : String :=
  s!"gen={s.generated} disc={s.discarded} state={s.clock.cur} last={match s.clock.last with | some l => toString l | none => "-"} tt={s.clock.tot}"

end SrcState

/-! ### Sink (nodes/sink.py): one process, one state -/

structure SinkState where
  nin : Nat
  pc : Option (List Nat) := none        -- none: not started; some toks: waiting on any_of(toks)
  dead : Bool := false
  nextTok : Nat := 0
  clock : StateClock 1 := { cur := 0, last := some 0, tot := [0] }
  received : Nat := 0
  cycle : Nat := 0
  got : List Nat := []                  -- ghost
  openToks : List Nat := []
  flagged : Bool := false
  now : Nat := 0
  gotAt : List (Nat × Nat) := []        -- ghost: (reception time, creation stamp) of every received item
  deriving Repr, Inhabited

namespace SinkState

def init (nin : Nat) : SinkState := { nin := nin }

def arm (s : SinkState) (t : Nat) : SinkState × List Call :=
  let toks := (List.range s.nin).map (· + s.nextTok)
  ({ s with clock := s.clock.update 0 t, pc := some toks, nextTok := s.nextTok + s.nin, openToks := s.openToks ++ toks },
   (List.range s.nin).map (fun j => .rg j (s.nextTok + j)) ++ [.awaitAny s.nin])

def step (s0 : SinkState) (proc t : Nat) (a : Ans) : SinkState × List Call :=
  if t < s0.now then ({ s0 with flagged := true }, [.bad]) else
  let s := { s0 with now := t }
  if proc ≠ 0 ∨ s.dead then ({ s with flagged := true }, [.bad]) else
  match s.pc with
  | none => s.arm t
  | some toks =>
    match firstTrig toks a.trig, a.items with
    | some idx, it :: _ =>
      let tok := toks.getD idx 0
      let cancels := (others toks idx).map (fun p => Call.cg p.1 p.2)
      let s1 := { s with received := s.received + 1, cycle := s.cycle + (t - it.created), got := s.got ++ [it.id],
                         gotAt := s.gotAt ++ [(t, it.created)],
                         openToks := s.openToks.filter (fun x => !toks.contains x) }
      let (s2, c) := s1.arm t
      (s2, cancels ++ [.get idx tok it.id] ++ c)
    | none, _ => ({ s with dead := true }, [.crash .value])
    | some _, [] => ({ s with flagged := true }, [.bad])

def stats (s : SinkState) : String :=
  s!"recv={s.received} cycle={s.cycle} last={match s.clock.last with | some l => toString l | none => "-"} tt={s.clock.tot}"

end SinkState
end FsVerif
