/-
Open node automata: shared vocabulary.
A node is a set of SimPy processes.  The kernel delivers *activations*: "process p of this node
runs now (time t) until its next yield".  What the environment hands to the node inside one
activation is collected in `Ans` (which of the node's outstanding tokens are triggered at
resumption, results of can_put, items returned by get, values drawn from delay / selector
callables).  The automaton answers with the list of calls the node makes, in order.
Theorems about an automaton quantify over ALL activation sequences.
-/
import FsVerif.Model.Basic
namespace FsVerif

/-- edge-selection policy -/
inductive Pol where
  | fa                 -- "FIRST_AVAILABLE"
  | rr                 -- "ROUND_ROBIN" (library generator)
  | rnd                -- "RANDOM" (library generator; the draw is an answer)
  | const (k : Int)    -- constant index
  | user               -- user callable / generator: one call per item, answer obeyed
  deriving DecidableEq, Repr, Inhabited

structure GotItem where
  id : Nat
  created : Nat := 0        -- timestamp_creation (ticks); used by the sink's cycle time
  pallet : Bool := false    -- flow_item_type == "Pallet"
  content : List Nat := []  -- ids of the items a pallet carries, in loading order
  woke : List Nat := []     -- the node's own outstanding tokens that this very get() triggered
  deriving DecidableEq, Repr, Inhabited

structure Ans where
  trig : List Nat := []       -- node-local ordinals of outstanding tokens that are triggered now
  draws : List Nat := []      -- delay draws, in call order
  sels : List Int := []       -- selector answers, in call order
  cans : List Bool := []      -- can_put() results, in call order
  items : List GotItem := []  -- items returned by get(), in call order
  deriving Repr, Inhabited

inductive Call where
  | rg (e tok : Nat) | rp (e tok : Nat)
  | get (e tok item : Nat) | put (e tok item : Nat)
  | putU (e tok item : Nat) (content : List Nat)      -- put of a unit that may carry items
  | cg (e tok : Nat) | cp (e tok : Nat)
  | can (e : Nat) (r : Bool)
  | draw (d : Nat) | sel (k : Int)
  | spawn (p : Nat)
  | wait (d : Nat)                -- `yield env.timeout(d)`
  | awaitAny (n : Nat)            -- `yield env.any_of([...n events...])`
  | awaitTok                      -- `yield <reservation token>`
  | awaitProc                     -- `yield env.process(...)`
  | awaitReq                      -- `yield worker_thread.request()` / `.release(...)`
  | crash (e : Err)
  | bad                           -- an activation the kernel can never deliver in this state
  deriving DecidableEq, Repr, Inhabited

def Call.show : Call → String
  | .rg e t => s!"rg e{e} t{t}" | .rp e t => s!"rp e{e} t{t}"
  | .get e t i => s!"get e{e} t{t} i{i}" | .put e t i => s!"put e{e} t{t} i{i}"
  | .putU e t i c => if c.isEmpty then s!"put e{e} t{t} i{i}" else s!"put e{e} t{t} i{i}{c}"
  | .cg e t => s!"cg e{e} t{t}" | .cp e t => s!"cp e{e} t{t}"
  | .can e r => s!"can e{e} {if r then 1 else 0}"
  | .draw d => s!"draw {d}" | .sel k => s!"sel {k}"
  | .spawn p => s!"spawn p{p}"
  | .wait d => s!"wait {d}"
  | .awaitAny n => s!"await any {n}"
  | .awaitTok => "await tok"
  | .awaitProc => "await proc"
  | .awaitReq => "await req"
  | .crash e => s!"crash {e.name}"
  | .bad => "BAD"

/-- `Node.update_state`: charge the elapsed time to the current state, switch. -/
structure StateClock (n : Nat) where
  cur : Nat                      -- index of the current state
  last : Option Nat              -- stats["last_state_change_time"]
  tot : List Nat                 -- total_time_spent_in_states, by state index
  deriving Repr, Inhabited, DecidableEq

def addAt : List Nat → Nat → Nat → List Nat
  | [], _, _ => []
  | x :: xs, 0, v => (x + v) :: xs
  | x :: xs, i + 1, v => x :: addAt xs i v

def StateClock.update {n : Nat} (c : StateClock n) (new t : Nat) : StateClock n :=
  match c.last with
  | some l => { cur := new, last := some t, tot := addAt c.tot c.cur (t - l) }
  | none => { c with cur := new, last := some t }

/-- index of the first awaited token that is triggered (`next(e for e in events if e.triggered)`) -/
def firstTrig (toks trig : List Nat) : Option Nat := toks.findIdx? (fun t => trig.contains t)

/-- a position and its token, all other positions (to be cancelled, in list order) -/
def others (toks : List Nat) (i : Nat) : List (Nat × Nat) :=
  (toks.zipIdx.filter (fun p => p.2 != i)).map (fun p => (p.2, p.1))

/-- consult the selection policy once: (answer, new round-robin state, calls made) -/
def selIdx (pol : Pol) (rr n : Nat) (a : Ans) : Option Int × Nat × List Call :=
  match pol with
  | .const k => (some k, rr, [])
  | .rr => (some (rr : Int), (rr + 1) % n, [])
  | .rnd => (a.sels.head?, rr, [])
  | .user => (a.sels.head?, rr, (a.sels.head?.map fun k => [Call.sel k]).getD [])
  | .fa => (none, rr, [])

end FsVerif
