/-
Machine node (nodes/machine.py) as an open automaton.
Process 0 = `behaviour`; every further process is a `worker` or a `_push_item` sub-process, numbered
in spawn order.  The internal `simpy.Resource` (worker slots) is part of the automaton.
State-time indices: 0 SETUP, 1 IDLE, 2 ATLEAST_ONE_PROCESSING, 3 ALL_ACTIVE_BLOCKED,
4 ALL_ACTIVE_PROCESSING, 5 ATLEAST_ONE_BLOCKED.
-/
import FsVerif.Model.Node.Common
namespace FsVerif

structure MacCfg where
  nodeIdx : Nat := 0
  wc : Nat := 1                 -- work_capacity
  setup : Nat := 0              -- node_setup_time
  blocking : Bool := true
  inPol : Pol := .fa
  outPol : Pol := .fa
  nin : Nat := 1
  nout : Nat := 1
  deriving Repr, Inhabited, DecidableEq

inductive BPc where
  | start | setupWait
  | slotWait                          -- waiting for the worker_thread request
  | inAny (toks : List Nat)           -- any_of over reserve_get on every in-edge
  | inTok (edge tok : Nat)            -- a single reserve_get token
  | dead
  deriving Repr, Inhabited, DecidableEq

inductive WPc where
  | start | timer
  | outAny (toks : List Nat)
  | outTok (edge tok : Nat)
  | pushWait (sub : Nat) (fa : Bool)
  | released
  | done
  | crashed                           -- an exception escaped this worker (the simulation is over)
  deriving Repr, Inhabited, DecidableEq

structure Worker where
  ord : Nat
  item : Nat
  delay : Nat
  pc : WPc := .start
  blocked : Bool := false           -- thread_state: false PROCESSING_STATE, true BLOCKED_STATE
  inList : Bool := true             -- member of worker_thread_list
  pulledAt : Nat := 0               -- ghost
  timerAt : Option Nat := none      -- ghost: instant at which the processing timer fired
  has : Bool := true                -- ghost: the worker still holds its item (not yet put / dropped)
  deriving Repr, Inhabited, DecidableEq

structure MPush where
  ord : Nat
  edge : Nat
  item : Nat
  tok : Option Nat := none
  done : Bool := false
  deriving Repr, Inhabited, DecidableEq

/-- total_time_spent_in_states of a machine -/
structure MTT where
  setup : Nat := 0
  idle : Nat := 0
  aop : Nat := 0      -- ATLEAST_ONE_PROCESSING
  allb : Nat := 0     -- ALL_ACTIVE_BLOCKED
  aap : Nat := 0      -- ALL_ACTIVE_PROCESSING
  aob : Nat := 0      -- ATLEAST_ONE_BLOCKED
  deriving Repr, Inhabited, DecidableEq

def MTT.toList (m : MTT) : List Nat := [m.setup, m.idle, m.aop, m.allb, m.aap, m.aob]

structure MacState where
  cfg : MacCfg
  bpc : BPc := .start
  granted : Bool := false             -- the behaviour's slot request has been granted
  users : Nat := 0                    -- len(worker_thread.users)
  workers : List Worker := []
  pushes : List MPush := []
  nextTok : Nat := 0
  nextProc : Nat := 1
  rrIn : Nat := 0
  rrOut : Nat := 0
  -- statistics
  tt : MTT := {}
  last : Option Nat := none
  rep : Option (Int × Int) := none     -- state_rep (None before the process starts)
  occ : List Nat := []                 -- time_per_work_occupancy
  numWorkers : Nat := 0
  lastOcc : Nat := 0
  processed : Nat := 0
  discarded : Nat := 0
  insel : List Nat := []
  outsel : List Nat := []
  pds : List Nat := []
  -- ghost
  pulled : List Nat := []
  pushedItems : List Nat := []
  dropped : List Nat := []
  openToks : List Nat := []
  flagged : Bool := false
  bSlot : Bool := false               -- ghost: the behaviour process holds a worker slot not yet handed to a worker
  now : Nat := 0                      -- time of the latest accepted activation
  t0 : Option Nat := none             -- ghost: time at which the behaviour process started
  tEnd : Option Nat := none           -- ghost: time at which the set-up period ended
  deriving Repr, Inhabited

namespace MacState

def init (cfg : MacCfg) : MacState := { cfg := cfg, occ := List.replicate (cfg.wc + 1) 0 }

/-- `_count_worker_state` over worker_thread_list -/
def count (s : MacState) : Int × Int :=
  (((s.workers.filter (fun w => w.inList && !w.blocked)).length : Nat),
   ((s.workers.filter (fun w => w.inList && w.blocked)).length : Nat))

/-- charge `e` time units to the states that the representation `(p, b)` = (#processing, #blocked) belongs to -/
def _root_.FsVerif.MTT.bump (m : MTT) (p b : Int) (e : Nat) : MTT :=
  let tt1 : MTT := if p = 0 ∧ b = 0 then { m with idle := m.idle + e } else m
  let tt2 : MTT := if b > 0 ∧ p = 0 then { tt1 with allb := tt1.allb + e } else tt1
  let tt3 : MTT := if p > 0 then { tt2 with aop := tt2.aop + e } else tt2
  let tt4 : MTT := if p > 0 ∧ b = 0 then { tt3 with aap := tt3.aap + e } else tt3
  if b > 0 then { tt4 with aob := tt4.aob + e } else tt4

/-- `update_state_rep(now)` -/
def updRep (s : MacState) (t : Nat) : MacState :=
  match s.rep, s.last with
  | some (p, b), some l => { s with tt := s.tt.bump p b (t - l), rep := some s.count, last := some t }
  | _, _ => { s with last := some t }

def occAdd (s : MacState) (t : Nat) : MacState :=
  { s with occ := addAt s.occ s.numWorkers (t - s.lastOcc), numWorkers := s.numWorkers + 1, lastOcc := t }

def occRemove (s : MacState) (t : Nat) : MacState :=
  { s with occ := addAt s.occ s.numWorkers (t - s.lastOcc), numWorkers := s.numWorkers - 1, lastOcc := t }

/-- `reset()`: a constant edge index outside the range of the edge list is rejected -/
def _root_.FsVerif.MacCfg.badConst (c : MacCfg) : Bool :=
  (match c.inPol with | .const k => decide (k < 0 ∨ k ≥ c.nin) | _ => false) ||
  (match c.outPol with | .const k => decide (k < 0 ∨ k ≥ c.nout) | _ => false)

def crashB (s : MacState) (e : Err) (pre : List Call) : MacState × List Call :=
  ({ s with bpc := .dead }, pre ++ [.crash e])

/-- loop top after set-up: `update_state_rep`, request a worker slot -/
def requestSlot (s : MacState) (t : Nat) : MacState :=
  let s1 := s.updRep t
  if s1.users < s1.cfg.wc then { s1 with users := s1.users + 1, granted := true, bSlot := true, bpc := .slotWait }
  else { s1 with granted := false, bSlot := false, bpc := .slotWait }

/-- after an item has been pulled: draw the processing delay, spawn the worker, go back for more -/
def afterPull (s : MacState) (t : Nat) (it : Nat) (a : Ans) (pre : List Call) : MacState × List Call :=
  match a.draws with
  | d :: _ =>
    let w : Worker := { ord := s.nextProc, item := it, delay := d, pulledAt := t }
    let s1 := { s with workers := s.workers ++ [w], nextProc := s.nextProc + 1, pds := s.pds ++ [d],
                       pulled := s.pulled ++ [it], bSlot := false, granted := false }
    let s2 := s1.updRep t
    (s2.requestSlot t, pre ++ [.draw d, .spawn w.ord, .awaitReq])
  | [] => ({ s with bpc := .dead, flagged := true }, pre ++ [.bad])

def behaviour (s : MacState) (t : Nat) (a : Ans) : MacState × List Call :=
  match s.bpc with
  | .start =>
    -- reset(): constant indices are range-checked
    if s.cfg.badConst then ({ s with rep := some (-1, -1), bpc := .dead }, [.crash .assertion])
    else ({ s with rep := some (-1, -1), bpc := .setupWait, t0 := some t }, [.wait s.cfg.setup])
  | .setupWait =>
    let s1 := { s with tt := { s.tt with setup := s.tt.setup + s.cfg.setup }, rep := some (0, 0), tEnd := some t }
    let s2 := s1.updRep t
    (s2.requestSlot t, [.awaitReq])
  | .slotWait =>
    if !s.granted then ({ s with flagged := true }, [.bad]) else
    if s.numWorkers ≥ s.occ.length then s.crashB .index [] else      -- time_per_work_occupancy[num_workers]
    let s1 := (s.occAdd t)
    match s.cfg.inPol with
    | .fa =>
      let toks := (List.range s.cfg.nin).map (· + s1.nextTok)
      ({ s1 with granted := false, bpc := .inAny toks, nextTok := s1.nextTok + s.cfg.nin, openToks := s1.openToks ++ toks },
       (List.range s.cfg.nin).map (fun j => .rg j (s1.nextTok + j)) ++ [.awaitAny s.cfg.nin])
    | _ =>
      let (k?, rr', c0) := selIdx s.cfg.inPol s1.rrIn s.cfg.nin a
      match k? with
      | none => ({ s1 with bpc := .dead, flagged := true }, [.bad])
      | some k =>
        if k < 0 ∨ k ≥ s.cfg.nin then ({ s1 with rrIn := rr', granted := false }).crashB .assertion c0
        else
          let j := k.toNat
          ({ s1 with rrIn := rr', granted := false, insel := s1.insel ++ [j], bpc := .inTok j s1.nextTok,
                     nextTok := s1.nextTok + 1, openToks := s1.openToks ++ [s1.nextTok] },
           c0 ++ [.rg j s1.nextTok, .awaitTok])
  | .inAny toks =>
    match firstTrig toks a.trig, a.items with
    | some idx, it :: _ =>
      let tok := toks.getD idx 0
      let cancels := (others toks idx).map (fun p => Call.cg p.1 p.2)
      let s1 := { s with insel := s.insel ++ [idx], openToks := s.openToks.filter (fun x => !toks.contains x) }
      s1.afterPull t it.id a (cancels ++ [.get idx tok it.id])
    | none, _ => s.crashB .value []
    | some _, [] => ({ s with flagged := true }, [.bad])
  | .inTok e tok =>
    if !a.trig.contains tok then ({ s with flagged := true }, [.bad]) else
    match a.items with
    | it :: _ =>
      let s1 := { s with openToks := s.openToks.filter (· != tok) }
      s1.afterPull t it.id a [.get e tok it.id]
    | [] => ({ s with flagged := true }, [.bad])
  | .dead => ({ s with flagged := true }, [.bad])

def setWorker (s : MacState) (i : Nat) (w : Worker) : MacState :=
  { s with workers := s.workers.set i w }

/-- `yield self.worker_thread.release(req)`: the slot is free at once; a queued request of the
    behaviour process is granted when the release event is processed (before anybody else runs) -/
def release (s : MacState) (i : Nat) (w : Worker) : MacState :=
  let s1 := s.setWorker i { w with pc := .released, has := false }
  { s1 with users := s1.users - 1 }

/-- processing of the release event: a queued request of the behaviour process is granted -/
def grantQueued (s : MacState) : MacState :=
  if s.bpc = .slotWait ∧ !s.granted ∧ s.users < s.cfg.wc then { s with users := s.users + 1, granted := true, bSlot := true }
  else s

def scanCanM (cans : List Bool) (n : Nat) : List Call × Option Nat :=
  let rec go (j : Nat) (cs : List Bool) (fuel : Nat) (acc : List Call) : List Call × Option Nat :=
    match fuel, cs with
    | 0, _ => (acc, none)
    | _ + 1, [] => (acc ++ [.bad], none)          -- an out-edge was not probed although none before it had room
    | f + 1, c :: cs => if c then (acc ++ [.can j true], some j) else go (j + 1) cs f (acc ++ [.can j false])
  go 0 cans n []

def spawnPush (s : MacState) (i : Nat) (w : Worker) (edge : Nat) (fa : Bool) : MacState × List Call :=
  let p : MPush := { ord := s.nextProc, edge := edge, item := w.item }
  ((({ s with pushes := s.pushes ++ [p], nextProc := s.nextProc + 1 }).setWorker i { w with pc := .pushWait p.ord fa, blocked := true }),
   [.spawn p.ord, .awaitProc])

def worker (s : MacState) (i : Nat) (w : Worker) (t : Nat) (a : Ans) : MacState × List Call :=
  match w.pc with
  | .start => ((s.updRep t).setWorker i { w with pc := .timer }, [.wait w.delay])
  | .timer =>
    match s.cfg.outPol with
    | .fa =>
      if s.cfg.blocking then
        let s1 := s.updRep t
        let w1 := { w with blocked := true }
        let s2 := (s1.setWorker i w1).updRep t
        let toks := (List.range s.cfg.nout).map (· + s2.nextTok)
        (({ s2 with nextTok := s2.nextTok + s.cfg.nout, openToks := s2.openToks ++ toks }).setWorker i { w1 with pc := .outAny toks },
         (List.range s.cfg.nout).map (fun j => .rp j (s2.nextTok + j)) ++ [.awaitAny s.cfg.nout])
      else
        let (calls, found) := scanCanM a.cans s.cfg.nout
        match found with
        | some j =>
          let s1 := ({ s with outsel := s.outsel ++ [j] }).updRep t
          let w1 := { w with blocked := true }
          let s2 := (s1.setWorker i w1).updRep t
          let (s3, c) := s2.spawnPush i w1 j true
          (s3, calls ++ c)
        | none =>
          let s1 := { s with discarded := s.discarded + 1, dropped := s.dropped ++ [w.item] }
          (s1.release i w, calls ++ [.awaitReq])
    | _ =>
      let (k?, rr', c0) := selIdx s.cfg.outPol s.rrOut s.cfg.nout a
      match k? with
      | none => ({ s with flagged := true }, [.bad])
      | some k =>
        if k < 0 ∨ k ≥ s.cfg.nout then (({ s with rrOut := rr' }).setWorker i { w with pc := .crashed }, c0 ++ [.crash .assertion])
        else
          let j := k.toNat
          let w1 := { w with blocked := true }
          let s1 := (({ s with rrOut := rr', outsel := s.outsel ++ [j] }).setWorker i w1).updRep t
          if s.cfg.blocking then
            (({ s1 with nextTok := s1.nextTok + 1, openToks := s1.openToks ++ [s1.nextTok] }).setWorker i { w1 with pc := .outTok j s1.nextTok },
             c0 ++ [.rp j s1.nextTok, .awaitTok])
          else
            match a.cans with
            | true :: _ =>
              let (s2, c) := s1.spawnPush i w1 j false
              (s2, c0 ++ [.can j true] ++ c)
            | false :: _ =>
              let s2 := { s1 with discarded := s1.discarded + 1, dropped := s1.dropped ++ [w.item] }
              (s2.release i w1, c0 ++ [.can j false, .awaitReq])
            | [] => ({ s with flagged := true }, [.bad])
  | .outAny toks =>
    match firstTrig toks a.trig with
    | some idx =>
      let tok := toks.getD idx 0
      let cancels := (others toks idx).map (fun p => Call.cp p.1 p.2)
      let s1 := { s with outsel := s.outsel ++ [idx], processed := s.processed + 1, pushedItems := s.pushedItems ++ [w.item],
                         openToks := s.openToks.filter (fun x => !toks.contains x) }
      let s2 := s1.updRep t
      (s2.release i w, cancels ++ [.put idx tok w.item, .awaitReq])
    | none => (s.setWorker i { w with pc := .crashed }, [.crash .value])
  | .outTok e tok =>
    if !a.trig.contains tok then ({ s with flagged := true }, [.bad]) else
    let s1 := { s with processed := s.processed + 1, pushedItems := s.pushedItems ++ [w.item],
                       openToks := s.openToks.filter (· != tok) }
    (s1.release i w, [.put e tok w.item, .awaitReq])
  | .pushWait sub fa =>
    match s.pushes.find? (fun p => p.ord = sub) with
    | some p =>
      if !p.done || w.has then ({ s with flagged := true }, [.bad]) else     -- done ⇒ the item was handed over
      let s1 := { s with processed := s.processed + 1 }
      let s2 := if fa then s1.updRep t else s1
      (s2.release i w, [.awaitReq])
    | none => ({ s with flagged := true }, [.bad])
  | .released =>
    let s0 := s.grantQueued
    if s0.numWorkers ≥ s0.occ.length then (s0.setWorker i { w with pc := .done, inList := false }, [.crash .index]) else
    let s1 := s0.setWorker i { w with pc := .done, inList := false }
    (((s1.occRemove t).updRep t), [])
  | .done => ({ s with flagged := true }, [.bad])
  | .crashed => ({ s with flagged := true }, [.bad])

def pushStep (s : MacState) (p : MPush) (a : Ans) : MacState × List Call :=
  match p.tok with
  | none =>
    let p' := { p with tok := some s.nextTok }
    ({ s with pushes := s.pushes.map (fun q => if q.ord = p.ord then p' else q), nextTok := s.nextTok + 1,
              openToks := s.openToks ++ [s.nextTok] }, [.rp p.edge s.nextTok, .awaitTok])
  | some tok =>
    if p.done ∨ !a.trig.contains tok then ({ s with flagged := true }, [.bad])
    else
      -- the worker that waits for this sub-process hands its item over
      match s.workers.findIdx? (fun w => match w.pc with | .pushWait sub _ => sub = p.ord && w.has | _ => false) with
      | none => ({ s with flagged := true }, [.bad])
      | some i =>
        match s.workers[i]? with
        | none => ({ s with flagged := true }, [.bad])
        | some w =>
          let p' := { p with done := true }
          (({ s with pushes := s.pushes.map (fun (q : MPush) => if q.ord = p.ord then p' else q),
                     pushedItems := s.pushedItems ++ [w.item], openToks := s.openToks.filter (· != tok) }).setWorker i { w with has := false },
           [.put p.edge tok w.item])

def step (s0 : MacState) (proc t : Nat) (a : Ans) : MacState × List Call :=
  if t < s0.now then ({ s0 with flagged := true }, [.bad]) else      -- the kernel's clock never runs backwards
  let s := { s0 with now := t }
  if proc = 0 then s.behaviour t a
  else match s.workers.findIdx? (fun w => w.ord = proc) with
    | some i =>
      match s.workers[i]? with
      | some w => s.worker i w t a
      | none => ({ s with flagged := true }, [.bad])
    | none =>
      match s.pushes.find? (fun p => p.ord = proc) with
      | some p => s.pushStep p a
      | none => ({ s with flagged := true }, [.bad])

def showRep (r : Option (Int × Int)) : String :=
  match r with | some (p, b) => s!"{p},{b}" | none => "-"

def stats (s : MacState) : String :=
  s!"proc={s.processed} disc={s.discarded} last={match s.last with | some l => toString l | none => "-"} rep={showRep s.rep} tt={s.tt.toList} occ={s.occ} insel={s.insel} outsel={s.outsel} pd={s.pds}"

/-- items currently held by the machine: pulled, neither pushed nor dropped -/
def held (s : MacState) : List Nat := (s.workers.filter (·.has)).map (·.item)

end MacState
end FsVerif
