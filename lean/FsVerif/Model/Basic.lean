/-
Shared vocabulary of all store models: items, tokens, Python-list helpers, the stable
priority sort that `list.sort(key=...)` performs, results and errors.
Core Lean only (no Mathlib) so that the driver can be run with `lake env lean --run`.
-/
namespace FsVerif

/-- Retrieval filters the harness can express (the filter store accepts any callable; the
    correspondence check draws from this family).  `dflt` is the library's own default
    `lambda x: env.now >= x.put_time + trigger_delay`. -/
inductive Filt where
  | dflt | always | never | kindEq (k : Nat) | idEven
  deriving DecidableEq, Repr, Inhabited

structure Item where
  id : Nat
  kind : Nat := 0
  deriving DecidableEq, Repr, Inhabited

/-- A reservation token = the `simpy.Event` returned by `reserve_put` / `reserve_get`. -/
structure Tok where
  id : Nat
  proc : Nat
  prio : Int := 0
  filt : Filt := .always
  deriving DecidableEq, Repr, Inhabited

inductive Err where
  | runtime | value | index | attribute | assertion | type | unbound
  deriving DecidableEq, Repr, Inhabited

def Err.name : Err → String
  | .runtime => "RuntimeError" | .value => "ValueError" | .index => "IndexError"
  | .attribute => "AttributeError" | .assertion => "AssertionError" | .type => "TypeError"
  | .unbound => "UnboundLocalError"

/-- Python `list.insert(i, x)` (index clamped to the length). -/
def pyInsert {α} (l : List α) (i : Nat) (a : α) : List α := l.take i ++ a :: l.drop i

/-- Insert `t` into a queue sorted by priority, after every entry of priority `≤ t.prio`. -/
def insSorted (t : Tok) : List Tok → List Tok
  | [] => [t]
  | x :: xs => if t.prio < x.prio then t :: x :: xs else x :: insSorted t xs

/-- Stable sort by priority (what `list.sort(key=lambda e: e.priority)` computes). -/
def stableSort (l : List Tok) : List Tok := l.foldl (fun acc x => insSorted x acc) []

def findTok (l : List Tok) (tid : Nat) : Option Tok := l.find? (fun t => t.id == tid)

def showNats (l : List Nat) : String := " ".intercalate (l.map toString)

end FsVerif
