/-
Model of base/fleet_store.py (FleetStore) and of the queries of edges/fleet.py (Fleet), after the
repair cbd3dcc (a trip carries exactly the items waiting at departure).

The reservation / binding part of FleetStore is BufferStore's FIFO code without the per-item delay
process; the model embeds the BufferStore model (`b : BufStore`, mode FIFO, its timer list unused)
so that its proved invariant carries over.  What is new is the fleet itself: one activation
process (`fleet_activation_process`: any_of(timeout(delay), activate_fleet)) and one process per trip
(`move_to_ready_items`: two transit timeouts, then the batch is moved).  Their events live in an
explicit SimPy queue ordered by (time, priority, schedule order); `ev` processes exactly the head
event, `adv` moves the clock and refuses to jump over a pending event.
-/
import FsVerif.Model.BufStore
namespace FsVerif

inductive FKind where
  | procInit              -- Initialize of the activation process (scheduled by the constructor)
  | tmo (g : Nat)         -- the activation timeout of generation g
  | act (a : Nat)         -- activate_fleet instance a (capacity reached)
  | cond (g : Nat)        -- the any_of of generation g
  | init (m : Nat)        -- Initialize of trip m
  | tr1 (m : Nat)         -- first transit timeout of trip m
  | tr2 (m : Nat)         -- second transit timeout of trip m
  deriving Repr, DecidableEq, Inhabited

structure KEv where
  time : Nat
  urgent : Bool := false
  seq : Nat
  kind : FKind
  deriving Repr, DecidableEq, Inhabited

/-- SimPy's heap order: (time, priority, insertion count) -/
def KEv.before (a b : KEv) : Bool :=
  a.time < b.time || (a.time == b.time && ((a.urgent && !b.urgent) || (a.urgent == b.urgent && a.seq < b.seq)))

def insEv (e : KEv) : List KEv → List KEv
  | [] => [e]
  | x :: xs => if e.before x then e :: x :: xs else x :: insEv e xs

structure Trip where
  id : Nat
  batch : List BEntry
  depart : Nat                    -- ghost: departure time
  lo : Nat := 0                   -- ghost: the batch is made of the puts number lo … hi-1
  hi : Nat := 0
  deriving Repr, DecidableEq, Inhabited

structure FleetCfg where
  cap : Option Nat
  delay : Nat
  transit : Nat
  deriving Repr, DecidableEq, Inhabited

structure FleetStore where
  cfg : FleetCfg
  b : BufStore
  queue : List KEv := []
  nextSeq : Nat := 0
  started : Bool := false
  gen : Nat := 0
  condFired : Bool := false
  curAct : Nat := 0
  actTriggered : Bool := false
  actProcessed : Bool := false
  inTransit : List BEntry := []
  trips : List Trip := []          -- trips under way
  nextTrip : Nat := 0
  flagged : Bool := false          -- `adv` was asked to jump over a pending event (never by the harness)
  -- ghost
  departed : List Trip := []       -- every trip that ever left, in departure order
  upTo : Nat := 0                  -- every put with ordinal < upTo has left with some trip
  readyAt : List (Nat × Nat) := [] -- (put ordinal of the entry, time at which it became retrievable)
  newReady : List Nat := []        -- ids of the items that became retrievable during the current step (output only)
  deriving Repr, Inhabited

namespace FleetStore

def init (cfg : FleetCfg) : FleetStore :=
  { cfg := cfg, b := BufStore.init { cap := cfg.cap, mode := .fifo },
    queue := [{ time := 0, urgent := true, seq := 0, kind := .procInit }], nextSeq := 1 }

def now (s : FleetStore) : Nat := s.b.now

def sched (s : FleetStore) (time : Nat) (urgent : Bool) (k : FKind) : FleetStore :=
  { s with queue := insEv { time := time, urgent := urgent, seq := s.nextSeq, kind := k } s.queue, nextSeq := s.nextSeq + 1 }

/-- the loop head of `fleet_activation_process`: a new timeout, a new any_of over it and activate_fleet -/
def enterLoop (s : FleetStore) : FleetStore :=
  let s1 := ({ s with gen := s.gen + 1, condFired := false }).sched (s.now + s.cfg.delay) false (.tmo (s.gen + 1))
  if s1.actProcessed then { s1.sched s1.now false (.cond s1.gen) with condFired := true } else s1

/-- entries loaded and not yet under way -/
def waiting (s : FleetStore) : List BEntry := s.b.transit.filter (fun e => !s.inTransit.contains e)

/-- the loop body after the any_of fired: depart with what is waiting, re-arm activate_fleet -/
def body (s : FleetStore) : FleetStore :=
  let w := s.waiting
  let s1 := if w.isEmpty then s else
    let t : Trip := { id := s.nextTrip, batch := w, depart := s.now, lo := s.upTo, hi := s.b.putLog.length }
    ({ s with inTransit := s.inTransit ++ w, trips := s.trips ++ [t], nextTrip := s.nextTrip + 1,
              departed := s.departed ++ [t], upTo := s.b.putLog.length }).sched s.now true (.init s.nextTrip)
  let s2 := if s1.actTriggered then { s1 with curAct := s1.curAct + 1, actTriggered := false, actProcessed := false } else s1
  s2.enterLoop

/-- `len(self.ready_items) < self.capacity` -/
def readyRoom (cfg : FleetCfg) (b : BufStore) : Bool :=
  match cfg.cap with | none => true | some c => decide (b.ready.length < c)

/-- one item of an arriving batch: `items.index`, pop, `in_transit.remove`, append to ready_items, the two triggers -/
def moveOne (s : FleetStore) (e : BEntry) : FleetStore :=
  if !s.b.transit.contains e then { s with b := { s.b with crashed := true } }       -- items.index(item): ValueError
  else
    if readyRoom s.cfg s.b then
      { s with b := ((s.b.arrive e).trigGet).trigPut, inTransit := s.inTransit.erase e,
               readyAt := s.readyAt ++ [(e.seq, s.now)], newReady := s.newReady ++ [e.item.id] }
    else { s with b := { s.b with transit := s.b.transit.erase e, crashed := true }, inTransit := s.inTransit.erase e }

def arriveTrip (s : FleetStore) (m : Nat) : FleetStore :=
  match s.trips.find? (fun t => t.id == m) with
  | none => s
  | some t =>
    -- the trip process ends with this step: it is no longer under way
    t.batch.foldl (fun s e => if s.b.crashed then s else s.moveOne e) { s with trips := s.trips.filter (fun t => t.id != m) }

def handle (s : FleetStore) (k : FKind) : FleetStore :=
  match k with
  | .procInit => ({ s with started := true }).enterLoop
  | .tmo g => if s.started ∧ g = s.gen ∧ !s.condFired then { s.sched s.now false (.cond g) with condFired := true } else s
  | .act a =>
    let s1 := if a = s.curAct then { s with actProcessed := true } else s
    if s.started ∧ a = s.curAct ∧ !s.condFired then { s1.sched s1.now false (.cond s1.gen) with condFired := true } else s1
  | .cond g => if g = s.gen then s.body else s
  | .init m => s.sched (s.now + s.cfg.transit) false (.tr1 m)
  | .tr1 m => s.sched (s.now + s.cfg.transit) false (.tr2 m)
  | .tr2 m => s.arriveTrip m

/-- `env.step()`: pop the head of the queue, move the clock to it, run its callbacks -/
def ev (s : FleetStore) : FleetStore :=
  match s.queue with
  | [] => s
  | e :: q => ({ s with queue := q, b := s.b.setNow (max s.now e.time) }).handle e.kind

/-- `env.run(until=now+dt)` when nothing is scheduled before that instant -/
def adv (s : FleetStore) (dt : Nat) : FleetStore :=
  match s.queue with
  | e :: _ => if e.time < s.now + dt then { s with flagged := true } else { s with b := s.b.setNow (s.now + dt) }
  | [] => { s with b := s.b.setNow (s.now + dt) }

def capFull (cfg : FleetCfg) (b : BufStore) : Bool :=
  match cfg.cap with | none => false | some c => decide (b.level = c)

/-- `if len(items) + len(ready_items) == capacity and not activate_fleet.triggered: activate_fleet.succeed()` -/
def trigger (s : FleetStore) : FleetStore :=
  if capFull s.cfg s.b && !s.actTriggered then ({ s with actTriggered := true }).sched s.now false (.act s.curAct) else s

/-- `_do_put` + `put`: BufferStore's put without the move process, a second reserve-get trigger, the capacity trigger -/
def put (s : FleetStore) (proc tid : Nat) (x : Item) : FleetStore × BufStore.Res :=
  let (b1, r) := s.b.put proc tid x 0
  match r with
  | .ok => (({ s with b := { b1.trigGet with timers := [] } }).trigger, .ok)
  | r => ({ s with b := b1 }, r)

inductive Op where
  | reservePut (proc : Nat)
  | reserveGet (proc : Nat)
  | reservePutP (proc : Nat) (prio : Int)      -- FleetStore.reserve_put(priority=…): stable re-sort of the queue
  | reserveGetP (proc : Nat) (prio : Int)
  | put (proc tid : Nat) (x : Item)
  | get (proc tid : Nat)
  | cancelPut (tid : Nat)
  | cancelGet (tid : Nat)
  | adv (dt : Nat)
  | ev
  | final
  deriving Repr, DecidableEq, Inhabited

def liftB (s : FleetStore) (r : BufStore × BufStore.Res) : FleetStore × BufStore.Res := ({ s with b := r.1 }, r.2)

def step (s0 : FleetStore) (op : Op) : FleetStore × BufStore.Res :=
  let s := { s0 with b := { s0.b with fired := [] }, newReady := [] }
  match op with
  | .reservePut p => s.liftB (s.b.reservePutP p 0)      -- `reserve_put()` is `reserve_put(priority=0)`: the queue is re-sorted every time
  | .reserveGet p => s.liftB (s.b.reserveGetP p 0)
  | .reservePutP p pr => s.liftB (s.b.reservePutP p pr)
  | .reserveGetP p pr => s.liftB (s.b.reserveGetP p pr)
  | .put p t x => s.put p t x
  | .get p t => s.liftB (s.b.get p t)
  | .cancelPut t => s.liftB (s.b.cancelPut t)
  | .cancelGet t => s.liftB (s.b.cancelGet t)
  | .adv dt => (s.adv dt, .unit)
  | .ev => (s.ev, .unit)
  | .final => ({ s with b := s.b.final }, .unit)

def run (s : FleetStore) (ops : List Op) : FleetStore := ops.foldl (fun s op => (s.step op).1) s

/-- Fleet.can_put / can_get / get_occupancy -/
def canPut (s : FleetStore) : Bool := s.b.canPut
def canGet (s : FleetStore) : Bool := s.b.canGet

end FleetStore
end FsVerif
