/-
Model of the slotted conveyor: edges/slotted_conveyor.py (ConveyorBelt) on top of
base/slotted_belt_store.py (BeltStore, FIFO).

What is modelled is the conveyor AS IT BEHAVES: `ConveyorBelt.behaviour` parks forever on
`item_arrival_event`, which nothing triggers (defect D9, known finding), so the state machine never
leaves IDLE_STATE, `noaccumulation_mode_on` stays False and no move process is ever interrupted.  The
interrupt / pattern / resume code of the belt store is therefore unreachable through this edge and is
not part of the model; the `accumulating` flag has no effect.  The correspondence check would expose
any history in which this is not so (the store's `noaccumulation_mode_on` is part of the probe).

Kernel events are explicit (as in Model/FleetStore.lean): per item the Initialize of its move process
(URGENT), the phase-1 timeout (one slot delay: the item has fully entered), the one-shot event whose
callback re-runs `_trigger_reserve_put`, the phase-2 timeout ((capacity-1) slot delays).
-/
import FsVerif.Model.Basic
namespace FsVerif

structure SEntry where
  item : Item
  entry : Nat         -- conveyor_entry_time
  seq : Nat           -- ghost: put ordinal
  deriving Repr, DecidableEq, Inhabited

inductive SKind where
  | init (q : Nat)      -- Initialize of the move process of put number q
  | ph1 (q : Nat)       -- phase 1 over: the item has entered
  | retrig              -- the event with callback `_trigger_reserve_put`
  | ph2 (q : Nat)       -- phase 2 over: the item is at the exit
  deriving Repr, DecidableEq, Inhabited

structure SEv where
  time : Nat
  urgent : Bool := false
  seq : Nat
  kind : SKind
  deriving Repr, DecidableEq, Inhabited

def SEv.before (a b : SEv) : Bool :=
  a.time < b.time || (a.time == b.time && ((a.urgent && !b.urgent) || (a.urgent == b.urgent && a.seq < b.seq)))

def insSEv (e : SEv) : List SEv → List SEv
  | [] => [e]
  | x :: xs => if e.before x then e :: x :: xs else x :: insSEv e xs

structure SlotCfg where
  cap : Nat
  delay : Nat
  deriving Repr, DecidableEq, Inhabited

structure SlotBelt where
  cfg : SlotCfg
  now : Nat := 0
  nextTid : Nat := 0
  items : List SEntry := []            -- moving, in entry order
  ready : List SEntry := []            -- at the exit
  putQ : List Tok := []
  putRes : List Tok := []
  getQ : List Tok := []
  getRes : List Tok := []
  resEv : List Tok := []
  resItems : List SEntry := []
  queue : List SEv := []
  nextSeq : Nat := 0
  nput : Nat := 0
  crashed : Bool := false
  flagged : Bool := false
  wsum : Nat := 0
  lastLevel : Nat := 0
  lastChange : Nat := 0
  avgNum : Nat := 0
  avgDen : Nat := 1
  fired : List (Nat × Nat) := []
  newReady : List Nat := []            -- output: ids that reached the exit in the current step
  -- ghost
  entered : List SEntry := []          -- every entry ever put, in put order
  readyAt : List (Nat × Nat) := []     -- (put ordinal, time at which it reached the exit), in that order
  gotLog : List Item := []
  deriving Repr, Inhabited

namespace SlotBelt

def init (cfg : SlotCfg) : SlotBelt := { cfg := cfg }

def level (s : SlotBelt) : Nat := s.items.length + s.ready.length

def sched (s : SlotBelt) (time : Nat) (urgent : Bool) (k : SKind) : SlotBelt :=
  { s with queue := insSEv { time := time, urgent := urgent, seq := s.nextSeq, kind := k } s.queue, nextSeq := s.nextSeq + 1 }

/-- `_do_reserve_put`'s test (with noaccumulation_mode_on = False): no granted-unused space reservation
(one item enters at a time), room, and the last item entered at least one slot delay ago -/
def admits (s : SlotBelt) : Bool :=
  s.putRes.isEmpty && decide (s.putRes.length + s.level < s.cfg.cap) &&
  (match s.items.getLast? with
   | none => true
   | some e => decide (e.entry + s.cfg.delay ≤ s.now))

def trigPut (s : SlotBelt) : SlotBelt :=
  match s.putQ with
  | [] => s
  | t :: q =>
    if s.admits then { s with putQ := q, putRes := s.putRes ++ [t], fired := s.fired ++ [(t.id, s.now)] } else s

def trigGet (s : SlotBelt) : SlotBelt :=
  match s.getQ with
  | [] => s
  | t :: q =>
    if s.getRes.length < s.ready.length then
      match s.ready[s.resEv.length]? with
      | some e => { s with getQ := q, getRes := s.getRes ++ [t], resEv := s.resEv ++ [t], resItems := s.resItems ++ [e],
                           fired := s.fired ++ [(t.id, s.now)] }
      | none => { s with getQ := q, getRes := s.getRes ++ [t], fired := s.fired ++ [(t.id, s.now)], crashed := true }
    else s

def updLevel (s : SlotBelt) : SlotBelt :=
  let w := s.wsum + s.lastLevel * (s.now - s.lastChange)
  { s with wsum := w, lastChange := s.now, lastLevel := s.level,
           avgNum := if s.now > 0 then w else 0, avgDen := if s.now > 0 then s.now else 1 }

inductive Res where
  | ok | tok (id : Nat) | item (x : Item) | err (e : Err) | unit
  deriving Repr, DecidableEq, Inhabited

def reservePut (s : SlotBelt) (proc : Nat) : SlotBelt × Res :=
  let t : Tok := { id := s.nextTid, proc := proc }
  (({ s with nextTid := s.nextTid + 1, putQ := s.putQ ++ [t] }).trigPut, .tok t.id)

def reserveGet (s : SlotBelt) (proc : Nat) : SlotBelt × Res :=
  let t : Tok := { id := s.nextTid, proc := proc }
  (({ s with nextTid := s.nextTid + 1, getQ := s.getQ ++ [t] }).trigGet, .tok t.id)

/-- BeltStore.reserve_put(priority) of the slotted store: the queue is re-sorted (stably) by priority after the append -/
def reservePutP (s : SlotBelt) (proc : Nat) (prio : Int) : SlotBelt × Res :=
  let t : Tok := { id := s.nextTid, proc := proc, prio := prio }
  (({ s with nextTid := s.nextTid + 1, putQ := stableSort (s.putQ ++ [t]) }).trigPut, .tok t.id)

def reserveGetP (s : SlotBelt) (proc : Nat) (prio : Int) : SlotBelt × Res :=
  let t : Tok := { id := s.nextTid, proc := proc, prio := prio }
  (({ s with nextTid := s.nextTid + 1, getQ := stableSort (s.getQ ++ [t]) }).trigGet, .tok t.id)

/-- ConveyorBelt.put → BeltStore.put → _do_put (+ the Initialize of the move process) → _trigger_reserve_get -/
def put (s : SlotBelt) (proc tid : Nat) (x : Item) : SlotBelt × Res :=
  if s.putRes.isEmpty then (s, .err .runtime) else
  match s.putRes.find? (fun t => t.id == tid && t.proc == proc) with
  | none => (s, .err .runtime)
  | some t =>
    let s1 := { s with putRes := s.putRes.erase t }
    if s1.level < s.cfg.cap then
      let e : SEntry := { item := x, entry := s.now, seq := s.nput }
      let s2 := ({ s1 with items := s1.items ++ [e], nput := s.nput + 1, entered := s.entered ++ [e] }).updLevel
      ((s2.sched s.now true (.init e.seq)).trigGet, .ok)
    else (s1, .err .runtime)

def removeItem (l : List SEntry) (x : Item) : List SEntry :=
  match l.findIdx? (fun e => e.item.id == x.id) with
  | some i => l.eraseIdx i
  | none => l

def get (s : SlotBelt) (proc tid : Nat) : SlotBelt × Res :=
  if s.getRes.isEmpty then (s, .err .runtime) else
  match s.getRes.find? (fun t => t.id == tid && t.proc == proc) with
  | none => (s, .err .runtime)
  | some t =>
    if s.resEv.idxOf t ≥ s.resEv.length then (s, .err .value) else
    match s.resItems[s.resEv.idxOf t]? with
    | none => ({ s with getRes := s.getRes.erase t, resEv := s.resEv.eraseIdx (s.resEv.idxOf t) }, .err .value)
    | some e =>
      let s1 := { s with getRes := s.getRes.erase t, resEv := s.resEv.eraseIdx (s.resEv.idxOf t),
                         resItems := s.resItems.eraseIdx (s.resEv.idxOf t) }
      if s.ready.any (fun r => r.item.id == e.item.id) then
        ((({ s1 with ready := removeItem s.ready e.item, gotLog := s.gotLog ++ [e.item] }).updLevel).trigPut, .item e.item)
      else (s1, .err .value)

def cancelPut (s : SlotBelt) (tid : Nat) : SlotBelt × Res :=
  match findTok s.putQ tid with
  | some t => (({ s with putQ := s.putQ.erase t }).trigPut, .ok)
  | none =>
    match findTok s.putRes tid with
    | some t => (({ s with putRes := s.putRes.erase t }).trigPut, .ok)
    | none => (s, .err .runtime)

def cancelGet (s : SlotBelt) (tid : Nat) : SlotBelt × Res :=
  match findTok s.getQ tid with
  | some t => (({ s with getQ := s.getQ.erase t }).trigGet, .ok)
  | none =>
    match findTok s.getRes tid with
    | some t =>
      if s.resEv.idxOf t ≥ s.resEv.length then ({ s with getRes := s.getRes.erase t }, .err .value) else
      match s.resItems[s.resEv.idxOf t]? with
      | none => ({ s with getRes := s.getRes.erase t }, .err .index)
      | some e =>
        let s1 := { s with getRes := s.getRes.erase t, resEv := s.resEv.eraseIdx (s.resEv.idxOf t),
                           resItems := s.resItems.eraseIdx (s.resEv.idxOf t) }
        if s.ready.any (fun r => r.item.id == e.item.id) then
          (({ s1 with ready := pyInsert (removeItem s.ready e.item) s1.resEv.length e }).trigGet, .ok)
        else (s1, .err .runtime)
    | none => (s, .err .runtime)

/-- the item of put number q reaches the exit: `items.index`, pop, capacity test, ready_items.append, the two triggers -/
def arrive (s : SlotBelt) (q : Nat) : SlotBelt :=
  match s.items.find? (fun e => e.seq == q) with
  | none => { s with crashed := true }
  | some e =>
    let rest := s.items.erase e
    if s.ready.length + rest.length < s.cfg.cap then
      (({ s with items := rest, ready := s.ready ++ [e], readyAt := s.readyAt ++ [(q, s.now)],
                 newReady := s.newReady ++ [e.item.id] }).trigGet).trigPut
    else { s with items := rest, crashed := true }

def handle (s : SlotBelt) (k : SKind) : SlotBelt :=
  match k with
  | .init q =>
    if s.cfg.delay > 0 then s.sched (s.now + s.cfg.delay) false (.ph1 q)
    else if (s.cfg.cap - 1) * s.cfg.delay > 0 then s.sched (s.now + (s.cfg.cap - 1) * s.cfg.delay) false (.ph2 q)
    else s.arrive q
  | .ph1 q =>
    let s1 := s.sched s.now false .retrig
    if (s.cfg.cap - 1) * s.cfg.delay > 0 then s1.sched (s.now + (s.cfg.cap - 1) * s.cfg.delay) false (.ph2 q)
    else s1.arrive q
  | .retrig => s.trigPut
  | .ph2 q => s.arrive q

def ev (s : SlotBelt) : SlotBelt :=
  match s.queue with
  | [] => s
  | e :: q => ({ s with queue := q, now := max s.now e.time }).handle e.kind

def adv (s : SlotBelt) (dt : Nat) : SlotBelt :=
  match s.queue with
  | e :: _ => if e.time < s.now + dt then { s with flagged := true } else { s with now := s.now + dt }
  | [] => { s with now := s.now + dt }

inductive Op where
  | reservePut (proc : Nat)
  | reserveGet (proc : Nat)
  | reservePutP (proc : Nat) (prio : Int)
  | reserveGetP (proc : Nat) (prio : Int)
  | put (proc tid : Nat) (x : Item)
  | get (proc tid : Nat)
  | cancelPut (tid : Nat)
  | cancelGet (tid : Nat)
  | adv (dt : Nat)
  | ev
  | final
  deriving Repr, DecidableEq, Inhabited

def step (s0 : SlotBelt) (op : Op) : SlotBelt × Res :=
  let s := { s0 with fired := [], newReady := [] }
  match op with
  | .reservePut p => s.reservePutP p 0          -- `reserve_put()` is `reserve_put(priority=0)`: the queue is re-sorted every time
  | .reserveGet p => s.reserveGetP p 0
  | .reservePutP p pr => s.reservePutP p pr
  | .reserveGetP p pr => s.reserveGetP p pr
  | .put p t x => s.put p t x
  | .get p t => s.get p t
  | .cancelPut t => s.cancelPut t
  | .cancelGet t => s.cancelGet t
  | .adv dt => (s.adv dt, .unit)
  | .ev => (s.ev, .unit)
  | .final => (s.updLevel, .unit)

def run (s : SlotBelt) (ops : List Op) : SlotBelt := ops.foldl (fun s op => (s.step op).1) s

end SlotBelt
end FsVerif
