/-
Model of base/buffer_store.py (BufferStore: FCFS queues, per-item delay, FIFO/LIFO, explicit
binding `reserved_events` / `reserved_items`) and of the edge wrapper edges/buffer.py (Buffer:
can_put / can_get / occupancy / final average).  Mirrors the code after the two repairs
(ca418e5 FIFO re-insertion index, a7399f6 LIFO block kept on top).
Internal events (one `move_to_ready_items` process per put) are a timer queue ordered by
(due time, put order) — the order in which SimPy fires the corresponding `Timeout`s.
-/
import FsVerif.Model.Basic
namespace FsVerif

inductive Mode where | fifo | lifo
  deriving DecidableEq, Repr, Inhabited

structure BEntry where
  item : Item
  due : Nat          -- put time + delay
  seq : Nat          -- ghost: position in the put log
  deriving Repr, DecidableEq, Inhabited

structure BufCfg where
  cap : Option Nat
  mode : Mode := .fifo
  deriving Repr, DecidableEq, Inhabited

structure BufStore where
  cfg : BufCfg
  now : Nat := 0
  nextTid : Nat := 0
  transit : List BEntry := []          -- `items`: put, delay not yet elapsed (put order)
  ready : List BEntry := []            -- `ready_items`
  putQ : List Tok := []
  putRes : List Tok := []
  getQ : List Tok := []
  getRes : List Tok := []
  resEv : List Tok := []               -- reserved_events
  resItems : List BEntry := []         -- reserved_items (parallel to resEv)
  timers : List BEntry := []           -- pending move processes, ordered by (due, seq)
  crashed : Bool := false              -- an exception other than the documented ones escaped (dead under the invariant)
  wsum : Nat := 0
  lastLevel : Nat := 0
  lastChange : Nat := 0
  avgNum : Nat := 0
  avgDen : Nat := 1
  fired : List (Nat × Nat) := []
  putLog : List Item := []             -- ghost
  gotLog : List Item := []             -- ghost
  area : Nat := 0                      -- ghost ∫ (transit + ready) dt
  availLog : List Nat := []            -- ghost: seq numbers in the order in which entries became ready
  deriving Repr, Inhabited

namespace BufStore

def init (cfg : BufCfg) : BufStore := { cfg := cfg }

def level (s : BufStore) : Nat := s.transit.length + s.ready.length

def admits (s : BufStore) : Bool :=
  match s.cfg.cap with
  | none => true
  | some c => decide (s.putRes.length + s.level < c)

def serves (s : BufStore) : Bool := decide (s.getRes.length < s.ready.length)

def trigPut (s : BufStore) : BufStore :=
  match s.putQ with
  | [] => s
  | t :: q =>
    if s.admits then { s with putQ := q, putRes := s.putRes ++ [t], fired := s.fired ++ [(t.id, s.now)] }
    else s

/-- index of the item the next reservation is bound to: j-th from the bottom (FIFO) / top (LIFO) -/
def bindIdx (s : BufStore) : Option Nat :=
  let j := s.resEv.length
  match s.cfg.mode with
  | .fifo => some j
  | .lifo => if j < s.ready.length then some (s.ready.length - 1 - j) else none

def trigGet (s : BufStore) : BufStore :=
  match s.getQ with
  | [] => s
  | t :: q =>
    if s.serves then
      match s.bindIdx.bind (fun i => s.ready[i]?) with
      | some e =>
        { s with getQ := q, getRes := s.getRes ++ [t], resEv := s.resEv ++ [t], resItems := s.resItems ++ [e],
                 fired := s.fired ++ [(t.id, s.now)] }
      | none =>   -- IndexError after event.succeed(): token granted but never bound
        { s with getQ := q, getRes := s.getRes ++ [t], fired := s.fired ++ [(t.id, s.now)], crashed := true }
    else s

def updLevel (s : BufStore) : BufStore :=
  let w := s.wsum + s.lastLevel * (s.now - s.lastChange)
  { s with wsum := w, lastChange := s.now, lastLevel := s.level,
           avgNum := if s.now > 0 then w else 0, avgDen := if s.now > 0 then s.now else 1 }

inductive Op where
  | reservePut (proc : Nat)
  | reserveGet (proc : Nat)
  | put (proc tid : Nat) (x : Item) (delay : Nat)
  | get (proc tid : Nat)
  | cancelPut (tid : Nat)
  | cancelGet (tid : Nat)
  | adv (dt : Nat)
  | settle
  | kstep
  | final                         -- Buffer.update_final_buffer_avg_content(now)
  deriving Repr, DecidableEq, Inhabited

inductive Res where
  | ok | tok (id : Nat) | item (x : Item) | err (e : Err) | unit
  deriving Repr, DecidableEq, Inhabited

def reservePut (s : BufStore) (proc : Nat) : BufStore × Res :=
  let t : Tok := { id := s.nextTid, proc := proc }
  (({ s with nextTid := s.nextTid + 1, putQ := s.putQ ++ [t] }).trigPut, .tok t.id)

def reserveGet (s : BufStore) (proc : Nat) : BufStore × Res :=
  let t : Tok := { id := s.nextTid, proc := proc }
  (({ s with nextTid := s.nextTid + 1, getQ := s.getQ ++ [t] }).trigGet, .tok t.id)

/-- FleetStore.reserve_put(priority): the queue is re-sorted (stably) by priority after the append -/
def reservePutP (s : BufStore) (proc : Nat) (prio : Int) : BufStore × Res :=
  let t : Tok := { id := s.nextTid, proc := proc, prio := prio }
  (({ s with nextTid := s.nextTid + 1, putQ := stableSort (s.putQ ++ [t]) }).trigPut, .tok t.id)

def reserveGetP (s : BufStore) (proc : Nat) (prio : Int) : BufStore × Res :=
  let t : Tok := { id := s.nextTid, proc := proc, prio := prio }
  (({ s with nextTid := s.nextTid + 1, getQ := stableSort (s.getQ ++ [t]) }).trigGet, .tok t.id)

def capRoom (s : BufStore) : Bool :=
  match s.cfg.cap with
  | none => true
  | some c => decide (s.level < c)

/-- timers are kept ordered by (due, seq); a new entry has the largest seq -/
def insTimer (e : BEntry) : List BEntry → List BEntry
  | [] => [e]
  | x :: xs => if e.due < x.due then e :: x :: xs else x :: insTimer e xs

def dropPutRes (s : BufStore) (t : Tok) : BufStore := { s with putRes := s.putRes.erase t }

def addItem (s : BufStore) (x : Item) (delay : Nat) : BufStore :=
  let e : BEntry := { item := x, due := s.now + delay, seq := s.putLog.length }
  { s with transit := s.transit ++ [e], timers := insTimer e s.timers, putLog := s.putLog ++ [x] }

def put (s : BufStore) (proc tid : Nat) (x : Item) (delay : Nat) : BufStore × Res :=
  if s.putRes.isEmpty then (s, .err .runtime) else
  match s.putRes.find? (fun t => t.id == tid && t.proc == proc) with
  | none => (s, .err .runtime)
  | some t =>
    if (s.dropPutRes t).capRoom then
      -- _do_put: append, _update_time_averaged_level, spawn the move process; put(): _trigger_reserve_get
      (((((s.dropPutRes t).addItem x delay).updLevel).trigGet), .ok)
    else (s.dropPutRes t, .err .runtime)

def dropGetRes (s : BufStore) (t : Tok) : BufStore := { s with getRes := s.getRes.erase t }

/-- Python `list.remove(obj)`: first entry holding the same object. -/
def removeItem (l : List BEntry) (x : Item) : List BEntry :=
  match l.findIdx? (fun e => e.item.id == x.id) with
  | some i => l.eraseIdx i
  | none => l

def hasItem (l : List BEntry) (x : Item) : Bool := l.any (fun e => e.item.id == x.id)

/-- the reservation `t` (slot `i`, bound to `e`) is dissolved -/
def unbind (s : BufStore) (t : Tok) (i : Nat) : BufStore :=
  { s with getRes := s.getRes.erase t, resEv := s.resEv.eraseIdx i, resItems := s.resItems.eraseIdx i }

def takeEntry (s : BufStore) (e : BEntry) : BufStore :=
  { s with ready := removeItem s.ready e.item, gotLog := s.gotLog ++ [e.item] }

def get (s : BufStore) (proc tid : Nat) : BufStore × Res :=
  if s.getRes.isEmpty then (s, .err .runtime) else
  match s.getRes.find? (fun t => t.id == tid && t.proc == proc) with
  | none => (s, .err .runtime)
  | some t =>
    if s.resEv.idxOf t ≥ s.resEv.length then (s, .err .value) else        -- reserved_events.index → ValueError
    match s.resItems[s.resEv.idxOf t]? with
    | none =>                                                               -- reserved_items.pop → ValueError
      ({ s with getRes := s.getRes.erase t, resEv := s.resEv.eraseIdx (s.resEv.idxOf t) }, .err .value)
    | some e =>
      if hasItem s.ready e.item then
        ((((s.unbind t (s.resEv.idxOf t)).takeEntry e).updLevel).trigPut, .item e.item)
      else (s.unbind t (s.resEv.idxOf t), .err .value)                    -- ready_items.remove → ValueError

def cancelPut (s : BufStore) (tid : Nat) : BufStore × Res :=
  match findTok s.putQ tid with
  | some t => (({ s with putQ := s.putQ.erase t }).trigPut, .ok)
  | none =>
    match findTok s.putRes tid with
    | some t => ((s.dropPutRes t).trigPut, .ok)
    | none => (s, .err .runtime)

/-- re-insert a released entry: right behind the reserved block (FIFO) / just below it (LIFO) -/
def release (s : BufStore) (e : BEntry) : BufStore :=
  let r := removeItem s.ready e.item
  let idx := match s.cfg.mode with
    | .fifo => s.resEv.length
    | .lifo => r.length - s.resEv.length
  { s with ready := pyInsert r idx e }

def cancelGet (s : BufStore) (tid : Nat) : BufStore × Res :=
  match findTok s.getQ tid with
  | some t => (({ s with getQ := s.getQ.erase t }).trigGet, .ok)
  | none =>
    match findTok s.getRes tid with
    | some t =>
      if s.resEv.idxOf t ≥ s.resEv.length then (s.dropGetRes t, .err .value) else
      match s.resItems[s.resEv.idxOf t]? with
      | none => (s.dropGetRes t, .err .index)
      | some e =>
        if hasItem s.ready e.item then
          (((s.unbind t (s.resEv.idxOf t)).release e).trigGet, .ok)
        else (s.unbind t (s.resEv.idxOf t), .err .runtime)
    | none => (s, .err .runtime)

def setNow (s : BufStore) (d : Nat) : BufStore :=
  { s with now := d, area := s.area + s.level * (d - s.now) }

def moveRoom (s : BufStore) (e : BEntry) : Bool :=
  match s.cfg.cap with
  | none => true
  | some c => decide (s.ready.length + (s.transit.erase e).length < c)

def arrive (s : BufStore) (e : BEntry) : BufStore :=
  { s with transit := s.transit.erase e,
           ready := (match s.cfg.mode with
             | .fifo => s.ready ++ [e]
             | .lifo => pyInsert s.ready (s.ready.length - s.resEv.length) e),
           availLog := s.availLog ++ [e.seq] }

/-- `move_to_ready_items` after its timeout: the entry leaves `items` and joins `ready_items`. -/
def move (s : BufStore) (e : BEntry) : BufStore :=
  if s.moveRoom e then ((s.arrive e).trigGet).trigPut
  else { s with transit := s.transit.erase e, crashed := true }

def fireAll : List BEntry → BufStore → BufStore
  | [], s => s
  | e :: es, s => fireAll es ((s.setNow (max s.now e.due)).move e)

def adv (s : BufStore) (dt : Nat) : BufStore :=
  if dt = 0 then s else
  let bound := s.now + dt
  let due := s.timers.filter (·.due < bound)
  let s1 := fireAll due { s with timers := s.timers.filter (fun e => !(e.due < bound)) }
  s1.setNow bound

def settle (s : BufStore) : BufStore :=
  let due := s.timers.filter (·.due ≤ s.now)
  fireAll due { s with timers := s.timers.filter (fun e => !(e.due ≤ s.now)) }

/-- one internal event: the next move process that is due -/
def kstep (s : BufStore) : BufStore :=
  match s.timers with
  | [] => s
  | e :: es => if e.due ≤ s.now then ({ s with timers := es }).move e else s

def final (s : BufStore) : BufStore := s.updLevel

def step (s0 : BufStore) (op : Op) : BufStore × Res :=
  let s := { s0 with fired := [] }
  match op with
  | .reservePut p => s.reservePut p
  | .reserveGet p => s.reserveGet p
  | .put p t x d => s.put p t x d
  | .get p t => s.get p t
  | .cancelPut t => s.cancelPut t
  | .cancelGet t => s.cancelGet t
  | .adv dt => (s.adv dt, .unit)
  | .settle => (s.settle, .unit)
  | .kstep => (s.kstep, .unit)
  | .final => (s.final, .unit)

def run (s : BufStore) (ops : List Op) : BufStore := ops.foldl (fun s op => (s.step op).1) s

def Reachable (s : BufStore) : Prop := ∃ cfg ops, s = run (init cfg) ops

/-! ### the edge wrapper's queries (edges/buffer.py) -/

def canPut (s : BufStore) : Bool :=
  match s.cfg.cap with
  | none => true
  | some c => if s.level = c then false else decide (c - s.level > s.putRes.length)

def canGet (s : BufStore) : Bool :=
  if s.ready.isEmpty then false else decide (s.ready.length > s.getRes.length)

def occupancy (s : BufStore) : Nat := s.level

end BufStore
end FsVerif
