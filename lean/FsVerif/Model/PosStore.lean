/-
Model of the three positional-binding reservable stores
  base/reservable_req_store.py                  ReservableReqStore           (cfg.prio = false)
  base/reservable_priority_req_store.py         ReservablePriorityReqStore   (cfg.prio = true)
  base/reservable_priority_req_filter_store.py  ReservablePriorityReqFilterStore (cfg.filter = true)
The three files are copies of one another; the differences are exactly the configuration flags.
Every function below mirrors one method; dead branches of the code (second capacity test,
index errors) are kept and proved unreachable in Proofs/.
-/
import FsVerif.Model.Basic
namespace FsVerif

structure PosCfg where
  cap : Option Nat        -- none = float('inf')
  prio : Bool := true     -- false: reserve_* take no priority argument (FCFS store)
  filter : Bool := false  -- filter store: reserve_get(filter=…), trigger events, no statistics
  trigDelay : Nat := 0
  deriving Repr, DecidableEq, Inhabited

/-- One stored object.  `seq` (position in the put log) is ghost: the code never looks at it. -/
structure Entry where
  item : Item
  ptime : Nat        -- item.put_time (filter store)
  seq : Nat          -- ghost
  deriving Repr, DecidableEq, Inhabited

structure PosStore where
  cfg : PosCfg
  now : Nat := 0
  nextTid : Nat := 0
  items : List Entry := []            -- first resEv.length entries are the reserved ones
  putQ : List Tok := []               -- reserve_put_queue
  putRes : List Tok := []             -- reservations_put
  getQ : List Tok := []               -- reserve_get_queue
  getRes : List Tok := []             -- reservations_get
  resEv : List Tok := []              -- reserved_events
  timers : List Nat := []             -- filter store: due times of pending _add_trigger_event
  wsum : Nat := 0                     -- _weighted_sum
  lastLevel : Nat := 0                -- _last_num_items
  lastChange : Nat := 0               -- _last_level_change_time
  avgNum : Nat := 0                   -- time_averaged_num_of_items_in_store = avgNum / avgDen
  avgDen : Nat := 1
  fired : List (Nat × Nat) := []              -- tokens succeeded during the current step, in order
  putLog : List Item := []            -- ghost: items accepted by put, in order
  gotLog : List Item := []            -- ghost: items returned by get, in order
  area : Nat := 0                     -- ghost: ∫ len(items) dt since t = 0
  everRes : List Nat := []            -- ghost: seq of every entry that was ever bound to a retrieval
  deriving Repr, Inhabited

namespace PosStore

def init (cfg : PosCfg) : PosStore := { cfg := cfg }

def Filt.eval (f : Filt) (now trigDelay : Nat) (x : Entry) : Bool :=
  match f with
  | .dflt => decide (x.ptime + trigDelay ≤ now)
  | .always => true
  | .never => false
  | .kindEq k => x.item.kind == k
  | .idEven => x.item.id % 2 == 0

/-- `_do_reserve_put` admission test. -/
def admits (s : PosStore) : Bool :=
  match s.cfg.cap with
  | none => true
  | some c => decide (s.putRes.length + s.items.length < c)

/-- `_do_reserve_get` test for the request `t`. -/
def serves (s : PosStore) (t : Tok) : Bool :=
  decide (s.getRes.length < s.items.length) &&
    (if s.cfg.filter then
       (s.items.drop s.resEv.length).any (Filt.eval t.filt s.now s.cfg.trigDelay)
     else true)

/-- `_trigger_reserve_put`: `_do_reserve_put` returns None, so the loop serves at most the head. -/
def trigPut (s : PosStore) : PosStore :=
  match s.putQ with
  | [] => s
  | t :: q =>
    if s.admits then { s with putQ := q, putRes := s.putRes ++ [t], fired := s.fired ++ [(t.id, s.now)] }
    else s

/-- `_trigger_reserve_get`: same shape. -/
def trigGet (s : PosStore) : PosStore :=
  match s.getQ with
  | [] => s
  | t :: q =>
    if s.serves t then
      { s with getQ := q, getRes := s.getRes ++ [t], resEv := s.resEv ++ [t],
               fired := s.fired ++ [(t.id, s.now)],
               everRes := s.everRes ++ (s.items.drop s.resEv.length).head?.toList.map (·.seq) }
    else s

/-- `_update_time_averaged_level` (absent in the filter store). -/
def updLevel (s : PosStore) : PosStore :=
  if s.cfg.filter then s else
  let w := s.wsum + s.lastLevel * (s.now - s.lastChange)
  { s with wsum := w, lastChange := s.now, lastLevel := s.items.length,
           avgNum := if s.now > 0 then w else 0, avgDen := if s.now > 0 then s.now else 1 }

inductive Op where
  | reservePut (proc : Nat) (prio : Int)
  | reserveGet (proc : Nat) (prio : Int) (f : Filt)
  | put (proc tid : Nat) (x : Item)
  | get (proc tid : Nat)
  | cancelPut (tid : Nat)
  | cancelGet (tid : Nat)
  | adv (dt : Nat)
  | settle
  | kstep
  deriving Repr, DecidableEq, Inhabited

inductive Res where
  | ok | tok (id : Nat) | item (x : Item) | err (e : Err) | unit
  deriving Repr, DecidableEq, Inhabited

def effPrio (s : PosStore) (p : Int) : Int := if s.cfg.prio then p else 0

def reservePut (s : PosStore) (proc : Nat) (prio : Int) : PosStore × Res :=
  let t : Tok := { id := s.nextTid, proc := proc, prio := s.effPrio prio }
  let s1 := { s with nextTid := s.nextTid + 1, putQ := stableSort (s.putQ ++ [t]) }
  (s1.trigPut, .tok t.id)

def reserveGet (s : PosStore) (proc : Nat) (prio : Int) (f : Filt) : PosStore × Res :=
  let t : Tok := { id := s.nextTid, proc := proc, prio := s.effPrio prio,
                   filt := if s.cfg.filter then f else .always }
  let s1 := { s with nextTid := s.nextTid + 1, getQ := stableSort (s.getQ ++ [t]) }
  (s1.trigGet, .tok t.id)

def restamp (l : List Entry) (id now : Nat) : List Entry :=
  l.map fun e => if e.item.id = id then { e with ptime := now } else e

def capRoom (s : PosStore) : Bool :=
  match s.cfg.cap with
  | none => true
  | some c => decide (s.items.length < c)

/-- filter store: `env.process(self._add_trigger_event())`, executed before the capacity test. -/
def addTimer (s : PosStore) : PosStore :=
  if s.cfg.filter then { s with timers := s.timers ++ [s.now + s.cfg.trigDelay] } else s

def dropPutRes (s : PosStore) (t : Tok) : PosStore := { s with putRes := s.putRes.erase t }

/-- `self.items.append(item)`; `item.put_time = now` is an attribute of the object, so an object
    stored twice is re-stamped (filter store; harmless elsewhere). -/
def addItem (s : PosStore) (x : Item) : PosStore :=
  { s with items := restamp s.items x.id s.now ++ [{ item := x, ptime := s.now, seq := s.putLog.length }],
           putLog := s.putLog ++ [x] }

/-- `put` → `_trigger_put` → `_do_put`. -/
def put (s : PosStore) (proc tid : Nat) (x : Item) : PosStore × Res :=
  if s.putRes.isEmpty then (s, .err .runtime) else
  match s.putRes.find? (fun t => t.id == tid && t.proc == proc) with
  | none => (s, .err .runtime)
  | some t =>
    if ((s.dropPutRes t).addTimer).capRoom then
      (((((s.dropPutRes t).addTimer).addItem x).trigGet).updLevel, .ok)
    else ((s.dropPutRes t).addTimer, .err .runtime)   -- second capacity test failed: reservation consumed

def dropGetRes (s : PosStore) (t : Tok) : PosStore := { s with getRes := s.getRes.erase t }

/-- remove the item bound to slot `i` and hand it out. -/
def takeItem (s : PosStore) (i : Nat) (x : Item) : PosStore :=
  { s with items := s.items.eraseIdx i, resEv := s.resEv.eraseIdx i, gotLog := s.gotLog ++ [x] }

/-- `get` → `_trigger_get` → `_do_get`. -/
def get (s : PosStore) (proc tid : Nat) : PosStore × Res :=
  if s.getRes.isEmpty then (s, .err .runtime) else
  match s.getRes.find? (fun t => t.id == tid && t.proc == proc) with
  | none => (s, .err .runtime)
  | some t =>
    if s.resEv.idxOf t ≥ s.resEv.length then (s, .err .value) else        -- list.index → ValueError
    match s.items[s.resEv.idxOf t]? with
    | none => (s.dropGetRes t, .err .index)                                 -- items.pop(i) → IndexError
    | some e =>
      ((((s.dropGetRes t).takeItem (s.resEv.idxOf t) e.item).trigPut).updLevel, .item e.item)

def cancelPut (s : PosStore) (tid : Nat) : PosStore × Res :=
  match findTok s.putQ tid with
  | some t => (({ s with putQ := s.putQ.erase t }).trigPut, .ok)
  | none =>
    match findTok s.putRes tid with
    | some t => ((s.dropPutRes t).trigPut, .ok)
    | none => (s, .err .runtime)

/-- release slot `i`: its item moves to the head of the unreserved part. -/
def releaseItem (s : PosStore) (i : Nat) (it : Entry) : PosStore :=
  { s with items := pyInsert (s.items.eraseIdx i) (s.resEv.length - 1) it,
           resEv := s.resEv.eraseIdx i }

def cancelGet (s : PosStore) (tid : Nat) : PosStore × Res :=
  match findTok s.getQ tid with
  | some t => (({ s with getQ := s.getQ.erase t }).trigGet, .ok)
  | none =>
    match findTok s.getRes tid with
    | some t =>
      if s.resEv.idxOf t ≥ s.resEv.length then (s.dropGetRes t, .err .value) else
      match s.items[s.resEv.idxOf t]? with
      | none => (s.dropGetRes t, .err .index)
      | some it => (((s.dropGetRes t).releaseItem (s.resEv.idxOf t) it).trigGet, .ok)
    | none => (s, .err .runtime)

/-- The clock moves to `d`; the ghost occupancy integral follows. -/
def setNow (s : PosStore) (d : Nat) : PosStore :=
  { s with now := d, area := s.area + s.items.length * (d - s.now) }

/-- Fire the given trigger events (each is one `_trigger_reserve_get` call at its due time). -/
def fireAll : List Nat → PosStore → PosStore
  | [], s => s
  | d :: ds, s => fireAll ds (s.setNow d).trigGet

def adv (s : PosStore) (dt : Nat) : PosStore :=
  if dt = 0 then s else
  let bound := s.now + dt
  let due := s.timers.filter (· < bound)
  let s1 := fireAll due { s with timers := s.timers.filter (fun d => !(d < bound)) }
  s1.setNow bound

def settle (s : PosStore) : PosStore :=
  let due := s.timers.filter (· ≤ s.now)
  fireAll (due.map fun _ => s.now) { s with timers := s.timers.filter (fun d => !(d ≤ s.now)) }

/-- Run due trigger events one at a time until a token fires or none is left. -/
def kstepAux : Nat → PosStore → PosStore
  | 0, s => s
  | n + 1, s =>
    match s.timers with
    | [] => s
    | d :: ds =>
      if d ≤ s.now then
        let s1 := ({ s with timers := ds }).trigGet
        if s1.fired.isEmpty then kstepAux n s1 else s1
      else s

def kstep (s : PosStore) : PosStore := kstepAux s.timers.length s

def step (s0 : PosStore) (op : Op) : PosStore × Res :=
  let s := { s0 with fired := [] }
  match op with
  | .reservePut p pr => s.reservePut p pr
  | .reserveGet p pr f => s.reserveGet p pr f
  | .put p t x => s.put p t x
  | .get p t => s.get p t
  | .cancelPut t => s.cancelPut t
  | .cancelGet t => s.cancelGet t
  | .adv dt => (s.adv dt, .unit)
  | .settle => (s.settle, .unit)
  | .kstep => (s.kstep, .unit)

def run (s : PosStore) (ops : List Op) : PosStore := ops.foldl (fun s op => (s.step op).1) s

/-- States reachable from the initial state of a configuration by API calls and time steps. -/
def Reachable (s : PosStore) : Prop := ∃ cfg ops, s = run (init cfg) ops

end PosStore
end FsVerif
