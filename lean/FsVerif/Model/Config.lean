/-
Constructor and start-up validation of a model, as a decision function (C20).
Mirrors: Edge.__init__, Buffer.__init__, Node.__init__, Source.__init__, Machine.__init__,
the `reset()` / `behaviour()` assertions executed in the first activation of each node, and
`get_delay`'s `assert val >= 0` at the first draw.  The configuration is the line
Source → Buffer → Machine → Buffer → Sink with every parameter reduced to its *kind*.
-/
import FsVerif.Model.Basic
namespace FsVerif

inductive NumKind where | neg | zero | pos | noneVal | notNum
  deriving DecidableEq, Repr, Inhabited
inductive CapKind where | neg | zero | pos | notInt
  deriving DecidableEq, Repr, Inhabited
/-- selection policy kinds: the three names, a constant inside / outside the range, an unknown
    string, None, a user callable -/
inductive PolKind where | fa | rr | rnd | constOk | constBad | badString | noneVal | callable
  deriving DecidableEq, Repr, Inhabited

structure LineCfg where
  cap : CapKind := .pos
  modeOK : Bool := true
  bufDelay : NumKind := .zero
  iat : NumKind := .pos
  srcBlocking : Bool := true
  srcPol : PolKind := .fa
  pd : NumKind := .pos
  setup : NumKind := .zero
  inPol : PolKind := .fa
  outPol : PolKind := .fa
  srcConnected : Bool := true        -- the source has its out-edge
  machIn : Bool := true
  machOut : Bool := true
  sinkConnected : Bool := true
  deriving DecidableEq, Repr, Inhabited

inductive Stage where | construction | start | firstUse
  deriving DecidableEq, Repr, Inhabited

inductive Outcome where
  | ok
  | rejected (stage : Stage) (e : Err)
  deriving DecidableEq, Repr, Inhabited

def polStart (p : PolKind) : Option Err :=
  match p with
  | .constBad => some .assertion      -- `assert 0 <= sel < len(edges)` in reset()
  | .badString => some .value         -- get_edge_selector
  | .noneVal => some .value           -- "... should not be None" / not a valid kind
  | _ => none

def firstSome (l : List (Option (Stage × Err))) : Outcome :=
  match l.filterMap id with
  | (st, e) :: _ => .rejected st e
  | [] => .ok

/-- checks in the order in which the code reaches them when the model is built (edges first, then
    nodes in the order source, machine, sink) and run -/
def validate (c : LineCfg) : Outcome :=
  firstSome [
    -- Buffer(env, id, capacity, delay, mode): Edge.__init__, then mode, then the delay's type
    (if c.cap = .pos then none else some (.construction, .value)),
    (if c.modeOK then none else some (.construction, .value)),
    (if c.bufDelay = .notNum then some (.construction, .value) else none),
    -- Source(...)
    (if c.iat = .zero ∧ c.srcBlocking = false then some (.construction, .value) else none),
    (if c.iat = .notNum then some (.construction, .value) else none),
    -- Machine(...): Node.__init__ checks node_setup_time, then processing_delay's type
    (if c.setup = .notNum ∨ c.setup = .noneVal then some (.construction, .value) else none),
    (if c.pd = .notNum then some (.construction, .value) else none),
    -- first activation of the source: edge assertions, reset()
    (if c.srcConnected then none else some (.start, .assertion)),
    ((polStart c.srcPol).map fun e => (.start, e)),
    (if c.iat = .noneVal then some (.start, .value) else none),
    -- first activation of the machine: reset() first, then the edge assertions, then timeout(setup)
    (if (c.inPol = .constOk ∨ c.inPol = .constBad) ∧ c.machIn = false then some (.start, .type) else none),   -- len(None)
    ((polStart c.inPol).map fun e => (.start, e)),
    (if (c.outPol = .constOk ∨ c.outPol = .constBad) ∧ c.machOut = false then some (.start, .type) else none),
    ((polStart c.outPol).map fun e => (.start, e)),
    (if c.pd = .noneVal then some (.start, .value) else none),
    (if c.machIn ∧ c.machOut then none else some (.start, .assertion)),
    (if c.setup = .neg then some (.start, .value) else none),      -- simpy: "Negative delay"
    -- first activation of the sink
    (if c.sinkConnected then none else some (.start, .assertion)),
    -- first draws: inter-arrival time, buffer delay at the first put, processing delay at the first pull
    (if c.iat = .neg then some (.firstUse, .assertion) else none),
    (if c.bufDelay = .neg then some (.firstUse, .assertion) else none),
    (if c.bufDelay = .noneVal then some (.firstUse, .type) else none),
    (if c.pd = .neg then some (.firstUse, .assertion) else none)
  ]

/-- the configurations the property calls invalid -/
def Invalid (c : LineCfg) : Prop :=
  c.cap ≠ .pos ∨ c.modeOK = false ∨
  c.bufDelay = .neg ∨ c.iat = .neg ∨ c.pd = .neg ∨ c.setup = .neg ∨
  (c.iat = .zero ∧ c.srcBlocking = false) ∨
  c.srcConnected = false ∨ c.machIn = false ∨ c.machOut = false ∨ c.sinkConnected = false ∨
  c.srcPol = .constBad ∨ c.inPol = .constBad ∨ c.outPol = .constBad

instance (c : LineCfg) : Decidable (Invalid c) := by unfold Invalid; infer_instance

def Stage.name : Stage → String
  | .construction => "construction" | .start => "start" | .firstUse => "use"

def Outcome.show : Outcome → String
  | .ok => "ok"
  | .rejected st e => s!"rejected {st.name} {e.name}"

end FsVerif
