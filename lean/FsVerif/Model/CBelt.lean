/-
Model of the continuous conveyor: edges/continuous_conveyor.py (ConveyorBelt) on top of base/belt_store.py
(BeltStore), with the SimPy kernel explicit: every kernel event the real run processes (Initialize of a
move / delayed-interrupt process, Timeout, the one-shot events item_arrival / get_events_available /
put_events_available / ready_item_event / resume_event / the phase-1 event, the Condition the state
machine waits on, Interruption) is one entry of `queue`, ordered as SimPy's heap orders them
(time, URGENT before NORMAL, insertion).  Stale entries (a Timeout whose process was interrupted, a
one-shot event that was re-armed before it was processed) stay in the queue and are processed as no-ops,
exactly as in SimPy.

Processes:
* the state machine `ConveyorBelt.behaviour` — either parked on item_arrival_event (`bWaitIA`) or on a
  Condition `cond = some (uid, triggered)` over [ready_item_event, get_events_available, put_events_available];
* one move process per accepted put (`procs`), two-phase travel timer with interrupt / resume, including the
  path in which an Interrupt hits a process that is already waiting for the resume event (it ends, the item
  stays on the belt for ever: defect D12);
* delayed-interrupt processes (`dprocs`).

Time in ticks; p1 = item_length / speed (ticks), travel = capacity * p1.  Domain: every item has the
conveyor's item length; an object is put only while it is not on the belt.  Where `_get_belt_pattern` raises
(two items computed into slot 0 …) the model gives up (`gaveUp`): the correspondence check stops comparing
that history there and counts it.
-/
import FsVerif.Model.Basic
namespace FsVerif

inductive CState where
  | idle | moving | stalledAcc | stalledNon
  deriving DecidableEq, Repr, Inhabited

def CState.name : CState → String
  | .idle => "IDLE_STATE" | .moving => "MOVING_STATE"
  | .stalledAcc => "STALLED_ACCUMULATING_STATE" | .stalledNon => "STALLED_NONACCUMULATING_STATE"

def CState.stalled : CState → Bool
  | .stalledAcc => true | .stalledNon => true | _ => false

/-- status of a one-shot event object: not triggered / triggered (scheduled) / processed -/
inductive OS where
  | pending | trig | processed
  deriving DecidableEq, Repr, Inhabited

inductive Which where
  | ia | ga | pa | ri
  deriving DecidableEq, Repr, Inhabited

inductive PRef where
  | move (q : Nat) | delayed (d : Nat)
  deriving DecidableEq, Repr, Inhabited

inductive CKind where
  | initM (q : Nat)
  | initD (d : Nat)
  | tmo (uid : Nat)
  | shot (w : Which) (gen : Nat)
  | re (gen : Nat)
  | p1e
  | cond (uid : Nat)
  | intr (p : PRef)
  deriving DecidableEq, Repr, Inhabited

structure CEv where
  time : Nat
  urgent : Bool := false
  seq : Nat
  kind : CKind
  deriving Repr, DecidableEq, Inhabited

def CEv.before (a b : CEv) : Bool :=
  a.time < b.time || (a.time == b.time && ((a.urgent && !b.urgent) || (a.urgent == b.urgent && a.seq < b.seq)))

def insCEv (e : CEv) : List CEv → List CEv
  | [] => [e]
  | x :: xs => if e.before x then e :: x :: xs else x :: insCEv e xs

structure CItem where
  item : Item
  seq : Nat                       -- put ordinal = id of its move process
  entry : Nat                     -- conveyor_entry_time
  totalInt : Nat := 0             -- item.total_interruption_time
  intStart : Option Nat := none   -- item.interruption_start_time
  readyEntry : Nat := 0           -- item.conveyor_ready_item_entry_time
  deriving Repr, DecidableEq, Inhabited

inductive MPc where
  | fresh
  | run (phase start rem tmo : Nat)       -- waiting on Timeout `tmo`
  | wait (phase rem ist gen : Nat)        -- interrupted at `ist`, waiting on resume_event generation `gen`
  deriving Repr, DecidableEq, Inhabited

structure MProc where
  q : Nat
  itemId : Nat
  pc : MPc := .fresh
  total : Nat := 0
  deriving Repr, DecidableEq, Inhabited

inductive DPc where
  | fresh | sleep (tmo : Nat)
  deriving Repr, DecidableEq, Inhabited

structure DProc where
  d : Nat
  itemId : Nat
  delay : Nat
  pc : DPc := .fresh
  deriving Repr, DecidableEq, Inhabited

/-- ghost: an item reached the exit -/
structure Arr where
  q : Nat          -- put ordinal
  t : Nat          -- instant at which it was offered at the exit
  ti : Nat         -- its total interruption time at that instant
  deriving Repr, DecidableEq, Inhabited

structure CCfg where
  cap : Nat
  p1 : Nat
  acc : Bool
  deriving Repr, DecidableEq, Inhabited

structure CBelt where
  cfg : CCfg
  now : Nat := 0
  nextTid : Nat := 0
  items : List CItem := []
  ready : List CItem := []
  putQ : List Tok := []
  putRes : List Tok := []
  getQ : List Tok := []
  getRes : List Tok := []
  resEv : List Tok := []
  resItems : List CItem := []
  queue : List CEv := []
  nextSeq : Nat := 0
  nextUid : Nat := 0
  nput : Nat := 0
  procs : List MProc := []
  dprocs : List DProc := []
  nextD : Nat := 0
  activeMove : List (Nat × Nat) := []      -- item id ↦ q
  activeDelayed : List (Nat × Nat) := []   -- item id ↦ d (dict order)
  reGen : Nat := 0
  waitOrder : List Nat := []               -- move processes waiting on a resume event, in registration order
  st : CState := .idle
  noacc : Bool := false
  ia : OS := .pending
  ga : OS := .pending
  pa : OS := .pending
  ri : OS := .pending
  iaGen : Nat := 0
  gaGen : Nat := 0
  paGen : Nat := 0
  riGen : Nat := 0
  bWaitIA : Bool := true
  cond : Option (Nat × Bool) := none
  gaveUp : Bool := false
  flagged : Bool := false
  wsum : Nat := 0
  lastLevel : Nat := 0
  lastChange : Nat := 0
  avgNum : Nat := 0
  avgDen : Nat := 1
  fired : List (Nat × Nat) := []
  newReady : List Nat := []
  -- ghost
  entered : List CItem := []
  arrivals : List Arr := []
  gotLog : List Item := []
  stuck : List Nat := []                    -- put ordinals whose move process ended without delivering (D12)
  everStalled : Bool := false               -- the state machine has entered a STALLED state at least once
  deriving Repr, Inhabited

namespace CBelt

def init (cfg : CCfg) : CBelt := { cfg := cfg }

def level (s : CBelt) : Nat := s.items.length + s.ready.length
def travel (s : CBelt) : Nat := s.cfg.cap * s.cfg.p1

def sched (s : CBelt) (time : Nat) (urgent : Bool) (k : CKind) : CBelt :=
  { s with queue := insCEv { time := time, urgent := urgent, seq := s.nextSeq, kind := k } s.queue, nextSeq := s.nextSeq + 1 }

def giveUp (s : CBelt) : CBelt := { s with gaveUp := true }

/-! ### belt pattern (`_get_belt_pattern`) -/

def ceilDiv (a b : Nat) : Nat := if b = 0 then 0 else (a + b - 1) / b

/-- time an item has travelled, as `_do_reserve_put` and the pattern compute it for a moving item -/
def tob (s : CBelt) (it : CItem) : Nat :=
  s.now - it.entry - it.totalInt - (match it.intStart with | some t => s.now - t | none => 0)

/-- for an item waiting at the exit the time since it got there is subtracted as well -/
def tobReady (s : CBelt) (it : CItem) : Nat :=
  s.tob it - (s.now - it.readyEntry)

/-- highest free index ≤ pos -/
def freeLeft (slots : List (Option Nat)) : Nat → Option Nat
  | 0 => if slots[0]? == some none then some 0 else none
  | n + 1 => if slots[n + 1]? == some none then some (n + 1) else freeLeft slots n

def place (slots : List (Option Nat)) (pos id : Nat) : Option (List (Option Nat)) :=
  match freeLeft slots pos with
  | some p => some (slots.set p (some id))
  | none => none

def pattern (s : CBelt) : Option (List (Option Nat)) :=
  let slots0 : List (Option Nat) := List.replicate s.cfg.cap none
  let afterReady := s.ready.foldl (fun acc it =>
    match acc with
    | none => none
    | some sl => if ceilDiv (s.tobReady it) s.cfg.p1 ≤ s.cfg.cap then place sl (s.cfg.cap - 1) it.item.id else some sl) (some slots0)
  s.items.foldl (fun acc it =>
    match acc with
    | none => none
    | some sl => if ceilDiv (s.tob it) s.cfg.p1 < s.cfg.cap then place sl (ceilDiv (s.tob it) s.cfg.p1) it.item.id else some sl) afterReady

def positions (sl : List (Option Nat)) : List Nat :=
  (List.range sl.length).filter (fun i => (sl[i]? : Option (Option Nat)) != some none)

def consecutive : List Nat → Bool
  | [] => true
  | [_] => true
  | a :: b :: rest => decide (b - a ≤ 1) && consecutive (b :: rest)

def freeRight (sl : List (Option Nat)) (pos : Nat) : Nat :=
  ((List.range sl.length).filter (fun j => decide (pos < j) && (sl[j]? : Option (Option Nat)) == some none)).length

def idAt (sl : List (Option Nat)) (pos : Nat) : Option Nat :=
  match sl[pos]? with
  | some (some i) => some i
  | _ => none

/-- `_calculate_gap_based_interruptions`: (item id, number of empty slots ahead) per occupied position -/
def gapPlan (sl : List (Option Nat)) : List (Option Nat × Nat) :=
  if (positions sl).length = sl.length then (positions sl).map (fun _ => (none, 0))
  else (positions sl).map (fun p => (idAt sl p, freeRight sl p))

def analyze (sl : List (Option Nat)) : List (Option Nat × Nat) :=
  if consecutive (positions sl) then (positions sl).map (fun p => (idAt sl p, 0)) else gapPlan sl

/-! ### processes -/

def dictSet (d : List (Nat × Nat)) (k v : Nat) : List (Nat × Nat) :=
  if d.any (fun e => e.1 == k) then d.map (fun e => if e.1 == k then (k, v) else e) else d ++ [(k, v)]

def dictPop (d : List (Nat × Nat)) (k : Nat) : List (Nat × Nat) := d.filter (fun e => e.1 != k)

def dictGet (d : List (Nat × Nat)) (k : Nat) : Option Nat := (d.find? (fun e => e.1 == k)).map (·.2)

/-- `_interrupt_specific_item` -/
def interruptItem (s : CBelt) (id : Nat) : CBelt :=
  match dictGet s.activeMove id with
  | some q => s.sched s.now true (.intr (.move q))
  | none => s

def spawnDelayed (s : CBelt) (id delay : Nat) : CBelt :=
  let d := s.nextD
  let s1 := { s with nextD := d + 1, dprocs := s.dprocs ++ [({ d := d, itemId := id, delay := delay } : DProc)] }
  let s2 := s1.sched s.now true (.initD d)
  { s2 with activeDelayed := dictSet s2.activeDelayed id d }

def executePlan (s : CBelt) (plan : List (Option Nat × Nat)) : CBelt :=
  plan.foldl (fun s ins =>
    match ins.1 with
    | none => s
    | some id =>
      if s.items.any (fun it => it.item.id == id) then
        if ins.2 * s.cfg.p1 > 0 then s.spawnDelayed id (ins.2 * s.cfg.p1) else s.interruptItem id
      else s) s

def selectiveInterrupt (s : CBelt) : CBelt :=
  if s.items.isEmpty then s
  else if s.noacc then s.items.foldl (fun s it => s.interruptItem it.item.id) s
  else if s.cfg.acc then
    match s.pattern with
    | none => s.giveUp
    | some sl => s.executePlan (analyze sl)
  else s

def resumeAll (s : CBelt) : CBelt :=
  ({ s with reGen := s.reGen + 1 }).sched s.now false (.re s.reGen)

def cancelDelayed (s : CBelt) : CBelt :=
  let s1 := s.activeDelayed.foldl (fun s e => s.sched s.now true (.intr (.delayed e.2))) s
  { s1 with activeDelayed := [] }

def setState (s : CBelt) (new : CState) : CBelt :=
  let old := s.st
  let s1 := { s with st := new, everStalled := s.everStalled || new.stalled }
  if !old.stalled && new.stalled then
    (if !s.cfg.acc then { s1 with noacc := true } else s1).selectiveInterrupt
  else if old.stalled && !new.stalled then
    ((if !s.cfg.acc then { s1 with noacc := false } else s1).resumeAll).cancelDelayed
  else s1

def isEmpty (s : CBelt) : Bool := s.items.isEmpty && s.ready.isEmpty
def isStalled (s : CBelt) : Bool := !s.ready.isEmpty && s.getRes.isEmpty

/-- `any_of([ready_item_event, get_events_available, put_events_available])` and the yield on it -/
def makeCond (s : CBelt) : CBelt :=
  let u := s.nextUid
  let s1 := { s with nextUid := u + 1, bWaitIA := false }
  if s.ri == .processed || s.ga == .processed || s.pa == .processed then
    ({ s1 with cond := some (u, true) }).sched s.now false (.cond u)
  else { s1 with cond := some (u, false) }

def stallState (s : CBelt) : CBelt :=
  if s.cfg.acc then
    let t := s.setState .stalledAcc
    { t with noacc := false }
  else
    let t := s.setState .stalledNon
    { t with noacc := true }

/-- top of the `while True` loop of `behaviour` -/
def bLoop (s : CBelt) : CBelt :=
  if s.pattern.isNone then s.giveUp      -- the diagnostic print at the loop top evaluates the pattern: the state machine dies
  else if s.isEmpty then
    let t := s.setState .idle
    let s1 : CBelt := { t with noacc := false }
    match s1.ia with
    | .processed => ({ s1 with ia := .pending, iaGen := s1.iaGen + 1 }).makeCond     -- yields a processed event: continues at once
    | _ => { s1 with bWaitIA := true, cond := none }
  else if !s.isStalled then
    let t := s.setState .moving
    ({ t with noacc := false } : CBelt).makeCond
  else s.stallState.makeCond

/-- the state machine resumes after its Condition was processed -/
def bWake (s0 : CBelt) : CBelt :=
  let s := { s0 with cond := none }
  if s.ri != .pending then
    let s1 := if s.isStalled then s.stallState else s
    ({ s1 with ri := .pending, riGen := s1.riGen + 1 }).bLoop
  else if s.ga != .pending then ({ s with ga := .pending, gaGen := s.gaGen + 1 }).bLoop
  else if s.pa != .pending then ({ s with pa := .pending, paGen := s.paGen + 1 }).bLoop
  else s.bLoop

/-! ### the store -/

/-- `_do_reserve_put`; `none` = the diagnostic print evaluated `_get_belt_pattern` and that raised -/
def admits (s : CBelt) : Option Bool :=
  if !s.putRes.isEmpty then some false else        -- one item enters at a time
  match s.items.head?, s.items.getLast? with
  | some first, some last =>
    if s.putRes.length + s.level < s.cfg.cap then
      if s.cfg.acc || s.ready.isEmpty then
        if (last.intStart.isSome || first.intStart.isSome) && s.pattern.isNone then none
        else some (decide (s.cfg.p1 ≤ s.tob last) && !decide (s.travel ≤ s.tob first))
      else some false
    else some false
  | _, _ => some (decide (s.putRes.length + s.level < s.cfg.cap) && (s.cfg.acc || s.ready.isEmpty))

def trigPut (s : CBelt) : CBelt :=
  match s.putQ with
  | [] => s
  | t :: q =>
    match s.admits with
    | none => s.giveUp
    | some true => { s with putQ := q, putRes := s.putRes ++ [t], fired := s.fired ++ [(t.id, s.now)] }
    | some false => s

def trigGet (s : CBelt) : CBelt :=
  match s.getQ with
  | [] => s
  | t :: q =>
    if s.getRes.length < s.ready.length then
      match s.ready[s.resEv.length]? with
      | some e => { s with getQ := q, getRes := s.getRes ++ [t], resEv := s.resEv ++ [t], resItems := s.resItems ++ [e],
                           fired := s.fired ++ [(t.id, s.now)] }
      | none => { s with getQ := q, getRes := s.getRes ++ [t], fired := s.fired ++ [(t.id, s.now)], gaveUp := true }
    else s

def updLevel (s : CBelt) : CBelt :=
  let w := s.wsum + s.lastLevel * (s.now - s.lastChange)
  { s with wsum := w, lastChange := s.now, lastLevel := s.level,
           avgNum := if s.now > 0 then w else 0, avgDen := if s.now > 0 then s.now else 1 }

inductive Res where
  | ok | tok (id : Nat) | item (x : Item) | err (e : Err) | unit
  deriving Repr, DecidableEq, Inhabited

def reservePut (s : CBelt) (proc : Nat) : CBelt × Res :=
  let t : Tok := { id := s.nextTid, proc := proc }
  (({ s with nextTid := s.nextTid + 1, putQ := s.putQ ++ [t] }).trigPut, .tok t.id)

def reserveGet (s : CBelt) (proc : Nat) : CBelt × Res :=
  let t : Tok := { id := s.nextTid, proc := proc }
  (({ s with nextTid := s.nextTid + 1, getQ := s.getQ ++ [t] }).trigGet, .tok t.id)

/-- `handle_new_item_during_interruption` -/
def handleNew (s : CBelt) (id : Nat) : CBelt :=
  if s.noacc then s.interruptItem id else       -- a stopped non-accumulating belt: the item stops where it entered
  match s.pattern with
  | none => s.giveUp
  | some sl =>
    match (gapPlan sl).head? with
    | none => s.giveUp
    | some ins => if ins.2 * s.cfg.p1 > 0 then s.spawnDelayed id (ins.2 * s.cfg.p1) else s.interruptItem id

/-- ConveyorBelt.put: BeltStore.put (reservation, append, move process), then the wake-up of the state
    machine, then the treatment of an item that enters a stalled belt -/
def put (s : CBelt) (proc tid : Nat) (x : Item) : CBelt × Res :=
  if s.putRes.isEmpty then (s, .err .runtime) else
  match s.putRes.find? (fun t => t.id == tid && t.proc == proc) with
  | none => (s, .err .runtime)
  | some t =>
    let s1 := { s with putRes := s.putRes.erase t }
    if s1.level < s.cfg.cap then
      let e : CItem := { item := x, seq := s.nput, entry := s.now }
      let s2 := ({ s1 with items := s1.items ++ [e], nput := s.nput + 1, entered := s.entered ++ [e] }).updLevel
      let s3 := s2.sched s.now true (.initM e.seq)
      let s4 := { s3 with procs := s3.procs ++ [({ q := e.seq, itemId := x.id } : MProc)], activeMove := dictSet s3.activeMove x.id e.seq }
      let s5 := s4.trigGet
      -- wake the state machine (each one-shot event only if it is not already triggered)
      let s6 : CBelt :=
        if s5.items.length == 1 && s5.st == .idle then
          if s5.ia != .pending then s5 else ({ s5 with ia := .trig }).sched s5.now false (.shot .ia s5.iaGen)
        else
          if s5.pa != .pending then s5 else ({ s5 with pa := .trig }).sched s5.now false (.shot .pa s5.paGen)
      let s7 := if (s6.st == .stalledAcc && s6.cfg.acc) || (s6.st == .stalledNon && !s6.cfg.acc) then s6.handleNew x.id else s6
      (s7, .ok)
    else (s1, .err .runtime)

def removeItem (l : List CItem) (x : Item) : List CItem :=
  match l.findIdx? (fun e => e.item.id == x.id) with
  | some i => l.eraseIdx i
  | none => l

def get (s : CBelt) (proc tid : Nat) : CBelt × Res :=
  if s.getRes.isEmpty then (s, .err .runtime) else
  match s.getRes.find? (fun t => t.id == tid && t.proc == proc) with
  | none => (s, .err .runtime)
  | some t =>
    if s.resEv.idxOf t ≥ s.resEv.length then (s, .err .value) else
    match s.resItems[s.resEv.idxOf t]? with
    | none => ({ s with getRes := s.getRes.erase t, resEv := s.resEv.eraseIdx (s.resEv.idxOf t) }, .err .value)
    | some e =>
      let s1 := { s with getRes := s.getRes.erase t, resEv := s.resEv.eraseIdx (s.resEv.idxOf t),
                         resItems := s.resItems.eraseIdx (s.resEv.idxOf t) }
      if s.ready.any (fun r => r.item.id == e.item.id) then
        let s2 := (({ s1 with ready := removeItem s.ready e.item, gotLog := s.gotLog ++ [e.item] }).updLevel).trigPut
        if s2.ga != .pending then (s2, .item e.item)
        else (({ s2 with ga := .trig }).sched s2.now false (.shot .ga s2.gaGen), .item e.item)
      else (s1, .err .value)

def cancelPut (s : CBelt) (tid : Nat) : CBelt × Res :=
  match findTok s.putQ tid with
  | some t => (({ s with putQ := s.putQ.erase t }).trigPut, .ok)
  | none =>
    match findTok s.putRes tid with
    | some t => (({ s with putRes := s.putRes.erase t }).trigPut, .ok)
    | none => (s, .err .runtime)

def cancelGet (s : CBelt) (tid : Nat) : CBelt × Res :=
  match findTok s.getQ tid with
  | some t => (({ s with getQ := s.getQ.erase t }).trigGet, .ok)
  | none =>
    match findTok s.getRes tid with
    | some t =>
      if s.resEv.idxOf t ≥ s.resEv.length then ({ s with getRes := s.getRes.erase t }, .err .value) else
      match s.resItems[s.resEv.idxOf t]? with
      | none => ({ s with getRes := s.getRes.erase t }, .err .index)
      | some e =>
        let s1 := { s with getRes := s.getRes.erase t, resEv := s.resEv.eraseIdx (s.resEv.idxOf t),
                           resItems := s.resItems.eraseIdx (s.resEv.idxOf t) }
        if s.ready.any (fun r => r.item.id == e.item.id) then
          (({ s1 with ready := pyInsert (removeItem s.ready e.item) s1.resEv.length e }).trigGet, .ok)
        else (s1, .err .runtime)
    | none => (s, .err .runtime)

/-! ### move processes -/

def setProc (s : CBelt) (q : Nat) (f : MProc → MProc) : CBelt :=
  { s with procs := s.procs.map (fun p => if p.q == q then f p else p) }

def setItem (s : CBelt) (q : Nat) (f : CItem → CItem) : CBelt :=
  { s with items := s.items.map (fun it => if it.seq == q then f it else it) }

/-- the process ends (normally, or through the outer `except simpy.Interrupt`): the `finally` clause -/
def endProc (s : CBelt) (p : MProc) : CBelt :=
  { s with procs := s.procs.filter (fun x => x.q != p.q), activeMove := dictPop s.activeMove p.itemId,
           waitOrder := s.waitOrder.filter (· != p.q) }

/-- the item of put number q reaches the exit -/
def arrive (s : CBelt) (p : MProc) : CBelt :=
  match s.items.find? (fun e => e.seq == p.q) with
  | none => (s.endProc p).giveUp
  | some e =>
    let rest := s.items.erase e
    if s.ready.length + rest.length < s.cfg.cap then
      let e' := { e with readyEntry := s.now }
      let s1 := { s with items := rest, ready := s.ready ++ [e'], arrivals := s.arrivals ++ [({ q := p.q, t := s.now, ti := e.totalInt } : Arr)],
                         newReady := s.newReady ++ [e.item.id] }
      let s2 := if s1.ri == .pending then ({ s1 with ri := .trig }).sched s1.now false (.shot .ri s1.riGen) else s1
      ((s2.trigGet).trigPut).endProc p
    else (({ s with items := rest, arrivals := s.arrivals ++ [({ q := p.q, t := s.now, ti := e.totalInt } : Arr)] } : CBelt).endProc p).giveUp

/-- start (or restart after a resume) the timer of `phase` with `rem` left; phase 1 falls through to phase 2,
    phase 2 to the arrival, when nothing is left -/
def startPhase (s : CBelt) (p : MProc) (phase rem : Nat) : CBelt :=
  if rem > 0 then
    let u := s.nextUid
    (({ s with nextUid := u + 1 }).setProc p.q (fun x => { x with pc := .run phase s.now rem u, total := p.total })).sched (s.now + rem) false (.tmo u)
  else if phase == 1 then
    let rem2 := (s.cfg.cap - 1) * s.cfg.p1
    if rem2 > 0 then
      let u := s.nextUid
      (({ s with nextUid := u + 1 }).setProc p.q (fun x => { x with pc := .run 2 s.now rem2 u, total := p.total })).sched (s.now + rem2) false (.tmo u)
    else s.arrive p
  else s.arrive p

def initM (s : CBelt) (q : Nat) : CBelt :=
  match s.procs.find? (fun p => p.q == q) with
  | none => s
  | some p =>
    let s1 := s.setItem q (fun it => { it with totalInt := 0, intStart := none })
    s1.startPhase { p with total := 0 } 1 s.cfg.p1

/-- the move process waits on Timeout u -/
def waitsOn (u : Nat) (p : MProc) : Bool :=
  match p.pc with
  | .run _ _ _ t => t == u
  | _ => false

def sleepsOn (u : Nat) (d : DProc) : Bool :=
  match d.pc with
  | .sleep t => t == u
  | _ => false

/-- a Timeout is processed: whoever waits on it continues -/
def onTimeout (s : CBelt) (u : Nat) : CBelt :=
  match s.procs.find? (waitsOn u) with
  | some p =>
    match p.pc with
    | .run 1 _ _ _ => (s.sched s.now false .p1e).startPhase p 1 0       -- phase 1 over: its event succeeds
    | _ => s.startPhase p 2 0
  | none =>
    match s.dprocs.find? (sleepsOn u) with
    | some d =>
      let s1 := { s with dprocs := s.dprocs.filter (fun x => x.d != d.d) }
      { (s1.interruptItem d.itemId) with activeDelayed := dictPop s1.activeDelayed d.itemId }
    | none => s            -- stale: the waiting process was interrupted

def onInterrupt (s : CBelt) (r : PRef) : CBelt :=
  match r with
  | .move q =>
    match s.procs.find? (fun p => p.q == q) with
    | none => s                                  -- the process has ended
    | some p =>
      match p.pc with
      | .fresh => s
      | .run phase start rem _ =>
        let rem' := rem - (s.now - start)
        let s1 := s.setItem q (fun it => { it with intStart := some s.now })
        { (s1.setProc q (fun x => { x with pc := .wait phase rem' s.now s.reGen })) with waitOrder := s1.waitOrder ++ [q] }
      | .wait _ _ _ _ =>
        -- Interrupt while waiting for the resume event: it escapes the inner handler, the process ends,
        -- the item stays in `items` with interruption_start_time set
        { (s.endProc p) with stuck := s.stuck ++ [q] }
  | .delayed d =>
    match s.dprocs.find? (fun x => x.d == d) with
    | none => s
    | some dp =>
      match dp.pc with
      | .fresh => s
      | .sleep _ => { s with dprocs := s.dprocs.filter (fun x => x.d != d), activeDelayed := dictPop s.activeDelayed dp.itemId }

/-- the resume event of generation g is processed: its waiters continue, in registration order -/
def onResume (s : CBelt) (g : Nat) : CBelt :=
  s.waitOrder.foldl (fun s q =>
    match s.procs.find? (fun p => p.q == q) with
    | none => s
    | some p =>
      match p.pc with
      | .wait phase rem ist gen =>
        if gen == g then
          let total := p.total + (s.now - ist)
          let s1 := s.setItem q (fun it => { it with intStart := none, totalInt := total })
          let s2 := { s1 with waitOrder := s1.waitOrder.filter (· != q) }
          s2.startPhase { p with total := total } phase rem
        else s
      | _ => s) s

def onShot (s : CBelt) (w : Which) (gen : Nat) : CBelt :=
  match w with
  | .ia =>
    if gen != s.iaGen then s else
    let s1 := { s with ia := .processed }
    if s1.bWaitIA then ({ s1 with ia := .pending, iaGen := s1.iaGen + 1 }).makeCond else s1
  | _ =>
    let cur := match w with | .ga => s.gaGen | .pa => s.paGen | _ => s.riGen
    if gen != cur then s else
    let s1 := match w with
      | .ga => { s with ga := .processed } | .pa => { s with pa := .processed } | _ => { s with ri := .processed }
    match s1.cond with
    | some (u, false) => ({ s1 with cond := some (u, true) }).sched s1.now false (.cond u)
    | _ => s1

def handle (s : CBelt) (k : CKind) : CBelt :=
  match k with
  | .initM q => s.initM q
  | .initD d =>
    match s.dprocs.find? (fun x => x.d == d) with
    | none => s
    | some dp =>
      let u := s.nextUid
      ({ s with nextUid := u + 1, dprocs := s.dprocs.map (fun (x : DProc) => if x.d == d then { x with pc := .sleep u } else x) }).sched
        (s.now + dp.delay) false (.tmo u)
  | .tmo u => s.onTimeout u
  | .shot w g => s.onShot w g
  | .re g => s.onResume g
  | .p1e => s.trigPut
  | .cond u => match s.cond with
    | some (u', _) => if u == u' then s.bWake else s
    | none => s
  | .intr r => s.onInterrupt r

def ev (s : CBelt) : CBelt :=
  match s.queue with
  | [] => s
  | e :: q => ({ s with queue := q, now := max s.now e.time }).handle e.kind

def adv (s : CBelt) (dt : Nat) : CBelt :=
  match s.queue with
  | e :: _ => if e.time < s.now + dt then { s with flagged := true } else { s with now := s.now + dt }
  | [] => { s with now := s.now + dt }

inductive Op where
  | reservePut (proc : Nat)
  | reserveGet (proc : Nat)
  | put (proc tid : Nat) (x : Item)
  | get (proc tid : Nat)
  | cancelPut (tid : Nat)
  | cancelGet (tid : Nat)
  | adv (dt : Nat)
  | ev
  | final
  deriving Repr, DecidableEq, Inhabited

def step (s0 : CBelt) (op : Op) : CBelt × Res :=
  let s := { s0 with fired := [], newReady := [] }
  match op with
  | .reservePut p => s.reservePut p
  | .reserveGet p => s.reserveGet p
  | .put p t x => s.put p t x
  | .get p t => s.get p t
  | .cancelPut t => s.cancelPut t
  | .cancelGet t => s.cancelGet t
  | .adv dt => (s.adv dt, .unit)
  | .ev => (s.ev, .unit)
  | .final => (s.updLevel, .unit)

def run (s : CBelt) (ops : List Op) : CBelt := ops.foldl (fun s op => (s.step op).1) s

def showPattern (s : CBelt) : String :=
  match s.pattern with
  | none => "err"
  | some sl => String.join (sl.map (fun x => match x with | some _ => "*" | none => "_"))

end CBelt
end FsVerif
