/-
Composition at the level of counts: from the per-node accounting laws (proved for the node
automata, for every schedule) and the per-edge conservation laws (proved for the store models,
for every history), the factory-wide identity

    generated = in nodes + in edges + discarded + received

follows for EVERY graph, provided nodes and edges talk to each other only through put / get
(every item put on an edge was pushed by a node, every item got from an edge was pulled by a node).
-/
namespace FsVerif.Compose

structure NodeSum where
  created : Nat      -- items created here (sources)
  pulled : Nat       -- items taken from in-edges
  held : Nat         -- items inside the node now
  pushed : Nat       -- items put on out-edges
  dropped : Nat      -- items discarded (and counted)
  received : Nat     -- items absorbed (sinks)
  deriving Repr

/-- what `MInv.account`, `SInv.account`, `KInv` say, as counts -/
def NodeSum.ok (n : NodeSum) : Prop := n.created + n.pulled = n.held + n.pushed + n.dropped + n.received

structure EdgeSum where
  put : Nat
  got : Nat
  inside : Nat
  deriving Repr

/-- what `C02.*_conservation` says, as counts -/
def EdgeSum.ok (e : EdgeSum) : Prop := e.put = e.got + e.inside

def sumBy {α} (f : α → Nat) (l : List α) : Nat := (l.map f).sum

theorem node_total (ns : List NodeSum) (h : ∀ n ∈ ns, n.ok) :
    sumBy (·.created) ns + sumBy (·.pulled) ns =
      sumBy (·.held) ns + sumBy (·.pushed) ns + sumBy (·.dropped) ns + sumBy (·.received) ns := by
  induction ns with
  | nil => simp [sumBy]
  | cons n ns ih =>
    have hn := h n (List.mem_cons_self)
    have ih' := ih (fun x hx => h x (List.mem_cons_of_mem _ hx))
    unfold NodeSum.ok at hn
    simp only [sumBy, List.map_cons, List.sum_cons] at ih' ⊢
    omega

theorem edge_total (es : List EdgeSum) (h : ∀ e ∈ es, e.ok) :
    sumBy (·.put) es = sumBy (·.got) es + sumBy (·.inside) es := by
  induction es with
  | nil => simp [sumBy]
  | cons e es ih =>
    have he := h e (List.mem_cons_self)
    have ih' := ih (fun x hx => h x (List.mem_cons_of_mem _ hx))
    unfold EdgeSum.ok at he
    simp only [sumBy, List.map_cons, List.sum_cons] at ih' ⊢
    omega

/-- C03 (counts) for an arbitrary factory graph. -/
theorem factory_conservation (ns : List NodeSum) (es : List EdgeSum)
    (hn : ∀ n ∈ ns, n.ok) (he : ∀ e ∈ es, e.ok)
    (hput : sumBy (·.pushed) ns = sumBy (·.put) es)      -- every put on an edge is a push of a node
    (hgot : sumBy (·.pulled) ns = sumBy (·.got) es) :    -- every get from an edge is a pull of a node
    sumBy (·.created) ns =
      sumBy (·.held) ns + sumBy (·.inside) es + sumBy (·.dropped) ns + sumBy (·.received) ns := by
  have h1 := node_total ns hn
  have h2 := edge_total es he
  omega

/-- at quiescence (nothing inside nodes or edges) everything generated was received or counted as discarded -/
theorem factory_quiescent (ns : List NodeSum) (es : List EdgeSum)
    (hn : ∀ n ∈ ns, n.ok) (he : ∀ e ∈ es, e.ok)
    (hput : sumBy (·.pushed) ns = sumBy (·.put) es) (hgot : sumBy (·.pulled) ns = sumBy (·.got) es)
    (hheld : sumBy (·.held) ns = 0) (hin : sumBy (·.inside) es = 0) :
    sumBy (·.created) ns = sumBy (·.dropped) ns + sumBy (·.received) ns := by
  have := factory_conservation ns es hn he hput hgot
  omega

end FsVerif.Compose
