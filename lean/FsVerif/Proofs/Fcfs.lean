/-
Stores without priorities serve strictly first-come-first-served: BufferStore (through the Buffer edge: `reserve_put()` /
`reserve_get()` take no priority) and the continuous conveyor's BeltStore.  In every reachable state — no assumption on the
client — both request queues are in arrival order (token ids strictly increasing); only the head of a queue is ever granted;
the arrival, use or cancellation of other requests removes entries or appends one at the tail, never reorders.
-/
import FsVerif.Proofs.FleetSorted
import FsVerif.Proofs.CBeltFrame
namespace FsVerif

/-- arrival order -/
def Arrival (l : List Tok) : Prop := l.Pairwise (fun a b => a.id < b.id)

theorem Arrival.sub {l l' : List Tok} (h : Arrival l) (f : l'.Sublist l) : Arrival l' := List.Pairwise.sublist f h

theorem Arrival.snoc {l : List Tok} {t : Tok} (h : Arrival l) (hn : ∀ a ∈ l, a.id < t.id) : Arrival (l ++ [t]) := by
  unfold Arrival at *
  rw [List.pairwise_append]
  refine ⟨h, by simp, ?_⟩
  intro a ha b hb
  rw [List.mem_singleton] at hb; subst hb
  exact hn a ha

namespace BufStore

structure AQ (b : BufStore) : Prop where
  ap : Arrival b.putQ
  ag : Arrival b.getQ
  lt : ∀ t ∈ b.putQ ++ b.getQ, t.id < b.nextTid

theorem AQ.sub {b b' : BufStore} (h : AQ b) (f : QSub b b') : AQ b' := by
  refine ⟨h.ap.sub f.p, h.ag.sub f.g, ?_⟩
  intro t ht
  rw [f.n]
  apply h.lt t
  rcases List.mem_append.mp ht with h1 | h1
  · exact List.mem_append_left _ (f.p.subset h1)
  · exact List.mem_append_right _ (f.g.subset h1)

theorem QSub.move (s : BufStore) (e : BEntry) : QSub s (s.move e) := by
  unfold BufStore.move
  split
  · exact ((QSub.of_eq (b := s) (b' := s.arrive e) rfl rfl rfl).trans (QSub.trigGet _)).trans (QSub.trigPut _)
  · exact QSub.of_eq rfl rfl rfl

theorem QSub.fireAll (es : List BEntry) : ∀ s : BufStore, QSub s (fireAll es s) := by
  induction es with
  | nil => intro s; exact QSub.refl s
  | cons e es ih =>
    intro s
    unfold BufStore.fireAll
    exact ((QSub.of_eq (b := s) (b' := s.setNow (max s.now e.due)) rfl rfl rfl).trans (QSub.move _ e)).trans (ih _)

theorem AQ.step {s : BufStore} (h : AQ s) (op : Op) : AQ (s.step op).1 := by
  have h' : AQ { s with fired := [] } := h.sub (QSub.of_eq rfl rfl rfl)
  unfold BufStore.step
  cases op with
  | reservePut p =>
    simp only [BufStore.reservePut]
    refine AQ.sub ?_ (QSub.trigPut _)
    refine ⟨h.ap.snoc (fun a ha => h.lt a (List.mem_append_left _ ha)), h.ag, ?_⟩
    intro t ht
    show t.id < s.nextTid + 1
    rcases List.mem_append.mp ht with h1 | h1
    · rcases List.mem_append.mp h1 with h2 | h2
      · exact Nat.lt_succ_of_lt (h.lt t (List.mem_append_left _ h2))
      · rw [List.mem_singleton] at h2; subst h2; exact Nat.lt_succ_self _
    · exact Nat.lt_succ_of_lt (h.lt t (List.mem_append_right _ h1))
  | reserveGet p =>
    simp only [BufStore.reserveGet]
    refine AQ.sub ?_ (QSub.trigGet _)
    refine ⟨h.ap, h.ag.snoc (fun a ha => h.lt a (List.mem_append_right _ ha)), ?_⟩
    intro t ht
    show t.id < s.nextTid + 1
    rcases List.mem_append.mp ht with h1 | h1
    · exact Nat.lt_succ_of_lt (h.lt t (List.mem_append_left _ h1))
    · rcases List.mem_append.mp h1 with h2 | h2
      · exact Nat.lt_succ_of_lt (h.lt t (List.mem_append_right _ h2))
      · rw [List.mem_singleton] at h2; subst h2; exact Nat.lt_succ_self _
  | put p t x d => exact h'.sub (QSub.put _ p t x d)
  | get p t => exact h'.sub (QSub.get _ p t)
  | cancelPut t => exact h'.sub (QSub.cancelPut _ t)
  | cancelGet t => exact h'.sub (QSub.cancelGet _ t)
  | adv dt =>
    simp only [BufStore.adv]
    split
    · exact h'
    · refine h'.sub ?_
      refine (QSub.trans ?_ (QSub.fireAll _ _)).trans (QSub.of_eq rfl rfl rfl)
      exact QSub.of_eq rfl rfl rfl
  | settle =>
    simp only [BufStore.settle]
    refine h'.sub ?_
    refine QSub.trans ?_ (QSub.fireAll _ _)
    exact QSub.of_eq rfl rfl rfl
  | kstep =>
    simp only [BufStore.kstep]
    split
    · exact h'
    · split
      · refine h'.sub ?_
        refine QSub.trans ?_ (QSub.move _ _)
        exact QSub.of_eq rfl rfl rfl
      · exact h'
  | final => exact h'.sub (QSub.of_eq rfl rfl rfl)

theorem init_aq (cfg : BufCfg) : AQ (init cfg) := by
  refine ⟨?_, ?_, ?_⟩ <;> simp [init, Arrival]

theorem run_aq (ops : List Op) : ∀ s : BufStore, AQ s → AQ (s.run ops) := by
  induction ops with
  | nil => intro s h; exact h
  | cons op ops ih => intro s h; exact ih _ (h.step op)

/-- only the head of the queue is ever granted -/
theorem trigPut_head (s : BufStore) : s.trigPut.putQ = s.putQ ∨ (∃ t, s.putQ = t :: s.trigPut.putQ ∧ s.trigPut.putRes = s.putRes ++ [t]) := by
  rcases trigPut_cases s with ⟨he, _⟩ | ⟨t, q, hq, _, he⟩
  · left; rw [he]
  · right; exact ⟨t, by rw [he, hq], by rw [he]⟩

theorem trigGet_head (s : BufStore) : s.trigGet.getQ = s.getQ ∨ (∃ t, s.getQ = t :: s.trigGet.getQ ∧ s.trigGet.getRes = s.getRes ++ [t]) := by
  rcases trigGet_cases s with ⟨he, _⟩ | ⟨t, q, e, hq, _, _, he⟩ | ⟨t, q, hq, _, _, he⟩
  · left; rw [he]
  · right; exact ⟨t, by rw [he, hq], by rw [he]⟩
  · right; exact ⟨t, by rw [he, hq], by rw [he]⟩

end BufStore

namespace CBelt

structure CQ (s s' : CBelt) : Prop where
  p : s'.putQ.Sublist s.putQ
  g : s'.getQ.Sublist s.getQ
  n : s'.nextTid = s.nextTid

theorem CQ.refl (s : CBelt) : CQ s s := ⟨List.Sublist.refl _, List.Sublist.refl _, rfl⟩
theorem CQ.trans {a b c : CBelt} (h1 : CQ a b) (h2 : CQ b c) : CQ a c := ⟨h2.p.trans h1.p, h2.g.trans h1.g, h2.n.trans h1.n⟩
theorem CQ.of_eq {s s' : CBelt} (e1 : s'.putQ = s.putQ) (e2 : s'.getQ = s.getQ) (e3 : s'.nextTid = s.nextTid) : CQ s s' :=
  ⟨by rw [e1]; exact List.Sublist.refl _, by rw [e2]; exact List.Sublist.refl _, e3⟩
theorem CQ.fr {s s' : CBelt} (f : Fr s s') : CQ s s' := CQ.of_eq f.putQ f.bind.2.2.1 f.bind.2.2.2

theorem CQ.trigPut (s : CBelt) : CQ s s.trigPut := by
  unfold CBelt.trigPut
  split
  · exact CQ.refl s
  · rename_i t q hq
    split
    · exact CQ.of_eq rfl rfl rfl
    · exact ⟨by rw [hq]; exact List.sublist_cons_self t q, List.Sublist.refl _, rfl⟩
    · exact CQ.refl s

theorem CQ.trigGet (s : CBelt) : CQ s s.trigGet := by
  unfold CBelt.trigGet
  split
  · exact CQ.refl s
  · rename_i t q hq
    split
    · split
      · exact ⟨List.Sublist.refl _, by rw [hq]; exact List.sublist_cons_self t q, rfl⟩
      · exact ⟨List.Sublist.refl _, by rw [hq]; exact List.sublist_cons_self t q, rfl⟩
    · exact CQ.refl s

/-- only the head of a queue is ever granted -/
theorem trigPut_head (s : CBelt) : s.trigPut.putQ = s.putQ ∨ (∃ t, s.putQ = t :: s.trigPut.putQ ∧ s.trigPut.putRes = s.putRes ++ [t]) := by
  unfold CBelt.trigPut
  split
  · exact Or.inl rfl
  · rename_i t q hq
    split
    · exact Or.inl rfl
    · exact Or.inr ⟨t, hq, rfl⟩
    · exact Or.inl rfl

theorem trigGet_head (s : CBelt) : s.trigGet.getQ = s.getQ ∨ (∃ t, s.getQ = t :: s.trigGet.getQ ∧ s.trigGet.getRes = s.getRes ++ [t]) := by
  unfold CBelt.trigGet
  split
  · exact Or.inl rfl
  · rename_i t q hq
    split
    · split
      · exact Or.inr ⟨t, hq, rfl⟩
      · exact Or.inr ⟨t, hq, rfl⟩
    · exact Or.inl rfl

theorem CQ.arrive (s : CBelt) (p : MProc) : CQ s (s.arrive p) := by
  unfold CBelt.arrive
  split
  · exact CQ.of_eq rfl rfl rfl
  · simp only
    split
    · split
      · refine CQ.trans ?_ (CQ.of_eq (s := CBelt.trigPut _) rfl rfl rfl)
        refine CQ.trans ?_ (CQ.trigPut _)
        refine CQ.trans ?_ (CQ.trigGet _)
        exact CQ.of_eq rfl rfl rfl
      · refine CQ.trans ?_ (CQ.of_eq (s := CBelt.trigPut _) rfl rfl rfl)
        refine CQ.trans ?_ (CQ.trigPut _)
        refine CQ.trans ?_ (CQ.trigGet _)
        exact CQ.of_eq rfl rfl rfl
    · exact CQ.of_eq rfl rfl rfl

theorem CQ.startPhase (s : CBelt) (p : MProc) (ph rem : Nat) : CQ s (s.startPhase p ph rem) := by
  unfold CBelt.startPhase
  split
  · exact CQ.of_eq rfl rfl rfl
  · split
    · simp only
      split
      · exact CQ.of_eq rfl rfl rfl
      · exact CQ.arrive s p
    · exact CQ.arrive s p

theorem CQ.initM (s : CBelt) (q : Nat) : CQ s (s.initM q) := by
  unfold CBelt.initM
  split
  · exact CQ.refl s
  · refine CQ.trans ?_ (CQ.startPhase _ _ _ _)
    exact CQ.of_eq rfl rfl rfl

theorem CQ.onTimeout (s : CBelt) (u : Nat) : CQ s (s.onTimeout u) := by
  unfold CBelt.onTimeout
  split
  · split
    · refine CQ.trans ?_ (CQ.startPhase _ _ _ _)
      exact CQ.of_eq rfl rfl rfl
    · exact CQ.startPhase _ _ _ _
  · split
    · simp only
      refine CQ.trans ?_ (CQ.of_eq (s := CBelt.interruptItem _ _) rfl rfl rfl)
      refine CQ.trans ?_ (CQ.fr (Fr.interruptItem _ _))
      exact CQ.of_eq rfl rfl rfl
    · exact CQ.refl s

theorem CQ.onInterrupt (s : CBelt) (r : PRef) : CQ s (s.onInterrupt r) := by
  unfold CBelt.onInterrupt
  cases r with
  | delayed d =>
    simp only
    split
    · exact CQ.refl s
    · split
      · exact CQ.refl s
      · exact CQ.of_eq rfl rfl rfl
  | move q =>
    simp only
    split
    · exact CQ.refl s
    · split
      · exact CQ.refl s
      · exact CQ.of_eq rfl rfl rfl
      · exact CQ.of_eq rfl rfl rfl

theorem CQ.onResume (s : CBelt) (g : Nat) : CQ s (s.onResume g) := by
  unfold CBelt.onResume
  generalize s.waitOrder = l
  induction l generalizing s with
  | nil => exact CQ.refl s
  | cons q qs ih =>
    simp only [List.foldl_cons]
    refine CQ.trans ?_ (ih _)
    split
    · exact CQ.refl s
    · split
      · split
        · refine CQ.trans ?_ (CQ.startPhase _ _ _ _)
          exact CQ.of_eq rfl rfl rfl
        · exact CQ.refl s
      · exact CQ.refl s

theorem CQ.handle (s : CBelt) (k : CKind) : CQ s (s.handle k) := by
  unfold CBelt.handle
  cases k with
  | initM q => exact CQ.initM s q
  | initD d =>
    simp only
    split
    · exact CQ.refl s
    · exact CQ.of_eq rfl rfl rfl
  | tmo u => exact CQ.onTimeout s u
  | shot w g => exact CQ.fr (Fr.onShot s w g)
  | re g => exact CQ.onResume s g
  | p1e => exact CQ.trigPut s
  | cond u =>
    simp only
    split
    · split
      · exact CQ.fr (Fr.bWake s)
      · exact CQ.refl s
    · exact CQ.refl s
  | intr r => exact CQ.onInterrupt s r

theorem CQ.put (s : CBelt) (p tid : Nat) (x : Item) : CQ s (s.put p tid x).1 := by
  unfold CBelt.put
  split
  · exact CQ.refl s
  · split
    · exact CQ.refl s
    · simp only
      split
      · have h5 : ∀ s4 : CBelt, (s4.putQ = s.putQ ∧ s4.getQ = s.getQ ∧ s4.nextTid = s.nextTid) → CQ s s4.trigGet :=
          fun s4 ⟨a, b, c⟩ => (CQ.of_eq a b c).trans (CQ.trigGet s4)
        split
        · split
          · split
            · refine CQ.trans ?_ (CQ.fr (Fr.handleNew _ _))
              exact h5 _ ⟨rfl, rfl, rfl⟩
            · exact h5 _ ⟨rfl, rfl, rfl⟩
          · split
            · refine CQ.trans ?_ (CQ.fr (Fr.handleNew _ _))
              refine CQ.trans (b := CBelt.trigGet _) ?_ (CQ.of_eq rfl rfl rfl)
              exact h5 _ ⟨rfl, rfl, rfl⟩
            · refine CQ.trans (b := CBelt.trigGet _) ?_ (CQ.of_eq rfl rfl rfl)
              exact h5 _ ⟨rfl, rfl, rfl⟩
        · split
          · split
            · refine CQ.trans ?_ (CQ.fr (Fr.handleNew _ _))
              exact h5 _ ⟨rfl, rfl, rfl⟩
            · exact h5 _ ⟨rfl, rfl, rfl⟩
          · split
            · refine CQ.trans ?_ (CQ.fr (Fr.handleNew _ _))
              refine CQ.trans (b := CBelt.trigGet _) ?_ (CQ.of_eq rfl rfl rfl)
              exact h5 _ ⟨rfl, rfl, rfl⟩
            · refine CQ.trans (b := CBelt.trigGet _) ?_ (CQ.of_eq rfl rfl rfl)
              exact h5 _ ⟨rfl, rfl, rfl⟩
      · exact CQ.of_eq rfl rfl rfl

theorem CQ.get (s : CBelt) (p tid : Nat) : CQ s (s.get p tid).1 := by
  unfold CBelt.get
  split
  · exact CQ.refl s
  · split
    · exact CQ.refl s
    · split
      · exact CQ.refl s
      · split
        · exact CQ.of_eq rfl rfl rfl
        · simp only
          split
          · have h2 : ∀ s1 : CBelt, (s1.putQ = s.putQ ∧ s1.getQ = s.getQ ∧ s1.nextTid = s.nextTid) → CQ s s1.trigPut :=
              fun s1 ⟨a, b, c⟩ => (CQ.of_eq a b c).trans (CQ.trigPut s1)
            split
            · exact h2 _ ⟨rfl, rfl, rfl⟩
            · refine CQ.trans (b := CBelt.trigPut _) ?_ (CQ.of_eq rfl rfl rfl)
              exact h2 _ ⟨rfl, rfl, rfl⟩
          · exact CQ.of_eq rfl rfl rfl

theorem CQ.cancelPut (s : CBelt) (tid : Nat) : CQ s (s.cancelPut tid).1 := by
  unfold CBelt.cancelPut
  split
  · rename_i t _
    refine CQ.trans (b := { s with putQ := s.putQ.erase t }) ?_ (CQ.trigPut _)
    exact ⟨List.erase_sublist, List.Sublist.refl _, rfl⟩
  · split
    · refine CQ.trans ?_ (CQ.trigPut _)
      exact CQ.of_eq rfl rfl rfl
    · exact CQ.refl s

theorem CQ.cancelGet (s : CBelt) (tid : Nat) : CQ s (s.cancelGet tid).1 := by
  unfold CBelt.cancelGet
  split
  · rename_i t _
    refine CQ.trans (b := { s with getQ := s.getQ.erase t }) ?_ (CQ.trigGet _)
    exact ⟨List.Sublist.refl _, List.erase_sublist, rfl⟩
  · split
    · split
      · exact CQ.of_eq rfl rfl rfl
      · split
        · exact CQ.of_eq rfl rfl rfl
        · simp only
          split
          · refine CQ.trans ?_ (CQ.trigGet _)
            exact CQ.of_eq rfl rfl rfl
          · exact CQ.of_eq rfl rfl rfl
    · exact CQ.refl s

structure AQ (s : CBelt) : Prop where
  ap : Arrival s.putQ
  ag : Arrival s.getQ
  lt : ∀ t ∈ s.putQ ++ s.getQ, t.id < s.nextTid

theorem AQ.sub {s s' : CBelt} (h : AQ s) (f : CQ s s') : AQ s' := by
  refine ⟨h.ap.sub f.p, h.ag.sub f.g, ?_⟩
  intro t ht
  rw [f.n]
  apply h.lt t
  rcases List.mem_append.mp ht with h1 | h1
  · exact List.mem_append_left _ (f.p.subset h1)
  · exact List.mem_append_right _ (f.g.subset h1)

theorem AQ.step {s : CBelt} (h : AQ s) (op : Op) : AQ (s.step op).1 := by
  have h' : AQ { s with fired := [], newReady := [] } := h.sub (CQ.of_eq rfl rfl rfl)
  unfold CBelt.step
  cases op with
  | reservePut p =>
    simp only [CBelt.reservePut]
    refine AQ.sub ?_ (CQ.trigPut _)
    refine ⟨h.ap.snoc (fun a ha => h.lt a (List.mem_append_left _ ha)), h.ag, ?_⟩
    intro t ht
    show t.id < s.nextTid + 1
    rcases List.mem_append.mp ht with h1 | h1
    · rcases List.mem_append.mp h1 with h2 | h2
      · exact Nat.lt_succ_of_lt (h.lt t (List.mem_append_left _ h2))
      · rw [List.mem_singleton] at h2; subst h2; exact Nat.lt_succ_self _
    · exact Nat.lt_succ_of_lt (h.lt t (List.mem_append_right _ h1))
  | reserveGet p =>
    simp only [CBelt.reserveGet]
    refine AQ.sub ?_ (CQ.trigGet _)
    refine ⟨h.ap, h.ag.snoc (fun a ha => h.lt a (List.mem_append_right _ ha)), ?_⟩
    intro t ht
    show t.id < s.nextTid + 1
    rcases List.mem_append.mp ht with h1 | h1
    · exact Nat.lt_succ_of_lt (h.lt t (List.mem_append_left _ h1))
    · rcases List.mem_append.mp h1 with h2 | h2
      · exact Nat.lt_succ_of_lt (h.lt t (List.mem_append_right _ h2))
      · rw [List.mem_singleton] at h2; subst h2; exact Nat.lt_succ_self _
  | put p t x => exact h'.sub (CQ.put _ p t x)
  | get p t => exact h'.sub (CQ.get _ p t)
  | cancelPut t => exact h'.sub (CQ.cancelPut _ t)
  | cancelGet t => exact h'.sub (CQ.cancelGet _ t)
  | adv dt =>
    simp only [CBelt.adv]
    split
    · split <;> exact h'.sub (CQ.of_eq rfl rfl rfl)
    · exact h'.sub (CQ.of_eq rfl rfl rfl)
  | ev =>
    simp only [CBelt.ev]
    split
    · exact h'
    · refine h'.sub ?_
      refine CQ.trans ?_ (CQ.handle _ _)
      exact CQ.of_eq rfl rfl rfl
  | final => exact h'.sub (CQ.of_eq rfl rfl rfl)

theorem init_aq (cfg : CCfg) : AQ (init cfg) := by
  refine ⟨?_, ?_, ?_⟩ <;> simp [init, Arrival]

theorem run_aq (ops : List Op) : ∀ s : CBelt, AQ s → AQ (s.run ops) := by
  induction ops with
  | nil => intro s h; exact h
  | cons op ops ih => intro s h; exact ih _ (h.step op)

end CBelt
end FsVerif
