/-
Behaviour-side invariants of the Combiner / Splitter automaton: the recipe (Combiner) and the plan of
every worker (Splitter), and the combination with the unit accounting of Proofs/Pack.lean into an
invariant of every reachable state.
-/
import FsVerif.Proofs.Pack
namespace FsVerif
namespace PackState

/-- the units a splitter has to emit for one pallet: its items in order, then the pallet itself -/
def unitsOf (p : Unit') : List Unit' := p.content.map (fun c => ({ id := c } : Unit')) ++ [{ id := p.id }]

/-- a loaded pallet: carries what it carried plus what was loaded, and the loads match the recipe -/
structure Complete (cfg : PackCfg) (u : Unit') : Prop where
  content : u.content = u.pre ++ u.got.map Prod.fst
  recipe : ∀ e, 1 ≤ e → e < cfg.nin → u.got.countP (fun x => x.2 == e) = cfg.target.getD e 0
  edges : ∀ x ∈ u.got, 1 ≤ x.2 ∧ x.2 < cfg.nin

structure GatherOK (cfg : PackCfg) (toks : List (Nat × Nat)) (u : Unit') : Prop where
  content : u.content = u.pre ++ u.got.map Prod.fst
  recipe : ∀ e, 1 ≤ e → e < cfg.nin → u.got.countP (fun x => x.2 == e) + toks.countP (fun x => x.2 == e) = cfg.target.getD e 0
  edges : ∀ x ∈ u.got ++ toks, 1 ≤ x.2 ∧ x.2 < cfg.nin

def FromPulled (pulled : List Unit') (pal : Unit') : Prop := ∃ p ∈ pulled, p.id = pal.id ∧ p.content = pal.pre

theorem FromPulled.mono {pulled : List Unit'} {pal : Unit'} (x : Unit') (h : FromPulled pulled pal) : FromPulled (pulled ++ [x]) pal := by
  obtain ⟨p, hp, h1⟩ := h
  exact ⟨p, List.mem_append_left _ hp, h1⟩

/-! ### the reservation list built from the recipe -/

theorem countP_const_map (q next e e' : Nat) :
    ((List.range q).map (fun k => (next + k, e))).countP (fun x => x.2 == e') = if e = e' then q else 0 := by
  rw [List.countP_map]
  by_cases h : e = e'
  · subst h
    have : (List.range q).countP ((fun x : Nat × Nat => x.2 == e) ∘ fun k => (next + k, e)) = (List.range q).length :=
      List.countP_eq_length.mpr (fun x _ => by simp)
    rw [this]; simp
  · rw [if_neg h]
    exact List.countP_eq_zero.mpr (fun x _ => by simp [h])

theorem recipe_go (target : List Nat) : ∀ (fuel e next : Nat) (acc res : List (Nat × Nat)),
    recipeToks.go target e fuel next acc = (res, true) →
    (∀ e', res.countP (fun x => x.2 == e') = acc.countP (fun x => x.2 == e') + (if e ≤ e' ∧ e' < e + fuel then target.getD e' 0 else 0)) ∧
    (∀ x ∈ res, x ∈ acc ∨ (e ≤ x.2 ∧ x.2 < e + fuel)) := by
  intro fuel
  induction fuel with
  | zero =>
    intro e next acc res h
    simp only [recipeToks.go] at h
    cases h
    refine ⟨fun e' => ?_, fun x hx => Or.inl hx⟩
    rw [if_neg (by omega)]; rfl
  | succ f ih =>
    intro e next acc res h
    simp only [recipeToks.go] at h
    split at h
    · cases h
    · rename_i q hq
      obtain ⟨h1, h2⟩ := ih _ _ _ _ h
      refine ⟨?_, ?_⟩
      · intro e'
        rw [h1 e', List.countP_append, countP_const_map]
        have hget : target.getD e 0 = q := by simp [List.getD, hq]
        by_cases he : e = e'
        · subst he
          simp only [if_true]
          rw [if_neg (by omega), if_pos (by omega), hget]; omega
        · simp only [if_neg he]
          by_cases hr : e + 1 ≤ e' ∧ e' < e + 1 + f
          · rw [if_pos hr, if_pos (by omega)]; omega
          · rw [if_neg hr, if_neg (by omega)]
      · intro x hx
        rcases h2 x hx with hx | hx
        · rcases List.mem_append.mp hx with hx | hx
          · exact Or.inl hx
          · simp only [List.mem_map, List.mem_range] at hx
            obtain ⟨k, _, rfl⟩ := hx
            right; simp
        · right; omega

theorem recipeToks_ok (cfg : PackCfg) (first : Nat) (toks : List (Nat × Nat))
    (h : recipeToks cfg.target cfg.nin first = (toks, true)) :
    (∀ e, 1 ≤ e → e < cfg.nin → toks.countP (fun x => x.2 == e) = cfg.target.getD e 0) ∧
    ∀ x ∈ toks, 1 ≤ x.2 ∧ x.2 < cfg.nin := by
  unfold recipeToks at h
  obtain ⟨h1, h2⟩ := recipe_go cfg.target _ _ _ _ _ h
  refine ⟨?_, ?_⟩
  · intro e he1 he2
    rw [h1 e, if_pos (by omega)]; simp
  · intro x hx
    rcases h2 x hx with hx | hx
    · cases hx
    · omega

/-! ### the gathering loop -/

theorem countP_eraseIdx {α} (p : α → Bool) : ∀ (l : List α) (i : Nat) (x : α), l[i]? = some x →
    l.countP p = (l.eraseIdx i).countP p + (if p x then 1 else 0)
  | [], i, x, h => by simp at h
  | y :: ys, 0, x, h => by
    simp at h; subst h
    simp [List.countP_cons]
  | y :: ys, i + 1, x, h => by
    simp at h
    simp only [List.eraseIdx_cons_succ, List.countP_cons]
    rw [countP_eraseIdx p ys i x h]; omega

theorem mem_of_mem_eraseIdx' {α} {l : List α} {i : Nat} {x : α} (h : x ∈ l.eraseIdx i) : x ∈ l :=
  List.mem_of_mem_eraseIdx h

theorem gatherLoop_ok (cfg : PackCfg) : ∀ (fuel : Nat) (toks : List (Nat × Nat)) (pal : Unit') (trig : List Nat) (items : List GotItem)
    (acc : List Call), GatherOK cfg toks pal →
    GatherOK cfg (gatherLoop fuel toks pal trig items acc).1 (gatherLoop fuel toks pal trig items acc).2.1 ∧
    (gatherLoop fuel toks pal trig items acc).2.1.id = pal.id ∧ (gatherLoop fuel toks pal trig items acc).2.1.pre = pal.pre := by
  intro fuel
  induction fuel with
  | zero => intro toks pal trig items acc h; exact ⟨h, rfl, rfl⟩
  | succ f ih =>
    intro toks pal trig items acc h
    rw [gatherLoop]
    split
    · exact ⟨h, rfl, rfl⟩
    · rename_i idx hidx
      split
      · rename_i tok e it items' hget
        split
        · exact ⟨h, rfl, rfl⟩
        · have hk : GatherOK cfg (toks.eraseIdx idx) { pal with content := pal.content ++ [it.id], got := pal.got ++ [(it.id, e)] } := by
            refine ⟨?_, ?_, ?_⟩
            · simp [h.content]
            · intro e' h1 h2
              have := h.recipe e' h1 h2
              rw [countP_eraseIdx (fun x => x.2 == e') toks idx (tok, e) hget] at this
              simp only [List.countP_append, List.countP_cons, List.countP_nil]
              simp only at this ⊢
              omega
            · intro x hx
              simp only [List.mem_append, List.mem_singleton] at hx
              rcases hx with (hx | hx) | hx
              · exact h.edges x (List.mem_append_left _ hx)
              · subst hx
                exact h.edges (tok, e) (List.mem_append_right _ (List.mem_of_getElem? hget))
              · exact h.edges x (List.mem_append_right _ (mem_of_mem_eraseIdx' hx))
          obtain ⟨h1, h2, h3⟩ := ih _ _ (trig ++ it.woke) items' (acc ++ [.get e tok it.id]) hk
          exact ⟨h1, h2, h3⟩
      · exact ⟨h, rfl, rfl⟩


/-! ### behaviour steps -/

def BOK (cfg : PackCfg) (pulled : List Unit') : PBPc → Prop
  | .gather toks pal => GatherOK cfg toks pal ∧ FromPulled pulled pal
  | .cSlotWait pal _ => Complete cfg pal ∧ FromPulled pulled pal
  | .cProc pal => Complete cfg pal ∧ FromPulled pulled pal
  | _ => True

def WOK (cfg : PackCfg) (pulled : List Unit') (plans : List (List Unit')) : Prop :=
  ∀ pl ∈ plans, ∃ pal, pl = [pal] ∧ Complete cfg pal ∧ FromPulled pulled pal

def CombInv (s : PackState) : Prop :=
  WOK s.cfg s.pulledPallets (s.workers.map (·.plan)) ∧ BOK s.cfg s.pulledPallets s.bpc

def SplitInv (s : PackState) : Prop := s.workers.map (·.plan) = s.pulledPallets.map unitsOf

/-- behaviour-side frame -/
structure Fr (s s' : PackState) : Prop where
  workers : s'.workers = s.workers
  pushes : s'.pushes = s.pushes
  emitted : s'.emitted = s.emitted
  droppedU : s'.droppedU = s.droppedU
  discarded : s'.discarded = s.discarded
  cfg : s'.cfg = s.cfg
  pulled : s'.pulledPallets = s.pulledPallets

theorem Fr.refl (s : PackState) : Fr s s := ⟨rfl, rfl, rfl, rfl, rfl, rfl, rfl⟩
theorem Fr.trans {a b c : PackState} (h1 : Fr a b) (h2 : Fr b c) : Fr a c :=
  ⟨h2.workers.trans h1.workers, h2.pushes.trans h1.pushes, h2.emitted.trans h1.emitted, h2.droppedU.trans h1.droppedU,
   h2.discarded.trans h1.discarded, h2.cfg.trans h1.cfg, h2.pulled.trans h1.pulled⟩

theorem Fr.pinv {s s' : PackState} (fr : Fr s s') (h : PInv s) : PInv s' :=
  h.of_eq fr.workers fr.pushes fr.emitted fr.droppedU fr.discarded fr.cfg

theorem Fr.comb {s s' : PackState} (fr : Fr s s') (h : CombInv s) (hb : BOK s.cfg s.pulledPallets s'.bpc) : CombInv s' := by
  unfold CombInv
  rw [fr.cfg, fr.pulled, fr.workers]
  exact ⟨h.1, hb⟩

theorem Fr.split {s s' : PackState} (fr : Fr s s') (h : SplitInv s) : SplitInv s' := by
  unfold SplitInv; rw [fr.workers, fr.pulled]; exact h

theorem chk!_fr (s : PackState) (t : Nat) : Fr s (s.chk! t) := by
  obtain ⟨c, h⟩ := chk!_eq s t; rw [h]; exact ⟨rfl, rfl, rfl, rfl, rfl, rfl, rfl⟩

theorem crashB_fr (s : PackState) (e : Err) (pre : List Call) : Fr s (s.crashB e pre).1 ∧ (s.crashB e pre).1.bpc = .dead :=
  ⟨⟨rfl, rfl, rfl, rfl, rfl, rfl, rfl⟩, rfl⟩

theorem bad_fr (s : PackState) : Fr s s.bad.1 ∧ s.bad.1.bpc = s.bpc := ⟨⟨rfl, rfl, rfl, rfl, rfl, rfl, rfl⟩, rfl⟩

theorem startB_fr (s : PackState) : Fr s s.startB.1 ∧ (s.startB.1.bpc = .dead ∨ s.startB.1.bpc = .setupWait) := by
  unfold startB
  split
  · exact ⟨(crashB_fr s _ _).1, Or.inl rfl⟩
  · exact ⟨⟨rfl, rfl, rfl, rfl, rfl, rfl, rfl⟩, Or.inr rfl⟩

theorem combinerTop_fr (s : PackState) (t : Nat) (pre : List Call) :
    Fr s (s.combinerTop t pre).1 ∧ ∃ k, (s.combinerTop t pre).1.bpc = .palletWait k := by
  unfold combinerTop
  refine ⟨?_, _, rfl⟩
  exact (chk!_fr s t).trans ⟨rfl, rfl, rfl, rfl, rfl, rfl, rfl⟩

theorem requestSlot_fr (s : PackState) : Fr s s.requestSlot ∧ s.requestSlot.bpc = s.bpc := by
  unfold requestSlot; split <;> exact ⟨⟨rfl, rfl, rfl, rfl, rfl, rfl, rfl⟩, rfl⟩

theorem splitterTop_fr (s : PackState) (t : Nat) (a : Ans) (pre : List Call) : Fr s (s.splitterTop t a pre).1 := by
  have h0 := chk!_fr s t
  unfold splitterTop
  simp only
  split
  · exact h0.trans ⟨rfl, rfl, rfl, rfl, rfl, rfl, rfl⟩
  · split
    · exact h0.trans ⟨rfl, rfl, rfl, rfl, rfl, rfl, rfl⟩
    · split
      · exact h0.trans ⟨rfl, rfl, rfl, rfl, rfl, rfl, rfl⟩
      · exact h0.trans ⟨rfl, rfl, rfl, rfl, rfl, rfl, rfl⟩

theorem bok_trivial (cfg : PackCfg) (pulled : List Unit') {b : PBPc}
    (h : b = .dead ∨ b = .setupWait ∨ b = .start ∨ ∃ k, b = .palletWait k) : BOK cfg pulled b := by
  rcases h with rfl | rfl | rfl | ⟨k, rfl⟩ <;> trivial

theorem PInv.append {s s' : PackState} {w : PWorker} (h : PInv s) (hw : s'.workers = s.workers ++ [w])
    (hh : w.hist = []) (ht : w.todo = w.plan) (hcur : w.cur = none)
    (hp : s'.pushes = s.pushes) (he : s'.emitted = s.emitted) (hd : s'.droppedU = s.droppedU)
    (hn : s'.discarded = s.discarded) (hc : s'.cfg = s.cfg) : PInv s' := by
  have ex : ∀ {x : Unit' × Bool}, (∃ v ∈ s.workers, x ∈ v.hist) → ∃ v ∈ s'.workers, x ∈ v.hist := by
    rintro x ⟨v, hv, hx⟩; exact ⟨v, by rw [hw]; exact List.mem_append_left _ hv, hx⟩
  constructor
  · intro v hv; rw [hw] at hv
    rcases List.mem_append.mp hv with hv | hv
    · exact h.w1 v hv
    · simp at hv; subst hv; simp [hh, ht]
  · intro v hv; rw [hw] at hv
    rcases List.mem_append.mp hv with hv | hv
    · exact h.w2 v hv
    · simp at hv; subst hv; intro u hu; rw [hcur] at hu; cases hu
  · intro u hu; rw [he] at hu; exact ex (h.g1 u hu)
  · intro p hp'; rw [hp] at hp'; exact ex (h.g2 p hp')
  · intro u hu; rw [hd] at hu; exact ex (h.g3 u hu)
  · rw [hn, hd]; exact h.g4
  · intro hb v hv; rw [hw] at hv; rw [hc] at hb
    rcases List.mem_append.mp hv with hv | hv
    · exact h.g5 hb v hv
    · simp at hv; subst hv; intro x hx; rw [hh] at hx; cases hx

theorem WOK.mono {cfg : PackCfg} {pulled : List Unit'} {plans : List (List Unit')} (x : Unit')
    (h : WOK cfg pulled plans) : WOK cfg (pulled ++ [x]) plans := by
  intro pl hpl
  obtain ⟨pal, h1, h2, h3⟩ := h pl hpl
  exact ⟨pal, h1, h2, h3.mono x⟩

theorem bComb_inv (s : PackState) (t : Nat) (a : Ans) (hp : PInv s) (hc : CombInv s) :
    PInv (s.bComb t a).1 ∧ CombInv (s.bComb t a).1 ∧ (s.bComb t a).1.cfg = s.cfg := by
  have fin : ∀ {s' : PackState}, Fr s s' → BOK s.cfg s.pulledPallets s'.bpc → PInv s' ∧ CombInv s' ∧ s'.cfg = s.cfg :=
    fun fr hb => ⟨fr.pinv hp, fr.comb hc hb, fr.cfg⟩
  have hbad : PInv s.bad.1 ∧ CombInv s.bad.1 ∧ s.bad.1.cfg = s.cfg := fin (bad_fr s).1 (by rw [(bad_fr s).2]; exact hc.2)
  have hcrash : ∀ e pre, PInv (s.crashB e pre).1 ∧ CombInv (s.crashB e pre).1 ∧ (s.crashB e pre).1.cfg = s.cfg :=
    fun e pre => fin (crashB_fr s e pre).1 (by rw [(crashB_fr s e pre).2]; trivial)
  unfold bComb
  split
  · -- start
    obtain ⟨fr, hb⟩ := startB_fr s
    refine fin fr (bok_trivial _ _ ?_)
    rcases hb with hb | hb
    · exact Or.inl hb
    · exact Or.inr (Or.inl hb)
  · -- setupWait
    obtain ⟨fr, k, hb⟩ := combinerTop_fr ({ s with clock := s.clock.update 1 t }) t []
    have fr0 : Fr s { s with clock := s.clock.update 1 t } := ⟨rfl, rfl, rfl, rfl, rfl, rfl, rfl⟩
    exact fin (fr0.trans fr) (bok_trivial _ _ (Or.inr (Or.inr (Or.inr ⟨k, hb⟩))))
  · -- palletWait
    rename_i tok hbpc
    split
    · exact hbad
    · split
      · rename_i it rest hitems
        split
        · exact hcrash _ _
        · generalize hrt : recipeToks s.cfg.target s.cfg.nin s.nextTok = rt
          obtain ⟨toks, ok⟩ := rt
          simp only
          have hW : WOK s.cfg (s.pulledPallets ++ [{ id := it.id, content := it.content, pre := it.content }]) (s.workers.map (·.plan)) :=
            hc.1.mono _
          split
          · refine ⟨hp.of_eq rfl rfl rfl rfl rfl rfl, ⟨hW, trivial⟩, rfl⟩
          · rename_i hok
            have hok' : ok = true := by cases ok <;> simp_all
            subst hok'
            obtain ⟨h1, h2⟩ := recipeToks_ok s.cfg s.nextTok toks hrt
            refine ⟨hp.of_eq rfl rfl rfl rfl rfl rfl, ⟨hW, ?_, ?_⟩, rfl⟩
            · refine ⟨by simp, ?_, ?_⟩
              · intro e he1 he2; simpa using h1 e he1 he2
              · intro x hx; simp at hx; exact h2 x hx
            · exact ⟨_, List.mem_append_right _ (List.mem_singleton.mpr rfl), rfl, rfl⟩
      · exact hbad
  · -- gather
    rename_i toks pal hbpc
    have hB : GatherOK s.cfg toks pal ∧ FromPulled s.pulledPallets pal := by have := hc.2; rw [hbpc] at this; exact this
    obtain ⟨g1, g2, g3⟩ := gatherLoop_ok s.cfg (toks.length + 1) toks pal a.trig a.items [] hB.1
    generalize hgl : gatherLoop (toks.length + 1) toks pal a.trig a.items [] = gl at g1 g2 g3
    obtain ⟨toks', pal', calls, res⟩ := gl
    simp only at g1 g2 g3 ⊢
    have hfp : FromPulled s.pulledPallets pal' := by
      obtain ⟨p, hp1, hp2, hp3⟩ := hB.2
      exact ⟨p, hp1, by rw [g2]; exact hp2, by rw [g3]; exact hp3⟩
    split
    · exact fin ⟨rfl, rfl, rfl, rfl, rfl, rfl, rfl⟩ (by show BOK _ _ s.bpc; exact hc.2)
    · split
      · exact hcrash _ _
      · split
        · rename_i hemp
          have hnil : toks' = [] := by simpa using hemp
          subst hnil
          split
          · obtain ⟨fr, hb⟩ := requestSlot_fr s
            refine fin (fr.trans ⟨rfl, rfl, rfl, rfl, rfl, rfl, rfl⟩) ?_
            refine ⟨⟨g1.content, ?_, ?_⟩, hfp⟩
            · intro e h1 h2; simpa using g1.recipe e h1 h2
            · intro x hx; exact g1.edges x (by simpa using hx)
          · exact fin ⟨rfl, rfl, rfl, rfl, rfl, rfl, rfl⟩ (by show BOK _ _ s.bpc; exact hc.2)
        · exact fin ⟨rfl, rfl, rfl, rfl, rfl, rfl, rfl⟩ ⟨g1, hfp⟩
  · -- cSlotWait
    rename_i pal d hbpc
    have hB : Complete s.cfg pal ∧ FromPulled s.pulledPallets pal := by have := hc.2; rw [hbpc] at this; exact this
    split
    · exact hbad
    · split
      · exact hcrash _ _
      · exact fin ⟨rfl, rfl, rfl, rfl, rfl, rfl, rfl⟩ hB
  · -- cProc
    rename_i pal hbpc
    have hB : Complete s.cfg pal ∧ FromPulled s.pulledPallets pal := by have := hc.2; rw [hbpc] at this; exact this
    simp only
    generalize hw : ({ ord := s.nextProc, todo := [pal], plan := [pal] } : PWorker) = w
    have hs1 : PInv (s.spawnW w) := hp.append (w := w) rfl (by subst hw; rfl) (by subst hw; rfl) (by subst hw; rfl) rfl rfl rfl rfl rfl
    have hc1 : CombInv (s.spawnW w) := by
      refine ⟨?_, ?_⟩
      · intro pl hpl
        simp only [spawnW, List.map_append, List.mem_append, List.map_cons, List.map_nil, List.mem_singleton] at hpl
        rcases hpl with hpl | hpl
        · exact hc.1 pl hpl
        · subst hpl; subst hw; exact ⟨pal, rfl, hB.1, hB.2⟩
      · show BOK _ _ s.bpc; exact hc.2
    obtain ⟨fr, k, hb⟩ := combinerTop_fr ((s.spawnW w).chk! t) t [Call.spawn w.ord]
    have fr2 := (chk!_fr (s.spawnW w) t).trans fr
    refine ⟨fr2.pinv hs1, fr2.comb hc1 (by rw [hb]; trivial), fr2.cfg⟩
  · exact hbad

theorem bSplit_inv (s : PackState) (t : Nat) (a : Ans) (hp : PInv s) (hs : SplitInv s) :
    PInv (s.bSplit t a).1 ∧ SplitInv (s.bSplit t a).1 ∧ (s.bSplit t a).1.cfg = s.cfg := by
  have fin : ∀ {s' : PackState}, Fr s s' → PInv s' ∧ SplitInv s' ∧ s'.cfg = s.cfg :=
    fun fr => ⟨fr.pinv hp, fr.split hs, fr.cfg⟩
  have hbad : PInv s.bad.1 ∧ SplitInv s.bad.1 ∧ s.bad.1.cfg = s.cfg := fin (bad_fr s).1
  have hcrash : ∀ e pre, PInv (s.crashB e pre).1 ∧ SplitInv (s.crashB e pre).1 ∧ (s.crashB e pre).1.cfg = s.cfg :=
    fun e pre => fin (crashB_fr s e pre).1
  unfold bSplit
  split
  · exact fin (startB_fr s).1
  · have fr0 : Fr s { s with clock := s.clock.update 1 t } := ⟨rfl, rfl, rfl, rfl, rfl, rfl, rfl⟩
    exact fin (fr0.trans (splitterTop_fr _ t a []))
  · split
    · rename_i idx _
      have fr0 : Fr s { s with insel := s.insel ++ [idx] } := ⟨rfl, rfl, rfl, rfl, rfl, rfl, rfl⟩
      exact fin ((fr0.trans (requestSlot_fr _).1).trans ⟨rfl, rfl, rfl, rfl, rfl, rfl, rfl⟩)
    · exact hcrash _ _
  · split
    · exact hbad
    · exact fin ((requestSlot_fr s).1.trans ⟨rfl, rfl, rfl, rfl, rfl, rfl, rfl⟩)
  · split
    · exact hbad
    · split
      · exact hcrash _ _
      · split
        · rename_i it _ d _ _ _
          simp only
          generalize hw : mkSplitWorker s.nextProc it d = w
          generalize hs2 : s.pulledSplit t w d { id := it.id, content := it.content } = s2
          have h2 : PInv s2 := by
            subst hs2
            exact hp.append (w := w) rfl (by subst hw; rfl) (by subst hw; rfl) (by subst hw; rfl) rfl rfl rfl rfl rfl
          have h3 : SplitInv s2 := by
            subst hs2
            unfold SplitInv at hs ⊢
            simp only [pulledSplit, spawnW, slotGranted, List.map_append, List.map_cons, List.map_nil, hs]
            subst hw; rfl
          have hc2 : s2.cfg = s.cfg := by subst hs2; rfl
          have fr : ∀ pre, Fr s2 ((s2.chk! t).splitterTop t a pre).1 := fun pre => (chk!_fr s2 t).trans (splitterTop_fr (s2.chk! t) t a pre)
          exact ⟨(fr _).pinv h2, (fr _).split h3, (fr _).cfg.trans hc2⟩
        · exact hbad
  · exact hbad


/-! ### every reachable state -/

structure Inv (s : PackState) : Prop where
  pinv : PInv s
  comb : s.cfg.kind = .combiner → CombInv s
  split : s.cfg.kind = .splitter → SplitInv s

theorem init_inv (cfg : PackCfg) : Inv (init cfg) := by
  refine ⟨init_pinv cfg, fun _ => ⟨?_, trivial⟩, fun _ => rfl⟩
  intro pl hpl; simp [init] at hpl

theorem EL.inv {s s' : PackState} (h : Inv s) (el : EL s s') : Inv s' ∧ s'.cfg = s.cfg := by
  refine ⟨⟨el.pinv, ?_, ?_⟩, el.cfg⟩
  · intro hk
    rw [el.cfg] at hk
    have := h.comb hk
    unfold CombInv at this ⊢
    rw [el.cfg, el.pulled, el.plans, el.bpc]; exact this
  · intro hk
    rw [el.cfg] at hk
    have := h.split hk
    unfold SplitInv at this ⊢
    rw [el.plans, el.pulled]; exact this

theorem Inv.now {s : PackState} (h : Inv s) (t : Nat) : Inv { s with now := t } :=
  ⟨h.pinv.of_eq rfl rfl rfl rfl rfl rfl, h.comb, h.split⟩

theorem Inv.flag {s : PackState} (h : Inv s) : Inv { s with flagged := true } :=
  ⟨h.pinv.of_eq rfl rfl rfl rfl rfl rfl, h.comb, h.split⟩

theorem behaviour_inv (s : PackState) (t : Nat) (a : Ans) (h : Inv s) :
    Inv (s.behaviour t a).1 ∧ (s.behaviour t a).1.cfg = s.cfg := by
  unfold behaviour
  split
  · rename_i hk
    obtain ⟨h1, h2, h3⟩ := bComb_inv s t a h.pinv (h.comb hk)
    exact ⟨⟨h1, fun _ => h2, fun hk' => (by rw [h3, hk] at hk'; cases hk')⟩, h3⟩
  · rename_i hk
    obtain ⟨h1, h2, h3⟩ := bSplit_inv s t a h.pinv (h.split hk)
    exact ⟨⟨h1, fun hk' => (by rw [h3, hk] at hk'; cases hk'), fun _ => h2⟩, h3⟩

theorem step_inv (s : PackState) (p t : Nat) (a : Ans) (h : Inv s) :
    Inv (s.step p t a).1 ∧ (s.step p t a).1.cfg = s.cfg := by
  unfold step
  split
  · exact ⟨h.flag, rfl⟩
  · simp only
    have h' := h.now t
    split
    · exact behaviour_inv _ t a h'
    · split
      · rename_i i hfi
        split
        · rename_i w hw
          have := EL.inv h' (worker_el { s with now := t } i w t a h'.pinv hw)
          exact ⟨this.1, this.2⟩
        · exact ⟨h'.flag, rfl⟩
      · split
        · rename_i q hq
          have := EL.inv h' (pushStep_el { s with now := t } q a h'.pinv (List.mem_of_find?_eq_some hq))
          exact ⟨this.1, this.2⟩
        · exact ⟨h'.flag, rfl⟩

/-- an activation: (process, time, answers) -/
abbrev Act := Nat × Nat × Ans

def run (s : PackState) (acts : List Act) : PackState := acts.foldl (fun s x => (s.step x.1 x.2.1 x.2.2).1) s

theorem run_inv (acts : List Act) : ∀ (s : PackState), Inv s → Inv (run s acts) ∧ (run s acts).cfg = s.cfg := by
  induction acts with
  | nil => intro s h; exact ⟨h, rfl⟩
  | cons x xs ih =>
    intro s h
    obtain ⟨h1, h2⟩ := step_inv s x.1 x.2.1 x.2.2 h
    obtain ⟨h3, h4⟩ := ih _ h1
    exact ⟨h3, h4.trans h2⟩

theorem reach_inv (cfg : PackCfg) (acts : List Act) : Inv (run (init cfg) acts) ∧ (run (init cfg) acts).cfg = cfg :=
  run_inv acts (init cfg) (init_inv cfg)

end PackState
end FsVerif
