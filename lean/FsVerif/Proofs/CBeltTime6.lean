/-
Continuous-conveyor model, travel-time invariant: the kernel step, the API calls, every reachable state.
-/
import FsVerif.Proofs.CBeltTime5
namespace FsVerif
namespace CBelt

theorem TIg.onResume {s : CBelt} (h : TIg none s) (g : Nat) : TIg none (s.onResume g) := by
  rw [onResume_eq]
  generalize s.waitOrder = l
  induction l generalizing s with
  | nil => exact h
  | cons q qs ih => exact ih (h.resumeOne g q)

theorem TIg.handle_light {s : CBelt} (h : TIg none s) (k : CKind) (hk : ∀ u, k ≠ .tmo u) (hq : ∀ q, k ≠ .initM q) :
    TIg none (s.handle k) := by
  unfold CBelt.handle
  cases k with
  | initM q => exact absurd rfl (hq q)
  | tmo u => exact absurd rfl (hk u)
  | initD d =>
    simp only
    split
    · exact h
    · exact h.initD d _
  | shot w g => exact h.fr (Fr.onShot s w g)
  | re g => exact h.onResume g
  | p1e => exact h.frS (FrS.trigPut s)
  | cond u =>
    simp only
    split
    · split
      · exact h.fr (Fr.bWake s)
      · exact h
    · exact h
  | intr r => exact h.onInterrupt r

theorem TIg.ev {s : CBelt} (h : TIg none s) : TIg none s.ev := by
  unfold CBelt.ev
  split
  · exact h
  · rename_i e0 rest hq
    have hmem0 : e0 ∈ s.queue := by rw [hq]; exact List.mem_cons_self
    have hle : s.now ≤ e0.time := h.clock e0 hmem0
    have hmax : max s.now e0.time = e0.time := Nat.max_eq_right hle
    cases hk : e0.kind with
    | initM q =>
      have h0 := h.pop hq none (by intro p hp ph st rm u hku; rw [hk] at hku; cases hku)
      have hent : ∀ it ∈ s.items, it.seq = q → it.entry = max s.now e0.time := by
        intro it hit hs; rw [hmax]; exact (h.initOK e0 hmem0 q hk it hit hs).symm
      show TIg none (CBelt.handle _ (.initM q))
      unfold CBelt.handle
      exact h0.initM q hent
    | tmo u =>
      show TIg none (CBelt.handle _ (.tmo u))
      unfold CBelt.handle
      simp only
      cases hf : s.procs.find? (waitsOn u) with
      | none =>
        have h0 := h.pop hq none (by
          intro p hp ph st rm u' hku hpc
          rw [hk] at hku; simp only [CKind.tmo.injEq] at hku; subst hku
          have := List.find?_eq_none.mp hf p hp
          simp [waitsOn, hpc] at this)
        exact h0.onTimeout_none u hf
      | some p =>
        obtain ⟨hmem, hw⟩ := find_some hf
        -- p waits on u
        have hpc : ∃ ph st rm, p.pc = .run ph st rm u := by
          unfold waitsOn at hw
          split at hw
          · rename_i ph st rm t hpc'
            have : t = u := by simpa using hw
            exact ⟨ph, st, rm, by rw [hpc', this]⟩
          · cases hw
        obtain ⟨ph, st, rm, hpc⟩ := hpc
        have h0 := h.pop hq (some p.q) (by
          intro p' hp' ph' st' rm' u' hku hpc'
          rw [hk] at hku; simp only [CKind.tmo.injEq] at hku; subst hku
          rw [h.uidUniq p' hp' p hmem ph' st' rm' ph st rm _ hpc' hpc])
        have htime : e0.time = st + rm := h.tmoOK e0 hmem0 u hk p hmem ph st rm hpc
        refine TIg.onTimeout_proc (s := { s with queue := rest, now := max s.now e0.time }) u p hf h0 ph st rm hpc (by show max s.now e0.time = st + rm; rw [hmax]; exact htime) ?_
        intro it hit hs
        have := h.pcOK p hmem (by simp) it hit hs
        unfold PcOK at this
        rw [hpc] at this
        simp only at this
        obtain ⟨f1, f2, f3, f4, _, _⟩ := this
        exact ⟨f1, f2, f3, f4⟩
    | initD d =>
      have h0 := h.pop hq none (by intro p hp ph st rm u hku; rw [hk] at hku; cases hku)
      exact h0.handle_light _ (by intro u hc; cases hc) (by intro q hc; cases hc)
    | shot w g =>
      have h0 := h.pop hq none (by intro p hp ph st rm u hku; rw [hk] at hku; cases hku)
      exact h0.handle_light _ (by intro u hc; cases hc) (by intro q hc; cases hc)
    | re g =>
      have h0 := h.pop hq none (by intro p hp ph st rm u hku; rw [hk] at hku; cases hku)
      exact h0.handle_light _ (by intro u hc; cases hc) (by intro q hc; cases hc)
    | p1e =>
      have h0 := h.pop hq none (by intro p hp ph st rm u hku; rw [hk] at hku; cases hku)
      exact h0.handle_light _ (by intro u hc; cases hc) (by intro q hc; cases hc)
    | cond u =>
      have h0 := h.pop hq none (by intro p hp ph st rm u hku; rw [hk] at hku; cases hku)
      exact h0.handle_light _ (by intro u hc; cases hc) (by intro q hc; cases hc)
    | intr r =>
      have h0 := h.pop hq none (by intro p hp ph st rm u hku; rw [hk] at hku; cases hku)
      exact h0.handle_light _ (by intro u hc; cases hc) (by intro q hc; cases hc)

theorem TIg.advance {s : CBelt} (h : TIg none s) (t : Nat) (ht : s.now ≤ t) (hq : ∀ ev ∈ s.queue, t ≤ ev.time) :
    TIg none { s with now := t } := by
  obtain ⟨a1, a2, a3, a4, a5, a6, a7, a8, a9, a10, a16, a11, a12, a13, a14, a15⟩ := h
  refine ⟨a1, a2, hq, a4, a5, a6, a7, a8, a9, ?_, a16, a11, a12, a13, ?_, a15⟩
  · intro p hp hx it hit hs
    exact (a10 p hp hx it hit hs).mono rfl ht (fun ev hev _ => hev)
  · intro e he; exact Nat.le_trans (a14 e he) ht

theorem TIg.adv {s : CBelt} (h : TIg none s) (dt : Nat) : TIg none (s.adv dt) := by
  unfold CBelt.adv
  split
  · rename_i e q hq
    split
    · exact h.frS ⟨rfl, rfl, rfl, rfl, rfl, rfl, rfl, rfl, rfl⟩
    · rename_i hlt
      apply h.advance _ (Nat.le_add_right _ _)
      intro ev hev
      rw [hq] at hev
      have hs := h.sorted; rw [hq] at hs
      rcases List.mem_cons.mp hev with rfl | hev
      · omega
      · have := (List.pairwise_cons.mp hs).1 ev hev; omega
  · rename_i hq
    apply h.advance _ (Nat.le_add_right _ _)
    intro ev hev; rw [hq] at hev; cases hev

theorem TIg.iaTrig {x : Option Nat} {s : CBelt} (h : TIg x s) :
    TIg x (({ s with ia := .trig } : CBelt).sched s.now false (.shot .ia s.iaGen)) :=
  (h.frS (s' := { s with ia := .trig }) ⟨rfl, rfl, rfl, rfl, rfl, rfl, rfl, rfl, rfl⟩).fr (Fr.sched _ false _ trivial)
theorem TIg.paTrig {x : Option Nat} {s : CBelt} (h : TIg x s) :
    TIg x (({ s with pa := .trig } : CBelt).sched s.now false (.shot .pa s.paGen)) :=
  (h.frS (s' := { s with pa := .trig }) ⟨rfl, rfl, rfl, rfl, rfl, rfl, rfl, rfl, rfl⟩).fr (Fr.sched _ false _ trivial)
theorem TIg.gaTrig {x : Option Nat} {s : CBelt} (h : TIg x s) :
    TIg x (({ s with ga := .trig } : CBelt).sched s.now false (.shot .ga s.gaGen)) :=
  (h.frS (s' := { s with ga := .trig }) ⟨rfl, rfl, rfl, rfl, rfl, rfl, rfl, rfl, rfl⟩).fr (Fr.sched _ false _ trivial)

/-- a new item enters: appended to the belt and to the log, its move process is created, its Initialize scheduled -/
theorem TIg.enter {s : CBelt} (h : TIg none s) (x : Item) (hcap : 1 ≤ s.cfg.cap) :
    TIg none { (({ s with items := s.items ++ [(⟨x, s.nput, s.now, 0, none, 0⟩ : CItem)], nput := s.nput + 1, entered := s.entered ++ [(⟨x, s.nput, s.now, 0, none, 0⟩ : CItem)] } : CBelt).sched s.now true (.initM s.nput)) with procs := s.procs ++ [(⟨s.nput, x.id, .fresh, 0⟩ : MProc)] } := by
  obtain ⟨a1, a2, a3, a4, a5, a6, a7, a8, a9, a10, a16, a11, a12, a13, a14, a15⟩ := h
  refine ⟨?_, insCEv_sorted a2, ?_, ?_, ?_, ?_, ?_, ?_, ?_, ?_, ?_, ?_, ?_, ?_, ?_, ?_⟩
  · intro e he; exact hcap
  · intro ev hev
    rcases mem_insCEv.mp hev with rfl | hev
    · exact Nat.le_refl _
    · exact a3 ev hev
  · intro ev hev u hk
    rcases mem_insCEv.mp hev with rfl | hev
    · cases hk
    · exact a4 ev hev u hk
  · intro ev hev q hk
    rcases mem_insCEv.mp hev with rfl | hev
    · simp only [CKind.initM.injEq] at hk; subst hk; exact Nat.lt_succ_self _
    · exact Nat.lt_succ_of_lt (a5 ev hev q hk)
  · intro ev hev q hk it hit hs
    rcases List.mem_append.mp hit with hit | hit
    · rcases mem_insCEv.mp hev with rfl | hev
      · simp only [CKind.initM.injEq] at hk; subst hk
        exact absurd hs (Nat.ne_of_lt (a9 it hit))
      · exact a6 ev hev q hk it hit hs
    · simp at hit; subst hit
      rcases mem_insCEv.mp hev with rfl | hev
      · rfl
      · have := a5 ev hev q hk
        simp only at hs
        omega
  · intro p hp
    rcases List.mem_append.mp hp with hp | hp
    · exact Nat.lt_succ_of_lt (a7 p hp)
    · simp at hp; subst hp; exact Nat.lt_succ_self _
  · rw [List.pairwise_append]
    refine ⟨a8, by simp, ?_⟩
    intro a ha b hb
    simp at hb; subst hb
    exact Nat.ne_of_lt (a7 a ha)
  · intro it hit
    rcases List.mem_append.mp hit with hit | hit
    · exact Nat.lt_succ_of_lt (a9 it hit)
    · simp at hit; subst hit; exact Nat.lt_succ_self _
  · intro p hp _ it hit hs
    rcases List.mem_append.mp hp with hp | hp
    · rcases List.mem_append.mp hit with hit | hit
      · exact (a10 p hp (by simp) it hit hs).mono rfl (Nat.le_refl _) (fun ev hev _ => mem_insCEv.mpr (Or.inr hev))
      · simp at hit; subst hit
        have := a7 p hp
        simp only at hs
        omega
    · simp at hp; subst hp
      unfold PcOK; trivial
  · intro p hp ph st rm u hpc
    rcases List.mem_append.mp hp with hp | hp
    · exact a16 p hp ph st rm u hpc
    · simp at hp; subst hp; cases hpc
  · intro ev hev u hk p hp ph st rm hpc
    rcases List.mem_append.mp hp with hp | hp
    · rcases mem_insCEv.mp hev with rfl | hev
      · cases hk
      · exact a11 ev hev u hk p hp ph st rm hpc
    · simp at hp; subst hp; cases hpc
  · intro p hp p' hp' ph st rm ph' st' rm' u hpc hpc'
    rcases List.mem_append.mp hp with hp | hp
    · rcases List.mem_append.mp hp' with hp' | hp'
      · exact a12 p hp p' hp' ph st rm ph' st' rm' u hpc hpc'
      · simp at hp'; subst hp'; cases hpc'
    · simp at hp; subst hp; cases hpc
  · intro it hit
    rcases List.mem_append.mp hit with hit | hit
    · obtain ⟨e, he, h1⟩ := a13 it hit
      exact ⟨e, List.mem_append_left _ he, h1⟩
    · simp at hit; subst hit
      exact ⟨_, List.mem_append_right _ (List.mem_singleton.mpr rfl), rfl, rfl⟩
  · intro e he
    rcases List.mem_append.mp he with he | he
    · exact a14 e he
    · simp at he; subst he; exact Nat.le_refl _
  · intro a ha
    obtain ⟨e, he, h1⟩ := a15 a ha
    exact ⟨e, List.mem_append_left _ he, h1⟩

theorem TIg.put {s : CBelt} (h : TIg none s) (p tid : Nat) (x : Item) : TIg none (s.put p tid x).1 := by
  unfold CBelt.put
  split
  · exact h
  · split
    · exact h
    · rename_i t _
      simp only
      split
      · rename_i hroom
        have hcap : 1 ≤ s.cfg.cap := by
          simp only [level] at hroom; omega
        -- the canonical entering state, then the parts the invariant does not read
        have h4 := h.enter x hcap
        have h5 := (h4.frS (s' := { (((({ ({ s with putRes := s.putRes.erase t } : CBelt) with items := s.items ++ [(⟨x, s.nput, s.now, 0, none, 0⟩ : CItem)], nput := s.nput + 1, entered := s.entered ++ [(⟨x, s.nput, s.now, 0, none, 0⟩ : CItem)] } : CBelt).updLevel).sched s.now true (.initM s.nput))) with procs := s.procs ++ [(⟨s.nput, x.id, .fresh, 0⟩ : MProc)], activeMove := dictSet s.activeMove x.id s.nput }) ⟨rfl, rfl, rfl, rfl, rfl, rfl, rfl, rfl, rfl⟩).frS (FrS.trigGet _)
        -- wake-up of the state machine and the item entering a stalled belt: bookkeeping only
        split
        · split
          · split
            · exact h5.fr (Fr.handleNew _ _)
            · exact h5
          · have h6 := h5.iaTrig
            split
            · exact h6.fr (Fr.handleNew _ _)
            · exact h6
        · split
          · split
            · exact h5.fr (Fr.handleNew _ _)
            · exact h5
          · have h6 := h5.paTrig
            split
            · exact h6.fr (Fr.handleNew _ _)
            · exact h6
      · exact h.frS ⟨rfl, rfl, rfl, rfl, rfl, rfl, rfl, rfl, rfl⟩

theorem TIg.get {s : CBelt} (h : TIg none s) (p tid : Nat) : TIg none (s.get p tid).1 := by
  unfold CBelt.get
  split
  · exact h
  · split
    · exact h
    · split
      · exact h
      · split
        · exact h.frS ⟨rfl, rfl, rfl, rfl, rfl, rfl, rfl, rfl, rfl⟩
        · simp only
          split
          · split
            · show TIg none (CBelt.trigPut _)
              refine h.frS (FrS.trans ?_ (FrS.trigPut _))
              exact ⟨rfl, rfl, rfl, rfl, rfl, rfl, rfl, rfl, rfl⟩
            · show TIg none (CBelt.sched _ _ _ _)
              refine TIg.gaTrig ?_
              refine h.frS (FrS.trans ?_ (FrS.trigPut _))
              exact ⟨rfl, rfl, rfl, rfl, rfl, rfl, rfl, rfl, rfl⟩
          · exact h.frS ⟨rfl, rfl, rfl, rfl, rfl, rfl, rfl, rfl, rfl⟩

theorem TIg.cancelPut {s : CBelt} (h : TIg none s) (tid : Nat) : TIg none (s.cancelPut tid).1 := by
  unfold CBelt.cancelPut
  split
  · show TIg none (CBelt.trigPut _)
    refine h.frS (FrS.trans ?_ (FrS.trigPut _))
    exact ⟨rfl, rfl, rfl, rfl, rfl, rfl, rfl, rfl, rfl⟩
  · split
    · show TIg none (CBelt.trigPut _)
      refine h.frS (FrS.trans ?_ (FrS.trigPut _))
      exact ⟨rfl, rfl, rfl, rfl, rfl, rfl, rfl, rfl, rfl⟩
    · exact h

theorem TIg.cancelGet {s : CBelt} (h : TIg none s) (tid : Nat) : TIg none (s.cancelGet tid).1 := by
  unfold CBelt.cancelGet
  split
  · show TIg none (CBelt.trigGet _)
    refine h.frS (FrS.trans ?_ (FrS.trigGet _))
    exact ⟨rfl, rfl, rfl, rfl, rfl, rfl, rfl, rfl, rfl⟩
  · split
    · split
      · exact h.frS ⟨rfl, rfl, rfl, rfl, rfl, rfl, rfl, rfl, rfl⟩
      · split
        · exact h.frS ⟨rfl, rfl, rfl, rfl, rfl, rfl, rfl, rfl, rfl⟩
        · simp only
          split
          · show TIg none (CBelt.trigGet _)
            refine h.frS (FrS.trans ?_ (FrS.trigGet _))
            exact ⟨rfl, rfl, rfl, rfl, rfl, rfl, rfl, rfl, rfl⟩
          · exact h.frS ⟨rfl, rfl, rfl, rfl, rfl, rfl, rfl, rfl, rfl⟩
    · exact h

theorem TIg.step {s : CBelt} (h : TIg none s) (op : Op) : TIg none (s.step op).1 := by
  unfold CBelt.step
  have h' : TIg none { s with fired := [], newReady := [] } := h.frS ⟨rfl, rfl, rfl, rfl, rfl, rfl, rfl, rfl, rfl⟩
  cases op with
  | reservePut p =>
    show TIg none (CBelt.trigPut _)
    refine h'.frS (FrS.trans ?_ (FrS.trigPut _))
    exact ⟨rfl, rfl, rfl, rfl, rfl, rfl, rfl, rfl, rfl⟩
  | reserveGet p =>
    show TIg none (CBelt.trigGet _)
    refine h'.frS (FrS.trans ?_ (FrS.trigGet _))
    exact ⟨rfl, rfl, rfl, rfl, rfl, rfl, rfl, rfl, rfl⟩
  | put p t x => exact h'.put p t x
  | get p t => exact h'.get p t
  | cancelPut t => exact h'.cancelPut t
  | cancelGet t => exact h'.cancelGet t
  | adv dt => exact h'.adv dt
  | ev => exact h'.ev
  | final => exact h'.frS (FrS.updLevel _)

theorem run_ti (ops : List Op) : ∀ (s : CBelt), TIg none s → TIg none (s.run ops) := by
  induction ops with
  | nil => intro s h; exact h
  | cons op ops ih => intro s h; exact ih _ (h.step op)

end CBelt
end FsVerif
