/-
FleetStore: a loaded item leaves within one delay period (bounded wait), on top of the structural
invariant of Proofs/Fleet.lean.
-/
import FsVerif.Proofs.Fleet
namespace FsVerif
namespace FleetStore

/-- the kind of event the activation process is waiting for -/
def wkind (s : FleetStore) : FKind :=
  if s.started = false then .procInit else if s.condFired then .cond s.gen else .tmo s.gen

def slack (s : FleetStore) : Nat := if s.started = false then s.cfg.delay else 0

/-- the activation process will run its body at an instant ≤ T -/
def ActBy (s : FleetStore) (T : Nat) : Prop := ∃ ev ∈ s.queue, ev.kind = s.wkind ∧ ev.time + s.slack ≤ T

def nInit (q : List KEv) : Nat := q.countP (fun ev => ev.kind == .procInit)

structure BW (s : FleetStore) : Prop where
  b1 : ∀ e ∈ s.waiting, ActBy s (e.due + s.cfg.delay)
  b2 : ActBy s (s.now + s.cfg.delay)
  b3 : ∀ t ∈ s.departed, ∀ e ∈ t.batch, t.depart ≤ e.due + s.cfg.delay
  pinit : nInit s.queue + s.started.toNat = 1
  pre : s.started = false → ∀ ev ∈ s.queue, ev.kind = .procInit ∨ ∃ a, ev.kind = .act a

theorem ActBy.mono {s : FleetStore} {T T' : Nat} (h : ActBy s T) (hle : T ≤ T') : ActBy s T' := by
  obtain ⟨ev, h1, h2, h3⟩ := h; exact ⟨ev, h1, h2, by omega⟩

/-- the same control state and a queue that still holds every event: the obligation is kept -/
theorem ActBy.congr {s s' : FleetStore} {T : Nat} (h : ActBy s T) (e1 : s'.started = s.started) (e2 : s'.condFired = s.condFired)
    (e3 : s'.gen = s.gen) (e4 : s'.cfg = s.cfg) (hq : ∀ ev ∈ s.queue, ev ∈ s'.queue) : ActBy s' T := by
  obtain ⟨ev, h1, h2, h3⟩ := h
  refine ⟨ev, hq ev h1, ?_, ?_⟩
  · rw [h2]; simp only [wkind, e1, e2, e3]
  · simp only [slack, e1, e4] at *; exact h3

/-- the witness of an obligation is in the queue, so the head of the (time-sorted) queue is not later -/
theorem ActBy.head_le {s : FleetStore} {T : Nat} (h : ActBy s T) (hk : KT s) {e0 : KEv} {q : List KEv} (hq : s.queue = e0 :: q) :
    e0.time + s.slack ≤ T := by
  have hs := hk.tsorted; rw [hq] at hs
  obtain ⟨ev, hev, _, hle⟩ := h
  rw [hq] at hev
  rcases List.mem_cons.mp hev with rfl | hev
  · exact hle
  · have := (List.pairwise_cons.mp hs).1 ev hev; omega

theorem nInit_insEv (e : KEv) (q : List KEv) : nInit (insEv e q) = nInit q + (if e.kind == .procInit then 1 else 0) := by
  induction q with
  | nil => simp [insEv, nInit, List.countP_cons]
  | cons x xs ih =>
    unfold nInit at *
    simp only [insEv]
    split
    · simp only [List.countP_cons]
    · simp only [List.countP_cons, ih]; omega

/-- steps that keep the control state, keep every queued event, do not add waiting entries -/
theorem BW.transport {s s' : FleetStore} (h : BW s) (e1 : s'.started = s.started) (e2 : s'.condFired = s.condFired)
    (e3 : s'.gen = s.gen) (e4 : s'.cfg = s.cfg) (hq : ∀ ev ∈ s.queue, ev ∈ s'.queue) (hn : nInit s'.queue = nInit s.queue)
    (hw : ∀ e ∈ s'.waiting, e ∈ s.waiting) (hnow : s.now ≤ s'.now) (hd : s'.departed = s.departed)
    (hpre : s.started = false → ∀ ev ∈ s'.queue, ev ∈ s.queue ∨ ∃ a, ev.kind = .act a) : BW s' := by
  refine ⟨?_, ?_, ?_, ?_, ?_⟩
  · intro e he; rw [e4]; exact (h.b1 e (hw e he)).congr e1 e2 e3 e4 hq
  · rw [e4]; exact ((h.b2).mono (by omega)).congr e1 e2 e3 e4 hq
  · rw [hd, e4]; exact h.b3
  · rw [hn, e1]; exact h.pinit
  · intro hs ev hev
    rw [e1] at hs
    rcases hpre hs ev hev with h1 | h1
    · exact h.pre hs ev h1
    · exact Or.inr h1

theorem sched_mem (s : FleetStore) (t : Nat) (u : Bool) (k : FKind) : ∀ ev ∈ s.queue, ev ∈ (s.sched t u k).queue :=
  fun ev hev => mem_insEv.mpr (Or.inr hev)

theorem BW.sched {s : FleetStore} (h : BW s) (t : Nat) (u : Bool) (k : FKind) (hk : k ≠ .procInit)
    (hst : s.started = true ∨ ∃ a, k = .act a) : BW (s.sched t u k) := by
  refine h.transport rfl rfl rfl rfl (sched_mem s t u k) ?_ (fun e he => he) (Nat.le_refl _) rfl ?_
  · simp only [FleetStore.sched, nInit_insEv]
    have : (k == FKind.procInit) = false := by cases k <;> simp_all
    simp [this]
  · intro hs ev hev
    rcases mem_insEv.mp hev with rfl | hev
    · rcases hst with hst | ⟨a, rfl⟩
      · rw [hst] at hs; cases hs
      · exact Or.inr ⟨a, rfl⟩
    · exact Or.inl hev

theorem BW.of_b {s : FleetStore} (h : BW s) (b' : BufStore) (hf : BFrame s.b b') : BW { s with b := b' } := by
  refine h.transport rfl rfl rfl rfl (fun ev hev => hev) rfl ?_ (by simp only [now]; rw [hf.2.1]; exact Nat.le_refl _) rfl
    (fun _ ev hev => Or.inl hev)
  intro e he; simp only [waiting, hf.2.2.1] at he ⊢; exact he


theorem BW.adv {s : FleetStore} (h : BW s) (dt : Nat) : BW (s.adv dt) := by
  unfold FleetStore.adv
  split
  · split
    · exact h.transport rfl rfl rfl rfl (fun ev hev => hev) rfl (fun e he => he) (Nat.le_refl _) rfl (fun _ ev hev => Or.inl hev)
    · exact h.transport rfl rfl rfl rfl (fun ev hev => hev) rfl (fun e he => he) (by simp [now, BufStore.setNow]) rfl (fun _ ev hev => Or.inl hev)
  · exact h.transport rfl rfl rfl rfl (fun ev hev => hev) rfl (fun e he => he) (by simp [now, BufStore.setNow]) rfl (fun _ ev hev => Or.inl hev)

theorem BW.trigger {s : FleetStore} (h : BW s) : BW s.trigger := by
  unfold FleetStore.trigger
  split
  · refine BW.sched (s := { s with actTriggered := true }) ?_ _ _ _ (by simp) (Or.inr ⟨_, rfl⟩)
    exact h.transport rfl rfl rfl rfl (fun ev hev => hev) rfl (fun e he => he) (Nat.le_refl _) rfl (fun _ ev hev => Or.inl hev)
  · exact h

theorem BW.put {s : FleetStore} (h : BW s) (p tid : Nat) (x : Item) : BW (s.put p tid x).1 := by
  unfold FleetStore.put
  rcases put_b_cases s.b p tid x with ⟨hne, hf⟩ | ⟨heq, hcfg, hnow, hlog, e, htr, hdue, hseq⟩
  · generalize hput : s.b.put p tid x 0 = r at hne hf
    obtain ⟨b1, res⟩ := r
    simp only at hne hf ⊢
    cases res <;> first | exact absurd rfl hne | exact h.of_b b1 hf
  · generalize hput : s.b.put p tid x 0 = r at heq hcfg hnow hlog htr
    obtain ⟨b1, res⟩ := r
    simp only at heq hcfg hnow hlog htr ⊢
    subst heq
    simp only
    refine BW.trigger ?_
    have hnow' : ({ s with b := { b1.trigGet with timers := [] } } : FleetStore).now = s.now := by
      simp only [now, BufStore.trigGet_now, hnow]
    refine ⟨?_, ?_, h.b3, h.pinit, h.pre⟩
    · intro e' he'
      simp only [waiting, BufStore.trigGet_transit, htr, List.filter_append, List.mem_append] at he'
      rcases he' with he' | he'
      · exact (h.b1 e' he').congr rfl rfl rfl rfl (fun ev hev => hev)
      · have : e' = e := by
          have := (List.mem_filter.mp he').1; simpa using this
        subst this
        have := h.b2
        simp only [now] at this
        rw [← hdue] at this
        exact this.congr rfl rfl rfl rfl (fun ev hev => hev)
    · rw [hnow']; exact (h.b2).congr rfl rfl rfl rfl (fun ev hev => hev)

theorem enterLoop_fields (s : FleetStore) :
    s.enterLoop.started = s.started ∧ s.enterLoop.gen = s.gen + 1 ∧ s.enterLoop.cfg = s.cfg ∧ s.enterLoop.b = s.b ∧
    s.enterLoop.departed = s.departed ∧ s.enterLoop.inTransit = s.inTransit ∧
    ((s.actProcessed = false ∧ s.enterLoop.condFired = false ∧
        s.enterLoop.queue = insEv { time := s.now + s.cfg.delay, urgent := false, seq := s.nextSeq, kind := .tmo (s.gen + 1) } s.queue) ∨
     (s.actProcessed = true ∧ s.enterLoop.condFired = true ∧
        s.enterLoop.queue = insEv { time := s.now, urgent := false, seq := s.nextSeq + 1, kind := .cond (s.gen + 1) }
          (insEv { time := s.now + s.cfg.delay, urgent := false, seq := s.nextSeq, kind := .tmo (s.gen + 1) } s.queue))) := by
  unfold FleetStore.enterLoop FleetStore.sched
  cases h : s.actProcessed <;> simp [h, now]

/-- what the loop head establishes -/
theorem enterLoop_bw (s : FleetStore) (hst : s.started = true) (hw : ∀ e ∈ s.waiting, s.now ≤ e.due)
    (h3 : ∀ t ∈ s.departed, ∀ e ∈ t.batch, t.depart ≤ e.due + s.cfg.delay) (hp : nInit s.queue = 0) : BW s.enterLoop := by
  obtain ⟨f1, f2, f3, f4, f5, f6, f7⟩ := enterLoop_fields s
  have hwk : ∀ e, e ∈ s.enterLoop.waiting → e ∈ s.waiting := by
    intro e he; simp only [waiting, f4, f6] at he ⊢; exact he
  have hnow : s.enterLoop.now = s.now := by simp only [now, f4]
  have hslack : s.enterLoop.slack = 0 := by simp [slack, f1, hst]
  rcases f7 with ⟨_, g1, g2⟩ | ⟨_, g1, g2⟩
  · have hwkind : s.enterLoop.wkind = .tmo (s.gen + 1) := by simp [wkind, f1, hst, g1, f2]
    have wit : ∀ T, s.now + s.cfg.delay ≤ T → ActBy s.enterLoop T := by
      intro T hT
      refine ⟨{ time := s.now + s.cfg.delay, urgent := false, seq := s.nextSeq, kind := .tmo (s.gen + 1) }, ?_, ?_, ?_⟩
      · rw [g2]; exact mem_insEv.mpr (Or.inl rfl)
      · rw [hwkind]
      · rw [hslack]; simpa using hT
    refine ⟨fun e he => wit _ (by rw [f3]; have := hw e (hwk e he); omega), wit _ (by rw [hnow, f3]; exact Nat.le_refl _), by rw [f5, f3]; exact h3, ?_, fun hs => by rw [f1, hst] at hs; cases hs⟩
    rw [g2, nInit_insEv, hp, f1, hst]; simp
  · have hwkind : s.enterLoop.wkind = .cond (s.gen + 1) := by simp [wkind, f1, hst, g1, f2]
    have wit : ∀ T, s.now ≤ T → ActBy s.enterLoop T := by
      intro T hT
      refine ⟨{ time := s.now, urgent := false, seq := s.nextSeq + 1, kind := .cond (s.gen + 1) }, ?_, ?_, ?_⟩
      · rw [g2]; exact mem_insEv.mpr (Or.inl rfl)
      · rw [hwkind]
      · rw [hslack]; simpa using hT
    refine ⟨fun e he => wit _ (by have := hw e (hwk e he); omega), wit _ (by rw [hnow]; omega), by rw [f5, f3]; exact h3, ?_, fun hs => by rw [f1, hst] at hs; cases hs⟩
    rw [g2, nInit_insEv, nInit_insEv, hp, f1, hst]; simp


theorem init_bw (cfg : FleetCfg) : BW (init cfg) := by
  have hw : (init cfg).waiting = [] := by simp [waiting, init, BufStore.init]
  refine ⟨(by rw [hw]; intro e he; cases he), ?_, (by simp [init]), (by simp [init, nInit]), ?_⟩
  · refine ⟨{ time := 0, urgent := true, seq := 0, kind := .procInit }, by simp [init], by simp [wkind, init], ?_⟩
    simp [slack, init, now, BufStore.init]
  · intro _ ev hev; simp [init] at hev; subst hev; exact Or.inl rfl

/-- after the departure nothing is waiting -/
theorem waiting_after_depart (s : FleetStore) :
    ({ s with inTransit := s.inTransit ++ s.waiting } : FleetStore).waiting = [] := by
  apply List.filter_eq_nil_iff.mpr
  intro e he
  simp only [Bool.not_eq_eq_eq_not, Bool.not_true, List.contains_eq_mem, decide_eq_false_iff_not, Decidable.not_not,
    List.mem_append, Bool.not_eq_true']
  have he' : e ∈ s.b.transit := he
  by_cases hin : e ∈ s.inTransit
  · simp [hin]
  · simp [hin, mem_waiting.mpr ⟨he', hin⟩]

theorem BW.ev {s : FleetStore} (hk : KT s) (h : BW s) : BW s.ev := by
  unfold FleetStore.ev
  split
  · exact h
  · rename_i e0 q hq
    have hmem : e0 ∈ s.queue := by rw [hq]; exact List.mem_cons_self
    have hle : s.now ≤ e0.time := hk.clock e0 hmem
    have hmax : max s.now e0.time = e0.time := Nat.max_eq_right hle
    -- the state after popping the head
    generalize hs0 : ({ s with queue := q, b := s.b.setNow (max s.now e0.time) } : FleetStore) = s0
    have f_now : s0.now = e0.time := by subst hs0; simp only [now, BufStore.setNow]; exact hmax
    have f_st : s0.started = s.started := by subst hs0; rfl
    have f_cf : s0.condFired = s.condFired := by subst hs0; rfl
    have f_gen : s0.gen = s.gen := by subst hs0; rfl
    have f_cfg : s0.cfg = s.cfg := by subst hs0; rfl
    have f_q : s0.queue = q := by subst hs0; rfl
    have f_dep : s0.departed = s.departed := by subst hs0; rfl
    have f_w : s0.waiting = s.waiting := by subst hs0; rfl
    have f_wk : s0.wkind = s.wkind := by simp [wkind, f_st, f_cf, f_gen]
    have f_sl : s0.slack = s.slack := by simp [slack, f_st, f_cfg]
    have hn : nInit q + (if e0.kind == .procInit then 1 else 0) = nInit s.queue := by
      rw [hq]; simp [nInit, List.countP_cons]
    -- an obligation survives the pop unless the popped event is the awaited one
    have pop : ∀ T, ActBy s T → e0.kind ≠ s.wkind → ActBy s0 T := by
      intro T hT hne
      obtain ⟨ev, h1, h2, h3⟩ := hT
      rw [hq] at h1
      rcases List.mem_cons.mp h1 with rfl | h1
      · exact absurd h2 hne
      · exact ⟨ev, by rw [f_q]; exact h1, by rw [f_wk]; exact h2, by rw [f_sl]; exact h3⟩
    have head : ∀ T, ActBy s T → e0.time + s.slack ≤ T := fun T hT => hT.head_le hk hq
    have bw0 : e0.kind ≠ s.wkind → e0.kind ≠ .procInit → BW s0 := by
      intro hne hni
      refine ⟨fun e he => by rw [f_cfg]; exact pop _ (h.b1 e (f_w ▸ he)) hne, ?_, by rw [f_dep, f_cfg]; exact h.b3, ?_, ?_⟩
      · rw [f_cfg]; exact (pop _ h.b2 hne).mono (by rw [f_now]; omega)
      · rw [f_q, f_st]
        have : (e0.kind == FKind.procInit) = false := by cases hk0 : e0.kind <;> simp_all
        rw [this] at hn; simp at hn; rw [hn]; exact h.pinit
      · intro hs ev hev; rw [f_st] at hs; rw [f_q] at hev
        exact h.pre hs ev (by rw [hq]; exact List.mem_cons_of_mem _ hev)
    -- before the start only procInit / act events are queued
    have started_of : (e0.kind ≠ .procInit) → (∀ a, e0.kind ≠ .act a) → s.started = true := by
      intro h1 h2
      cases hst : s.started with
      | true => rfl
      | false =>
        rcases h.pre hst e0 hmem with h3 | ⟨a, h3⟩
        · exact absurd h3 h1
        · exact absurd h3 (h2 a)
    show BW (s0.handle e0.kind)
    unfold FleetStore.handle
    cases hkind : e0.kind with
    | procInit =>
      simp only
      have hst : s.started = false := by
        cases hst : s.started with
        | false => rfl
        | true =>
          have := h.pinit; rw [hst] at this
          rw [hkind] at hn; simp at hn; simp at this; omega
      have hsl : s.slack = s.cfg.delay := by simp [slack, hst]
      refine enterLoop_bw _ rfl ?_ ?_ ?_
      · intro e he
        have he' : e ∈ s.waiting := f_w ▸ he
        have := head _ (h.b1 e he')
        rw [hsl] at this
        show s0.now ≤ e.due
        rw [f_now]; omega
      · show ∀ t ∈ s0.departed, ∀ e ∈ t.batch, t.depart ≤ e.due + s0.cfg.delay
        rw [f_dep, f_cfg]; exact h.b3
      · show nInit s0.queue = 0
        rw [f_q]
        have := h.pinit; rw [hst] at this
        rw [hkind] at hn; simp at hn; simp at this; omega
    | tmo g =>
      simp only
      split
      · rename_i hc
        have hst : s.started = true := by rw [← f_st]; exact hc.1
        have hsl : s.slack = 0 := by simp [slack, hst]
        have wit : ∀ T, ActBy s T → ActBy { s0.sched s0.now false (.cond g) with condFired := true } T := by
          intro T hT
          have := head T hT
          refine ⟨{ time := s0.now, urgent := false, seq := s0.nextSeq, kind := .cond g }, mem_insEv.mpr (Or.inl rfl), ?_, ?_⟩
          · simp [wkind, FleetStore.sched, f_st, hst, hc.2.1]
          · simp only [slack, FleetStore.sched, f_st, hst]; simp; rw [f_now]; omega
        refine ⟨fun e he => by
            have := wit _ (h.b1 e (f_w ▸ he)); simpa [FleetStore.sched, f_cfg] using this, ?_, ?_, ?_, ?_⟩
        · have := wit _ h.b2
          refine this.mono ?_
          show s.now + s.cfg.delay ≤ s0.now + s0.cfg.delay
          rw [f_now, f_cfg]; omega
        · show ∀ t ∈ s0.departed, _
          rw [f_dep]; simpa [FleetStore.sched, f_cfg] using h.b3
        · simp only [FleetStore.sched, nInit_insEv, f_q, f_st]
          rw [hkind] at hn; simp at hn; simp; rw [hn]; exact h.pinit
        · intro hs; simp only [FleetStore.sched, f_st, hst] at hs; cases hs
      · rename_i hc
        refine bw0 ?_ (by rw [hkind]; simp)
        rw [hkind]
        intro heq
        apply hc
        unfold wkind at heq
        split at heq
        · cases heq
        · rename_i hst
          split at heq
          · cases heq
          · rename_i hcf
            simp only [FKind.tmo.injEq] at heq
            refine ⟨by rw [f_st]; simpa using hst, by rw [f_gen]; exact heq, by rw [f_cf]; simpa using hcf⟩
    | act a =>
      simp only
      have hne : e0.kind ≠ s.wkind := by
        rw [hkind]; unfold wkind; split
        · simp
        · split <;> simp
      have base := bw0 hne (by rw [hkind]; simp)
      have h1 : BW (if a = s0.curAct then { s0 with actProcessed := true } else s0) := by
        split
        · exact base.transport rfl rfl rfl rfl (fun ev hev => hev) rfl (fun e he => he) (Nat.le_refl _) rfl (fun _ ev hev => Or.inl hev)
        · exact base
      split
      · rename_i hc
        have hst : s.started = true := by rw [← f_st]; exact hc.1
        have hsl : s.slack = 0 := by simp [slack, hst]
        generalize hs1 : (if a = s0.curAct then { s0 with actProcessed := true } else s0) = s1 at h1
        have g_st : s1.started = s0.started := by subst hs1; split <;> rfl
        have g_gen : s1.gen = s0.gen := by subst hs1; split <;> rfl
        have g_cfg : s1.cfg = s0.cfg := by subst hs1; split <;> rfl
        have g_now : s1.now = s0.now := by subst hs1; split <;> rfl
        have g_q : s1.queue = s0.queue := by subst hs1; split <;> rfl
        have g_dep : s1.departed = s0.departed := by subst hs1; split <;> rfl
        have g_w : s1.waiting = s0.waiting := by subst hs1; split <;> rfl
        have wit : ∀ T, ActBy s T → ActBy { s1.sched s1.now false (.cond s1.gen) with condFired := true } T := by
          intro T hT
          have := head T hT
          refine ⟨{ time := s1.now, urgent := false, seq := s1.nextSeq, kind := .cond s1.gen }, mem_insEv.mpr (Or.inl rfl), ?_, ?_⟩
          · simp [wkind, FleetStore.sched, g_st, f_st, hst]
          · simp only [slack, FleetStore.sched, g_st, f_st, hst]; simp; rw [g_now, f_now]; omega
        refine ⟨fun e he => by
            have he' : e ∈ s.waiting := by
              have : e ∈ s1.waiting := he
              rw [g_w, f_w] at this; exact this
            have := wit _ (h.b1 e he'); simpa [FleetStore.sched, g_cfg, f_cfg] using this, ?_, ?_, ?_, ?_⟩
        · have := wit _ h.b2
          refine this.mono ?_
          show s.now + s.cfg.delay ≤ s1.now + s1.cfg.delay
          rw [g_now, f_now, g_cfg, f_cfg]; omega
        · show ∀ t ∈ s1.departed, _
          rw [g_dep, f_dep]; simpa [FleetStore.sched, g_cfg, f_cfg] using h.b3
        · simp only [FleetStore.sched, nInit_insEv, g_q, f_q, g_st, f_st]
          rw [hkind] at hn; simp at hn; simp; rw [hn]; exact h.pinit
        · intro hs; simp only [FleetStore.sched, g_st, f_st, hst] at hs; cases hs
      · exact h1
    | cond g =>
      simp only
      have hst : s.started = true := started_of (by rw [hkind]; simp) (by intro a; rw [hkind]; simp)
      split
      · rename_i hg
        -- the body: depart with everything that waits, then the loop head
        unfold FleetStore.body
        simp only
        have hsl : s.slack = 0 := by simp [slack, hst]
        have hnq : nInit q = 0 := by
          have := h.pinit; rw [hst] at this
          rw [hkind] at hn; simp at hn; simp at this; omega
        generalize hs1 : (if s0.waiting.isEmpty then s0 else _) = s1
        have p1 : s1.started = true ∧ s1.waiting = [] ∧ s1.now = s0.now ∧ s1.cfg = s0.cfg ∧ nInit s1.queue = 0 ∧
            (∀ t ∈ s1.departed, ∀ e ∈ t.batch, t.depart ≤ e.due + s0.cfg.delay) := by
          subst hs1
          split
          · rename_i hemp
            refine ⟨by rw [f_st]; exact hst, by simpa using hemp, rfl, rfl, by rw [f_q]; exact hnq, by rw [f_dep, f_cfg]; exact h.b3⟩
          · refine ⟨by simp [FleetStore.sched, f_st, hst], ?_, rfl, rfl, ?_, ?_⟩
            · exact waiting_after_depart s0
            · simp only [FleetStore.sched, nInit_insEv, f_q, hnq]; simp
            · intro t ht e he
              simp only [FleetStore.sched] at ht
              rcases List.mem_append.mp ht with ht | ht
              · rw [f_dep] at ht; rw [f_cfg]; exact h.b3 t ht e he
              · simp at ht; subst ht
                simp only at he ⊢
                have he' : e ∈ s.waiting := f_w ▸ he
                have := head _ (h.b1 e he')
                rw [f_now, f_cfg]; omega
        obtain ⟨q1, q2, q3, q4, q5, q6⟩ := p1
        generalize hs2 : (if s1.actTriggered then { s1 with curAct := s1.curAct + 1, actTriggered := false, actProcessed := false } else s1) = s2
        have p2 : s2.started = true ∧ s2.waiting = [] ∧ s2.cfg = s1.cfg ∧ nInit s2.queue = 0 ∧ s2.departed = s1.departed := by
          subst hs2; split
          · exact ⟨q1, q2, rfl, q5, rfl⟩
          · exact ⟨q1, q2, rfl, q5, rfl⟩
        obtain ⟨r1, r2, r3, r4, r5⟩ := p2
        refine enterLoop_bw s2 r1 (by rw [r2]; intro e he; cases he) ?_ r4
        rw [r5, r3, q4]; exact q6
      · rename_i hg
        refine bw0 ?_ (by rw [hkind]; simp)
        rw [hkind]; unfold wkind
        split
        · simp
        · split
          · intro heq; simp only [FKind.cond.injEq] at heq; exact hg (by rw [f_gen]; exact heq)
          · simp
    | init m =>
      simp only
      have hst : s.started = true := started_of (by rw [hkind]; simp) (by intro a; rw [hkind]; simp)
      have hne : e0.kind ≠ s.wkind := by
        rw [hkind]; unfold wkind; split
        · simp
        · split <;> simp
      exact (bw0 hne (by rw [hkind]; simp)).sched _ _ _ (by simp) (Or.inl (by rw [f_st]; exact hst))
    | tr1 m =>
      simp only
      have hst : s.started = true := started_of (by rw [hkind]; simp) (by intro a; rw [hkind]; simp)
      have hne : e0.kind ≠ s.wkind := by
        rw [hkind]; unfold wkind; split
        · simp
        · split <;> simp
      exact (bw0 hne (by rw [hkind]; simp)).sched _ _ _ (by simp) (Or.inl (by rw [f_st]; exact hst))
    | tr2 m =>
      simp only
      have hne : e0.kind ≠ s.wkind := by
        rw [hkind]; unfold wkind; split
        · simp
        · split <;> simp
      have base := bw0 hne (by rw [hkind]; simp)
      -- KT of the popped state, needed for the arrival lemma
      have hk0 : KT s0 := by
        have := hk.ev
        subst hs0
        have hs := hk.tsorted; rw [hq] at hs
        have h1 : KT { s with queue := q } := by
          obtain ⟨a1, a2, a3, a4, a5, a6, a7, a8, a9, a10, a11, a12, a13, a14, a15, a16, a17, a18, a19, a20, a21, a22⟩ := hk
          refine ⟨a1, a2, (List.pairwise_cons.mp hs).2, ?_, a5, a6, a7, a8, a9, ?_, a11, a12, a13, a14, a15, a16, a17, a18, a19, a20, a21, a22⟩
          · intro ev hev; exact a4 ev (by rw [hq]; exact List.mem_cons_of_mem _ hev)
          · intro ev hev; exact a10 ev (by rw [hq]; exact List.mem_cons_of_mem _ hev)
        refine KT.setNow h1 _ (by rw [hmax]; exact hle) ?_
        intro ev hev; rw [hmax]; exact (List.pairwise_cons.mp hs).1 ev hev
      obtain ⟨t, ht, hid, htime⟩ := (hk.evTime e0 hmem).2.2 m hkind
      obtain ⟨_, j2, j3, j4, j5, j6, j7, _⟩ := hk0.arriveTrip m ⟨t, by rw [f_dep]; exact ht, hid, by rw [f_now, f_cfg]; exact htime⟩
      exact base.transport j6.started j6.condFired j6.gen j3 (by rw [j4]; exact fun ev hev => hev) (by rw [j4]) j7
        (by rw [j2]; exact Nat.le_refl _) j5 (fun _ ev hev => Or.inl (by rw [j4] at hev; exact hev))


theorem BW.clear {s : FleetStore} (h : BW s) : BW { s with b := { s.b with fired := [] }, newReady := [] } :=
  h.transport rfl rfl rfl rfl (fun ev hev => hev) rfl (fun e he => he) (Nat.le_refl _) rfl (fun _ ev hev => Or.inl hev)

theorem BW.step {s : FleetStore} (hk : KT s) (h : BW s) (op : Op) : BW (s.step op).1 := by
  unfold FleetStore.step
  have h' := h.clear
  have hk' := hk.clear
  cases op with
  | reservePut p => exact h'.of_b _ (reservePutP_frame _ p 0)
  | reserveGet p => exact h'.of_b _ (reserveGetP_frame _ p 0)
  | reservePutP p pr => exact h'.of_b _ (reservePutP_frame _ p pr)
  | reserveGetP p pr => exact h'.of_b _ (reserveGetP_frame _ p pr)
  | put p t x => exact h'.put p t x
  | get p t => exact h'.of_b _ (get_frame _ p t)
  | cancelPut t => exact h'.of_b _ (cancelPut_frame _ t)
  | cancelGet t => exact h'.of_b _ (cancelGet_frame _ t)
  | adv dt => exact h'.adv dt
  | ev => exact BW.ev hk' h'
  | final => exact h'.of_b _ ⟨by simp [BufStore.final], by simp [BufStore.final], by simp [BufStore.final], by simp [BufStore.final]⟩

theorem reachD_bw {s : FleetStore} (h : ReachD s) : BW s := by
  induction h with
  | init cfg => exact init_bw cfg
  | step op hr _ ih => exact ih.step (reachD_kt hr) op

end FleetStore
end FsVerif
