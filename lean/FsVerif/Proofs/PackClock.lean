/-
Combiner / Splitter automaton (Model/Node/Pack.lean): state-time accounting (C17).  After EVERY activation sequence the four state
totals (SETUP, IDLE, PROCESSING, BLOCKED) add up to the time between construction and the last recorded state change, which is never
in the future — nothing is charged twice, nothing is lost.
-/
import FsVerif.Proofs.NodeClock
import FsVerif.Model.Node.Pack
namespace FsVerif
namespace PackState

structure PK (s : PackState) (t : Nat) : Prop where
  ok : ClockOK s.clock (some 0) t
  len : s.clock.tot.length = 4
  some : s.clock.last ≠ none
  now : s.now = t

theorem PK.frame {s s' : PackState} {t : Nat} (h : PK s t) (e : (s'.clock, s'.now) = (s.clock, s.now)) : PK s' t := by
  simp only [Prod.mk.injEq] at e
  exact ⟨by rw [e.1]; exact h.ok, by rw [e.1]; exact h.len, by rw [e.1]; exact h.some, by rw [e.2]; exact h.now⟩

theorem PK.upd {s : PackState} {t : Nat} (h : PK s t) (k : Nat) (hk : k < 4) : PK { s with clock := s.clock.update k t } t := by
  obtain ⟨hc, hl, hs, hn⟩ := h
  refine ⟨?_, by simpa using hl, by simp [update_last], hn⟩
  refine ClockOK.update hc k (by show k < s.clock.tot.length; omega) ?_ (fun h0 => absurd h0 hs) (Nat.le_refl _)
  intro l hl'
  have := hc.2
  rw [hl'] at this
  exact this.1

theorem PK.chk {s : PackState} {t : Nat} (h : PK s t) : PK (s.chk! t) t := by
  unfold PackState.chk! PackState.chk
  simp only
  split
  · exact h.upd 1 (by omega)
  · split
    · exact h.upd 2 (by omega)
    · split
      · exact h.upd 3 (by omega)
      · exact h

theorem PK.startAny {s : PackState} {t : Nat} (h : PK s t) (i : Nat) (w : PWorker) (u : Unit') (rest : List Unit') :
    PK (s.startAny i w t u rest).1 t := by
  unfold PackState.startAny
  exact ((h.chk.frame (s' := (s.chk! t).setW i (markW w u rest)) rfl).chk).frame rfl

theorem PK.startTok {s : PackState} {t : Nat} (h : PK s t) (i : Nat) (w : PWorker) (u : Unit') (rest : List Unit') (r : Route) (j : Nat) :
    PK (s.startTok i w t u rest r j).1 t := by
  unfold PackState.startTok
  exact ((h.frame (s' := (s.commit r).setW i (markW w u rest)) rfl).chk).frame rfl

theorem PK.startPush {s : PackState} {t : Nat} (h : PK s t) (i : Nat) (w : PWorker) (u : Unit') (rest : List Unit') (r : Route) (j : Nat) (fa : Bool) :
    PK (s.startPush i w t u rest r j fa).1 t := by
  unfold PackState.startPush
  simp only
  have h0 : PK (if fa then s.chk! t else s) t := by split; exact h.chk; exact h
  exact ((h0.frame (s' := ((if fa then s.chk! t else s).commit r).setW i { markW w u rest with cur := none }) rfl).chk).frame rfl

theorem PK.dropUnit {s : PackState} {t : Nat} (h : PK s t) (i : Nat) (w : PWorker) (u : Unit') (rest : List Unit') (r : Route) (mark : Bool) :
    PK (s.dropUnit i w t u rest r mark).1 t := by
  unfold PackState.dropUnit
  simp only
  have h1 : PK ((s.commit r).setW i { w with blocked := w.blocked || mark, cur := none, todo := rest, hist := w.hist ++ [(u, false)] }) t := h.frame rfl
  split
  · exact h1.chk.frame rfl
  · exact h1.frame rfl

theorem PK.emitLoop (t : Nat) : ∀ (todo : List Unit') (s : PackState) (i : Nat) (w : PWorker) (cans : List Bool) (sels : List Int) (acc : List Call),
    PK s t → PK (s.emitLoop i w t todo cans sels acc).1 t := by
  intro todo
  induction todo with
  | nil => intro s i w cans sels acc h; unfold PackState.emitLoop; exact h.frame rfl
  | cons u rest ih =>
    intro s i w cans sels acc h
    unfold PackState.emitLoop
    simp only
    split
    · exact h.frame rfl
    · exact h.frame rfl
    · exact h.startAny i w u rest
    · exact h.startTok i w u rest _ _
    · exact h.startPush i w u rest _ _ _
    · exact ih _ _ _ _ _ _ (h.dropUnit i w u rest _ _)

theorem sk_grantQueued (s : PackState) : (s.grantQueued.clock, s.grantQueued.now) = (s.clock, s.now) := by
  unfold grantQueued; split <;> rfl

theorem PK.worker {s : PackState} {t : Nat} (h : PK s t) (i : Nat) (w : PWorker) (a : Ans) : PK (s.worker i w t a).1 t := by
  unfold PackState.worker
  split
  · split
    · exact h.chk.frame rfl
    · exact PK.emitLoop t _ _ _ _ _ _ _ h
  · split
    · exact h.frame rfl
    · exact PK.emitLoop t _ _ _ _ _ _ _ h
  · split
    · exact PK.emitLoop t _ _ _ _ _ _ _ (h.frame rfl)
    · exact h.frame rfl
  · split
    · split
      · exact h.frame rfl
      · exact PK.emitLoop t _ _ _ _ _ _ _ (h.frame rfl)
    · exact h.frame rfl
  · split
    · split
      · exact h.frame rfl
      · exact PK.emitLoop t _ _ _ _ _ _ _ (h.frame rfl)
    · exact h.frame rfl
  · simp only
    split
    · exact (h.frame (sk_grantQueued s)).frame rfl
    · exact PK.chk (((h.frame (sk_grantQueued s)).frame (s' := s.grantQueued.setW i { w with pc := .done, inList := false }) rfl).frame rfl)
  · exact h.frame rfl
  · exact h.frame rfl

theorem PK.pushStep {s : PackState} {t : Nat} (h : PK s t) (p : PPush) (a : Ans) : PK (s.pushStep p a).1 t := by
  unfold PackState.pushStep
  repeat' split
  all_goals exact h.frame rfl

theorem PK.splitterTop {s : PackState} {t : Nat} (h : PK s t) (a : Ans) (pre : List Call) : PK (s.splitterTop t a pre).1 t := by
  unfold PackState.splitterTop crashB
  simp only
  repeat' split
  all_goals exact h.chk.frame rfl

theorem PK.combinerTop {s : PackState} {t : Nat} (h : PK s t) (pre : List Call) : PK (s.combinerTop t pre).1 t := by
  unfold PackState.combinerTop
  exact h.chk.frame rfl

theorem sk_requestSlot (s : PackState) : (s.requestSlot.clock, s.requestSlot.now) = (s.clock, s.now) := by
  unfold requestSlot; split <;> rfl

theorem PK.bComb {s : PackState} {t : Nat} (h : PK s t) (a : Ans) : PK (s.bComb t a).1 t := by
  unfold PackState.bComb startB bad crashB
  split
  · split <;> exact h.frame rfl
  · exact (h.upd 1 (by omega)).combinerTop []
  · split
    · exact h.frame rfl
    · split
      · split
        · exact h.frame rfl
        · simp only
          split <;> exact h.frame rfl
      · exact h.frame rfl
  · simp only
    split
    · exact h.frame rfl
    · split
      · exact h.frame rfl
      · split
        · split
          · exact (h.frame (sk_requestSlot s)).frame rfl
          · exact h.frame rfl
        · exact h.frame rfl
  · split
    · exact h.frame rfl
    · split
      · exact h.frame rfl
      · exact ((h.frame (s' := { s.slotGranted t with pds := s.pds ++ [_] }) rfl).upd 2 (by omega)).frame rfl
  · simp only
    refine PK.combinerTop (PK.chk ?_) _
    exact h.frame rfl
  · exact h.frame rfl

theorem PK.bSplit {s : PackState} {t : Nat} (h : PK s t) (a : Ans) : PK (s.bSplit t a).1 t := by
  unfold PackState.bSplit startB bad crashB
  split
  · split <;> exact h.frame rfl
  · exact (h.upd 1 (by omega)).splitterTop a []
  · split
    · exact (h.frame (s' := ({ s with insel := s.insel ++ [_] } : PackState).requestSlot) (by rw [sk_requestSlot])).frame rfl
    · exact h.frame rfl
  · split
    · exact h.frame rfl
    · exact (h.frame (sk_requestSlot s)).frame rfl
  · split
    · exact h.frame rfl
    · split
      · exact h.frame rfl
      · split
        · simp only
          refine PK.splitterTop (PK.chk ?_) a _
          exact h.frame rfl
        · exact h.frame rfl
  · exact h.frame rfl

theorem PK.step {s : PackState} (proc t : Nat) (a : Ans) (h : PK s s.now) : PK (s.step proc t a).1 (s.step proc t a).1.now := by
  unfold PackState.step
  split
  · exact h.frame rfl
  · rename_i hlt
    have hle : s.now ≤ t := by omega
    have h' : PK { s with now := t } t := ⟨h.ok.later hle, h.len, h.some, rfl⟩
    have key : ∀ x : PackState, PK x t → PK x x.now := fun x hx => by rw [hx.now]; exact hx
    simp only
    split
    · unfold PackState.behaviour
      split
      · exact key _ (h'.bComb a)
      · exact key _ (h'.bSplit a)
    · split
      · split
        · exact key _ (h'.worker _ _ a)
        · exact key _ (h'.frame rfl)
      · split
        · exact key _ (h'.pushStep _ a)
        · exact key _ (h'.frame rfl)

theorem init_pk (cfg : PackCfg) : PK (init cfg) (init cfg).now :=
  ⟨⟨by simp [init], by simp [init]⟩, by simp [init], by simp [init], rfl⟩

end PackState
end FsVerif
