/-
BufferStore: delay discipline (an entry is ready only after its delay), timer queue, monotone
clock and the time-averaged level bookkeeping.  No assumption on the client.
-/
import FsVerif.Proofs.BufInv
namespace FsVerif
namespace BufStore

structure TimeOK (s : BufStore) : Prop where
  readyDue : ∀ e ∈ s.ready, e.due ≤ s.now
  resDue : ∀ e ∈ s.resItems, e.due ≤ s.now
  future : ∀ e ∈ s.timers, s.now ≤ e.due
  sorted : s.timers.Pairwise (fun a b => a.due ≤ b.due)
  level : s.lastLevel = s.level
  change : s.lastChange ≤ s.now
  integral : s.wsum + s.lastLevel * (s.now - s.lastChange) = s.area

/-! frames -/

theorem time_of_eq {s s' : BufStore} (h : TimeOK s) (e1 : s'.ready = s.ready) (e2 : s'.timers = s.timers)
    (e3 : s'.now = s.now) (e4 : s'.transit = s.transit) (e5 : s'.lastLevel = s.lastLevel)
    (e6 : s'.lastChange = s.lastChange) (e7 : s'.wsum = s.wsum) (e8 : s'.area = s.area)
    (e9 : ∀ e ∈ s'.resItems, e ∈ s.resItems ∨ e ∈ s.ready) : TimeOK s' := by
  obtain ⟨a, r, b, c, d, e, f⟩ := h
  refine ⟨?_, fun x hx => by rw [e3]; exact (e9 x hx).elim (r x) (a x), ?_, ?_, ?_, ?_, ?_⟩ <;>
    simp only [level, e1, e2, e3, e4, e5, e6, e7, e8] at * <;> assumption

theorem trigPut_time {s : BufStore} (h : TimeOK s) : TimeOK s.trigPut :=
  time_of_eq h (by simp) (by simp) (by simp) (by simp) (by simp) (by simp) (by simp) (by simp) (by simp; exact fun _ hx => Or.inl hx)

theorem bind_mem_ready {s : BufStore} {e : BEntry} (h : s.bindIdx.bind (fun i => s.ready[i]?) = some e) : e ∈ s.ready := by
  unfold bindIdx at h
  cases hm : s.cfg.mode with
  | fifo => simp [hm] at h; exact List.mem_of_getElem? h
  | lifo =>
    simp [hm] at h
    split at h
    · simp at h; exact List.mem_of_getElem? h
    · simp at h

theorem trigGet_time {s : BufStore} (h : TimeOK s) : TimeOK s.trigGet := by
  rcases trigGet_cases s with ⟨he, _⟩ | ⟨t, q, e, hq, hs, hb, he⟩ | ⟨t, q, hq, hs, hb, he⟩
  · rw [he]; exact h
  · rw [he]
    refine time_of_eq h rfl rfl rfl rfl rfl rfl rfl rfl ?_
    intro x hx
    simp only at hx
    rcases List.mem_append.mp hx with hx | hx
    · exact Or.inl hx
    · simp at hx; rw [hx]; exact Or.inr (bind_mem_ready hb)
  · rw [he]; exact time_of_eq h rfl rfl rfl rfl rfl rfl rfl rfl (fun _ hx => Or.inl hx)

/-- `_update_time_averaged_level` re-establishes the statistics part whatever the level was. -/
theorem updLevel_time {s : BufStore} (h1 : ∀ e ∈ s.ready, e.due ≤ s.now) (hr : ∀ e ∈ s.resItems, e.due ≤ s.now)
    (h2 : ∀ e ∈ s.timers, s.now ≤ e.due)
    (h3 : s.timers.Pairwise (fun a b => a.due ≤ b.due)) (hc : s.lastChange ≤ s.now)
    (hi : s.wsum + s.lastLevel * (s.now - s.lastChange) = s.area) : TimeOK s.updLevel := by
  refine ⟨by simpa using h1, by simpa using hr, by simpa using h2, by simpa using h3, ?_, ?_, ?_⟩
  · simp [updLevel, level]
  · simp [updLevel]
  · simp [updLevel]; exact hi

theorem insTimer_perm' (e : BEntry) (l : List BEntry) : (insTimer e l).Perm (e :: l) := by
  induction l with
  | nil => simp [insTimer]
  | cons x xs ih =>
    unfold insTimer
    split
    · exact List.Perm.refl _
    · exact (List.Perm.cons x ih).trans (List.Perm.swap e x xs)

theorem insTimer_sorted {e : BEntry} {l : List BEntry} (h : l.Pairwise (fun a b => a.due ≤ b.due)) :
    (insTimer e l).Pairwise (fun a b => a.due ≤ b.due) := by
  induction l with
  | nil => simp [insTimer]
  | cons x xs ih =>
    unfold insTimer
    have hp := List.pairwise_cons.mp h
    split
    · rename_i hlt
      refine List.pairwise_cons.mpr ⟨?_, h⟩
      intro a ha
      rcases List.mem_cons.mp ha with rfl | ha
      · omega
      · have := hp.1 a ha; omega
    · rename_i hnlt
      refine List.pairwise_cons.mpr ⟨?_, ih hp.2⟩
      intro a ha
      have hperm : (insTimer e xs).Perm (e :: xs) := insTimer_perm' e xs
      rcases List.mem_cons.mp (hperm.mem_iff.mp ha) with rfl | ha
      · omega
      · exact hp.1 a ha

theorem mem_insTimer {e a : BEntry} {l : List BEntry} (h : a ∈ insTimer e l) : a = e ∨ a ∈ l := by
  induction l with
  | nil => simpa [insTimer] using h
  | cons x xs ih =>
    unfold insTimer at h
    split at h
    · simpa using h
    · rcases List.mem_cons.mp h with rfl | h
      · right; exact List.mem_cons_self
      · rcases ih h with rfl | h
        · left; rfl
        · right; exact List.mem_cons_of_mem _ h

theorem removeItem_length {l : List BEntry} {x : Item} (h : hasItem l x = true) :
    (removeItem l x).length + 1 = l.length := by
  unfold removeItem
  unfold hasItem at h
  obtain ⟨e, he, hp⟩ := List.any_eq_true.mp h
  cases hf : l.findIdx? (fun e => e.item.id == x.id) with
  | none =>
    have := List.findIdx?_eq_none_iff.mp hf e he
    simp [hp] at this
  | some i =>
    have hi : i < l.length := (List.findIdx?_eq_some_iff_getElem.mp hf).1
    simp only
    rw [List.length_eraseIdx_of_lt hi]; omega

theorem removeItem_sub {l : List BEntry} {x : Item} : ∀ e ∈ removeItem l x, e ∈ l := by
  intro e he
  unfold removeItem at he
  split at he
  · exact (List.eraseIdx_sublist _ _).subset he
  · exact he


/-! per operation -/

theorem clearFired_time {s : BufStore} (h : TimeOK s) : TimeOK { s with fired := [] } :=
  time_of_eq h rfl rfl rfl rfl rfl rfl rfl rfl (fun _ hx => Or.inl hx)

theorem put_time {s : BufStore} (p tid x d) (h : TimeOK s) : TimeOK (s.put p tid x d).1 := by
  unfold put
  split
  · exact h
  · split
    · exact h
    · rename_i t _
      split
      · simp only
        apply trigGet_time
        obtain ⟨a, r, b, c, e, f, g⟩ := h
        apply updLevel_time
        · simpa [addItem, dropPutRes] using a
        · simpa [addItem, dropPutRes] using r
        · intro e' he'
          simp only [addItem, dropPutRes] at he' ⊢
          rcases mem_insTimer he' with rfl | he'
          · simp
          · exact b e' he'
        · simp only [addItem, dropPutRes]; exact insTimer_sorted c
        · simpa [addItem, dropPutRes] using f
        · simpa [addItem, dropPutRes] using g
      · exact time_of_eq h rfl rfl rfl rfl rfl rfl rfl rfl (fun _ hx => Or.inl hx)

theorem get_time {s : BufStore} (p tid) (h : TimeOK s) : TimeOK (s.get p tid).1 := by
  unfold get
  split
  · exact h
  · split
    · exact h
    · rename_i t _
      split
      · exact h
      · split
        · exact time_of_eq h rfl rfl rfl rfl rfl rfl rfl rfl (fun _ hx => Or.inl hx)
        · rename_i e _
          split
          · simp only
            apply trigPut_time
            obtain ⟨a, r, b, c, e', f, g⟩ := h
            apply updLevel_time
            · intro x hx
              simp only [takeEntry, unbind] at hx ⊢
              exact a x (removeItem_sub x hx)
            · intro x hx
              simp only [takeEntry, unbind] at hx ⊢
              exact r x ((List.eraseIdx_sublist _ _).subset hx)
            · simpa [takeEntry, unbind] using b
            · simpa [takeEntry, unbind] using c
            · simpa [takeEntry, unbind] using f
            · simpa [takeEntry, unbind] using g
          · exact time_of_eq h rfl rfl rfl rfl rfl rfl rfl rfl
              (fun _ hx => Or.inl ((List.eraseIdx_sublist _ _).subset (by simpa [unbind] using hx)))

theorem cancelPut_time {s : BufStore} (tid) (h : TimeOK s) : TimeOK (s.cancelPut tid).1 := by
  unfold cancelPut
  split
  · exact trigPut_time (time_of_eq h rfl rfl rfl rfl rfl rfl rfl rfl (fun _ hx => Or.inl hx))
  · split
    · exact trigPut_time (time_of_eq h rfl rfl rfl rfl rfl rfl rfl rfl (fun _ hx => Or.inl hx))
    · exact h

theorem cancelGet_time {s : BufStore} (tid) (h : TimeOK s) : TimeOK (s.cancelGet tid).1 := by
  unfold cancelGet
  split
  · exact trigGet_time (time_of_eq h rfl rfl rfl rfl rfl rfl rfl rfl (fun _ hx => Or.inl hx))
  · split
    · rename_i t _
      split
      · exact time_of_eq h rfl rfl rfl rfl rfl rfl rfl rfl (fun _ hx => Or.inl hx)
      · split
        · exact time_of_eq h rfl rfl rfl rfl rfl rfl rfl rfl (fun _ hx => Or.inl hx)
        · rename_i e _
          split
          · rename_i hhas
            simp only
            apply trigGet_time
            rename_i hx0
            obtain ⟨a, r, b, c, e', f, g⟩ := h
            have hl := removeItem_length hhas
            have hedue : e.due ≤ s.now := r e (List.mem_of_getElem? hx0)
            refine ⟨?_, ?_, b, c, ?_, f, g⟩
            · intro x hx
              simp only [release, unbind] at hx ⊢
              rcases List.mem_cons.mp ((pyInsert_perm _ _ _).mem_iff.mp hx) with hx | hx
              · rw [hx]; exact hedue
              · exact a x (removeItem_sub x hx)
            · intro x hx
              simp only [release, unbind] at hx ⊢
              exact r x ((List.eraseIdx_sublist _ _).subset hx)
            · simp only [release, unbind, level, pyInsert_length] at *
              omega
          · exact time_of_eq h rfl rfl rfl rfl rfl rfl rfl rfl
              (fun _ hx => Or.inl ((List.eraseIdx_sublist _ _).subset (by simpa [unbind] using hx)))
    · exact h


theorem setNow_time {s : BufStore} {d : Nat} (h : TimeOK s) (hd : s.now ≤ d) (hf : ∀ e ∈ s.timers, d ≤ e.due) :
    TimeOK (s.setNow d) := by
  obtain ⟨a, r, b, c, e, f, g⟩ := h
  refine ⟨fun x hx => by have := a x hx; simp only [setNow]; omega,
          fun x hx => by have := r x hx; simp only [setNow]; omega, hf, c, e, by simp only [setNow]; omega, ?_⟩
  simp only [setNow]
  have : d - s.lastChange = (s.now - s.lastChange) + (d - s.now) := by omega
  rw [this, Nat.mul_add, ← g, e, Nat.add_assoc]

theorem move_time {s : BufStore} (e : BEntry) (h : TimeOK s) (he : e.due ≤ s.now) (hin : e ∈ s.transit)
    (hroom : s.moveRoom e = true) : TimeOK (s.move e) := by
  unfold move
  rw [if_pos hroom]
  apply trigPut_time; apply trigGet_time
  obtain ⟨a, r, b, c, e', f, g⟩ := h
  have hl : (s.transit.erase e).length + 1 = s.transit.length := by
    have : 0 < s.transit.length := List.length_pos_of_mem hin
    rw [List.length_erase_of_mem hin]; omega
  refine ⟨?_, by simpa [arrive] using r, by simpa [arrive] using b, by simpa [arrive] using c, ?_,
    by simpa [arrive] using f, by simpa [arrive] using g⟩
  · intro x hx
    have hp : (s.arrive e).ready.Perm (e :: s.ready) := by
      unfold arrive
      cases s.cfg.mode with
      | fifo => simpa using List.perm_append_singleton e s.ready
      | lifo => exact pyInsert_perm _ _ _
    rcases List.mem_cons.mp (hp.mem_iff.mp hx) with rfl | hx
    · simpa [arrive] using he
    · simpa [arrive] using a x hx
  · have hp : (s.arrive e).ready.length = s.ready.length + 1 := by
      unfold arrive
      cases s.cfg.mode <;> simp
    simp only [level] at e' ⊢
    rw [hp]; simp only [arrive]; omega


/-! time steps, together with the store invariant (the capacity guard of the move is dead) -/

theorem fireAll_time (es : List BEntry) {s : BufStore} (hc : Core s) (h : TimeOK s)
    (hp : (es ++ s.timers).Perm s.transit) (hs : es.Pairwise (fun a b => a.due ≤ b.due))
    (hle : ∀ e ∈ es, ∀ x ∈ s.timers, e.due ≤ x.due) :
    TimeOK (fireAll es s) ∧ s.now ≤ (fireAll es s).now ∧
    (∀ B, s.now ≤ B → (∀ e ∈ es, e.due ≤ B) → (fireAll es s).now ≤ B) := by
  induction es generalizing s with
  | nil => exact ⟨h, Nat.le_refl _, fun B hB _ => hB⟩
  | cons e es ih =>
    have he : e ∈ s.transit := hp.mem_iff.mp (by simp)
    have hsp := List.pairwise_cons.mp hs
    have hcn := setNow_core (max s.now e.due) hc
    have htn : TimeOK (s.setNow (max s.now e.due)) := by
      refine setNow_time h (Nat.le_max_left _ _) ?_
      intro x hx
      have h1 := h.future x hx
      have h2 := hle e (by simp) x hx
      exact Nat.max_le.mpr ⟨h1, h2⟩
    have hm := move_core hcn (e := e) (by simpa [setNow] using he)
    have hmt := move_time e htn (by simp [setNow]; exact Nat.le_max_right _ _) (by simpa [setNow] using he)
      (moveRoom_of_transit hcn.toPre (by simpa [setNow] using he))
    have hp' : (es ++ ((s.setNow (max s.now e.due)).move e).timers).Perm ((s.setNow (max s.now e.due)).move e).transit := by
      rw [hm.2.2, hm.2.1]
      simp only [setNow]
      have := hp.erase e
      simpa using this
    have hle' : ∀ e' ∈ es, ∀ x ∈ ((s.setNow (max s.now e.due)).move e).timers, e'.due ≤ x.due := by
      intro e' he' x hx
      rw [hm.2.2] at hx
      exact hle e' (List.mem_cons_of_mem _ he') x (by simpa [setNow] using hx)
    have hnow : ((s.setNow (max s.now e.due)).move e).now = max s.now e.due := by
      unfold move; split <;> simp [arrive, setNow]
    have := ih hm.1 hmt hp' hsp.2 hle'
    unfold fireAll
    refine ⟨this.1, ?_, ?_⟩
    · have := this.2.1; rw [hnow] at this
      exact Nat.le_trans (Nat.le_max_left _ _) this
    · intro B hB hall
      apply this.2.2 B
      · rw [hnow]; exact Nat.max_le.mpr ⟨hB, hall e (by simp)⟩
      · intro e' he'; exact hall e' (List.mem_cons_of_mem _ he')

structure Full (s : BufStore) : Prop extends BInv s where
  time : TimeOK s

theorem init_full (cfg : BufCfg) : Full (init cfg) :=
  ⟨init_binv cfg, by constructor <;> simp [init, level]⟩

@[simp] theorem fireAll_timers' (es : List BEntry) (s : BufStore) (hc : Core s) (hp : (es ++ s.timers).Perm s.transit) :
    (fireAll es s).timers = s.timers := by
  induction es generalizing s with
  | nil => rfl
  | cons e es ih =>
    have he : e ∈ s.transit := hp.mem_iff.mp (by simp)
    have hcn := setNow_core (max s.now e.due) hc
    have hm := move_core hcn (e := e) (by simpa [setNow] using he)
    unfold fireAll
    rw [ih _ hm.1 (by rw [hm.2.2, hm.2.1]; simp only [setNow]; have := hp.erase e; simpa using this), hm.2.2]
    simp [setNow]

theorem adv_now (s : BufStore) (dt : Nat) : (s.adv dt).now = s.now + dt := by
  unfold adv
  split
  · omega
  · simp [setNow]

theorem adv_full {s : BufStore} (dt : Nat) (h : Full s) : Full (s.adv dt) := by
  refine ⟨adv_binv dt h.toBInv, ?_⟩
  unfold adv
  split
  · exact h.time
  · have hc : Core { s with timers := s.timers.filter (fun e => !(decide (e.due < s.now + dt))) } :=
      core_of_eq h.toCore rfl rfl rfl rfl rfl rfl rfl rfl rfl rfl rfl rfl rfl
    have ht : TimeOK { s with timers := s.timers.filter (fun e => !(decide (e.due < s.now + dt))) } := by
      obtain ⟨a, r, b, c, e, f, g⟩ := h.time
      exact ⟨a, r, fun x hx => b x (List.mem_filter.mp hx).1, c.sublist List.filter_sublist, e, f, g⟩
    have hp := (filter_split_perm s.timers (fun e => decide (e.due < s.now + dt))).trans h.timers
    have hp' : (s.timers.filter (fun e => decide (e.due < s.now + dt)) ++
        ({ s with timers := s.timers.filter (fun e => !(decide (e.due < s.now + dt))) } : BufStore).timers).Perm
        ({ s with timers := s.timers.filter (fun e => !(decide (e.due < s.now + dt))) } : BufStore).transit := by
      simpa using hp
    have hf := fireAll_time (s.timers.filter (fun e => decide (e.due < s.now + dt))) hc ht hp'
      (h.time.sorted.sublist List.filter_sublist)
      (by intro e he x hx
          have h1 := (List.mem_filter.mp he).2
          have h2 := (List.mem_filter.mp hx).2
          simp at h1 h2; omega)
    have hB := hf.2.2 (s.now + dt) (by simp) (by intro e he; have := (List.mem_filter.mp he).2; simp at this; omega)
    refine setNow_time hf.1 hB ?_
    intro x hx
    rw [fireAll_timers' _ _ hc hp'] at hx
    have := (List.mem_filter.mp hx).2; simp at this; omega

theorem settle_full {s : BufStore} (h : Full s) : Full s.settle ∧ s.settle.now = s.now := by
  have hc : Core { s with timers := s.timers.filter (fun e => !(decide (e.due ≤ s.now))) } :=
    core_of_eq h.toCore rfl rfl rfl rfl rfl rfl rfl rfl rfl rfl rfl rfl rfl
  have ht : TimeOK { s with timers := s.timers.filter (fun e => !(decide (e.due ≤ s.now))) } := by
    obtain ⟨a, r, b, c, e, f, g⟩ := h.time
    exact ⟨a, r, fun x hx => b x (List.mem_filter.mp hx).1, c.sublist List.filter_sublist, e, f, g⟩
  have hp := (filter_split_perm s.timers (fun e => decide (e.due ≤ s.now))).trans h.timers
  have hp' : (s.timers.filter (fun e => decide (e.due ≤ s.now)) ++
      ({ s with timers := s.timers.filter (fun e => !(decide (e.due ≤ s.now))) } : BufStore).timers).Perm
      ({ s with timers := s.timers.filter (fun e => !(decide (e.due ≤ s.now))) } : BufStore).transit := by
    simpa using hp
  have hf := fireAll_time (s.timers.filter (fun e => decide (e.due ≤ s.now))) hc ht hp'
    (h.time.sorted.sublist List.filter_sublist)
    (by intro e he x hx
        have h1 := (List.mem_filter.mp he).2
        have h2 := (List.mem_filter.mp hx).2
        simp at h1 h2; omega)
  have hB := hf.2.2 s.now (by simp) (by intro e he; have := (List.mem_filter.mp he).2; simpa using this)
  have hge := hf.2.1
  exact ⟨⟨settle_binv h.toBInv, hf.1⟩, by simp only [settle] at *; omega⟩

theorem kstep_full {s : BufStore} (h : Full s) : Full s.kstep ∧ s.kstep.now = s.now := by
  refine ⟨⟨kstep_binv h.toBInv, ?_⟩, ?_⟩
  · unfold kstep
    split
    · exact h.time
    · rename_i e es hts
      split
      · rename_i hdue
        have hp := h.timers; rw [hts] at hp
        have he : e ∈ s.transit := hp.mem_iff.mp (by simp)
        have hc : Core { s with timers := es } := core_of_eq h.toCore rfl rfl rfl rfl rfl rfl rfl rfl rfl rfl rfl rfl rfl
        have ht : TimeOK { s with timers := es } := by
          obtain ⟨a, r, b, c, e', f, g⟩ := h.time
          rw [hts] at b c
          exact ⟨a, r, fun x hx => b x (List.mem_cons_of_mem _ hx), (List.pairwise_cons.mp c).2, e', f, g⟩
        exact move_time e ht hdue (by simpa using he) (moveRoom_of_transit hc.toPre (by simpa using he))
      · exact h.time
  · unfold kstep
    split
    · rfl
    · split
      · unfold move; split <;> simp [arrive]
      · rfl

theorem step_full {s : BufStore} (op : Op) (h : Full s) (hok : OpOK s op) : Full (s.step op).1 := by
  refine ⟨step_binv op h.toBInv hok, ?_⟩
  have ht := clearFired_time h.time
  have hfull : Full { s with fired := [] } := ⟨clearFired_binv h.toBInv, ht⟩
  unfold step
  cases op with
  | reservePut p => exact trigPut_time (time_of_eq ht rfl rfl rfl rfl rfl rfl rfl rfl (fun _ hx => Or.inl hx))
  | reserveGet p => exact trigGet_time (time_of_eq ht rfl rfl rfl rfl rfl rfl rfl rfl (fun _ hx => Or.inl hx))
  | put p t x d => exact put_time p t x d ht
  | get p t => exact get_time p t ht
  | cancelPut t => exact cancelPut_time t ht
  | cancelGet t => exact cancelGet_time t ht
  | adv dt => exact (adv_full dt hfull).time
  | settle => exact (settle_full hfull).1.time
  | kstep => exact (kstep_full hfull).1.time
  | final =>
    obtain ⟨a, r, b, c, e, f, g⟩ := ht
    exact updLevel_time a r b c f g

theorem reachD_full {s : BufStore} (h : ReachD s) : Full s := by
  induction h with
  | init cfg => exact init_full cfg
  | step op _ hok ih => exact step_full op ih hok

end BufStore
end FsVerif
