/-
Machine automaton: the recorded in-edge selection is the routing that happens (C15, "the selection history a node records equals
the routing that actually happened", in-edge side).  While the behaviour process waits for the reservation it placed on the in-edge
`e` it selected (`bpc = .inTok e tok`), `e` is the last entry of `in_edge_selection`; nothing but the behaviour process itself touches
that list or its program counter; and the `get` it issues when the token is granted is a get on `e`.
-/
import FsVerif.Proofs.Machine
namespace FsVerif
namespace MacState

@[simp] theorem updRep_insel (s : MacState) (t : Nat) : (s.updRep t).insel = s.insel := by
  unfold updRep; split <;> rfl

theorem grantQueued_frame (s : MacState) : s.grantQueued.bpc = s.bpc ∧ s.grantQueued.insel = s.insel := by
  unfold grantQueued; split <;> exact ⟨rfl, rfl⟩

theorem worker_frame (s : MacState) (i : Nat) (w : Worker) (t : Nat) (a : Ans) :
    (s.worker i w t a).1.bpc = s.bpc ∧ (s.worker i w t a).1.insel = s.insel := by
  unfold worker
  repeat' split
  all_goals first
    | exact ⟨rfl, rfl⟩
    | (simp [setWorker, release, spawnPush, occRemove, grantQueued_frame]; done)
    | (simp only []; split <;> simp [setWorker, occRemove, grantQueued_frame])

theorem pushStep_frame (s : MacState) (p : MPush) (a : Ans) :
    (s.pushStep p a).1.bpc = s.bpc ∧ (s.pushStep p a).1.insel = s.insel := by
  unfold pushStep
  repeat' split
  all_goals first
    | exact ⟨rfl, rfl⟩
    | simp [setWorker]

/-- the in-edge the behaviour process selected and is waiting on is the last recorded selection -/
def INS (s : MacState) : Prop := ∀ e tok, s.bpc = .inTok e tok → s.insel.getLast? = some e

theorem init_ins (cfg : MacCfg) : INS (init cfg) := by
  intro e tok h; simp [init] at h

theorem requestSlot_bpc (s : MacState) (t : Nat) : (s.requestSlot t).bpc = .slotWait := by
  unfold requestSlot; simp only; split <;> rfl

theorem afterPull_bpc (s : MacState) (t it : Nat) (a : Ans) (pre : List Call) :
    (s.afterPull t it a pre).1.bpc = .slotWait ∨ (s.afterPull t it a pre).1.bpc = .dead := by
  unfold afterPull
  split
  · left; exact requestSlot_bpc _ _
  · right; rfl

theorem behaviour_ins {s : MacState} (t : Nat) (a : Ans) (h : INS s) : INS (s.behaviour t a).1 := by
  intro e tok
  unfold behaviour
  repeat' split
  all_goals intro hb
  all_goals first
    | (exfalso; simp [crashB] at hb; done)
    | (exfalso; rw [requestSlot_bpc] at hb; cases hb)
    | (exfalso; rcases afterPull_bpc _ _ _ _ _ with h1 | h1 <;> (rw [h1] at hb; cases hb))
    | (simp only [BPc.inTok.injEq] at hb; obtain ⟨he, _⟩ := hb; subst he; simp)
    | (apply h e tok; simp_all)
    | skip
  -- the branch in which a policy other than FIRST_AVAILABLE selects the in-edge (the selection is recorded at that instant)
  revert hb
  simp only []
  generalize selIdx s.cfg.inPol (s.occAdd t).rrIn s.cfg.nin a = r
  obtain ⟨k?, rr', c0⟩ := r
  simp only []
  repeat' split
  all_goals intro hb
  all_goals first
    | (exfalso; simp [crashB] at hb; done)
    | (simp only [BPc.inTok.injEq] at hb; obtain ⟨he, _⟩ := hb; subst he; simp)

theorem INS.frame {s s' : MacState} (h : INS s) (e1 : s'.bpc = s.bpc) (e2 : s'.insel = s.insel) : INS s' := by
  intro e tok hb; rw [e2]; exact h e tok (by rw [← e1]; exact hb)

theorem step_ins {s : MacState} (proc t : Nat) (a : Ans) (h : INS s) : INS (s.step proc t a).1 := by
  unfold step
  split
  · exact h.frame rfl rfl
  · simp only
    have h' : INS { s with now := t } := h.frame rfl rfl
    split
    · exact behaviour_ins t a h'
    · split
      · split
        · exact h'.frame (worker_frame _ _ _ _ _).1 (worker_frame _ _ _ _ _).2
        · exact h'.frame rfl rfl
      · split
        · exact h'.frame (pushStep_frame _ _ _).1 (pushStep_frame _ _ _).2
        · exact h'.frame rfl rfl

theorem runActs_ins (acts : List Act) : ∀ {s : MacState}, INS s → INS (runActs s acts) := by
  induction acts with
  | nil => intro s h; exact h
  | cons x xs ih => intro s h; exact ih (step_ins x.proc x.t x.ans h)

end MacState
end FsVerif
