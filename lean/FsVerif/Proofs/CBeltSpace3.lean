/-
Continuous-conveyor model, spacing invariant: kernel step, API calls, every reachable state (jointly with TI and RoomC).
-/
import FsVerif.Proofs.CBeltSpace2
namespace FsVerif
namespace CBelt

theorem SP.initM {s : CBelt} (h : SP s) (ht : TIg none s) (q : Nat) (hent : ∀ it ∈ s.items, it.seq = q → it.entry = s.now) :
    SP (s.initM q) := by
  unfold CBelt.initM
  split
  · exact h
  · rename_i p hp
    obtain ⟨hmem, hpq⟩ := find_some hp
    have hpq' : p.q = q := by simpa using hpq
    have t1 := (ht.weaken q).setItemEx (fun it => { it with totalInt := 0, intStart := none }) (fun it => ⟨rfl, rfl⟩)
    have h1 := h.setItem q (fun it => { it with totalInt := 0, intStart := none }) (fun it => ⟨rfl, rfl⟩)
    refine SP.startPhase (s := s.setItem q (fun it => { it with totalInt := 0, intStart := none })) h1 t1 { p with total := 0 } 1 s.cfg.p1
      (fun y hy => by rw [← Option.some.inj hy]; exact hpq'.symm) ?_
    intro it' hit' hs
    obtain ⟨it, hit, rfl⟩ := List.mem_map.mp hit'
    by_cases hq : it.seq = q
    · have : (it.seq == q) = true := by simpa using hq
      rw [if_pos this]
      refine ⟨rfl, ?_, rfl, Or.inl rfl⟩
      have := hent it hit hq
      show s.now + s.cfg.p1 = it.entry + 0 + target s.cfg 1
      simp only [target]; simp; omega
    · have hf : (it.seq == q) = false := by simpa using hq
      simp only [hf] at hs
      exact absurd (hs.trans hpq') hq

theorem SP.onTimeout_proc {s : CBelt} (h : SP s) (u : Nat) (p : MProc)
    (hf : s.procs.find? (waitsOn u) = some p)
    (ht : TIg (some p.q) s) (ph st rm : Nat) (hpc : p.pc = .run ph st rm u) (hnow : s.now = st + rm)
    (hit : ∀ it ∈ s.items, it.seq = p.q → it.intStart = none ∧ st + rm = it.entry + it.totalInt + target s.cfg ph ∧
      p.total = it.totalInt ∧ (ph = 1 ∨ ph = 2)) :
    SP (s.onTimeout u) := by
  unfold CBelt.onTimeout
  rw [hf]
  simp only
  by_cases hph1 : ph = 1
  · subst hph1
    rw [hpc]
    simp only
    refine SP.startPhase (h.fr (Fr.sched s false .p1e trivial)) (ht.fr (Fr.sched s false .p1e trivial)) p 1 0
      (fun y hy => (Option.some.inj hy).symm) ?_
    intro it hit' hs
    obtain ⟨h1, h2, h3, _⟩ := hit it hit' hs
    exact ⟨h1, by show s.now + 0 = it.entry + it.totalInt + target s.cfg 1; omega, h3, Or.inl rfl⟩
  · have hgoal : SP (s.startPhase p 2 0) := by
      refine SP.startPhase h ht p 2 0 (fun y hy => (Option.some.inj hy).symm) ?_
      intro it hit' hs
      obtain ⟨h1, h2, h3, h4⟩ := hit it hit' hs
      have hph2 : ph = 2 := by
        rcases h4 with h4 | h4
        · exact absurd h4 hph1
        · exact h4
      subst hph2
      exact ⟨h1, by omega, h3, Or.inr rfl⟩
    rw [hpc]
    split
    · rename_i heq
      simp only [MPc.run.injEq] at heq
      exact absurd heq.1 hph1
    · exact hgoal

theorem SP.onTimeout_none {s : CBelt} (h : SP s) (u : Nat) (hf : s.procs.find? (waitsOn u) = none) : SP (s.onTimeout u) := by
  unfold CBelt.onTimeout
  rw [hf]
  simp only
  split
  · rename_i d _
    have h1 : SP { s with dprocs := s.dprocs.filter (fun x => x.d != d.d) } := h.congr rfl rfl rfl rfl rfl rfl rfl
    have h2 := h1.fr (Fr.interruptItem _ d.itemId)
    exact h2.congr rfl rfl rfl rfl rfl rfl rfl
  · exact h

theorem SP.onInterrupt {s : CBelt} (h : SP s) (r : PRef) : SP (s.onInterrupt r) := by
  unfold CBelt.onInterrupt
  cases r with
  | delayed d =>
    simp only
    split
    · exact h
    · split
      · exact h
      · exact h.congr rfl rfl rfl rfl rfl rfl rfl
  | move q =>
    simp only
    split
    · exact h
    · split
      · exact h
      · have h1 := h.setItem q (fun it => { it with intStart := some s.now }) (fun it => ⟨rfl, rfl⟩)
        exact h1.congr rfl rfl rfl rfl rfl rfl rfl
      · exact h.congr rfl rfl rfl rfl rfl rfl rfl

theorem SP.resumeOne {s : CBelt} (h : SP s) (ht : TIg none s) (g q : Nat) : SP (resumeOne g s q) := by
  unfold CBelt.resumeOne
  split
  · exact h
  · rename_i p hp
    obtain ⟨hmem, hpq⟩ := find_some hp
    have hpq' : p.q = q := by simpa using hpq
    split
    · rename_i ph rm ist gen hpc
      split
      · simp only
        have hfacts : ∀ it ∈ s.items, it.seq = q → it.intStart = some ist ∧ ist + rm = it.entry + it.totalInt + target s.cfg ph ∧
            p.total = it.totalInt ∧ (ph = 1 ∨ ph = 2) ∧ ist ≤ s.now := by
          intro it hit hs
          have := ht.pcOK p hmem (by simp) it hit (by rw [hs, hpq'])
          unfold PcOK at this
          rw [hpc] at this
          exact this
        have t1 := (ht.weaken q).setItemEx (fun it => { it with intStart := none, totalInt := p.total + (s.now - ist) }) (fun it => ⟨rfl, rfl⟩)
        have t2 : TIg (some q) { (s.setItem q (fun it => { it with intStart := none, totalInt := p.total + (s.now - ist) })) with
            waitOrder := (s.setItem q (fun it => { it with intStart := none, totalInt := p.total + (s.now - ist) })).waitOrder.filter (· != q) } :=
          t1.frS ⟨rfl, rfl, rfl, rfl, rfl, rfl, rfl, rfl, rfl⟩
        have h1 := h.setItem q (fun it => { it with intStart := none, totalInt := p.total + (s.now - ist) }) (fun it => ⟨rfl, rfl⟩)
        have h2 : SP { (s.setItem q (fun it => { it with intStart := none, totalInt := p.total + (s.now - ist) })) with
            waitOrder := (s.setItem q (fun it => { it with intStart := none, totalInt := p.total + (s.now - ist) })).waitOrder.filter (· != q) } :=
          h1.congr rfl rfl rfl rfl rfl rfl rfl
        refine SP.startPhase h2 t2 { p with total := p.total + (s.now - ist) } ph rm
          (fun y hy => by rw [← Option.some.inj hy]; exact hpq'.symm) ?_
        intro it' hit' hs
        obtain ⟨it, hit, rfl⟩ := List.mem_map.mp hit'
        by_cases hq : it.seq = q
        · have hb : (it.seq == q) = true := by simpa using hq
          obtain ⟨f1, f2, f3, f4, f5⟩ := hfacts it hit hq
          rw [if_pos hb]
          refine ⟨rfl, ?_, rfl, f4⟩
          show s.now + rm = it.entry + (p.total + (s.now - ist)) + target s.cfg ph
          omega
        · have hb : (it.seq == q) = false := by simpa using hq
          simp only [hb] at hs
          exact absurd (hs.trans hpq') hq
      · exact h
    · exact h

theorem TS_onResume {s : CBelt} (h : SP s) (ht : TIg none s) (g : Nat) : SP (s.onResume g) := by
  rw [onResume_eq]
  generalize s.waitOrder = l
  induction l generalizing s with
  | nil => exact h
  | cons q qs ih => exact ih (h.resumeOne ht g q) (ht.resumeOne g q)

theorem SP.handle_light {s : CBelt} (h : SP s) (ht : TIg none s) (k : CKind) (hk : ∀ u, k ≠ .tmo u) (hq : ∀ q, k ≠ .initM q) :
    SP (s.handle k) := by
  unfold CBelt.handle
  cases k with
  | initM q => exact absurd rfl (hq q)
  | tmo u => exact absurd rfl (hk u)
  | initD d =>
    simp only
    split
    · exact h
    · exact h.congr rfl rfl rfl rfl rfl rfl rfl
  | shot w g => exact h.fr (Fr.onShot s w g)
  | re g => exact TS_onResume h ht g
  | p1e => exact h.trigPut ht
  | cond u =>
    simp only
    split
    · split
      · exact h.fr (Fr.bWake s)
      · exact h
    · exact h
  | intr r => exact h.onInterrupt r

theorem SP.ev {s : CBelt} (h : SP s) (ht : TIg none s) : SP s.ev := by
  unfold CBelt.ev
  split
  · exact h
  · rename_i e0 rest hq
    have hmem0 : e0 ∈ s.queue := by rw [hq]; exact List.mem_cons_self
    have hle : s.now ≤ e0.time := ht.clock e0 hmem0
    have hmax : max s.now e0.time = e0.time := Nat.max_eq_right hle
    have h0 : SP { s with queue := rest, now := max s.now e0.time } :=
      (h.timeStep (max s.now e0.time) (Nat.le_max_left _ _)).congr rfl rfl rfl rfl rfl rfl rfl
    cases hk : e0.kind with
    | initM q =>
      have t0 := ht.pop hq none (by intro p hp ph st rm u hku; rw [hk] at hku; cases hku)
      have hent : ∀ it ∈ s.items, it.seq = q → it.entry = max s.now e0.time := by
        intro it hit hs; rw [hmax]; exact (ht.initOK e0 hmem0 q hk it hit hs).symm
      show SP (CBelt.handle _ (.initM q))
      unfold CBelt.handle
      exact h0.initM t0 q hent
    | tmo u =>
      show SP (CBelt.handle _ (.tmo u))
      unfold CBelt.handle
      simp only
      cases hf : s.procs.find? (waitsOn u) with
      | none => exact h0.onTimeout_none u hf
      | some p =>
        obtain ⟨hmem, hw⟩ := find_some hf
        have hpc : ∃ ph st rm, p.pc = .run ph st rm u := by
          unfold waitsOn at hw
          split at hw
          · rename_i ph st rm t hpc'
            have : t = u := by simpa using hw
            exact ⟨ph, st, rm, by rw [hpc', this]⟩
          · cases hw
        obtain ⟨ph, st, rm, hpc⟩ := hpc
        have t0 := ht.pop hq (some p.q) (by
          intro p' hp' ph' st' rm' u' hku hpc'
          rw [hk] at hku; simp only [CKind.tmo.injEq] at hku; subst hku
          rw [ht.uidUniq p' hp' p hmem ph' st' rm' ph st rm _ hpc' hpc])
        have htime : e0.time = st + rm := ht.tmoOK e0 hmem0 u hk p hmem ph st rm hpc
        refine SP.onTimeout_proc (s := { s with queue := rest, now := max s.now e0.time }) h0 u p hf t0 ph st rm hpc
          (by show max s.now e0.time = st + rm; rw [hmax]; exact htime) ?_
        intro it hit hs
        have := ht.pcOK p hmem (by simp) it hit hs
        unfold PcOK at this
        rw [hpc] at this
        simp only at this
        obtain ⟨f1, f2, f3, f4, _, _⟩ := this
        exact ⟨f1, f2, f3, f4⟩
    | initD d =>
      have t0 := ht.pop hq none (by intro p hp ph st rm u hku; rw [hk] at hku; cases hku)
      exact h0.handle_light t0 _ (by intro u hc; cases hc) (by intro q hc; cases hc)
    | shot w g =>
      have t0 := ht.pop hq none (by intro p hp ph st rm u hku; rw [hk] at hku; cases hku)
      exact h0.handle_light t0 _ (by intro u hc; cases hc) (by intro q hc; cases hc)
    | re g =>
      have t0 := ht.pop hq none (by intro p hp ph st rm u hku; rw [hk] at hku; cases hku)
      exact h0.handle_light t0 _ (by intro u hc; cases hc) (by intro q hc; cases hc)
    | p1e =>
      have t0 := ht.pop hq none (by intro p hp ph st rm u hku; rw [hk] at hku; cases hku)
      exact h0.handle_light t0 _ (by intro u hc; cases hc) (by intro q hc; cases hc)
    | cond u =>
      have t0 := ht.pop hq none (by intro p hp ph st rm u hku; rw [hk] at hku; cases hku)
      exact h0.handle_light t0 _ (by intro u hc; cases hc) (by intro q hc; cases hc)
    | intr r =>
      have t0 := ht.pop hq none (by intro p hp ph st rm u hku; rw [hk] at hku; cases hku)
      exact h0.handle_light t0 _ (by intro u hc; cases hc) (by intro q hc; cases hc)

theorem SP.adv {s : CBelt} (h : SP s) (dt : Nat) : SP (s.adv dt) := by
  unfold CBelt.adv
  split
  · split
    · exact h.congr rfl rfl rfl rfl rfl rfl rfl
    · exact h.timeStep _ (Nat.le_add_right _ _)
  · exact h.timeStep _ (Nat.le_add_right _ _)

theorem SP.enter {s : CBelt} (h : SP s) (ht : TIg none s) (x : Item) (hne : s.putRes ≠ []) :
    ∀ s' : CBelt, s'.entered = s.entered ++ [(⟨x, s.nput, s.now, 0, none, 0⟩ : CItem)] →
      s'.items = s.items ++ [(⟨x, s.nput, s.now, 0, none, 0⟩ : CItem)] → s'.arrivals = s.arrivals → s'.putRes = [] →
      s'.now = s.now → s'.nput = s.nput + 1 → s'.cfg = s.cfg → SP s' := by
  intro s' e1 e2 e3 e4 e5 e6 e7
  have hold := h.grantOK hne
  have hile := items_entry_le ht
  obtain ⟨a1, a2, a3, a4, a5, a6, a7⟩ := h
  refine ⟨?_, ?_, ?_, ?_, ?_, ?_, ?_⟩
  · intro e he
    rw [e1] at he; rw [e6]
    rcases List.mem_append.mp he with he | he
    · exact Nat.lt_succ_of_lt (a1 e he)
    · simp at he; subst he; exact Nat.lt_succ_self _
  · rw [e1, List.pairwise_append]
    refine ⟨a2, by simp, ?_⟩
    intro a ha b hb
    simp at hb; subst hb; exact a1 a ha
  · intro e he
    rw [e1] at he; rw [e2, e3, List.map_append]
    rcases List.mem_append.mp he with he | he
    · rcases a3 e he with hk | hk
      · left; exact List.mem_append_left _ hk
      · right; exact hk
    · simp at he; subst he
      left; exact List.mem_append_right _ (by simp [ik])
  · intro a ha; rw [e3] at ha; rw [e5]; exact a4 a ha
  · rw [e2, List.map_append, List.pairwise_append]
    refine ⟨a5, by simp, ?_⟩
    intro a ha b hb
    simp [ik] at hb; subst hb
    obtain ⟨it, hit, rfl⟩ := List.mem_map.mp ha
    exact hile it hit
  · intro hc; rw [e4] at hc; exact absurd rfl hc
  · rw [e1, e7, List.pairwise_append]
    refine ⟨a7, by simp, ?_⟩
    intro a ha b hb
    simp at hb; subst hb
    exact hold a ha

theorem SP.iaTrig {s : CBelt} (h : SP s) : SP (({ s with ia := .trig } : CBelt).sched s.now false (.shot .ia s.iaGen)) :=
  h.congr rfl rfl rfl rfl rfl rfl rfl
theorem SP.paTrig {s : CBelt} (h : SP s) : SP (({ s with pa := .trig } : CBelt).sched s.now false (.shot .pa s.paGen)) :=
  h.congr rfl rfl rfl rfl rfl rfl rfl
theorem SP.gaTrig {s : CBelt} (h : SP s) : SP (({ s with ga := .trig } : CBelt).sched s.now false (.shot .ga s.gaGen)) :=
  h.congr rfl rfl rfl rfl rfl rfl rfl

theorem trigGet_putRes (s : CBelt) : s.trigGet.putRes = s.putRes := by
  unfold CBelt.trigGet; split
  · rfl
  · split
    · split <;> rfl
    · rfl

theorem SP.put {s : CBelt} (h : SP s) (ht : TIg none s) (hr : RoomC s) (p tid : Nat) (x : Item) : SP (s.put p tid x).1 := by
  unfold CBelt.put
  split
  · exact h
  · split
    · exact h
    · rename_i t htf
      have hm : t ∈ s.putRes := List.mem_of_find?_eq_some htf
      have hne : s.putRes ≠ [] := List.ne_nil_of_mem hm
      have hnil : s.putRes.erase t = [] := by
        have := erase_len hm
        exact List.eq_nil_of_length_eq_zero (by have := hr.one; omega)
      simp only
      split
      · have h5 : SP (CBelt.trigGet { ((({ ({ s with putRes := s.putRes.erase t } : CBelt) with items := s.items ++ [(⟨x, s.nput, s.now, 0, none, 0⟩ : CItem)], nput := s.nput + 1, entered := s.entered ++ [(⟨x, s.nput, s.now, 0, none, 0⟩ : CItem)] } : CBelt).updLevel).sched s.now true (.initM s.nput)) with procs := s.procs ++ [(⟨s.nput, x.id, .fresh, 0⟩ : MProc)], activeMove := dictSet s.activeMove x.id s.nput }) := by
          refine SP.frS ?_ (FrS.trigGet _) (trigGet_putRes _)
          exact h.enter ht x hne _ rfl rfl rfl hnil rfl rfl rfl
        split
        · split
          · split
            · exact h5.fr (Fr.handleNew _ _)
            · exact h5
          · have h6 := h5.iaTrig
            split
            · exact h6.fr (Fr.handleNew _ _)
            · exact h6
        · split
          · split
            · exact h5.fr (Fr.handleNew _ _)
            · exact h5
          · have h6 := h5.paTrig
            split
            · exact h6.fr (Fr.handleNew _ _)
            · exact h6
      · obtain ⟨a1, a2, a3, a4, a5, a6, a7⟩ := h
        refine ⟨a1, a2, a3, a4, a5, ?_, a7⟩
        intro hc; rw [hnil] at hc; exact absurd rfl hc

theorem SP.get {s : CBelt} (h : SP s) (ht : TIg none s) (p tid : Nat) : SP (s.get p tid).1 := by
  unfold CBelt.get
  split
  · exact h
  · split
    · exact h
    · split
      · exact h
      · split
        · exact h.congr rfl rfl rfl rfl rfl rfl rfl
        · simp only
          split
          · split
            · show SP (CBelt.trigPut _)
              refine SP.trigPut (h.congr rfl rfl rfl rfl rfl rfl rfl) (x := none) ?_
              exact ht.frS ⟨rfl, rfl, rfl, rfl, rfl, rfl, rfl, rfl, rfl⟩
            · show SP (CBelt.sched _ _ _ _)
              refine SP.gaTrig ?_
              show SP (CBelt.trigPut _)
              refine SP.trigPut (h.congr rfl rfl rfl rfl rfl rfl rfl) (x := none) ?_
              exact ht.frS ⟨rfl, rfl, rfl, rfl, rfl, rfl, rfl, rfl, rfl⟩
          · exact h.congr rfl rfl rfl rfl rfl rfl rfl

theorem SP.dropRes {s : CBelt} (h : SP s) (t : Tok) : SP { s with putRes := s.putRes.erase t } := by
  obtain ⟨a1, a2, a3, a4, a5, a6, a7⟩ := h
  refine ⟨a1, a2, a3, a4, a5, ?_, a7⟩
  intro hc
  apply a6
  intro hn; simp only [hn, List.erase_nil] at hc; exact hc rfl

theorem SP.cancelPut {s : CBelt} (h : SP s) (ht : TIg none s) (tid : Nat) : SP (s.cancelPut tid).1 := by
  unfold CBelt.cancelPut
  split
  · show SP (CBelt.trigPut _)
    refine SP.trigPut (h.congr rfl rfl rfl rfl rfl rfl rfl) (x := none) ?_
    exact ht.frS ⟨rfl, rfl, rfl, rfl, rfl, rfl, rfl, rfl, rfl⟩
  · split
    · show SP (CBelt.trigPut _)
      refine SP.trigPut (h.dropRes _) (x := none) ?_
      exact ht.frS ⟨rfl, rfl, rfl, rfl, rfl, rfl, rfl, rfl, rfl⟩
    · exact h

theorem SP.cancelGet {s : CBelt} (h : SP s) (tid : Nat) : SP (s.cancelGet tid).1 := by
  unfold CBelt.cancelGet
  split
  · show SP (CBelt.trigGet _)
    refine SP.frS ?_ (FrS.trigGet _) (trigGet_putRes _)
    exact h.congr rfl rfl rfl rfl rfl rfl rfl
  · split
    · split
      · exact h.congr rfl rfl rfl rfl rfl rfl rfl
      · split
        · exact h.congr rfl rfl rfl rfl rfl rfl rfl
        · simp only
          split
          · show SP (CBelt.trigGet _)
            refine SP.frS ?_ (FrS.trigGet _) (trigGet_putRes _)
            exact h.congr rfl rfl rfl rfl rfl rfl rfl
          · exact h.congr rfl rfl rfl rfl rfl rfl rfl
    · exact h

/-- the three invariants of the continuous-conveyor model together -/
structure InvC (s : CBelt) : Prop where
  ti : TIg none s
  room : RoomC s
  sp : SP s

theorem InvC.step {s : CBelt} (h : InvC s) (op : Op) : InvC (s.step op).1 := by
  refine ⟨h.ti.step op, h.room.step op, ?_⟩
  obtain ⟨ht, hr, hs⟩ := h
  unfold CBelt.step
  have hs' : SP { s with fired := [], newReady := [] } := hs.congr rfl rfl rfl rfl rfl rfl rfl
  have ht' : TIg none { s with fired := [], newReady := [] } := ht.frS ⟨rfl, rfl, rfl, rfl, rfl, rfl, rfl, rfl, rfl⟩
  have hr' : RoomC { s with fired := [], newReady := [] } := hr.frL ⟨rfl, rfl, rfl, rfl⟩
  cases op with
  | reservePut p =>
    show SP (CBelt.trigPut _)
    refine SP.trigPut (hs'.congr rfl rfl rfl rfl rfl rfl rfl) (x := none) ?_
    exact ht'.frS ⟨rfl, rfl, rfl, rfl, rfl, rfl, rfl, rfl, rfl⟩
  | reserveGet p =>
    show SP (CBelt.trigGet _)
    refine SP.frS ?_ (FrS.trigGet _) (trigGet_putRes _)
    exact hs'.congr rfl rfl rfl rfl rfl rfl rfl
  | put p t x => exact hs'.put ht' hr' p t x
  | get p t => exact hs'.get ht' p t
  | cancelPut t => exact hs'.cancelPut ht' t
  | cancelGet t => exact hs'.cancelGet t
  | adv dt => exact hs'.adv dt
  | ev => exact hs'.ev ht'
  | final => exact hs'.congr rfl rfl rfl rfl rfl rfl rfl

theorem init_invC (cfg : CCfg) : InvC (init cfg) := ⟨init_ti cfg, init_roomC cfg, init_sp cfg⟩

theorem run_invC (ops : List Op) : ∀ (s : CBelt), InvC s → InvC (s.run ops) := by
  induction ops with
  | nil => intro s h; exact h
  | cons op ops ih => intro s h; exact ih _ (h.step op)

end CBelt
end FsVerif
