/-
Structural invariants of the slotted-conveyor model (Model/SlotBelt.lean):
capacity, one entering item at a time, spacing of entries, arrival at the exit in entry order.
-/
import FsVerif.Proofs.SlotBelt
import FsVerif.Proofs.Basic
namespace FsVerif
namespace SlotBelt

/-! ### capacity; at most one granted-unused space reservation -/

structure Room (s : SlotBelt) : Prop where
  one : s.putRes.length ≤ 1
  room : s.putRes.length + s.level ≤ s.cfg.cap

theorem removeItem_length_le (l : List SEntry) (x : Item) : (removeItem l x).length ≤ l.length := by
  unfold removeItem
  split
  · rw [List.length_eraseIdx]; split <;> omega
  · exact Nat.le_refl _

theorem removeItem_length_of_any (l : List SEntry) (x : Item) (h : l.any (fun r => r.item.id == x.id) = true) :
    (removeItem l x).length + 1 = l.length := by
  unfold removeItem
  split
  · rename_i i hi
    have hlt : i < l.length := by
      have := List.findIdx?_eq_some_iff_findIdx_eq.mp hi
      exact this.1
    rw [List.length_eraseIdx, if_pos hlt]; omega
  · rename_i hn
    rw [List.findIdx?_eq_none_iff] at hn
    rw [List.any_eq_true] at h
    obtain ⟨r, hr, hp⟩ := h
    have := hn r hr
    simp [hp] at this

theorem erase_length_mem {α} [DecidableEq α] {l : List α} {a : α} (h : a ∈ l) : (l.erase a).length + 1 = l.length := by
  rw [List.length_erase_of_mem h]
  have : 0 < l.length := List.length_pos_of_mem h
  omega

theorem mem_of_find? {α} {p : α → Bool} {l : List α} {a : α} (h : l.find? p = some a) : a ∈ l :=
  List.mem_of_find?_eq_some h

theorem Room.congr {s s' : SlotBelt} (h : Room s) (e1 : s'.putRes = s.putRes) (e2 : s'.items = s.items)
    (e3 : s'.ready = s.ready) (e4 : s'.cfg = s.cfg) : Room s' := by
  obtain ⟨a, b⟩ := h
  constructor <;> simp only [level, e1, e2, e3, e4] at * <;> assumption

theorem Room.trigPut {s : SlotBelt} (h : Room s) : Room s.trigPut := by
  unfold SlotBelt.trigPut
  split
  · exact h
  · split
    · rename_i had
      unfold admits at had
      simp only [Bool.and_eq_true, decide_eq_true_eq, List.isEmpty_iff] at had
      obtain ⟨⟨he, hr⟩, _⟩ := had
      constructor
      · simp [he]
      · simp only [level, List.length_append, List.length_singleton] at hr ⊢; omega
    · exact h

theorem Room.trigGet {s : SlotBelt} (h : Room s) : Room s.trigGet := by
  unfold SlotBelt.trigGet
  split
  · exact h
  · split
    · split <;> exact h.congr rfl rfl rfl rfl
    · exact h

theorem Room.updLevel {s : SlotBelt} (h : Room s) : Room s.updLevel := h.congr rfl rfl rfl rfl
theorem Room.sched {s : SlotBelt} (h : Room s) (t : Nat) (u : Bool) (k : SKind) : Room (s.sched t u k) :=
  h.congr rfl rfl rfl rfl

theorem Room.put {s : SlotBelt} (h : Room s) (p tid : Nat) (x : Item) : Room (s.put p tid x).1 := by
  unfold SlotBelt.put
  split
  · exact h
  · split
    · exact h
    · rename_i t ht
      have hm : t ∈ s.putRes := mem_of_find? ht
      have hl := erase_length_mem hm
      simp only
      split
      · refine Room.trigGet (Room.sched (Room.updLevel ?_) _ _ _)
        obtain ⟨a, b⟩ := h
        constructor
        · simp only; omega
        · simp only [level, List.length_append, List.length_singleton] at b ⊢; omega
      · obtain ⟨a, b⟩ := h
        constructor
        · simp only; omega
        · simp only [level] at b ⊢; omega

theorem Room.get {s : SlotBelt} (h : Room s) (p tid : Nat) : Room (s.get p tid).1 := by
  unfold SlotBelt.get
  split
  · exact h
  · split
    · exact h
    · split
      · exact h
      · split
        · exact h.congr rfl rfl rfl rfl
        · simp only
          split
          · refine Room.trigPut (Room.updLevel ?_)
            obtain ⟨a, b⟩ := h
            constructor
            · exact a
            · rename_i e _ _
              have := removeItem_length_le s.ready e.item
              simp only [level] at b ⊢; omega
          · exact h.congr rfl rfl rfl rfl

theorem Room.cancelPut {s : SlotBelt} (h : Room s) (tid : Nat) : Room (s.cancelPut tid).1 := by
  unfold SlotBelt.cancelPut
  split
  · exact Room.trigPut (h.congr rfl rfl rfl rfl)
  · split
    · rename_i t ht
      have hm : t ∈ s.putRes := mem_of_find? ht
      have hl := erase_length_mem hm
      refine Room.trigPut ?_
      obtain ⟨a, b⟩ := h
      constructor
      · simp only; omega
      · simp only [level] at b ⊢; omega
    · exact h

theorem Room.cancelGet {s : SlotBelt} (h : Room s) (tid : Nat) : Room (s.cancelGet tid).1 := by
  unfold SlotBelt.cancelGet
  split
  · exact Room.trigGet (h.congr rfl rfl rfl rfl)
  · split
    · split
      · exact h.congr rfl rfl rfl rfl
      · split
        · exact h.congr rfl rfl rfl rfl
        · simp only
          split
          · rename_i hany
            refine Room.trigGet ?_
            have hl := removeItem_length_of_any s.ready _ hany
            obtain ⟨a, b⟩ := h
            constructor
            · exact a
            · simp only [level, pyInsert_length] at b ⊢; omega
          · exact h.congr rfl rfl rfl rfl
    · exact h

theorem Room.arrive {s : SlotBelt} (h : Room s) (q : Nat) : Room (s.arrive q) := by
  unfold SlotBelt.arrive
  split
  · exact h.congr rfl rfl rfl rfl
  · rename_i e he
    have hm : e ∈ s.items := mem_of_find? he
    have hl := erase_length_mem hm
    simp only
    split
    · refine Room.trigPut (Room.trigGet ?_)
      obtain ⟨a, b⟩ := h
      constructor
      · exact a
      · simp only [level, List.length_append, List.length_singleton] at b ⊢; omega
    · obtain ⟨a, b⟩ := h
      constructor
      · exact a
      · simp only [level] at b ⊢; omega

theorem Room.handle {s : SlotBelt} (h : Room s) (k : SKind) : Room (s.handle k) := by
  unfold SlotBelt.handle
  cases k with
  | init q =>
    simp only
    split
    · exact h.sched _ _ _
    · split
      · exact h.sched _ _ _
      · exact h.arrive q
  | ph1 q =>
    simp only
    split
    · exact (h.sched _ _ _).sched _ _ _
    · exact (h.sched _ _ _).arrive q
  | retrig => exact h.trigPut
  | ph2 q => exact h.arrive q

theorem Room.step {s : SlotBelt} (h : Room s) (op : Op) : Room (s.step op).1 := by
  unfold SlotBelt.step
  have h' : Room { s with fired := [], newReady := [] } := h.congr rfl rfl rfl rfl
  cases op with
  | reservePut p => exact Room.trigPut (h'.congr rfl rfl rfl rfl)
  | reserveGet p => exact Room.trigGet (h'.congr rfl rfl rfl rfl)
  | reservePutP p pr => exact Room.trigPut (h'.congr rfl rfl rfl rfl)
  | reserveGetP p pr => exact Room.trigGet (h'.congr rfl rfl rfl rfl)
  | put p t x => exact h'.put p t x
  | get p t => exact h'.get p t
  | cancelPut t => exact h'.cancelPut t
  | cancelGet t => exact h'.cancelGet t
  | adv dt =>
    simp only [SlotBelt.adv]
    split
    · split <;> exact h'.congr rfl rfl rfl rfl
    · exact h'.congr rfl rfl rfl rfl
  | ev =>
    simp only [SlotBelt.ev]
    split
    · exact h'
    · refine Room.handle (s := { s with fired := [], newReady := [], queue := _, now := _ }) ?_ _
      exact h'.congr rfl rfl rfl rfl
  | final => exact h'.updLevel

theorem init_room (cfg : SlotCfg) : Room (init cfg) := by
  constructor <;> simp [init, level]

theorem run_room (ops : List Op) : ∀ (s : SlotBelt), Room s → Room (s.run ops) := by
  induction ops with
  | nil => intro s h; exact h
  | cons op ops ih => intro s h; exact ih _ (h.step op)

end SlotBelt
end FsVerif
