/-
BufferStore / Buffer: consequences used by the property theorems.
-/
import FsVerif.Proofs.BufTime
namespace FsVerif
namespace BufStore

def ValidPut (s : BufStore) (p tid : Nat) : Prop := ∃ t ∈ s.putRes, t.id = tid ∧ t.proc = p
def ValidGet (s : BufStore) (p tid : Nat) : Prop := ∃ t ∈ s.getRes, t.id = tid ∧ t.proc = p
def KnownPut (s : BufStore) (tid : Nat) : Prop := ∃ t ∈ s.putQ ++ s.putRes, t.id = tid
def KnownGet (s : BufStore) (tid : Nat) : Prop := ∃ t ∈ s.getQ ++ s.getRes, t.id = tid

theorem put_reject {s : BufStore} {p tid : Nat} (x : Item) (d : Nat) (h : ¬ ValidPut s p tid) :
    s.put p tid x d = (s, .err .runtime) := by
  rcases put_cases s p tid x d with ⟨he, _⟩ | ⟨t, ht, h1, h2, _⟩
  · exact he
  · exact absurd ⟨t, ht, h1, h2⟩ h

theorem put_accept {s : BufStore} {p tid : Nat} (x : Item) (d : Nat) (hi : Pre s) (h : ValidPut s p tid) :
    (s.put p tid x d).2 = .ok := by
  rcases put_cases s p tid x d with ⟨_, hn⟩ | ⟨t, ht, _, _, ⟨_, he⟩ | ⟨hroom, _⟩⟩
  · obtain ⟨t, ht, h1, h2⟩ := h; exact absurd ⟨h1, h2⟩ (hn t ht)
  · rw [he]
  · rw [capRoom_of_granted hi ht] at hroom; exact absurd hroom (by simp)

theorem get_reject {s : BufStore} {p tid : Nat} (h : ¬ ValidGet s p tid) :
    s.get p tid = (s, .err .runtime) := by
  rcases get_cases s p tid with ⟨he, _⟩ | ⟨t, ht, h1, h2, _⟩
  · exact he
  · exact absurd ⟨t, ht, h1, h2⟩ h

/-- a valid get returns the entry bound to the token, which is ready -/
theorem get_accept {s : BufStore} {p tid : Nat} (hi : Pre s) (h : ValidGet s p tid) :
    ∃ e, e ∈ s.ready ∧ e ∈ s.resItems ∧ (s.get p tid).2 = .item e.item := by
  have hlenEv : s.resEv.length = s.getRes.length := hi.bindEv.length_eq
  rcases get_cases s p tid with ⟨_, hn⟩ | ⟨t, ht, _, _, ⟨hidx, _⟩ | ⟨hidx, hnone, _⟩ | ⟨e, hidx, hx, ⟨hhas, he⟩ | ⟨hhas, _⟩⟩⟩
  · obtain ⟨t, ht, h1, h2⟩ := h; exact absurd ⟨h1, h2⟩ (hn t ht)
  · exfalso
    have hte : t ∈ s.resEv := hi.bindEv.mem_iff.mpr ht
    have := List.idxOf_lt_length_of_mem hte; omega
  · exfalso
    have := hi.bindLen
    rw [List.getElem?_eq_getElem (by omega)] at hnone; simp at hnone
  · exact ⟨e, bound_mem_ready hi hx, List.mem_of_getElem? hx, by rw [he]⟩
  · exfalso
    rw [hasItem_of_mem (bound_mem_ready hi hx)] at hhas
    exact absurd hhas (by simp)

theorem cancelPut_reject {s : BufStore} {tid : Nat} (h : ¬ KnownPut s tid) :
    s.cancelPut tid = (s, .err .runtime) := by
  unfold cancelPut
  split
  · rename_i t hf
    have := findTok_some hf
    exact absurd ⟨t, List.mem_append_left _ this.1, this.2⟩ h
  · split
    · rename_i t hf
      have := findTok_some hf
      exact absurd ⟨t, List.mem_append_right _ this.1, this.2⟩ h
    · rfl

theorem cancelGet_reject {s : BufStore} {tid : Nat} (h : ¬ KnownGet s tid) :
    s.cancelGet tid = (s, .err .runtime) := by
  unfold cancelGet
  split
  · rename_i t hf
    have := findTok_some hf
    exact absurd ⟨t, List.mem_append_left _ this.1, this.2⟩ h
  · split
    · rename_i t hf
      have := findTok_some hf
      exact absurd ⟨t, List.mem_append_right _ this.1, this.2⟩ h
    · rfl

theorem cancelPut_accept {s : BufStore} {tid : Nat} (h : KnownPut s tid) : (s.cancelPut tid).2 = .ok := by
  obtain ⟨t, ht, hid⟩ := h
  unfold cancelPut
  split
  · rfl
  · rename_i hn1
    split
    · rfl
    · rename_i hn2
      rcases List.mem_append.mp ht with ht | ht
      · exact absurd hid (findTok_none hn1 t ht)
      · exact absurd hid (findTok_none hn2 t ht)

theorem cancelGet_accept {s : BufStore} {tid : Nat} (hi : Pre s) (h : KnownGet s tid) : (s.cancelGet tid).2 = .ok := by
  obtain ⟨t, ht, hid⟩ := h
  have hlenEv : s.resEv.length = s.getRes.length := hi.bindEv.length_eq
  unfold cancelGet
  split
  · rfl
  · rename_i hn1
    split
    · rename_i t' hf
      have ht' := (findTok_some hf).1
      have hte : t' ∈ s.resEv := hi.bindEv.mem_iff.mpr ht'
      have hidx := List.idxOf_lt_length_of_mem hte
      split
      · omega
      · split
        · rename_i hnone
          have := hi.bindLen
          rw [List.getElem?_eq_getElem (by omega)] at hnone; simp at hnone
        · rename_i e hx
          rw [if_pos (hasItem_of_mem (bound_mem_ready hi hx))]
    · rename_i hn2
      rcases List.mem_append.mp ht with ht | ht
      · exact absurd hid (findTok_none hn1 t ht)
      · exact absurd hid (findTok_none hn2 t ht)

/-! ### the edge's queries -/

theorem canPut_eq_admits (s : BufStore) : s.canPut = s.admits := by
  unfold canPut admits
  cases hc : s.cfg.cap with
  | none => rfl
  | some c =>
    simp only
    by_cases h1 : s.level = c
    · simp [h1]
    · simp only [h1, ite_false]
      by_cases h2 : s.putRes.length + s.level < c
      · rw [decide_eq_true h2]; apply decide_eq_true; omega
      · rw [decide_eq_false h2]; apply decide_eq_false; omega

/-- `can_put()` is true exactly when a space reservation issued now is granted at once
    (the new token, id `nextTid`, is among the granted reservations after the call). -/
theorem canPut_iff {s : BufStore} (h : Core s) (p : Nat) :
    s.canPut = true ↔ ∃ t ∈ (s.reservePut p).1.putRes, t.id = s.nextTid := by
  rw [canPut_eq_admits]
  unfold reservePut
  simp only
  generalize ht : ({ id := s.nextTid, proc := p } : Tok) = t
  have hid : t.id = s.nextTid := by rw [← ht]
  have hold : ∀ a ∈ s.putQ ++ s.putRes, a.id ≠ s.nextTid := by
    intro a ha
    have := h.tokLt a (by unfold allToks; simp at ha ⊢; rcases ha with ha | ha <;> simp [ha])
    omega
  have hadm : ({ s with nextTid := s.nextTid + 1, putQ := s.putQ ++ [t] } : BufStore).admits = s.admits := by
    unfold admits level; rfl
  rcases trigPut_cases { s with nextTid := s.nextTid + 1, putQ := s.putQ ++ [t] } with ⟨he, hq | hna⟩ | ⟨t', q, hq, ha, he⟩
  · simp at hq
  · rw [he, hadm] at *
    constructor
    · intro h1; rw [h1] at hna; simp at hna
    · rintro ⟨a, ha, haid⟩
      exact absurd haid (hold a (List.mem_append_right _ ha))
  · rw [he]; rw [hadm] at ha
    constructor
    · intro _
      have hqe : s.putQ = [] := by
        by_cases hq0 : s.putQ = []
        · exact hq0
        · have := h.wakePut hq0; rw [ha] at this; simp at this
      rw [hqe] at hq; simp at hq
      exact ⟨t, by simp [hq.1], hid⟩
    · intro _; exact ha

theorem canGet_eq_serves (s : BufStore) : s.canGet = s.serves := by
  unfold canGet serves
  by_cases h : s.ready = []
  · simp [h]
  · have : s.ready.isEmpty = false := by simpa using h
    simp [this]

/-- `can_get()` is true exactly when a retrieval reservation issued now is granted at once. -/
theorem canGet_iff {s : BufStore} (h : Core s) (p : Nat) :
    s.canGet = true ↔ ∃ t ∈ (s.reserveGet p).1.getRes, t.id = s.nextTid := by
  rw [canGet_eq_serves]
  unfold reserveGet
  simp only
  generalize ht : ({ id := s.nextTid, proc := p } : Tok) = t
  have hid : t.id = s.nextTid := by rw [← ht]
  have hold : ∀ a ∈ s.getQ ++ s.getRes, a.id ≠ s.nextTid := by
    intro a ha
    have := h.tokLt a (by unfold allToks; simp at ha ⊢; rcases ha with ha | ha <;> simp [ha])
    omega
  have hsv : ({ s with nextTid := s.nextTid + 1, getQ := s.getQ ++ [t] } : BufStore).serves = s.serves := rfl
  rcases trigGet_cases { s with nextTid := s.nextTid + 1, getQ := s.getQ ++ [t] } with ⟨he, hq | hns⟩ | ⟨t', q, e, hq, hs, hb, he⟩ | ⟨t', q, hq, hs, hb, he⟩
  · simp at hq
  · rw [he, hsv] at *
    constructor
    · intro h1; rw [h1] at hns; simp at hns
    · rintro ⟨a, ha, haid⟩
      exact absurd haid (hold a (List.mem_append_right _ ha))
  · rw [he]; rw [hsv] at hs
    constructor
    · intro _
      have hqe : s.getQ = [] := by
        by_cases hq0 : s.getQ = []
        · exact hq0
        · have := h.wakeGet hq0
          have := (serves_iff s).mp hs; omega
      rw [hqe] at hq; simp at hq
      exact ⟨t, by simp [hq.1], hid⟩
    · intro _; exact hs
  · rw [he]; rw [hsv] at hs
    constructor
    · intro _
      have hqe : s.getQ = [] := by
        by_cases hq0 : s.getQ = []
        · exact hq0
        · have := h.wakeGet hq0
          have := (serves_iff s).mp hs; omega
      rw [hqe] at hq; simp at hq
      exact ⟨t, by simp [hq.1], hid⟩
    · intro _; exact hs

/-- nothing is left to happen at this instant -/
def quiescent (s : BufStore) : Prop := ∀ e ∈ s.timers, s.now < e.due

/-- From its due time on (once the instant has been processed) an entry is ready. -/
theorem ready_from_due {s : BufStore} (h : BInv s) (hq : quiescent s) :
    ∀ e ∈ s.transit, s.now < e.due := by
  intro e he
  exact hq e (h.timers.mem_iff.mpr he)

end BufStore
end FsVerif
