/-
Continuous-conveyor model: capacity, and at most one granted-unused space reservation, in every reachable state.
-/
import FsVerif.Proofs.CBeltFrame
import FsVerif.Proofs.Basic
namespace FsVerif
namespace CBelt

structure RoomC (s : CBelt) : Prop where
  one : s.putRes.length ≤ 1
  room : s.putRes.length + s.level ≤ s.cfg.cap

/-- what the capacity invariant reads -/
structure FrL (s s' : CBelt) : Prop where
  cfg : s'.cfg = s.cfg
  putRes : s'.putRes = s.putRes
  items : s'.items.length = s.items.length
  ready : s'.ready.length = s.ready.length

theorem FrL.refl (s : CBelt) : FrL s s := ⟨rfl, rfl, rfl, rfl⟩
theorem FrL.trans {a b c : CBelt} (h1 : FrL a b) (h2 : FrL b c) : FrL a c :=
  ⟨h2.cfg.trans h1.cfg, h2.putRes.trans h1.putRes, h2.items.trans h1.items, h2.ready.trans h1.ready⟩
theorem FrL.of_fr {s s' : CBelt} (f : Fr s s') : FrL s s' := ⟨f.cfg, f.putRes, by rw [f.items], by rw [f.ready]⟩

theorem RoomC.frL {s s' : CBelt} (h : RoomC s) (f : FrL s s') : RoomC s' := by
  obtain ⟨a, b⟩ := h
  constructor
  · rw [f.putRes]; exact a
  · simp only [level] at b ⊢; rw [f.putRes, f.items, f.ready, f.cfg]; exact b

theorem RoomC.fr {s s' : CBelt} (h : RoomC s) (f : Fr s s') : RoomC s' := h.frL (FrL.of_fr f)

theorem init_roomC (cfg : CCfg) : RoomC (init cfg) := by
  constructor <;> simp [init, level]

theorem RoomC.trigPut {s : CBelt} (h : RoomC s) : RoomC s.trigPut := by
  unfold CBelt.trigPut
  split
  · exact h
  · split
    · exact h.frL ⟨rfl, rfl, rfl, rfl⟩
    · rename_i had
      unfold admits at had
      split at had
      · cases had
      · rename_i hemp
        have hnil : s.putRes = [] := by
          cases hp : s.putRes with
          | nil => rfl
          | cons a as => simp [hp] at hemp
        have hroom : s.putRes.length + s.level < s.cfg.cap := by
          split at had
          · split at had
            · assumption
            · cases had
          · simp only [Option.some.injEq, Bool.and_eq_true, decide_eq_true_eq] at had
            exact had.1
        constructor
        · simp [hnil]
        · simp only [level, hnil, List.length_append, List.length_nil, List.length_singleton] at hroom ⊢; omega
    · exact h

theorem FrL.trigGet (s : CBelt) : FrL s s.trigGet := by
  unfold CBelt.trigGet
  split
  · exact FrL.refl s
  · split
    · split <;> exact ⟨rfl, rfl, rfl, rfl⟩
    · exact FrL.refl s

theorem removeItemC_length_le (l : List CItem) (x : Item) : (removeItem l x).length ≤ l.length := by
  unfold removeItem
  split
  · rw [List.length_eraseIdx]; split <;> omega
  · exact Nat.le_refl _

theorem removeItemC_length_of_any (l : List CItem) (x : Item) (h : l.any (fun r => r.item.id == x.id) = true) :
    (removeItem l x).length + 1 = l.length := by
  unfold removeItem
  split
  · rename_i i hi
    have hlt : i < l.length := (List.findIdx?_eq_some_iff_findIdx_eq.mp hi).1
    rw [List.length_eraseIdx, if_pos hlt]; omega
  · rename_i hn
    rw [List.findIdx?_eq_none_iff] at hn
    rw [List.any_eq_true] at h
    obtain ⟨r, hr, hp⟩ := h
    have := hn r hr
    simp [hp] at this

theorem erase_len {α} [DecidableEq α] {l : List α} {a : α} (h : a ∈ l) : (l.erase a).length + 1 = l.length := by
  rw [List.length_erase_of_mem h]
  have : 0 < l.length := List.length_pos_of_mem h
  omega

theorem FrL.endProc (s : CBelt) (p : MProc) : FrL s (s.endProc p) := ⟨rfl, rfl, rfl, rfl⟩
theorem FrL.giveUp (s : CBelt) : FrL s s.giveUp := ⟨rfl, rfl, rfl, rfl⟩
theorem FrL.setItem (s : CBelt) (q : Nat) (f : CItem → CItem) : FrL s (s.setItem q f) :=
  ⟨rfl, rfl, by simp [CBelt.setItem], rfl⟩
theorem FrL.setProc (s : CBelt) (q : Nat) (f : MProc → MProc) : FrL s (s.setProc q f) := ⟨rfl, rfl, rfl, rfl⟩
theorem FrL.sched (s : CBelt) (t : Nat) (u : Bool) (k : CKind) : FrL s (s.sched t u k) := ⟨rfl, rfl, rfl, rfl⟩

theorem FrL.riTrig (s : CBelt) : FrL s (({ s with ri := .trig } : CBelt).sched s.now false (.shot .ri s.riGen)) := ⟨rfl, rfl, rfl, rfl⟩
theorem FrL.iaTrig (s : CBelt) : FrL s (({ s with ia := .trig } : CBelt).sched s.now false (.shot .ia s.iaGen)) := ⟨rfl, rfl, rfl, rfl⟩
theorem FrL.paTrig (s : CBelt) : FrL s (({ s with pa := .trig } : CBelt).sched s.now false (.shot .pa s.paGen)) := ⟨rfl, rfl, rfl, rfl⟩
theorem FrL.gaTrig (s : CBelt) : FrL s (({ s with ga := .trig } : CBelt).sched s.now false (.shot .ga s.gaGen)) := ⟨rfl, rfl, rfl, rfl⟩

theorem RoomC.arrive {s : CBelt} (h : RoomC s) (p : MProc) : RoomC (s.arrive p) := by
  unfold CBelt.arrive
  split
  · exact h.frL ((FrL.endProc s p).trans (FrL.giveUp _))
  · rename_i e he
    have hm : e ∈ s.items := List.mem_of_find?_eq_some he
    have hl := erase_len hm
    simp only
    split
    · have h1 : RoomC { s with items := s.items.erase e, ready := s.ready ++ [{ e with readyEntry := s.now }], arrivals := s.arrivals ++ [(⟨p.q, s.now, e.totalInt⟩ : Arr)], newReady := s.newReady ++ [e.item.id] } := by
        obtain ⟨a, b⟩ := h
        constructor
        · exact a
        · simp only [level, List.length_append, List.length_singleton] at b ⊢; omega
      split
      · refine RoomC.frL (RoomC.trigPut (RoomC.frL ?_ (FrL.trigGet _))) (FrL.endProc _ p)
        exact h1.frL (FrL.riTrig _)
      · exact RoomC.frL (RoomC.trigPut (h1.frL (FrL.trigGet _))) (FrL.endProc _ p)
    · refine RoomC.frL ?_ ((FrL.endProc _ p).trans (FrL.giveUp _))
      obtain ⟨a, b⟩ := h
      constructor
      · exact a
      · show s.putRes.length + ((s.items.erase e).length + s.ready.length) ≤ s.cfg.cap
        simp only [level] at b; omega

theorem RoomC.startPhase {s : CBelt} (h : RoomC s) (p : MProc) (ph rem : Nat) : RoomC (s.startPhase p ph rem) := by
  unfold CBelt.startPhase
  split
  · exact h.frL ⟨rfl, rfl, rfl, rfl⟩
  · split
    · simp only
      split
      · exact h.frL ⟨rfl, rfl, rfl, rfl⟩
      · exact h.arrive p
    · exact h.arrive p

theorem RoomC.initM {s : CBelt} (h : RoomC s) (q : Nat) : RoomC (s.initM q) := by
  unfold CBelt.initM
  split
  · exact h
  · exact (h.frL (FrL.setItem s q _)).startPhase _ _ _

theorem RoomC.onTimeout {s : CBelt} (h : RoomC s) (u : Nat) : RoomC (s.onTimeout u) := by
  unfold CBelt.onTimeout
  split
  · split
    · exact (h.frL (FrL.sched _ _ _ _)).startPhase _ _ _
    · exact h.startPhase _ _ _
  · split
    · simp only
      refine RoomC.frL (s := CBelt.interruptItem _ _) ?_ ⟨rfl, rfl, rfl, rfl⟩
      refine RoomC.fr ?_ (Fr.interruptItem _ _)
      exact h.frL ⟨rfl, rfl, rfl, rfl⟩
    · exact h

theorem RoomC.onInterrupt {s : CBelt} (h : RoomC s) (r : PRef) : RoomC (s.onInterrupt r) := by
  unfold CBelt.onInterrupt
  cases r with
  | delayed d =>
    simp only
    split
    · exact h
    · split
      · exact h
      · exact h.frL ⟨rfl, rfl, rfl, rfl⟩
  | move q =>
    simp only
    split
    · exact h
    · split
      · exact h
      · exact h.frL ⟨rfl, rfl, by simp [CBelt.setItem, CBelt.setProc], rfl⟩
      · exact h.frL ⟨rfl, rfl, rfl, rfl⟩

theorem RoomC.onResume {s : CBelt} (h : RoomC s) (g : Nat) : RoomC (s.onResume g) := by
  unfold CBelt.onResume
  generalize s.waitOrder = l
  induction l generalizing s with
  | nil => exact h
  | cons q qs ih =>
    simp only [List.foldl_cons]
    apply ih
    split
    · exact h
    · split
      · split
        · refine RoomC.startPhase ?_ _ _ _
          exact h.frL ⟨rfl, rfl, by simp [CBelt.setItem], rfl⟩
        · exact h
      · exact h

theorem RoomC.handle {s : CBelt} (h : RoomC s) (k : CKind) : RoomC (s.handle k) := by
  unfold CBelt.handle
  cases k with
  | initM q => exact h.initM q
  | initD d =>
    simp only
    split
    · exact h
    · exact h.frL ⟨rfl, rfl, rfl, rfl⟩
  | tmo u => exact h.onTimeout u
  | shot w g => exact h.fr (Fr.onShot s w g)
  | re g => exact h.onResume g
  | p1e => exact h.trigPut
  | cond u =>
    simp only
    split
    · split
      · exact h.fr (Fr.bWake s)
      · exact h
    · exact h
  | intr r => exact h.onInterrupt r

theorem RoomC.put {s : CBelt} (h : RoomC s) (p tid : Nat) (x : Item) : RoomC (s.put p tid x).1 := by
  unfold CBelt.put
  split
  · exact h
  · split
    · exact h
    · rename_i t ht
      have hm : t ∈ s.putRes := List.mem_of_find?_eq_some ht
      have hl := erase_len hm
      simp only
      split
      · have h5 : RoomC (CBelt.trigGet { ((({ ({ s with putRes := s.putRes.erase t } : CBelt) with items := s.items ++ [(⟨x, s.nput, s.now, 0, none, 0⟩ : CItem)], nput := s.nput + 1, entered := s.entered ++ [(⟨x, s.nput, s.now, 0, none, 0⟩ : CItem)] } : CBelt).updLevel).sched s.now true (.initM s.nput)) with procs := s.procs ++ [(⟨s.nput, x.id, .fresh, 0⟩ : MProc)], activeMove := dictSet s.activeMove x.id s.nput }) := by
          refine RoomC.frL ?_ (FrL.trigGet _)
          obtain ⟨a, b⟩ := h
          constructor
          · show (s.putRes.erase t).length ≤ 1; omega
          · show (s.putRes.erase t).length + ((s.items ++ [_]).length + s.ready.length) ≤ s.cfg.cap
            simp only [level, List.length_append, List.length_singleton] at b ⊢; omega
        split
        · split
          · split
            · exact h5.fr (Fr.handleNew _ _)
            · exact h5
          · have h6 := h5.frL (FrL.iaTrig _)
            split
            · exact h6.fr (Fr.handleNew _ _)
            · exact h6
        · split
          · split
            · exact h5.fr (Fr.handleNew _ _)
            · exact h5
          · have h6 := h5.frL (FrL.paTrig _)
            split
            · exact h6.fr (Fr.handleNew _ _)
            · exact h6
      · obtain ⟨a, b⟩ := h
        constructor
        · show (s.putRes.erase t).length ≤ 1; omega
        · show (s.putRes.erase t).length + (s.items.length + s.ready.length) ≤ s.cfg.cap
          simp only [level] at b; omega

theorem RoomC.shrinkReady {s s2 : CBelt} (h : RoomC s) (e1 : s2.putRes = s.putRes) (e2 : s2.items.length = s.items.length)
    (e3 : s2.ready.length ≤ s.ready.length) (e4 : s2.cfg = s.cfg) : RoomC s2 := by
  obtain ⟨a, b⟩ := h
  constructor
  · rw [e1]; exact a
  · simp only [level] at b ⊢; rw [e1, e2, e4]; omega

theorem RoomC.get {s : CBelt} (h : RoomC s) (p tid : Nat) : RoomC (s.get p tid).1 := by
  unfold CBelt.get
  split
  · exact h
  · split
    · exact h
    · split
      · exact h
      · split
        · exact h.frL ⟨rfl, rfl, rfl, rfl⟩
        · rename_i e _
          simp only
          split
          · split
            · show RoomC (CBelt.trigPut _)
              exact RoomC.trigPut (h.shrinkReady rfl rfl (removeItemC_length_le _ _) rfl)
            · show RoomC (CBelt.sched _ _ _ _)
              refine RoomC.frL ?_ (FrL.gaTrig _)
              show RoomC (CBelt.trigPut _)
              exact RoomC.trigPut (h.shrinkReady rfl rfl (removeItemC_length_le _ _) rfl)
          · exact h.frL ⟨rfl, rfl, rfl, rfl⟩

theorem RoomC.cancelPut {s : CBelt} (h : RoomC s) (tid : Nat) : RoomC (s.cancelPut tid).1 := by
  unfold CBelt.cancelPut
  split
  · exact RoomC.trigPut (h.frL ⟨rfl, rfl, rfl, rfl⟩)
  · split
    · rename_i t ht
      have hm : t ∈ s.putRes := List.mem_of_find?_eq_some ht
      have hl := erase_len hm
      refine RoomC.trigPut ?_
      obtain ⟨a, b⟩ := h
      constructor
      · show (s.putRes.erase t).length ≤ 1; omega
      · show (s.putRes.erase t).length + (s.items.length + s.ready.length) ≤ s.cfg.cap
        simp only [level] at b; omega
    · exact h

theorem RoomC.cancelGet {s : CBelt} (h : RoomC s) (tid : Nat) : RoomC (s.cancelGet tid).1 := by
  unfold CBelt.cancelGet
  split
  · show RoomC (CBelt.trigGet _)
    refine RoomC.frL ?_ (FrL.trigGet _)
    exact h.frL ⟨rfl, rfl, rfl, rfl⟩
  · split
    · split
      · exact h.frL ⟨rfl, rfl, rfl, rfl⟩
      · split
        · exact h.frL ⟨rfl, rfl, rfl, rfl⟩
        · rename_i e _
          simp only
          split
          · rename_i hany
            show RoomC (CBelt.trigGet _)
            refine RoomC.frL ?_ (FrL.trigGet _)
            have hl := removeItemC_length_of_any s.ready _ hany
            obtain ⟨a, b⟩ := h
            constructor
            · exact a
            · show s.putRes.length + (s.items.length + (pyInsert (removeItem s.ready e.item) _ e).length) ≤ s.cfg.cap
              simp only [level] at b
              rw [pyInsert_length]; omega
          · exact h.frL ⟨rfl, rfl, rfl, rfl⟩
    · exact h

theorem RoomC.step {s : CBelt} (h : RoomC s) (op : Op) : RoomC (s.step op).1 := by
  unfold CBelt.step
  have h' : RoomC { s with fired := [], newReady := [] } := h.frL ⟨rfl, rfl, rfl, rfl⟩
  cases op with
  | reservePut p =>
    show RoomC (CBelt.trigPut _)
    exact RoomC.trigPut (h'.frL ⟨rfl, rfl, rfl, rfl⟩)
  | reserveGet p =>
    show RoomC (CBelt.trigGet _)
    refine RoomC.frL ?_ (FrL.trigGet _)
    exact h'.frL ⟨rfl, rfl, rfl, rfl⟩
  | put p t x => exact h'.put p t x
  | get p t => exact h'.get p t
  | cancelPut t => exact h'.cancelPut t
  | cancelGet t => exact h'.cancelGet t
  | adv dt =>
    simp only [CBelt.adv]
    split
    · split <;> exact h'.frL ⟨rfl, rfl, rfl, rfl⟩
    · exact h'.frL ⟨rfl, rfl, rfl, rfl⟩
  | ev =>
    simp only [CBelt.ev]
    split
    · exact h'
    · refine RoomC.handle (s := { s with fired := [], newReady := [], queue := _, now := _ }) ?_ _
      exact h'.frL ⟨rfl, rfl, rfl, rfl⟩
  | final => exact h'.frL ⟨rfl, rfl, rfl, rfl⟩

theorem run_roomC (ops : List Op) : ∀ (s : CBelt), RoomC s → RoomC (s.run ops) := by
  induction ops with
  | nil => intro s h; exact h
  | cons op ops ih => intro s h; exact ih _ (h.step op)

end CBelt
end FsVerif
