/-
Machine automaton: state-time accounting (C17).  For every activation sequence: each of the two
documented state groups and the worker-occupancy histogram partition the time elapsed since the
end of the set-up period, and the set-up period is charged to SETUP_STATE.
-/
import FsVerif.Proofs.Machine
namespace FsVerif
namespace MacState

def sumA (m : MTT) : Nat := m.idle + m.aop + m.allb     -- idle / at least one processing / all active blocked
def sumB (m : MTT) : Nat := m.idle + m.aap + m.aob      -- idle / all active processing / at least one blocked

theorem sum_addAt (l : List Nat) (i v : Nat) (h : i < l.length) : (addAt l i v).sum = l.sum + v := by
  induction l generalizing i with
  | nil => simp at h
  | cons x xs ih =>
    cases i with
    | zero => simp [addAt]; omega
    | succ n =>
      have hn : n < xs.length := by simpa using h
      simp [addAt, ih n hn]; omega

@[simp] theorem length_addAt (l : List Nat) (i v : Nat) : (addAt l i v).length = l.length := by
  induction l generalizing i with
  | nil => simp [addAt]
  | cons x xs ih => cases i <;> simp [addAt, ih]

structure MStat (s : MacState) : Prop where
  timeOK : match s.last with
    | none => sumA s.tt = 0 ∧ sumB s.tt = 0
    | some l => l ≤ s.now ∧ ∃ te, s.tEnd = some te ∧ te ≤ l ∧ sumA s.tt = l - te ∧ sumB s.tt = l - te ∧
        ∃ p b, s.rep = some (p, b) ∧ 0 ≤ p ∧ 0 ≤ b
  setupT : s.tt.setup = (if s.tEnd.isSome then s.cfg.setup else 0)
  occSum : s.occ.sum = s.lastOcc ∧ s.lastOcc ≤ s.now
  pcEarly : (s.bpc = .start ∨ s.bpc = .setupWait) → s.tEnd = none ∧ s.last = none


theorem init_mstat (cfg : MacCfg) : MStat (init cfg) := by
  constructor <;> simp [init, sumA, sumB]

/-- the statistics invariant reads only these fields -/
theorem mstat_of_eq {s s' : MacState} (h : MStat s) (e1 : s'.cfg = s.cfg) (e2 : s'.tt = s.tt) (e3 : s'.last = s.last)
    (e4 : s'.rep = s.rep) (e5 : s'.occ = s.occ) (e6 : s'.lastOcc = s.lastOcc) (e7 : s'.tEnd = s.tEnd) (e8 : s'.now = s.now)
    (hb : (s'.bpc = .start ∨ s'.bpc = .setupWait) → (s.bpc = .start ∨ s.bpc = .setupWait)) : MStat s' := by
  obtain ⟨a, b, c, d⟩ := h
  refine ⟨?_, ?_, ?_, ?_⟩
  · rw [e3, e2, e4, e7, e8]; exact a
  · rw [e2, e7, e1]; exact b
  · rw [e5, e6, e8]; exact c
  · intro hx; rw [e7, e3]; exact d (hb hx)

theorem bump_sums (m : MTT) (p b : Int) (e : Nat) (hp : 0 ≤ p) (hb : 0 ≤ b) :
    sumA (m.bump p b e) = sumA m + e ∧ sumB (m.bump p b e) = sumB m + e ∧ (m.bump p b e).setup = m.setup := by
  have hp' : p = 0 ∨ 0 < p := by omega
  have hb' : b = 0 ∨ 0 < b := by omega
  unfold MTT.bump sumA sumB
  rcases hp' with rfl | hp' <;> rcases hb' with rfl | hb'
  · simp; omega
  · have h1 : ¬ b = 0 := by omega
    simp [h1, hb']; omega
  · have h1 : ¬ p = 0 := by omega
    simp [h1, hp']; omega
  · have h1 : ¬ p = 0 := by omega
    have h2 : ¬ b = 0 := by omega
    simp [h1, h2, hp', hb']; omega

theorem updRep_mstat {s : MacState} {t : Nat} (h : MStat s) (ht : s.now = t)
    (hfirst : s.last = none → s.rep = some (0, 0) ∧ s.tEnd = some t) : MStat (s.updRep t) := by
  obtain ⟨a, b, c, d⟩ := h
  unfold updRep
  split
  · rename_i p q l hrep hlast
    rw [hlast] at a
    obtain ⟨hl, te, hte, htel, hA, hB, p', b', hr, hp, hb⟩ := a
    rw [hrep] at hr; cases hr
    obtain ⟨h1, h2, h3⟩ := bump_sums s.tt p q (t - l) hp hb
    refine ⟨?_, ?_, c, ?_⟩
    · simp only
      refine ⟨by omega, te, hte, by omega, by rw [h1, hA]; omega, by rw [h2, hB]; omega, _, _, rfl, by simp [count], by simp [count]⟩
    · simp only; rw [h3]; exact b
    · intro hx; have := d hx; rw [hlast] at this; simp at this
  · rename_i hno
    cases hl : s.last with
    | none =>
      rw [hl] at a
      obtain ⟨hr0, hte⟩ := hfirst hl
      refine ⟨?_, b, c, ?_⟩
      · simp only
        exact ⟨by omega, t, hte, Nat.le_refl _, by rw [a.1]; omega, by rw [a.2]; omega, 0, 0, hr0, by omega, by omega⟩
      · intro hx; have := d hx; rw [hte] at this; simp at this
    | some l =>
      rw [hl] at a
      obtain ⟨_, te, hte, _, _, _, p', b', hr, _, _⟩ := a
      exact absurd hl (by intro h'; exact hno p' b' l hr h')

/-- after set-up `last` is defined -/
theorem updRep_mstat' {s : MacState} {t : Nat} (h : MStat s) (ht : s.now = t) (hl : s.last ≠ none) : MStat (s.updRep t) :=
  updRep_mstat h ht (fun hx => absurd hx hl)

@[simp] theorem updRep_last (s : MacState) (t : Nat) : (s.updRep t).last = some t := by
  unfold updRep; split <;> rfl
@[simp] theorem updRep_now (s : MacState) (t : Nat) : (s.updRep t).now = s.now := by
  unfold updRep; split <;> rfl
@[simp] theorem updRep_occ (s : MacState) (t : Nat) : (s.updRep t).occ = s.occ := by
  unfold updRep; split <;> rfl
@[simp] theorem updRep_numWorkers (s : MacState) (t : Nat) : (s.updRep t).numWorkers = s.numWorkers := by
  unfold updRep; split <;> rfl

theorem occAdd_mstat {s : MacState} {t : Nat} (h : MStat s) (ht : s.now = t) (hi : s.numWorkers < s.occ.length) :
    MStat (s.occAdd t) := by
  obtain ⟨a, b, c, d⟩ := h
  refine ⟨a, b, ?_, d⟩
  simp only [occAdd]
  rw [sum_addAt _ _ _ hi]
  omega

theorem occRemove_mstat {s : MacState} {t : Nat} (h : MStat s) (ht : s.now = t) (hi : s.numWorkers < s.occ.length) :
    MStat (s.occRemove t) := by
  obtain ⟨a, b, c, d⟩ := h
  refine ⟨a, b, ?_, d⟩
  simp only [occRemove]
  rw [sum_addAt _ _ _ hi]
  omega

end MacState
end FsVerif
