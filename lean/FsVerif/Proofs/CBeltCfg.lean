/-
Continuous-conveyor model: the configuration never changes (mechanical walk through every function, as CBeltClock).
-/
import FsVerif.Proofs.CBeltTime6
namespace FsVerif
namespace CBelt

theorem cfg_trigPut (s : CBelt) : s.trigPut.cfg = s.cfg := (FrS.trigPut s).cfg
theorem cfg_trigGet (s : CBelt) : s.trigGet.cfg = s.cfg := (FrS.trigGet s).cfg

theorem cfg_arrive (s : CBelt) (p : MProc) : (s.arrive p).cfg = s.cfg := by
  unfold CBelt.arrive
  split
  · rfl
  · simp only
    split
    · split
      · show (CBelt.trigPut _).cfg = s.cfg
        rw [cfg_trigPut, cfg_trigGet]; rfl
      · show (CBelt.trigPut _).cfg = s.cfg
        rw [cfg_trigPut, cfg_trigGet]
    · rfl

theorem cfg_startPhase (s : CBelt) (p : MProc) (ph rem : Nat) : (s.startPhase p ph rem).cfg = s.cfg := by
  unfold CBelt.startPhase
  split
  · rfl
  · split
    · simp only
      split
      · rfl
      · exact cfg_arrive s p
    · exact cfg_arrive s p

theorem cfg_initM (s : CBelt) (q : Nat) : (s.initM q).cfg = s.cfg := by
  unfold CBelt.initM
  split
  · rfl
  · rw [cfg_startPhase]; rfl

theorem cfg_onTimeout (s : CBelt) (u : Nat) : (s.onTimeout u).cfg = s.cfg := by
  unfold CBelt.onTimeout
  split
  · split
    · rw [cfg_startPhase]; rfl
    · rw [cfg_startPhase]
  · split
    · simp only
      show (CBelt.interruptItem _ _).cfg = s.cfg
      rw [(Fr.interruptItem _ _).cfg]
    · rfl

theorem cfg_onInterrupt (s : CBelt) (r : PRef) : (s.onInterrupt r).cfg = s.cfg := by
  unfold CBelt.onInterrupt
  cases r with
  | delayed d =>
    simp only
    split
    · rfl
    · split <;> rfl
  | move q =>
    simp only
    split
    · rfl
    · split <;> rfl

theorem cfg_resumeOne (g : Nat) (s : CBelt) (q : Nat) : (resumeOne g s q).cfg = s.cfg := by
  unfold CBelt.resumeOne
  split
  · rfl
  · split
    · split
      · simp only; rw [cfg_startPhase]; rfl
      · rfl
    · rfl

theorem cfg_onResume (s : CBelt) (g : Nat) : (s.onResume g).cfg = s.cfg := by
  rw [onResume_eq]
  generalize s.waitOrder = l
  induction l generalizing s with
  | nil => rfl
  | cons q qs ih => simp only [List.foldl_cons]; rw [ih, cfg_resumeOne]

theorem cfg_handle (s : CBelt) (k : CKind) : (s.handle k).cfg = s.cfg := by
  unfold CBelt.handle
  cases k with
  | initM q => exact cfg_initM s q
  | initD d =>
    simp only
    split <;> rfl
  | tmo u => exact cfg_onTimeout s u
  | shot w g => exact (Fr.onShot s w g).cfg
  | re g => exact cfg_onResume s g
  | p1e => exact cfg_trigPut s
  | cond u =>
    simp only
    split
    · split
      · exact (Fr.bWake s).cfg
      · rfl
    · rfl
  | intr r => exact cfg_onInterrupt s r

theorem cfg_put (s : CBelt) (p tid : Nat) (x : Item) : (s.put p tid x).1.cfg = s.cfg := by
  unfold CBelt.put
  split
  · rfl
  · split
    · rfl
    · simp only
      split
      · split
        · split
          · split
            · rw [(Fr.handleNew _ _).cfg, cfg_trigGet]; rfl
            · rw [cfg_trigGet]; rfl
          · split
            · rw [(Fr.handleNew _ _).cfg]; show (CBelt.trigGet _).cfg = s.cfg; rw [cfg_trigGet]; rfl
            · show (CBelt.trigGet _).cfg = s.cfg; rw [cfg_trigGet]; rfl
        · split
          · split
            · rw [(Fr.handleNew _ _).cfg, cfg_trigGet]; rfl
            · rw [cfg_trigGet]; rfl
          · split
            · rw [(Fr.handleNew _ _).cfg]; show (CBelt.trigGet _).cfg = s.cfg; rw [cfg_trigGet]; rfl
            · show (CBelt.trigGet _).cfg = s.cfg; rw [cfg_trigGet]; rfl
      · rfl

theorem cfg_get (s : CBelt) (p tid : Nat) : (s.get p tid).1.cfg = s.cfg := by
  unfold CBelt.get
  split
  · rfl
  · split
    · rfl
    · split
      · rfl
      · split
        · rfl
        · simp only
          split
          · split
            · show (CBelt.trigPut _).cfg = s.cfg; rw [cfg_trigPut]; rfl
            · show (CBelt.trigPut _).cfg = s.cfg; rw [cfg_trigPut]; rfl
          · rfl

theorem cfg_cancelPut (s : CBelt) (tid : Nat) : (s.cancelPut tid).1.cfg = s.cfg := by
  unfold CBelt.cancelPut
  split
  · show (CBelt.trigPut _).cfg = s.cfg; rw [cfg_trigPut]
  · split
    · show (CBelt.trigPut _).cfg = s.cfg; rw [cfg_trigPut]
    · rfl

theorem cfg_cancelGet (s : CBelt) (tid : Nat) : (s.cancelGet tid).1.cfg = s.cfg := by
  unfold CBelt.cancelGet
  split
  · show (CBelt.trigGet _).cfg = s.cfg; rw [cfg_trigGet]
  · split
    · split
      · rfl
      · split
        · rfl
        · simp only
          split
          · show (CBelt.trigGet _).cfg = s.cfg; rw [cfg_trigGet]
          · rfl
    · rfl

theorem step_cfg (s : CBelt) (op : Op) : (s.step op).1.cfg = s.cfg := by
  unfold CBelt.step
  cases op with
  | reservePut p => show (CBelt.trigPut _).cfg = s.cfg; rw [cfg_trigPut]
  | reserveGet p => show (CBelt.trigGet _).cfg = s.cfg; rw [cfg_trigGet]
  | put p t x => simp only; rw [cfg_put]
  | get p t => simp only; rw [cfg_get]
  | cancelPut t => simp only; rw [cfg_cancelPut]
  | cancelGet t => simp only; rw [cfg_cancelGet]
  | adv dt =>
    simp only [CBelt.adv]
    split
    · split <;> rfl
    · rfl
  | ev =>
    simp only [CBelt.ev]
    split
    · rfl
    · rw [cfg_handle]
  | final => rfl

theorem run_cfg (ops : List Op) : ∀ s : CBelt, (s.run ops).cfg = s.cfg := by
  induction ops with
  | nil => intro s; rfl
  | cons op ops ih => intro s; exact (ih _).trans (step_cfg s op)

end CBelt
end FsVerif
