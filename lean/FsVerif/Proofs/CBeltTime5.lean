/-
Continuous-conveyor model, travel-time invariant: resume, the kernel step, the API calls, every reachable state.
-/
import FsVerif.Proofs.CBeltTime4
namespace FsVerif
namespace CBelt

/-- one waiter of the resume event continues -/
def resumeOne (g : Nat) (s : CBelt) (q : Nat) : CBelt :=
  match s.procs.find? (fun p => p.q == q) with
  | none => s
  | some p =>
    match p.pc with
    | .wait phase rem ist gen =>
      if gen == g then
        let total := p.total + (s.now - ist)
        let s1 := s.setItem q (fun it => { it with intStart := none, totalInt := total })
        let s2 := { s1 with waitOrder := s1.waitOrder.filter (· != q) }
        s2.startPhase { p with total := total } phase rem
      else s
    | _ => s

theorem onResume_eq (s : CBelt) (g : Nat) : s.onResume g = s.waitOrder.foldl (resumeOne g) s := rfl

theorem TIg.resumeOne {s : CBelt} (h : TIg none s) (g q : Nat) : TIg none (resumeOne g s q) := by
  unfold CBelt.resumeOne
  split
  · exact h
  · rename_i p hp
    obtain ⟨hmem, hpq⟩ := find_some hp
    have hpq' : p.q = q := by simpa using hpq
    split
    · rename_i ph rm ist gen hpc
      split
      · simp only
        have hfacts : ∀ it ∈ s.items, it.seq = q → it.intStart = some ist ∧ ist + rm = it.entry + it.totalInt + target s.cfg ph ∧
            p.total = it.totalInt ∧ (ph = 1 ∨ ph = 2) ∧ ist ≤ s.now := by
          intro it hit hs
          have := h.pcOK p hmem (by simp) it hit (by rw [hs, hpq'])
          unfold PcOK at this
          rw [hpc] at this
          exact this
        have h1 := (h.weaken q).setItemEx (fun it => { it with intStart := none, totalInt := p.total + (s.now - ist) }) (fun it => ⟨rfl, rfl⟩)
        have h2 : TIg (some q) { (s.setItem q (fun it => { it with intStart := none, totalInt := p.total + (s.now - ist) })) with
            waitOrder := (s.setItem q (fun it => { it with intStart := none, totalInt := p.total + (s.now - ist) })).waitOrder.filter (· != q) } :=
          h1.frS ⟨rfl, rfl, rfl, rfl, rfl, rfl, rfl, rfl, rfl⟩
        refine TIg.startPhase h2 { p with total := p.total + (s.now - ist) } ph rm
          (fun y hy => by rw [← Option.some.inj hy]; exact hpq'.symm) ?_
        intro it' hit' hs
        obtain ⟨it, hit, rfl⟩ := List.mem_map.mp hit'
        by_cases hq : it.seq = q
        · have hb : (it.seq == q) = true := by simpa using hq
          obtain ⟨f1, f2, f3, f4, f5⟩ := hfacts it hit hq
          rw [if_pos hb]
          refine ⟨rfl, ?_, rfl, f4⟩
          show s.now + rm = it.entry + (p.total + (s.now - ist)) + target s.cfg ph
          omega
        · have hb : (it.seq == q) = false := by simpa using hq
          simp only [hb] at hs
          exact absurd (hs.trans hpq') hq
      · exact h
    · exact h

end CBelt
end FsVerif
