/-
BufferStore in LIFO mode: the unreserved part of `ready_items` is a stack.  The granted retrievals own the TOP k entries
(the last k of the list); `freeL s` = the entries below them, bottom first.  An entry that becomes available is pushed on
top of the free part, a grant takes the top of the free part (the most recently available unreserved item), a cancelled
granted retrieval pushes its entry back on top of the free part, a `get` does not touch it.  Needs the store invariant `Pre`
(binding + distinct identities).
-/
import FsVerif.Proofs.BufFifo
namespace FsVerif

theorem removeKey_skip_take {α} (key : α → Nat) (l : List α) (x n : Nat) (hn : x ∉ (l.take n).map key) :
    removeKey key l x = l.take n ++ removeKey key (l.drop n) x := by
  induction n generalizing l with
  | zero => simp
  | succ n ih =>
    cases l with
    | nil => simp [removeKey]
    | cons a as =>
      have ha : key a ≠ x := by
        intro h; apply hn; simp [List.take_succ_cons, h]
      have hn' : x ∉ (as.take n).map key := by
        intro h; apply hn; simp only [List.take_succ_cons, List.map_cons, List.mem_cons]; exact Or.inr h
      rw [removeKey_cons_ne key a as x ha, ih as hn']
      simp [List.take_succ_cons]

theorem take_succ_pyInsert {α} (l : List α) (n : Nat) (a : α) (h : n ≤ l.length) :
    (pyInsert l n a).take (n + 1) = l.take n ++ [a] := by
  unfold pyInsert
  have htl : (l.take n).length = n := by simp; omega
  rw [List.take_append, htl]
  simp [List.take_take]

namespace BufStore

def freeL (s : BufStore) : List BEntry := s.ready.take (s.ready.length - s.resEv.length)

theorem freeL_congr {s s' : BufStore} (e1 : s'.ready = s.ready) (e2 : s'.resEv = s.resEv) : freeL s' = freeL s := by
  unfold freeL; rw [e1, e2]

theorem trigPut_stack (s : BufStore) : freeL s.trigPut = freeL s ∧ s.trigPut.resItems = s.resItems :=
  ⟨freeL_congr (by simp) (by simp), by simp⟩

/-- `_trigger_reserve_get` in LIFO mode serves at most one request, with the TOP of the free part -/
theorem trigGet_stack {s : BufStore} (hl : s.resEv.length = s.getRes.length) (hm : s.cfg.mode = .lifo) :
    ∃ g, freeL s = freeL s.trigGet ++ g ∧ s.trigGet.resItems = s.resItems ++ g ∧ g.length ≤ 1 := by
  rcases trigGet_cases s with ⟨he, _⟩ | ⟨t, q, e, _, hs, hb, he⟩ | ⟨t, q, _, hs, hb, _⟩
  · rw [he]; exact ⟨[], by simp, by simp, by simp⟩
  · have hk : s.resEv.length < s.ready.length := by
      have := (serves_iff s).mp hs; rw [hl]; exact this
    have hb' : s.ready[s.ready.length - 1 - s.resEv.length]? = some e := by
      unfold bindIdx at hb; rw [hm] at hb; simp only [hk, ↓reduceIte] at hb; simpa using hb
    have hidx : s.ready.length - 1 - s.resEv.length < s.ready.length := by omega
    have he' : s.ready[s.ready.length - 1 - s.resEv.length] = e := by
      rw [List.getElem?_eq_getElem hidx] at hb'
      exact Option.some.inj hb'
    rw [he]
    refine ⟨[e], ?_, rfl, by simp⟩
    show s.ready.take (s.ready.length - s.resEv.length) = s.ready.take (s.ready.length - (s.resEv ++ [t]).length) ++ [e]
    rw [List.length_append, List.length_singleton]
    have h1 : s.ready.length - s.resEv.length = (s.ready.length - 1 - s.resEv.length) + 1 := by omega
    have h2 : s.ready.length - (s.resEv.length + 1) = s.ready.length - 1 - s.resEv.length := by omega
    rw [h1, h2, List.take_succ_eq_append_getElem hidx, he']
  · exfalso
    have hk : s.resEv.length < s.ready.length := by
      have := (serves_iff s).mp hs; rw [hl]; exact this
    unfold bindIdx at hb; rw [hm] at hb
    simp only [hk, ↓reduceIte] at hb
    simp at hb; omega

theorem key_mem_drop {s : BufStore} (h : Pre s) (hm : s.cfg.mode = .lifo) {e : BEntry} (he : e ∈ s.resItems) :
    bk e ∈ (s.ready.drop (s.ready.length - s.resEv.length)).map bk ∧ bk e ∉ (s.ready.take (s.ready.length - s.resEv.length)).map bk := by
  have hp := h.bindItems
  unfold resPart at hp
  rw [hm] at hp
  have hin : e ∈ s.ready.drop (s.ready.length - s.resEv.length) := hp.mem_iff.mp he
  refine ⟨List.mem_map.mpr ⟨e, hin, rfl⟩, ?_⟩
  intro hc
  rcases List.mem_map.mp hc with ⟨a, ha, hk⟩
  have hnd : (s.ready.map bk).Nodup := ready_ids_nodup h.dist
  have hsplit := List.take_append_drop (s.ready.length - s.resEv.length) s.ready
  rw [← hsplit, List.map_append] at hnd
  exact (List.nodup_append.mp hnd).2.2 (bk a) (List.mem_map.mpr ⟨a, ha, rfl⟩) (bk e) (List.mem_map.mpr ⟨e, hin, rfl⟩) hk

/-- taking the reserved entry `e` out of `ready` leaves the free part below the reserved block alone -/
theorem take_removeItem_lifo {s : BufStore} (h : Pre s) (hm : s.cfg.mode = .lifo) {e : BEntry} (he : e ∈ s.resItems) :
    (removeItem s.ready e.item).take (s.ready.length - s.resEv.length) = s.ready.take (s.ready.length - s.resEv.length) := by
  obtain ⟨_, hnot⟩ := key_mem_drop h hm he
  rw [removeItem_eq]
  show List.take _ (removeKey bk s.ready (bk e)) = _
  rw [removeKey_skip_take bk s.ready (bk e) _ hnot]
  have hlen : (s.ready.take (s.ready.length - s.resEv.length)).length = s.ready.length - s.resEv.length := by
    simp
  rw [List.take_append_of_le_length (by omega)]
  rw [List.take_of_length_le (by omega)]

theorem removeItem_length_lifo {s : BufStore} (h : Pre s) (hm : s.cfg.mode = .lifo) {e : BEntry} (he : e ∈ s.resItems) :
    (removeItem s.ready e.item).length + 1 = s.ready.length := by
  obtain ⟨hin, _⟩ := key_mem_drop h hm he
  have hxr : bk e ∈ s.ready.map bk := by
    rcases List.mem_map.mp hin with ⟨a, ha, hk⟩
    exact List.mem_map.mpr ⟨a, List.mem_of_mem_drop ha, hk⟩
  rw [removeItem_eq]; exact removeKey_length bk s.ready (bk e) hxr

theorem get_stack {s : BufStore} (h : Pre s) (hm : s.cfg.mode = .lifo) (p tid : Nat) : freeL (s.get p tid).1 = freeL s := by
  unfold BufStore.get
  split
  · rfl
  · split
    · rfl
    · rename_i t ht
      have htm : t ∈ s.getRes := List.mem_of_find?_eq_some ht
      have htr : t ∈ s.resEv := h.bindEv.mem_iff.mpr htm
      have hidx : s.resEv.idxOf t < s.resEv.length := List.idxOf_lt_length_of_mem htr
      split
      · rfl
      · split
        · rename_i hn
          exfalso
          rw [List.getElem?_eq_none_iff] at hn
          have := h.bindLen; omega
        · rename_i e he
          have hem : e ∈ s.resItems := List.mem_of_getElem? he
          split
          · rw [(trigPut_stack _).1]
            show (removeItem s.ready e.item).take ((removeItem s.ready e.item).length - (s.resEv.eraseIdx (s.resEv.idxOf t)).length) = s.ready.take (s.ready.length - s.resEv.length)
            have hl1 := PosStore.length_eraseIdx_lt hidx
            have hrl := removeItem_length_lifo h hm hem
            have hle := h.bindLe
            have : (removeItem s.ready e.item).length - (s.resEv.eraseIdx (s.resEv.idxOf t)).length = s.ready.length - s.resEv.length := by omega
            rw [this]; exact take_removeItem_lifo h hm hem
          · rename_i hany
            exfalso
            obtain ⟨hin, _⟩ := key_mem_drop h hm hem
            have hxr : bk e ∈ s.ready.map bk := by
              rcases List.mem_map.mp hin with ⟨a, ha, hk⟩
              exact List.mem_map.mpr ⟨a, List.mem_of_mem_drop ha, hk⟩
            exact hany (hasItem_of_key hxr e.item rfl)

/-- an entry whose delay is over is pushed on top of the free part (then the trigger may serve one request with the top) -/
theorem move_stack {s : BufStore} (h : Pre s) (hm : s.cfg.mode = .lifo) (e : BEntry) :
    ∃ new g, freeL s ++ new = freeL (s.move e) ++ g ∧ (s.move e).resItems = s.resItems ++ g ∧ new.length ≤ 1 ∧ g.length ≤ 1 := by
  unfold BufStore.move
  split
  · have hle := h.bindLe
    have hl : (s.arrive e).resEv.length = (s.arrive e).getRes.length := h.bindEv.length_eq
    have hm' : (s.arrive e).cfg.mode = .lifo := hm
    obtain ⟨g, h1, h2, h3⟩ := trigGet_stack hl hm'
    refine ⟨[e], g, ?_, ?_, by simp, h3⟩
    · rw [(trigPut_stack _).1, ← h1]
      have hr : (s.arrive e).ready = pyInsert s.ready (s.ready.length - s.resEv.length) e := by simp [arrive, hm]
      show s.ready.take (s.ready.length - s.resEv.length) ++ [e] = (s.arrive e).ready.take ((s.arrive e).ready.length - s.resEv.length)
      rw [hr]
      have hlen : (pyInsert s.ready (s.ready.length - s.resEv.length) e).length = s.ready.length + 1 := by
        simp only [pyInsert, List.length_append, List.length_take, List.length_cons, List.length_drop]; omega
      rw [hlen]
      have : s.ready.length + 1 - s.resEv.length = (s.ready.length - s.resEv.length) + 1 := by omega
      rw [this, take_succ_pyInsert _ _ _ (by omega)]
    · rw [(trigPut_stack _).2, h2]; rfl
  · exact ⟨[], [], by simp [freeL], by simp, by simp, by simp⟩

/-- cancelling a GRANTED retrieval pushes its entry back on top of the free part; cancelling a waiting request (or a rejected
    call) leaves the free part alone; the trigger that follows may serve one request with the top -/
theorem cancelGet_stack {s : BufStore} (h : Pre s) (hm : s.cfg.mode = .lifo) (tid : Nat) :
    ∃ rel g base, freeL s ++ rel = freeL (s.cancelGet tid).1 ++ g ∧ (s.cancelGet tid).1.resItems = base ++ g ∧ g.length ≤ 1 ∧
      ((rel = [] ∧ base = s.resItems) ∨
       (∃ t e, findTok s.getRes tid = some t ∧ s.resItems[s.resEv.idxOf t]? = some e ∧ rel = [e] ∧
               base = s.resItems.eraseIdx (s.resEv.idxOf t))) := by
  unfold BufStore.cancelGet
  split
  · rename_i t ht
    have hl : ({ s with getQ := s.getQ.erase t } : BufStore).resEv.length = ({ s with getQ := s.getQ.erase t } : BufStore).getRes.length := h.bindEv.length_eq
    obtain ⟨g, h1, h2, h3⟩ := trigGet_stack hl (s := { s with getQ := s.getQ.erase t }) hm
    exact ⟨[], g, s.resItems, by rw [List.append_nil]; exact h1, h2, h3, Or.inl ⟨rfl, rfl⟩⟩
  · split
    · rename_i t ht
      have htm : t ∈ s.getRes := by unfold findTok at ht; exact List.mem_of_find?_eq_some ht
      have htr : t ∈ s.resEv := h.bindEv.mem_iff.mpr htm
      have hidx : s.resEv.idxOf t < s.resEv.length := List.idxOf_lt_length_of_mem htr
      split
      · exfalso; omega
      · split
        · rename_i hn
          exfalso
          rw [List.getElem?_eq_none_iff] at hn
          have := h.bindLen; omega
        · rename_i e he
          have hem : e ∈ s.resItems := List.mem_of_getElem? he
          split
          · have hl1 := PosStore.length_eraseIdx_lt hidx
            have hk : (s.resEv.eraseIdx (s.resEv.idxOf t)).length = s.resEv.length - 1 := by omega
            have hgl : (s.getRes.erase t).length + 1 = s.getRes.length := by
              rw [List.length_erase_of_mem htm]; have := List.length_pos_of_mem htm; omega
            have hrl := removeItem_length_lifo h hm hem
            have hle := h.bindLe
            have hl : (((s.unbind t (s.resEv.idxOf t)).release e)).resEv.length = (((s.unbind t (s.resEv.idxOf t)).release e)).getRes.length := by
              show (s.resEv.eraseIdx (s.resEv.idxOf t)).length = (s.getRes.erase t).length
              have := h.bindEv.length_eq; omega
            have hm' : (((s.unbind t (s.resEv.idxOf t)).release e)).cfg.mode = .lifo := hm
            obtain ⟨g, q1, q2, q3⟩ := trigGet_stack hl hm'
            refine ⟨[e], g, s.resItems.eraseIdx (s.resEv.idxOf t), ?_, q2, q3, Or.inr ⟨t, e, ht, he, rfl, rfl⟩⟩
            rw [← q1]
            have hrd : ((s.unbind t (s.resEv.idxOf t)).release e).ready = pyInsert (removeItem s.ready e.item) (s.ready.length - s.resEv.length) e := by
              simp only [release, unbind, hm]
              have : (removeItem s.ready e.item).length - (s.resEv.eraseIdx (s.resEv.idxOf t)).length = s.ready.length - s.resEv.length := by omega
              rw [this]
            show s.ready.take (s.ready.length - s.resEv.length) ++ [e] =
              ((s.unbind t (s.resEv.idxOf t)).release e).ready.take (((s.unbind t (s.resEv.idxOf t)).release e).ready.length - (s.resEv.eraseIdx (s.resEv.idxOf t)).length)
            rw [hrd]
            have hlen : (pyInsert (removeItem s.ready e.item) (s.ready.length - s.resEv.length) e).length = s.ready.length := by
              simp only [pyInsert, List.length_append, List.length_take, List.length_cons, List.length_drop]; omega
            rw [hlen, hk]
            have : s.ready.length - (s.resEv.length - 1) = (s.ready.length - s.resEv.length) + 1 := by omega
            rw [this, take_succ_pyInsert _ _ _ (by omega), take_removeItem_lifo h hm hem]
          · rename_i hany
            exfalso
            obtain ⟨hin, _⟩ := key_mem_drop h hm hem
            have hxr : bk e ∈ s.ready.map bk := by
              rcases List.mem_map.mp hin with ⟨a, ha, hk⟩
              exact List.mem_map.mpr ⟨a, List.mem_of_mem_drop ha, hk⟩
            exact hany (hasItem_of_key hxr e.item rfl)
    · exact ⟨[], [], s.resItems, by simp, by simp, by simp, Or.inl ⟨rfl, rfl⟩⟩

end BufStore
end FsVerif
