/-
Second invariant bundle of the positional stores: no lost wake-up on the retrieval side
(non-filter classes), FIFO discipline with cancellations (ghost sequence numbers), the
time-averaged-level bookkeeping and the timer queue.
-/
import FsVerif.Proofs.PosInv
namespace FsVerif
namespace PosStore

/-! ### list helpers -/

theorem take_eraseIdx_lt {α} (l : List α) {i k : Nat} (hi : i < k) (hk : k ≤ l.length) :
    (l.eraseIdx i).take (k - 1) = (l.take k).eraseIdx i := by
  induction l generalizing i k with
  | nil => simp
  | cons x xs ih =>
    cases k with
    | zero => omega
    | succ k =>
      cases i with
      | zero => simp
      | succ i =>
        simp only [List.eraseIdx_cons_succ, List.take_succ_cons, Nat.add_sub_cancel]
        have hk' : k ≤ xs.length := by simpa using hk
        have hi' : i < k := by omega
        have := ih hi' hk'
        cases k with
        | zero => omega
        | succ k' => simp only [List.take_succ_cons, Nat.add_sub_cancel] at this ⊢; rw [this]

theorem drop_eraseIdx_lt {α} (l : List α) {i k : Nat} (hi : i < k) (hk : k ≤ l.length) :
    (l.eraseIdx i).drop (k - 1) = l.drop k := by
  induction l generalizing i k with
  | nil => simp
  | cons x xs ih =>
    cases k with
    | zero => omega
    | succ k =>
      cases i with
      | zero => simp
      | succ i =>
        simp only [List.eraseIdx_cons_succ, Nat.add_sub_cancel, List.drop_succ_cons]
        have hk' : k ≤ xs.length := by simpa using hk
        have hi' : i < k := by omega
        have := ih hi' hk'
        cases k with
        | zero => omega
        | succ k' => simp only [Nat.add_sub_cancel, List.drop_succ_cons] at this ⊢; exact this

theorem map_eraseIdx' {α β} (f : α → β) (l : List α) (i : Nat) :
    (l.eraseIdx i).map f = (l.map f).eraseIdx i := by
  induction l generalizing i with
  | nil => simp
  | cons x xs ih => cases i <;> simp [ih]

theorem take_pyInsert {α} (l : List α) (n : Nat) (a : α) (h : n ≤ l.length) :
    (pyInsert l n a).take n = l.take n := by
  unfold pyInsert
  rw [List.take_append_of_le_length (by simp; omega)]
  simp [List.take_take]

theorem drop_pyInsert {α} (l : List α) (n : Nat) (a : α) (h : n ≤ l.length) :
    (pyInsert l n a).drop n = a :: l.drop n := by
  unfold pyInsert
  have : (l.take n).length = n := by simp; omega
  rw [List.drop_append_of_le_length (by omega)]
  simp [List.drop_eq_nil_of_le, this]

theorem map_pyInsert {α β} (f : α → β) (l : List α) (n : Nat) (a : α) :
    (pyInsert l n a).map f = pyInsert (l.map f) n (f a) := by
  unfold pyInsert; simp [List.map_take, List.map_drop]

/-! ### the pieces -/

/-- Retrieval side of "no lost wake-up" for the classes without filters. -/
def WakeGetOK (s : PosStore) : Prop :=
  s.cfg.filter = false → s.getQ ≠ [] → s.items.length ≤ s.getRes.length

def seqs (s : PosStore) : List Nat := s.items.map (·.seq)

/-- `a` is served before `b`: `a` was reserved before (a released item) or both were never
    reserved and `a` was put earlier. -/
def Ahead (ever : List Nat) (a b : Nat) : Prop := a ∈ ever ∨ (b ∉ ever ∧ a < b)

structure FifoOK (s : PosStore) : Prop where
  nodup : (seqs s).Nodup
  lt : ∀ a ∈ seqs s, a < s.putLog.length
  everLt : ∀ r ∈ s.everRes, r < s.putLog.length
  link : ∀ e ∈ s.items, s.putLog[e.seq]? = some e.item
  reserved : ∀ a ∈ (seqs s).take s.resEv.length, a ∈ s.everRes
  order : ((seqs s).drop s.resEv.length).Pairwise (Ahead s.everRes)
  newer : ∀ a ∈ seqs s, a ∉ s.everRes → ∀ r ∈ s.everRes, r < a

/-- `_update_time_averaged_level` bookkeeping (classes with statistics). -/
structure StatOK (s : PosStore) : Prop where
  level : s.cfg.filter = false → s.lastLevel = s.items.length
  change : s.lastChange ≤ s.now
  integral : s.cfg.filter = false → s.wsum + s.lastLevel * (s.now - s.lastChange) = s.area

structure TimersOK (s : PosStore) : Prop where
  sorted : s.timers.Pairwise (· ≤ ·)
  future : ∀ d ∈ s.timers, s.now ≤ d
  bounded : ∀ d ∈ s.timers, d ≤ s.now + s.cfg.trigDelay

structure Inv2 (s : PosStore) : Prop where
  wakeGet : WakeGetOK s
  fifo : FifoOK s
  stat : StatOK s
  timers : TimersOK s

/-! ### WakeGetOK -/

theorem serves_nofilter {s : PosStore} (hf : s.cfg.filter = false) (t : Tok) :
    s.serves t = decide (s.getRes.length < s.items.length) := by
  unfold serves; simp [hf]

theorem trigGet_wakeGet {s : PosStore}
    (hA : s.cfg.filter = false → ∀ t q, s.getQ = t :: q → q ≠ [] → s.items.length ≤ s.getRes.length + 1) :
    WakeGetOK s.trigGet := by
  intro hf hne
  simp only [trigGet_cfg] at hf
  rcases trigGet_cases s with ⟨he, hq | ⟨t, q, hq, hns⟩⟩ | ⟨t, q, hq, ha, he⟩
  · rw [he] at hne; exact absurd hq hne
  · rw [he]; rw [serves_nofilter hf] at hns; simpa using hns
  · rw [he] at hne ⊢; simp only at hne ⊢
    have := hA hf t q hq hne
    simp; omega

theorem wakeGet_frame {s s' : PosStore} (h : WakeGetOK s) (h1 : s'.cfg = s.cfg) (h2 : s'.getQ = s.getQ)
    (h3 : s'.items.length = s.items.length) (h4 : s'.getRes = s.getRes) : WakeGetOK s' := by
  unfold WakeGetOK at *; rw [h1, h2, h3, h4]; exact h

/-! ### FifoOK under the triggers -/

theorem fifo_frame {s s' : PosStore} (h : FifoOK s) (h1 : s'.items = s.items) (h2 : s'.putLog = s.putLog)
    (h3 : s'.everRes = s.everRes) (h4 : s'.resEv = s.resEv) : FifoOK s' := by
  obtain ⟨a, b, c, d, e, f, g⟩ := h
  unfold seqs at *
  constructor <;> simp only [seqs, h1, h2, h3, h4] <;> assumption

theorem trigPut_fifo {s : PosStore} (h : FifoOK s) : FifoOK s.trigPut := by
  refine fifo_frame h (by simp) (by simp) ?_ (by simp)
  unfold trigPut; frame

theorem updLevel_fifo {s : PosStore} (h : FifoOK s) : FifoOK s.updLevel := by
  refine fifo_frame h (by simp) (by simp) ?_ (by simp)
  unfold updLevel; frame

theorem head?_drop_map {α β} (f : α → β) (l : List α) (k : Nat) :
    ((l.drop k).head?.toList.map f) = ((l.map f).drop k).head?.toList := by
  rw [← List.map_drop]
  cases l.drop k <;> simp

theorem trigGet_fifo {s : PosStore} (h : FifoOK s) (hb : s.resEv.length = s.getRes.length) :
    FifoOK s.trigGet := by
  rcases trigGet_cases s with ⟨he, _⟩ | ⟨t, q, hq, ha, he⟩
  · rw [he]; exact h
  · rw [he]
    obtain ⟨h1, h2, h3, h4, h5, h6, h7⟩ := h
    have hlt : s.resEv.length < (seqs s).length := by
      have := serves_lt ha
      unfold seqs; simp; omega
    have hdrop := List.drop_eq_getElem_cons hlt
    have htake := List.take_succ_eq_append_getElem hlt
    generalize hx : (seqs s)[s.resEv.length] = x at hdrop htake
    have hever : ((s.items.drop s.resEv.length).head?.toList.map (·.seq)) = [x] := by
      rw [head?_drop_map]
      show (List.drop s.resEv.length (seqs s)).head?.toList = [x]
      rw [hdrop]; rfl
    have hxmem : x ∈ seqs s := by rw [← hx]; exact List.getElem_mem hlt
    rw [hdrop] at h6
    have h6' := List.pairwise_cons.mp h6
    have hnd : x ∉ (seqs s).drop (s.resEv.length + 1) := by
      have := (List.take_append_drop s.resEv.length (seqs s))
      rw [hdrop] at this
      rw [← this] at h1
      have := (List.nodup_append.mp h1).2.1
      exact (List.nodup_cons.mp this).1
    constructor
    · exact h1
    · exact h2
    · simp only [hever]
      intro r hr
      rcases List.mem_append.mp hr with hr | hr
      · exact h3 r hr
      · simp at hr; rw [hr]; exact h2 x hxmem
    · exact h4
    · simp only [hever, List.length_append, List.length_cons, List.length_nil]
      show ∀ a ∈ (seqs s).take (s.resEv.length + 1), a ∈ s.everRes ++ [x]
      rw [htake]
      intro a ha
      rcases List.mem_append.mp ha with ha | ha
      · exact List.mem_append_left _ (h5 a ha)
      · exact List.mem_append_right _ ha
    · simp only [hever, List.length_append, List.length_cons, List.length_nil]
      show ((seqs s).drop (s.resEv.length + 1)).Pairwise (Ahead (s.everRes ++ [x]))
      have hsub : ∀ b ∈ (seqs s).drop (s.resEv.length + 1), b ≠ x := by
        intro b hb hbx; rw [hbx] at hb; exact hnd hb
      refine List.Pairwise.imp_of_mem ?_ h6'.2
      intro a b _ hbm hab
      unfold Ahead at *
      rcases hab with hab | ⟨hb1, hb2⟩
      · left; exact List.mem_append_left _ hab
      · right; refine ⟨?_, hb2⟩
        intro hm
        rcases List.mem_append.mp hm with hm | hm
        · exact hb1 hm
        · simp at hm; exact hsub b hbm hm
    · simp only [hever]
      show ∀ a ∈ seqs s, a ∉ s.everRes ++ [x] → ∀ r ∈ s.everRes ++ [x], r < a
      intro a ha hna r hr
      have hna1 : a ∉ s.everRes := fun hm => hna (List.mem_append_left _ hm)
      have hax : a ≠ x := fun hm => hna (List.mem_append_right _ (by simp [hm]))
      rcases List.mem_append.mp hr with hr | hr
      · exact h7 a ha hna1 r hr
      · simp at hr; rw [hr]
        have hsplit := (List.take_append_drop s.resEv.length (seqs s))
        rw [← hsplit] at ha
        rcases List.mem_append.mp ha with ha | ha
        · exact absurd (h5 a ha) hna1
        · rw [hdrop] at ha
          rcases List.mem_cons.mp ha with ha | ha
          · exact absurd ha hax
          · rcases h6'.1 a ha with hx1 | ⟨_, hx2⟩
            · exact h7 a (List.mem_of_mem_drop ha) hna1 x hx1
            · exact hx2


/-! ### FifoOK under put / get / cancel -/

theorem restamp_seq (l : List Entry) (i n : Nat) : (restamp l i n).map (·.seq) = l.map (·.seq) := by
  unfold restamp
  rw [List.map_map]
  apply List.map_congr_left
  intro a _
  simp only [Function.comp]
  split <;> rfl

theorem mem_restamp {l : List Entry} {i n : Nat} {e : Entry} (h : e ∈ restamp l i n) :
    ∃ e' ∈ l, e'.seq = e.seq ∧ e'.item = e.item := by
  unfold restamp at h
  obtain ⟨e', he', rfl⟩ := List.mem_map.mp h
  refine ⟨e', he', ?_⟩
  split <;> simp

theorem addItem_fifo {s : PosStore} (x : Item) (h : FifoOK s) (hb : s.resEv.length ≤ s.items.length) :
    FifoOK (s.addItem x) := by
  obtain ⟨h1, h2, h3, h4, h5, h6, h7⟩ := h
  have hseq : seqs (s.addItem x) = seqs s ++ [s.putLog.length] := by
    unfold seqs addItem; simp [restamp_seq]
  have hk : s.resEv.length ≤ (seqs s).length := by unfold seqs; simpa using hb
  have hn : s.putLog.length ∉ s.everRes := fun hm => by have := h3 _ hm; omega
  constructor
  · rw [hseq]
    refine List.nodup_append.mpr ⟨h1, by simp, ?_⟩
    intro a ha b hb hab
    simp at hb; have := h2 a ha; omega
  · rw [hseq]; intro a ha
    simp only [addItem, List.length_append, List.length_cons, List.length_nil]
    rcases List.mem_append.mp ha with ha | ha
    · have := h2 a ha; omega
    · simp at ha; omega
  · intro r hr
    simp only [addItem, List.length_append, List.length_cons, List.length_nil]
    have := h3 r hr; simp [addItem] at hr; omega
  · intro e he
    simp only [addItem] at he ⊢
    rcases List.mem_append.mp he with he | he
    · obtain ⟨e', he', hs, hi⟩ := mem_restamp he
      have hlt := h2 e'.seq (by unfold seqs; exact List.mem_map.mpr ⟨e', he', rfl⟩)
      rw [← hs, ← hi, List.getElem?_append_left hlt]
      exact h4 e' he'
    · simp at he; subst he; simp
  · rw [hseq]
    show ∀ a ∈ (seqs s ++ [s.putLog.length]).take s.resEv.length, a ∈ s.everRes
    rw [List.take_append_of_le_length hk]
    exact h5
  · rw [hseq]
    show ((seqs s ++ [s.putLog.length]).drop s.resEv.length).Pairwise (Ahead s.everRes)
    rw [List.drop_append_of_le_length hk]
    refine List.pairwise_append.mpr ⟨h6, by simp, ?_⟩
    intro a ha b hb
    simp at hb; subst hb
    right; exact ⟨hn, h2 a (List.mem_of_mem_drop ha)⟩
  · rw [hseq]; intro a ha hna r hr
    simp only [addItem] at hna hr
    rcases List.mem_append.mp ha with ha | ha
    · exact h7 a ha hna r hr
    · simp at ha; subst ha; exact h3 r hr

theorem takeItem_fifo {s : PosStore} (i : Nat) (x : Item) (h : FifoOK s)
    (hi : i < s.resEv.length) (hb : s.resEv.length ≤ s.items.length) : FifoOK (s.takeItem i x) := by
  obtain ⟨h1, h2, h3, h4, h5, h6, h7⟩ := h
  have hseq : seqs (s.takeItem i x) = (seqs s).eraseIdx i := by
    unfold seqs takeItem; simp [map_eraseIdx']
  have hk : s.resEv.length ≤ (seqs s).length := by unfold seqs; simpa using hb
  have hlen : (s.resEv.eraseIdx i).length = s.resEv.length - 1 := by
    rw [List.length_eraseIdx_of_lt hi]
  have hsub : ∀ a ∈ (seqs s).eraseIdx i, a ∈ seqs s := fun a ha => (List.eraseIdx_sublist _ _).subset ha
  constructor
  · rw [hseq]; exact List.Sublist.nodup (List.eraseIdx_sublist _ _) h1
  · rw [hseq]; intro a ha; exact h2 a (hsub a ha)
  · exact h3
  · intro e he; exact h4 e ((List.eraseIdx_sublist _ _).subset he)
  · rw [hseq]
    show ∀ a ∈ ((seqs s).eraseIdx i).take (s.resEv.eraseIdx i).length, a ∈ s.everRes
    rw [hlen, take_eraseIdx_lt _ hi hk]
    intro a ha; exact h5 a ((List.eraseIdx_sublist _ _).subset ha)
  · rw [hseq]
    show (((seqs s).eraseIdx i).drop (s.resEv.eraseIdx i).length).Pairwise (Ahead s.everRes)
    rw [hlen, drop_eraseIdx_lt _ hi hk]; exact h6
  · rw [hseq]; intro a ha; exact h7 a (hsub a ha)

theorem releaseItem_fifo {s : PosStore} (i : Nat) (it : Entry) (h : FifoOK s)
    (hi : i < s.resEv.length) (hb : s.resEv.length ≤ s.items.length) (hit : s.items[i]? = some it) :
    FifoOK (s.releaseItem i it) := by
  obtain ⟨h1, h2, h3, h4, h5, h6, h7⟩ := h
  have hseq : seqs (s.releaseItem i it) = pyInsert ((seqs s).eraseIdx i) (s.resEv.length - 1) it.seq := by
    unfold seqs releaseItem; simp [map_pyInsert, map_eraseIdx']
  have hk : s.resEv.length ≤ (seqs s).length := by unfold seqs; simpa using hb
  have hlen : (s.resEv.eraseIdx i).length = s.resEv.length - 1 := by
    rw [List.length_eraseIdx_of_lt hi]
  have hsi : (seqs s)[i]? = some it.seq := by unfold seqs; simp [hit]
  have hperm : (seqs (s.releaseItem i it)).Perm (seqs s) := by
    rw [hseq]; exact (pyInsert_perm _ _ _).trans (perm_cons_eraseIdx hsi).symm
  have hpermI : (s.releaseItem i it).items.Perm s.items := by
    unfold releaseItem; exact (pyInsert_perm _ _ _).trans (perm_cons_eraseIdx hit).symm
  have hle : s.resEv.length - 1 ≤ ((seqs s).eraseIdx i).length := by
    rw [List.length_eraseIdx_of_lt (by omega)]; omega
  have hitres : it.seq ∈ s.everRes := by
    apply h5
    rw [List.mem_take_iff_getElem]
    refine ⟨i, by omega, ?_⟩
    have := List.getElem?_eq_some_iff.mp hsi
    obtain ⟨_, h⟩ := this; exact h
  constructor
  · exact hperm.nodup_iff.mpr h1
  · intro a ha; exact h2 a (hperm.mem_iff.mp ha)
  · exact h3
  · intro e he; exact h4 e (hpermI.mem_iff.mp he)
  · rw [hseq]
    show ∀ a ∈ (pyInsert ((seqs s).eraseIdx i) (s.resEv.length - 1) it.seq).take (s.resEv.eraseIdx i).length, a ∈ s.everRes
    rw [hlen, take_pyInsert _ _ _ hle, take_eraseIdx_lt _ hi hk]
    intro a ha; exact h5 a ((List.eraseIdx_sublist _ _).subset ha)
  · rw [hseq]
    show ((pyInsert ((seqs s).eraseIdx i) (s.resEv.length - 1) it.seq).drop (s.resEv.eraseIdx i).length).Pairwise (Ahead s.everRes)
    rw [hlen, drop_pyInsert _ _ _ hle, drop_eraseIdx_lt _ hi hk]
    refine List.pairwise_cons.mpr ⟨?_, h6⟩
    intro b _; left; exact hitres
  · intro a ha; exact h7 a (hperm.mem_iff.mp ha)


/-! ### StatOK and TimersOK -/

theorem stat_frame {s s' : PosStore} (h : StatOK s) (h0 : s'.cfg = s.cfg) (h1 : s'.items.length = s.items.length)
    (h2 : s'.wsum = s.wsum) (h3 : s'.lastLevel = s.lastLevel) (h4 : s'.lastChange = s.lastChange)
    (h5 : s'.now = s.now) (h6 : s'.area = s.area) : StatOK s' := by
  obtain ⟨a, b, c⟩ := h
  constructor <;> simp only [h0, h1, h2, h3, h4, h5, h6] <;> assumption

@[simp] theorem trigPut_area (s : PosStore) : s.trigPut.area = s.area := by unfold trigPut; frame
@[simp] theorem trigPut_wsum (s : PosStore) : s.trigPut.wsum = s.wsum := by unfold trigPut; frame
@[simp] theorem trigPut_lastLevel (s : PosStore) : s.trigPut.lastLevel = s.lastLevel := by unfold trigPut; frame
@[simp] theorem trigPut_lastChange (s : PosStore) : s.trigPut.lastChange = s.lastChange := by unfold trigPut; frame
@[simp] theorem trigGet_area (s : PosStore) : s.trigGet.area = s.area := by unfold trigGet; frame
@[simp] theorem trigGet_wsum (s : PosStore) : s.trigGet.wsum = s.wsum := by unfold trigGet; frame
@[simp] theorem trigGet_lastLevel (s : PosStore) : s.trigGet.lastLevel = s.lastLevel := by unfold trigGet; frame
@[simp] theorem trigGet_lastChange (s : PosStore) : s.trigGet.lastChange = s.lastChange := by unfold trigGet; frame
@[simp] theorem addTimer_area (s : PosStore) : s.addTimer.area = s.area := by unfold addTimer; frame
@[simp] theorem addTimer_wsum (s : PosStore) : s.addTimer.wsum = s.wsum := by unfold addTimer; frame
@[simp] theorem addTimer_lastLevel (s : PosStore) : s.addTimer.lastLevel = s.lastLevel := by unfold addTimer; frame
@[simp] theorem addTimer_lastChange (s : PosStore) : s.addTimer.lastChange = s.lastChange := by unfold addTimer; frame
@[simp] theorem addTimer_everRes (s : PosStore) : s.addTimer.everRes = s.everRes := by unfold addTimer; frame
@[simp] theorem updLevel_area (s : PosStore) : s.updLevel.area = s.area := by unfold updLevel; frame

theorem trigPut_stat {s : PosStore} (h : StatOK s) : StatOK s.trigPut :=
  stat_frame h (by simp) (by simp) (by simp) (by simp) (by simp) (by simp) (by simp)
theorem trigGet_stat {s : PosStore} (h : StatOK s) : StatOK s.trigGet :=
  stat_frame h (by simp) (by simp) (by simp) (by simp) (by simp) (by simp) (by simp)

/-- `_update_time_averaged_level` re-establishes the bookkeeping whatever the level was. -/
theorem updLevel_stat {s : PosStore} (hc : s.lastChange ≤ s.now)
    (hi : s.cfg.filter = false → s.wsum + s.lastLevel * (s.now - s.lastChange) = s.area) :
    StatOK s.updLevel := by
  unfold updLevel
  split
  · rename_i hf
    exact ⟨by simp [hf], hc, by simp [hf]⟩
  · rename_i hf
    have hf' : s.cfg.filter = false := by simpa using hf
    refine ⟨fun _ => rfl, Nat.le_refl _, fun _ => ?_⟩
    simp only [Nat.sub_self, Nat.mul_zero, Nat.add_zero]
    exact hi hf'

theorem setNow_stat {s : PosStore} {d : Nat} (h : StatOK s) (hd : s.now ≤ d) : StatOK (s.setNow d) := by
  obtain ⟨a, b, c⟩ := h
  refine ⟨a, by simp only [setNow]; omega, fun hf => ?_⟩
  simp only [setNow]
  have h1 := a hf; have h2 := c hf
  have : d - s.lastChange = (s.now - s.lastChange) + (d - s.now) := by omega
  rw [this, Nat.mul_add, ← h2, h1]; omega

theorem timers_frame {s s' : PosStore} (h : TimersOK s) (h0 : s'.cfg = s.cfg) (h1 : s'.timers = s.timers)
    (h2 : s'.now = s.now) : TimersOK s' := by
  obtain ⟨a, b, c⟩ := h
  constructor <;> simp only [h0, h1, h2] <;> assumption

theorem addTimer_timers {s : PosStore} (h : TimersOK s) : TimersOK s.addTimer := by
  obtain ⟨a, b, c⟩ := h
  unfold addTimer
  split
  · constructor
    · simp only
      refine List.pairwise_append.mpr ⟨a, by simp, ?_⟩
      intro x hx y hy; simp at hy; subst hy; exact c x hx
    · intro d hd; simp only at hd ⊢
      rcases List.mem_append.mp hd with hd | hd
      · exact b d hd
      · simp at hd; omega
    · intro d hd; simp only at hd ⊢
      rcases List.mem_append.mp hd with hd | hd
      · exact c d hd
      · simp at hd; omega
  · exact ⟨a, b, c⟩

/-! ### firing timers: clock monotone, statistics and timer queue preserved -/

theorem fireAll_now_le (ds : List Nat) (s : PosStore) (B : Nat) (hs : s.now ≤ B) (hd : ∀ d ∈ ds, d ≤ B) :
    (fireAll ds s).now ≤ B := by
  induction ds generalizing s with
  | nil => exact hs
  | cons d ds ih =>
    apply ih
    · simp [setNow]; exact hd d (List.mem_cons_self)
    · intro d' hd'; exact hd d' (List.mem_cons_of_mem _ hd')

theorem fireAll_now_ge (ds : List Nat) (s : PosStore) (hsorted : ds.Pairwise (· ≤ ·)) (hd : ∀ d ∈ ds, s.now ≤ d) :
    s.now ≤ (fireAll ds s).now := by
  induction ds generalizing s with
  | nil => exact Nat.le_refl _
  | cons d ds ih =>
    have hp := List.pairwise_cons.mp hsorted
    have h1 : s.now ≤ d := hd d (List.mem_cons_self)
    have := ih ((s.setNow d).trigGet) hp.2 (by intro d' hd'; simp [setNow]; exact hp.1 d' hd')
    simp [setNow] at this
    exact Nat.le_trans h1 this

theorem fireAll_stat (ds : List Nat) {s : PosStore} (h : StatOK s) (hsorted : ds.Pairwise (· ≤ ·))
    (hd : ∀ d ∈ ds, s.now ≤ d) : StatOK (fireAll ds s) := by
  induction ds generalizing s with
  | nil => exact h
  | cons d ds ih =>
    have hp := List.pairwise_cons.mp hsorted
    have h1 : s.now ≤ d := hd d (List.mem_cons_self)
    exact ih (trigGet_stat (setNow_stat h h1)) hp.2 (by intro d' hd'; simp [setNow]; exact hp.1 d' hd')

@[simp] theorem fireAll_timers (ds : List Nat) (s : PosStore) : (fireAll ds s).timers = s.timers := by
  induction ds generalizing s with
  | nil => rfl
  | cons d ds ih => rw [fireAll, ih]; simp [setNow]

@[simp] theorem fireAll_cfg (ds : List Nat) (s : PosStore) : (fireAll ds s).cfg = s.cfg := by
  induction ds generalizing s with
  | nil => rfl
  | cons d ds ih => rw [fireAll, ih]; simp [setNow]

end PosStore
end FsVerif
