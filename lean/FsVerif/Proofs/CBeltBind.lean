/-
Continuous conveyor store: every granted retrieval owns its own item; no lost wake-up on the retrieval side
(same statement and construction as Proofs/SlotBind.lean; the state machine's bookkeeping is covered by the frame `Fr`).
-/
import FsVerif.Proofs.BeltBind
import FsVerif.Proofs.CBeltCons
namespace FsVerif
namespace CBelt

def idk (e : CItem) : Nat := e.item.id

theorem removeItem_eq (l : List CItem) (x : Item) : removeItem l x = removeKey idk l x.id := rfl

structure Bd (s : CBelt) : Prop where
  ev : s.resEv.Perm s.getRes
  len : s.resEv.length = s.resItems.length
  le : s.resEv.length ≤ s.ready.length
  items : (s.resItems.map idk).Perm ((s.ready.take s.resEv.length).map idk)
  /-- no lost wake-up on the retrieval side -/
  wake : s.getQ ≠ [] → s.ready.length ≤ s.getRes.length

/-- the binding part alone (the wake-up condition is re-established by the trigger) -/
structure Bd0 (s : CBelt) : Prop where
  ev : s.resEv.Perm s.getRes
  len : s.resEv.length = s.resItems.length
  le : s.resEv.length ≤ s.ready.length
  items : (s.resItems.map idk).Perm ((s.ready.take s.resEv.length).map idk)

theorem Bd.to0 {s : CBelt} (h : Bd s) : Bd0 s := ⟨h.ev, h.len, h.le, h.items⟩

theorem Bd0.congr {s s' : CBelt} (h : Bd0 s) (e1 : s'.getRes = s.getRes) (e2 : s'.resEv = s.resEv)
    (e3 : s'.resItems = s.resItems) (e4 : s'.ready = s.ready) : Bd0 s' := by
  obtain ⟨a, b, c, d⟩ := h
  constructor <;> simp only [e1, e2, e3, e4] <;> assumption

theorem Bd.congr {s s' : CBelt} (h : Bd s) (e1 : s'.getRes = s.getRes) (e2 : s'.resEv = s.resEv)
    (e3 : s'.resItems = s.resItems) (e4 : s'.ready = s.ready) (e5 : s'.getQ = s.getQ) : Bd s' := by
  obtain ⟨a, b, c, d, w⟩ := h
  constructor <;> simp only [e1, e2, e3, e4, e5] <;> assumption

theorem trigPut_bind (s : CBelt) : s.trigPut.getRes = s.getRes ∧ s.trigPut.resEv = s.resEv ∧ s.trigPut.resItems = s.resItems ∧
    s.trigPut.ready = s.ready ∧ s.trigPut.getQ = s.getQ := by
  unfold CBelt.trigPut
  split
  · exact ⟨rfl, rfl, rfl, rfl, rfl⟩
  · split <;> exact ⟨rfl, rfl, rfl, rfl, rfl⟩

theorem Bd.trigPut {s : CBelt} (h : Bd s) : Bd s.trigPut := by
  obtain ⟨a, b, c, d, e⟩ := trigPut_bind s
  exact h.congr a b c d e

/-- `_trigger_reserve_get`: serves one waiting request when an unreserved item is at the exit.  `slack`: at most one more
    item is at the exit than the wake-up condition allows (an arrival, or a cancelled granted retrieval, happened). -/
theorem Bd0.trigGet {s : CBelt} (h : Bd0 s) (slack : s.getQ.tail ≠ [] → s.ready.length ≤ s.getRes.length + 1) : Bd s.trigGet := by
  unfold CBelt.trigGet
  split
  · rename_i hq
    exact ⟨h.ev, h.len, h.le, h.items, fun hne => absurd hq hne⟩
  · rename_i t q hq
    have hkl : s.resEv.length = s.getRes.length := h.ev.length_eq
    split
    · rename_i hlt
      have hk : s.resEv.length < s.ready.length := by rw [hkl]; exact hlt
      split
      · rename_i e he
        have he' : s.ready[s.resEv.length] = e := by
          rw [List.getElem?_eq_getElem hk] at he
          exact Option.some.inj he
        refine ⟨h.ev.append_right [t], ?_, ?_, ?_, ?_⟩
        · simp only [List.length_append, List.length_cons, List.length_nil]; rw [h.len]
        · simp only [List.length_append, List.length_cons, List.length_nil]; omega
        · simp only [List.length_append, List.length_cons, List.length_nil, List.map_append, List.map_cons, List.map_nil]
          rw [List.take_succ_eq_append_getElem hk, List.map_append, he']
          exact h.items.append_right _
        · intro hne
          simp only [List.length_append, List.length_cons, List.length_nil]
          have := slack (by rw [hq]; exact hne)
          omega
      · rename_i hn
        exfalso
        rw [List.getElem?_eq_none_iff] at hn
        omega
    · rename_i hge
      exact ⟨h.ev, h.len, h.le, h.items, fun _ => by omega⟩

theorem ne_nil_of_tail {α} {l : List α} (h : l.tail ≠ []) : l ≠ [] := by
  intro hl; rw [hl] at h; exact h rfl

theorem Bd.trigGet {s : CBelt} (h : Bd s) : Bd s.trigGet :=
  h.to0.trigGet (fun hne => Nat.le_succ_of_le (h.wake (ne_nil_of_tail hne)))

/-- the reserved item of retrieval slot `i` leaves `ready_items` (taken, or about to be re-inserted) -/
theorem Bd0.take {s s' : CBelt} (h : Bd0 s) (t : Tok) (e : CItem) (hi : s.resEv.idxOf t < s.resEv.length)
    (he : s.resItems[s.resEv.idxOf t]? = some e)
    (e1 : s'.getRes = s.getRes.erase t) (e2 : s'.resEv = s.resEv.eraseIdx (s.resEv.idxOf t))
    (e3 : s'.resItems = s.resItems.eraseIdx (s.resEv.idxOf t)) (e4 : s'.ready = removeItem s.ready e.item) : Bd0 s' := by
  have hem : e ∈ s.resItems := List.mem_of_getElem? he
  have hx : idk e ∈ (s.ready.take s.resEv.length).map idk := mem_take_of_perm idk h.items hem
  have hxr : idk e ∈ s.ready.map idk := by
    rcases List.mem_map.mp hx with ⟨a, ha, hk⟩
    exact List.mem_map.mpr ⟨a, List.mem_of_mem_take ha, hk⟩
  have hrl := removeKey_length idk s.ready (idk e) hxr
  have hl1 := PosStore.length_eraseIdx_lt hi
  have hl2 : (s.resItems.eraseIdx (s.resEv.idxOf t)).length + 1 = s.resItems.length :=
    PosStore.length_eraseIdx_lt (by rw [← h.len]; exact hi)
  have hle := h.le
  refine ⟨?_, ?_, ?_, ?_⟩
  · rw [e1, e2, ← List.erase_eq_eraseIdx_of_idxOf rfl]; exact h.ev.erase t
  · rw [e2, e3]; have := h.len; omega
  · rw [e2, e4, removeItem_eq]
    show _ ≤ (removeKey idk s.ready (idk e)).length
    omega
  · rw [e2, e3, e4, removeItem_eq]
    have hk : (s.resEv.eraseIdx (s.resEv.idxOf t)).length = s.resEv.length - 1 := by omega
    rw [hk]
    show List.Perm _ (((removeKey idk s.ready (idk e)).take (s.resEv.length - 1)).map idk)
    rw [take_removeKey idk s.ready (idk e) s.resEv.length hx]
    exact (eraseIdx_map_perm_erase idk s.resItems _ e he).trans (h.items.erase (idk e))


theorem Bd.take_get {s s' : CBelt} (h : Bd s) (t : Tok) (e : CItem) (hi : s.resEv.idxOf t < s.resEv.length)
    (he : s.resItems[s.resEv.idxOf t]? = some e) (htm : t ∈ s.getRes)
    (e1 : s'.getRes = s.getRes.erase t) (e2 : s'.resEv = s.resEv.eraseIdx (s.resEv.idxOf t))
    (e3 : s'.resItems = s.resItems.eraseIdx (s.resEv.idxOf t)) (e4 : s'.ready = removeItem s.ready e.item)
    (e5 : s'.getQ = s.getQ) : Bd s' := by
  have h0 := h.to0.take t e hi he e1 e2 e3 e4
  have hem : e ∈ s.resItems := List.mem_of_getElem? he
  have hx : idk e ∈ (s.ready.take s.resEv.length).map idk := mem_take_of_perm idk h.items hem
  have hxr : idk e ∈ s.ready.map idk := by
    rcases List.mem_map.mp hx with ⟨a, ha, hk⟩
    exact List.mem_map.mpr ⟨a, List.mem_of_mem_take ha, hk⟩
  have hrl := removeKey_length idk s.ready (idk e) hxr
  have hgl : (s.getRes.erase t).length + 1 = s.getRes.length := by
    rw [List.length_erase_of_mem htm]; have := List.length_pos_of_mem htm; omega
  refine ⟨h0.ev, h0.len, h0.le, h0.items, ?_⟩
  intro hne
  rw [e5] at hne
  have := h.wake hne
  rw [e4, e1, removeItem_eq]
  show (removeKey idk s.ready (idk e)).length ≤ _
  omega

/-- `reserve_get_cancel` of a granted retrieval: the item goes back right behind the reserved block; one more item than
    the wake-up condition allows may now be unreserved (the trigger that follows serves it) -/
theorem Bd.release {s s' : CBelt} (h : Bd s) (t : Tok) (e : CItem) (hi : s.resEv.idxOf t < s.resEv.length)
    (he : s.resItems[s.resEv.idxOf t]? = some e) (htm : t ∈ s.getRes)
    (e1 : s'.getRes = s.getRes.erase t) (e2 : s'.resEv = s.resEv.eraseIdx (s.resEv.idxOf t))
    (e3 : s'.resItems = s.resItems.eraseIdx (s.resEv.idxOf t))
    (e4 : s'.ready = pyInsert (removeItem s.ready e.item) (s.resEv.eraseIdx (s.resEv.idxOf t)).length e)
    (e5 : s'.getQ = s.getQ) : Bd0 s' ∧ (s'.getQ ≠ [] → s'.ready.length ≤ s'.getRes.length + 1) := by
  have h0 : Bd0 ({ s with getRes := s.getRes.erase t, resEv := s.resEv.eraseIdx (s.resEv.idxOf t), resItems := s.resItems.eraseIdx (s.resEv.idxOf t), ready := removeItem s.ready e.item } : CBelt) :=
    h.to0.take t e hi he rfl rfl rfl rfl
  have hem : e ∈ s.resItems := List.mem_of_getElem? he
  have hx : idk e ∈ (s.ready.take s.resEv.length).map idk := mem_take_of_perm idk h.items hem
  have hxr : idk e ∈ s.ready.map idk := by
    rcases List.mem_map.mp hx with ⟨a, ha, hk⟩
    exact List.mem_map.mpr ⟨a, List.mem_of_mem_take ha, hk⟩
  have hrl := removeKey_length idk s.ready (idk e) hxr
  have hgl : (s.getRes.erase t).length + 1 = s.getRes.length := by
    rw [List.length_erase_of_mem htm]; have := List.length_pos_of_mem htm; omega
  have hle0 : (s.resEv.eraseIdx (s.resEv.idxOf t)).length ≤ (removeItem s.ready e.item).length := h0.le
  have hlen : (pyInsert (removeItem s.ready e.item) (s.resEv.eraseIdx (s.resEv.idxOf t)).length e).length = (removeItem s.ready e.item).length + 1 := by
    simp only [pyInsert, List.length_append, List.length_take, List.length_cons, List.length_drop]
    omega
  refine ⟨⟨by rw [e1, e2]; exact h0.ev, by rw [e2, e3]; exact h0.len, ?_, ?_⟩, ?_⟩
  · rw [e2, e4, hlen]; omega
  · rw [e2, e3, e4, take_pyInsert' _ _ _ hle0]; exact h0.items
  · intro hne
    rw [e5] at hne
    have := h.wake hne
    rw [e4, e1, hlen, removeItem_eq]
    show (removeKey idk s.ready (idk e)).length + 1 ≤ _
    omega

theorem any_of_mem {l : List CItem} {x : Nat} (h : x ∈ l.map idk) : l.any (fun r => r.item.id == x) = true := by
  rcases List.mem_map.mp h with ⟨a, ha, hk⟩
  exact List.any_eq_true.mpr ⟨a, ha, by simpa [idk] using hk⟩

theorem Bd.cancelPut {s : CBelt} (h : Bd s) (tid : Nat) : Bd (s.cancelPut tid).1 := by
  unfold CBelt.cancelPut
  split
  · exact Bd.trigPut (h.congr rfl rfl rfl rfl rfl)
  · split
    · exact Bd.trigPut (h.congr rfl rfl rfl rfl rfl)
    · exact h

theorem findTok_mem {l : List Tok} {tid : Nat} {t : Tok} (h : findTok l tid = some t) : t ∈ l := by
  unfold findTok at h
  exact List.mem_of_find?_eq_some h

theorem Bd.cancelGet {s : CBelt} (h : Bd s) (tid : Nat) : Bd (s.cancelGet tid).1 := by
  unfold CBelt.cancelGet
  split
  · rename_i t ht
    have h0 : Bd0 ({ s with getQ := s.getQ.erase t } : CBelt) := h.to0.congr rfl rfl rfl rfl
    refine h0.trigGet ?_
    intro hne
    have hq : s.getQ ≠ [] := by
      intro hq; rw [hq] at hne; exact hne rfl
    exact Nat.le_succ_of_le (h.wake hq)
  · split
    · rename_i t ht
      have htm : t ∈ s.getRes := findTok_mem ht
      have htr : t ∈ s.resEv := h.ev.mem_iff.mpr htm
      have hidx : s.resEv.idxOf t < s.resEv.length := List.idxOf_lt_length_of_mem htr
      split
      · exfalso; omega
      · split
        · rename_i hn
          exfalso
          rw [List.getElem?_eq_none_iff] at hn
          have := h.len; omega
        · rename_i e he
          have hem : e ∈ s.resItems := List.mem_of_getElem? he
          have hx : idk e ∈ (s.ready.take s.resEv.length).map idk := mem_take_of_perm idk h.items hem
          have hxr : idk e ∈ s.ready.map idk := by
            rcases List.mem_map.mp hx with ⟨a, ha, hk⟩
            exact List.mem_map.mpr ⟨a, List.mem_of_mem_take ha, hk⟩
          simp only
          split
          · obtain ⟨h1, hs⟩ := h.release (s' := { s with getRes := s.getRes.erase t, resEv := s.resEv.eraseIdx (s.resEv.idxOf t), resItems := s.resItems.eraseIdx (s.resEv.idxOf t), ready := pyInsert (removeItem s.ready e.item) (s.resEv.eraseIdx (s.resEv.idxOf t)).length e }) t e hidx he htm rfl rfl rfl rfl rfl
            exact h1.trigGet (fun hne => hs (ne_nil_of_tail hne))
          · rename_i hany
            exfalso
            exact hany (any_of_mem hxr)
    · exact h


theorem Bd.fr {s s' : CBelt} (h : Bd s) (f : Fr s s') : Bd s' := h.congr f.getRes f.bind.1 f.bind.2.1 f.ready f.bind.2.2.1

/-- nothing the binding reads has changed -/
structure GF (s s' : CBelt) : Prop where
  getRes : s'.getRes = s.getRes
  resEv : s'.resEv = s.resEv
  resItems : s'.resItems = s.resItems
  ready : s'.ready = s.ready
  getQ : s'.getQ = s.getQ

theorem Bd.gf {s s' : CBelt} (h : Bd s) (f : GF s s') : Bd s' := h.congr f.getRes f.resEv f.resItems f.ready f.getQ

theorem Bd.get {s : CBelt} (h : Bd s) (p tid : Nat) : Bd (s.get p tid).1 := by
  unfold CBelt.get
  split
  · exact h
  · split
    · exact h
    · rename_i t ht
      have htm : t ∈ s.getRes := List.mem_of_find?_eq_some ht
      have htr : t ∈ s.resEv := h.ev.mem_iff.mpr htm
      have hidx : s.resEv.idxOf t < s.resEv.length := List.idxOf_lt_length_of_mem htr
      split
      · exfalso; omega
      · split
        · rename_i hn
          exfalso
          rw [List.getElem?_eq_none_iff] at hn
          have := h.len; omega
        · rename_i e he
          have hem : e ∈ s.resItems := List.mem_of_getElem? he
          have hx : idk e ∈ (s.ready.take s.resEv.length).map idk := mem_take_of_perm idk h.items hem
          have hxr : idk e ∈ s.ready.map idk := by
            rcases List.mem_map.mp hx with ⟨a, ha, hk⟩
            exact List.mem_map.mpr ⟨a, List.mem_of_mem_take ha, hk⟩
          simp only
          split
          · have hb := h.take_get (s' := { s with getRes := s.getRes.erase t, resEv := s.resEv.eraseIdx (s.resEv.idxOf t), resItems := s.resItems.eraseIdx (s.resEv.idxOf t), ready := removeItem s.ready e.item, gotLog := s.gotLog ++ [e.item] }) t e hidx he htm rfl rfl rfl rfl rfl
            have hb2 : Bd (CBelt.trigPut (CBelt.updLevel { s with getRes := s.getRes.erase t, resEv := s.resEv.eraseIdx (s.resEv.idxOf t), resItems := s.resItems.eraseIdx (s.resEv.idxOf t), ready := removeItem s.ready e.item, gotLog := s.gotLog ++ [e.item] })) := by
              refine Bd.trigPut ?_
              exact hb.congr rfl rfl rfl rfl rfl
            split
            · exact hb2
            · exact hb2.congr rfl rfl rfl rfl rfl
          · rename_i hany
            exfalso
            exact hany (any_of_mem hxr)


/-- a `get` with a granted retrieval of the caller's own is served: it returns the item bound to that reservation, and that
    item was waiting at the exit -/
theorem Bd.get_accept {s : CBelt} (h : Bd s) (p tid : Nat) (hex : ∃ t ∈ s.getRes, t.id = tid ∧ t.proc = p) :
    ∃ e ∈ s.resItems, (s.get p tid).2 = .item e.item ∧ s.ready.any (fun r => r.item.id == e.item.id) = true := by
  obtain ⟨t0, ht0, hid, hpr⟩ := hex
  unfold CBelt.get
  have hne : s.getRes.isEmpty = false := by
    cases hq : s.getRes with
    | nil => rw [hq] at ht0; cases ht0
    | cons a b => rfl
  simp only [hne, Bool.false_eq_true, ↓reduceIte]
  split
  · rename_i hnone
    exfalso
    have := List.find?_eq_none.mp hnone t0 ht0
    simp [hid, hpr] at this
  · rename_i t ht
    have htm : t ∈ s.getRes := List.mem_of_find?_eq_some ht
    have htr : t ∈ s.resEv := h.ev.mem_iff.mpr htm
    have hidx : s.resEv.idxOf t < s.resEv.length := List.idxOf_lt_length_of_mem htr
    split
    · exfalso; omega
    · split
      · rename_i hn
        exfalso
        rw [List.getElem?_eq_none_iff] at hn
        have := h.len; omega
      · rename_i e he
        have hem : e ∈ s.resItems := List.mem_of_getElem? he
        have hx : idk e ∈ (s.ready.take s.resEv.length).map idk := mem_take_of_perm idk h.items hem
        have hxr : idk e ∈ s.ready.map idk := by
          rcases List.mem_map.mp hx with ⟨a, ha, hk⟩
          exact List.mem_map.mpr ⟨a, List.mem_of_mem_take ha, hk⟩
        have hany := any_of_mem hxr
        split
        · refine ⟨e, hem, ?_, hany⟩
          split <;> rfl
        · rename_i hno; exact absurd hany hno

/-- `reserve_get_cancel` of a waiting or granted retrieval is accepted -/
theorem Bd.cancelGet_accept {s : CBelt} (h : Bd s) (tid : Nat) (hex : ∃ t, t ∈ s.getQ ++ s.getRes ∧ t.id = tid) :
    (s.cancelGet tid).2 = .ok := by
  obtain ⟨t0, ht0, hid⟩ := hex
  unfold CBelt.cancelGet
  split
  · rfl
  · rename_i hq
    split
    · rename_i t ht
      have htm : t ∈ s.getRes := findTok_mem ht
      have htr : t ∈ s.resEv := h.ev.mem_iff.mpr htm
      have hidx : s.resEv.idxOf t < s.resEv.length := List.idxOf_lt_length_of_mem htr
      split
      · exfalso; omega
      · split
        · rename_i hn
          exfalso
          rw [List.getElem?_eq_none_iff] at hn
          have := h.len; omega
        · rename_i e he
          have hem : e ∈ s.resItems := List.mem_of_getElem? he
          have hx : idk e ∈ (s.ready.take s.resEv.length).map idk := mem_take_of_perm idk h.items hem
          have hxr : idk e ∈ s.ready.map idk := by
            rcases List.mem_map.mp hx with ⟨a, ha, hk⟩
            exact List.mem_map.mpr ⟨a, List.mem_of_mem_take ha, hk⟩
          have hany := any_of_mem hxr
          simp only
          split
          · rfl
          · rename_i hno; exact absurd hany hno
    · rename_i hr
      exfalso
      unfold findTok at hq hr
      rcases List.mem_append.mp ht0 with hm | hm
      · have := List.find?_eq_none.mp hq t0 hm; simp [hid] at this
      · have := List.find?_eq_none.mp hr t0 hm; simp [hid] at this

theorem Bd.put {s : CBelt} (h : Bd s) (p tid : Nat) (x : Item) : Bd (s.put p tid x).1 := by
  unfold CBelt.put
  split
  · exact h
  · split
    · exact h
    · simp only
      split
      · have h5 : ∀ s4 : CBelt, GF s s4 → Bd s4.trigGet := fun s4 f => Bd.trigGet (h.gf f)
        split
        · split
          · split
            · refine Bd.fr ?_ (Fr.handleNew _ _)
              exact h5 _ ⟨rfl, rfl, rfl, rfl, rfl⟩
            · exact h5 _ ⟨rfl, rfl, rfl, rfl, rfl⟩
          · split
            · refine Bd.fr ?_ (Fr.handleNew _ _)
              refine Bd.gf (s := CBelt.trigGet _) ?_ ⟨rfl, rfl, rfl, rfl, rfl⟩
              exact h5 _ ⟨rfl, rfl, rfl, rfl, rfl⟩
            · refine Bd.gf (s := CBelt.trigGet _) ?_ ⟨rfl, rfl, rfl, rfl, rfl⟩
              exact h5 _ ⟨rfl, rfl, rfl, rfl, rfl⟩
        · split
          · split
            · refine Bd.fr ?_ (Fr.handleNew _ _)
              exact h5 _ ⟨rfl, rfl, rfl, rfl, rfl⟩
            · exact h5 _ ⟨rfl, rfl, rfl, rfl, rfl⟩
          · split
            · refine Bd.fr ?_ (Fr.handleNew _ _)
              refine Bd.gf (s := CBelt.trigGet _) ?_ ⟨rfl, rfl, rfl, rfl, rfl⟩
              exact h5 _ ⟨rfl, rfl, rfl, rfl, rfl⟩
            · refine Bd.gf (s := CBelt.trigGet _) ?_ ⟨rfl, rfl, rfl, rfl, rfl⟩
              exact h5 _ ⟨rfl, rfl, rfl, rfl, rfl⟩
      · exact h.congr rfl rfl rfl rfl rfl

theorem Bd.arrive {s : CBelt} (h : Bd s) (p : MProc) : Bd (s.arrive p) := by
  unfold CBelt.arrive
  split
  · exact h.congr rfl rfl rfl rfl rfl
  · rename_i e _
    simp only
    split
    · have h0 : ∀ s2 : CBelt, (s2.getRes = s.getRes ∧ s2.resEv = s.resEv ∧ s2.resItems = s.resItems ∧ s2.ready = s.ready ++ [{ e with readyEntry := s.now }] ∧ s2.getQ = s.getQ) → Bd s2.trigGet := by
        intro s2 ⟨e1, e2, e3, e4, e5⟩
        have h0 : Bd0 s2 := by
          refine ⟨by rw [e1, e2]; exact h.ev, by rw [e2, e3]; exact h.len, ?_, ?_⟩
          · rw [e2, e4]; have := h.le; simp only [List.length_append, List.length_cons, List.length_nil]; omega
          · rw [e2, e3, e4, List.take_append_of_le_length h.le]; exact h.items
        refine h0.trigGet ?_
        intro hne
        rw [e5] at hne
        have := h.wake (ne_nil_of_tail hne)
        rw [e4, e1]
        simp only [List.length_append, List.length_cons, List.length_nil]; omega
      split
      · refine Bd.gf (s := CBelt.trigPut _) ?_ ⟨rfl, rfl, rfl, rfl, rfl⟩
        refine Bd.trigPut ?_
        exact h0 _ ⟨rfl, rfl, rfl, rfl, rfl⟩
      · refine Bd.gf (s := CBelt.trigPut _) ?_ ⟨rfl, rfl, rfl, rfl, rfl⟩
        refine Bd.trigPut ?_
        exact h0 _ ⟨rfl, rfl, rfl, rfl, rfl⟩
    · exact h.congr rfl rfl rfl rfl rfl

theorem Bd.startPhase {s : CBelt} (h : Bd s) (p : MProc) (ph rem : Nat) : Bd (s.startPhase p ph rem) := by
  unfold CBelt.startPhase
  split
  · exact h.congr rfl rfl rfl rfl rfl
  · split
    · simp only
      split
      · exact h.congr rfl rfl rfl rfl rfl
      · exact h.arrive p
    · exact h.arrive p

theorem Bd.initM {s : CBelt} (h : Bd s) (q : Nat) : Bd (s.initM q) := by
  unfold CBelt.initM
  split
  · exact h
  · refine Bd.startPhase ?_ _ _ _
    exact h.congr rfl rfl rfl rfl rfl

theorem Bd.onTimeout {s : CBelt} (h : Bd s) (u : Nat) : Bd (s.onTimeout u) := by
  unfold CBelt.onTimeout
  split
  · split
    · refine Bd.startPhase ?_ _ _ _
      exact h.congr rfl rfl rfl rfl rfl
    · exact h.startPhase _ _ _
  · split
    · simp only
      refine Bd.congr (s := CBelt.interruptItem _ _) ?_ rfl rfl rfl rfl rfl
      refine Bd.fr ?_ (Fr.interruptItem _ _)
      exact h.congr rfl rfl rfl rfl rfl
    · exact h

theorem Bd.onInterrupt {s : CBelt} (h : Bd s) (r : PRef) : Bd (s.onInterrupt r) := by
  unfold CBelt.onInterrupt
  cases r with
  | delayed d =>
    simp only
    split
    · exact h
    · split
      · exact h
      · exact h.congr rfl rfl rfl rfl rfl
  | move q =>
    simp only
    split
    · exact h
    · split
      · exact h
      · exact h.congr rfl rfl rfl rfl rfl
      · exact h.congr rfl rfl rfl rfl rfl

theorem Bd.onResume {s : CBelt} (h : Bd s) (g : Nat) : Bd (s.onResume g) := by
  unfold CBelt.onResume
  generalize s.waitOrder = l
  induction l generalizing s with
  | nil => exact h
  | cons q qs ih =>
    simp only [List.foldl_cons]
    apply ih
    split
    · exact h
    · split
      · split
        · refine Bd.startPhase ?_ _ _ _
          exact h.congr rfl rfl rfl rfl rfl
        · exact h
      · exact h

theorem Bd.handle {s : CBelt} (h : Bd s) (k : CKind) : Bd (s.handle k) := by
  unfold CBelt.handle
  cases k with
  | initM q => exact h.initM q
  | initD d =>
    simp only
    split
    · exact h
    · exact h.congr rfl rfl rfl rfl rfl
  | tmo u => exact h.onTimeout u
  | shot w g => exact h.fr (Fr.onShot s w g)
  | re g => exact h.onResume g
  | p1e => exact h.trigPut
  | cond u =>
    simp only
    split
    · split
      · exact h.fr (Fr.bWake s)
      · exact h
    · exact h
  | intr r => exact h.onInterrupt r

theorem Bd.reserveGet {s : CBelt} (h : Bd s) (p : Nat) : Bd (s.reserveGet p).1 := by
  unfold CBelt.reserveGet
  simp only
  have h0 : Bd0 ({ s with nextTid := s.nextTid + 1, getQ := s.getQ ++ [({ id := s.nextTid, proc := p } : Tok)] } : CBelt) := h.to0.congr rfl rfl rfl rfl
  refine h0.trigGet ?_
  intro hne
  show s.ready.length ≤ s.getRes.length + 1
  have hq : s.getQ ≠ [] := by
    intro hq
    apply hne
    show (s.getQ ++ [_]).tail = []
    rw [hq]; rfl
  exact Nat.le_succ_of_le (h.wake hq)

theorem Bd.step {s : CBelt} (h : Bd s) (op : Op) : Bd (s.step op).1 := by
  unfold CBelt.step
  have h' : Bd { s with fired := [], newReady := [] } := h.congr rfl rfl rfl rfl rfl
  cases op with
  | reservePut p => exact Bd.trigPut (h'.congr rfl rfl rfl rfl rfl)
  | reserveGet p => exact h'.reserveGet p
  | put p t x => exact h'.put p t x
  | get p t => exact h'.get p t
  | cancelPut t => exact h'.cancelPut t
  | cancelGet t => exact h'.cancelGet t
  | adv dt =>
    simp only [CBelt.adv]
    split
    · split <;> exact h'.congr rfl rfl rfl rfl rfl
    · exact h'.congr rfl rfl rfl rfl rfl
  | ev =>
    simp only [CBelt.ev]
    split
    · exact h'
    · refine Bd.handle ?_ _
      exact h'.congr rfl rfl rfl rfl rfl
  | final => exact h'.congr rfl rfl rfl rfl rfl

theorem init_bd (cfg : CCfg) : Bd (init cfg) :=
  ⟨List.Perm.refl _, rfl, Nat.le_refl _, List.Perm.refl _, fun h => absurd rfl h⟩

theorem run_bd (ops : List Op) : ∀ (s : CBelt), Bd s → Bd (s.run ops) := by
  induction ops with
  | nil => intro s h; exact h
  | cons op ops ih => intro s h; exact ih _ (h.step op)

end CBelt
end FsVerif
