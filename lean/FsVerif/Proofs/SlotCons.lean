/-
Slotted-conveyor model: conservation.  At every reachable state the identities of the items that were taken out, together
with those still moving or waiting at the exit, are — as a multiset — exactly the identities of the items ever put
(C02 for slotted_belt_store.py; the conveyor half of the factory-wide identity C03).  The only branch of the model that would
lose an item is the overflow guard of `move_to_ready_items` (`arrive`), which the capacity invariant `Room` proves dead.
-/
import FsVerif.Proofs.SlotBelt3
import FsVerif.Proofs.PosInv
namespace FsVerif
namespace SlotBelt

def ids (s : SlotBelt) : List Nat := s.gotLog.map (·.id) ++ (s.items ++ s.ready).map (·.item.id)

/-- got ∪ moving ∪ at the exit = put, as multisets of item identities -/
def Cons (s : SlotBelt) : Prop := (ids s).Perm (s.entered.map (·.item.id))

theorem Cons.congr {s s' : SlotBelt} (h : Cons s) (e1 : s'.items = s.items) (e2 : s'.ready = s.ready) (e3 : s'.gotLog = s.gotLog)
    (e4 : s'.entered = s.entered) : Cons s' := by
  unfold Cons ids at *; rw [e1, e2, e3, e4]; exact h

theorem trigPut_content (s : SlotBelt) : s.trigPut.items = s.items ∧ s.trigPut.ready = s.ready ∧ s.trigPut.gotLog = s.gotLog ∧ s.trigPut.entered = s.entered := by
  unfold trigPut
  split
  · exact ⟨rfl, rfl, rfl, rfl⟩
  · split <;> exact ⟨rfl, rfl, rfl, rfl⟩

theorem trigGet_content (s : SlotBelt) : s.trigGet.items = s.items ∧ s.trigGet.ready = s.ready ∧ s.trigGet.gotLog = s.gotLog ∧ s.trigGet.entered = s.entered := by
  unfold trigGet
  split
  · exact ⟨rfl, rfl, rfl, rfl⟩
  · split
    · split <;> exact ⟨rfl, rfl, rfl, rfl⟩
    · exact ⟨rfl, rfl, rfl, rfl⟩

theorem Cons.trigPut {s : SlotBelt} (h : Cons s) : Cons s.trigPut := by
  obtain ⟨a, b, c, d⟩ := trigPut_content s; exact h.congr a b c d

theorem Cons.trigGet {s : SlotBelt} (h : Cons s) : Cons s.trigGet := by
  obtain ⟨a, b, c, d⟩ := trigGet_content s; exact h.congr a b c d

/-- removing the first entry with a given identity: what is left plus that identity is what was there -/
theorem removeItem_ids (l : List SEntry) (x : Item) (h : l.any (fun r => r.item.id == x.id) = true) :
    (l.map (·.item.id)).Perm (x.id :: (removeItem l x).map (·.item.id)) := by
  unfold removeItem
  split
  · rename_i i hi
    obtain ⟨hlt, hp⟩ : ∃ hlt : i < l.length, (l[i].item.id == x.id) = true := by
      have := List.findIdx?_eq_some_iff_getElem.mp hi
      exact ⟨this.1, this.2.1⟩
    have hget : l[i]? = some l[i] := List.getElem?_eq_getElem hlt
    have hperm := (PosStore.perm_cons_eraseIdx hget).map (·.item.id)
    have hid : l[i].item.id = x.id := by simpa using hp
    simpa [hid] using hperm
  · rename_i hn
    exfalso
    rw [List.findIdx?_eq_none_iff] at hn
    obtain ⟨r, hr, hrid⟩ := List.any_eq_true.mp h
    have := hn r hr
    simp [hrid] at this

theorem Cons.put {s : SlotBelt} (h : Cons s) (p tid : Nat) (x : Item) : Cons (s.put p tid x).1 := by
  unfold SlotBelt.put
  split
  · exact h
  · split
    · exact h
    · simp only
      split
      · refine Cons.trigGet ?_
        unfold Cons ids at *
        simp only [sched, updLevel, List.map_append, List.map_cons, List.map_nil]
        have h1 : (s.gotLog.map (·.id) ++ (s.items.map (·.item.id) ++ [x.id] ++ s.ready.map (·.item.id))).Perm
            ((s.gotLog.map (·.id) ++ (s.items.map (·.item.id) ++ s.ready.map (·.item.id))) ++ [x.id]) := by
          simp only [List.append_assoc]
          refine List.Perm.append_left _ (List.Perm.append_left _ ?_)
          exact (List.perm_append_comm (l₁ := [x.id]) (l₂ := s.ready.map (·.item.id)))
        refine h1.trans ?_
        have h2 := h
        simp only [List.map_append] at h2
        exact h2.append_right [x.id]
      · exact h.congr rfl rfl rfl rfl

theorem Cons.get {s : SlotBelt} (h : Cons s) (p tid : Nat) : Cons (s.get p tid).1 := by
  unfold SlotBelt.get
  split
  · exact h
  · split
    · exact h
    · split
      · exact h
      · split
        · exact h.congr rfl rfl rfl rfl
        · rename_i e _
          simp only
          split
          · rename_i hany
            refine Cons.trigPut ?_
            unfold Cons ids at *
            simp only [updLevel, List.map_append, List.map_cons, List.map_nil]
            have hr := removeItem_ids s.ready e.item hany
            simp only [List.map_append] at h
            refine List.Perm.trans ?_ h
            simp only [List.append_assoc]
            refine List.Perm.append_left _ ?_
            -- [e.id] ++ (items ++ removeItem ready) ~ items ++ ready
            have h3 : (e.item.id :: (s.items.map (·.item.id) ++ (removeItem s.ready e.item).map (·.item.id))).Perm
                (s.items.map (·.item.id) ++ s.ready.map (·.item.id)) := by
              have : (s.items.map (·.item.id) ++ s.ready.map (·.item.id)).Perm
                  (s.items.map (·.item.id) ++ (e.item.id :: (removeItem s.ready e.item).map (·.item.id))) := List.Perm.append_left _ hr
              exact (this.trans List.perm_middle).symm
            simpa using h3
          · exact h.congr rfl rfl rfl rfl

theorem Cons.cancelPut {s : SlotBelt} (h : Cons s) (tid : Nat) : Cons (s.cancelPut tid).1 := by
  unfold SlotBelt.cancelPut
  split
  · exact Cons.trigPut (h.congr rfl rfl rfl rfl)
  · split
    · exact Cons.trigPut (h.congr rfl rfl rfl rfl)
    · exact h

theorem Cons.cancelGet {s : SlotBelt} (h : Cons s) (tid : Nat) : Cons (s.cancelGet tid).1 := by
  unfold SlotBelt.cancelGet
  split
  · exact Cons.trigGet (h.congr rfl rfl rfl rfl)
  · split
    · split
      · exact h.congr rfl rfl rfl rfl
      · split
        · exact h.congr rfl rfl rfl rfl
        · rename_i e _
          simp only
          split
          · rename_i hany
            refine Cons.trigGet ?_
            unfold Cons ids at *
            simp only [List.map_append] at h ⊢
            refine List.Perm.trans ?_ h
            refine List.Perm.append_left _ (List.Perm.append_left _ ?_)
            have hr := removeItem_ids s.ready e.item hany
            have hp : ∀ k : Nat, ((pyInsert (removeItem s.ready e.item) k e).map (·.item.id)).Perm (s.ready.map (·.item.id)) := by
              intro k
              exact ((pyInsert_perm (removeItem s.ready e.item) k e).map (·.item.id)).trans (by simpa using hr.symm)
            exact hp _
          · exact h.congr rfl rfl rfl rfl
    · exact h

theorem Cons.arrive {s : SlotBelt} (h : Cons s) (hr : Room s) (q : Nat) : Cons (s.arrive q) := by
  unfold SlotBelt.arrive
  split
  · exact h.congr rfl rfl rfl rfl
  · rename_i e he
    have hmem : e ∈ s.items := List.mem_of_find?_eq_some he
    simp only
    split
    · refine Cons.trigPut (Cons.trigGet ?_)
      unfold Cons ids at *
      simp only [List.map_append, List.map_cons, List.map_nil] at h ⊢
      refine List.Perm.trans ?_ h
      refine List.Perm.append_left _ ?_
      have hp : (s.items.map (·.item.id)).Perm (e.item.id :: (s.items.erase e).map (·.item.id)) := (List.perm_cons_erase hmem).map (·.item.id)
      -- (erase ++ (ready ++ [e])) ~ items ++ ready
      have h1 : ((s.items.erase e).map (·.item.id) ++ (s.ready.map (·.item.id) ++ [e.item.id])).Perm
          (e.item.id :: ((s.items.erase e).map (·.item.id) ++ s.ready.map (·.item.id))) := PosStore.perm_move _ _ _
      refine h1.trans ?_
      have h2 : (e.item.id :: ((s.items.erase e).map (·.item.id) ++ s.ready.map (·.item.id))).Perm
          (s.items.map (·.item.id) ++ s.ready.map (·.item.id)) := by
        have := hp.symm.append_right (s.ready.map (·.item.id))
        simpa using this
      exact h2
    · rename_i hfull
      exfalso
      have := hr.room
      have hlen : (s.items.erase e).length = s.items.length - 1 := List.length_erase_of_mem hmem
      have hpos : 0 < s.items.length := List.length_pos_of_mem hmem
      simp only [level] at this
      omega

theorem Cons.sched {s : SlotBelt} (h : Cons s) (t : Nat) (u : Bool) (k : SKind) : Cons (s.sched t u k) := h.congr rfl rfl rfl rfl

theorem Cons.handle {s : SlotBelt} (h : Cons s) (hr : Room s) (k : SKind) : Cons (s.handle k) := by
  unfold SlotBelt.handle
  cases k with
  | init q =>
    simp only
    split
    · exact h.sched _ _ _
    · split
      · exact h.sched _ _ _
      · exact h.arrive hr q
  | ph1 q =>
    simp only
    split
    · exact (h.sched _ _ _).sched _ _ _
    · exact Cons.arrive (h.sched _ _ _) (hr.congr rfl rfl rfl rfl) q
  | retrig => exact h.trigPut
  | ph2 q => exact h.arrive hr q

theorem Cons.step {s : SlotBelt} (h : Cons s) (hr : Room s) (op : Op) : Cons (s.step op).1 := by
  unfold SlotBelt.step
  have h' : Cons { s with fired := [], newReady := [] } := h.congr rfl rfl rfl rfl
  have hr' : Room { s with fired := [], newReady := [] } := hr.congr rfl rfl rfl rfl
  cases op with
  | reservePut p => exact Cons.trigPut (h'.congr rfl rfl rfl rfl)
  | reserveGet p => exact Cons.trigGet (h'.congr rfl rfl rfl rfl)
  | reservePutP p pr => exact Cons.trigPut (h'.congr rfl rfl rfl rfl)
  | reserveGetP p pr => exact Cons.trigGet (h'.congr rfl rfl rfl rfl)
  | put p t x => exact h'.put p t x
  | get p t => exact h'.get p t
  | cancelPut t => exact h'.cancelPut t
  | cancelGet t => exact h'.cancelGet t
  | adv dt =>
    simp only [SlotBelt.adv]
    split
    · split <;> exact h'.congr rfl rfl rfl rfl
    · exact h'.congr rfl rfl rfl rfl
  | ev =>
    simp only [SlotBelt.ev]
    split
    · exact h'
    · refine Cons.handle ?_ ?_ _
      · exact h'.congr rfl rfl rfl rfl
      · exact hr'.congr rfl rfl rfl rfl
  | final => exact h'.congr rfl rfl rfl rfl

theorem init_cons (cfg : SlotCfg) : Cons (init cfg) := by
  unfold Cons ids init; simp

theorem run_cons (ops : List Op) : ∀ (s : SlotBelt), Inv s → Cons s → Cons (s.run ops) := by
  induction ops with
  | nil => intro s _ h; exact h
  | cons op ops ih => intro s hi h; exact ih _ (hi.step op) (h.step hi.room op)

end SlotBelt
end FsVerif
