/-
List lemmas for the binding of granted retrievals on the two conveyor stores.  The reserved items are, as a multiset of
identities, the first `k` entries of `ready_items` (k = number of granted retrievals).  No uniqueness of identities is
assumed: `list.remove` is modelled through the identity key and may hit an equal-keyed entry further in front.
-/
import FsVerif.Proofs.PosInv
import FsVerif.Proofs.Bind
namespace FsVerif

/-- Python `list.remove` through a key -/
def removeKey {α} (key : α → Nat) (l : List α) (x : Nat) : List α :=
  match l.findIdx? (fun e => key e == x) with
  | some i => l.eraseIdx i
  | none => l

theorem removeKey_cons_eq {α} (key : α → Nat) (a : α) (l : List α) (x : Nat) (h : key a = x) :
    removeKey key (a :: l) x = l := by
  simp [removeKey, List.findIdx?_cons, h]

theorem removeKey_cons_ne {α} (key : α → Nat) (a : α) (l : List α) (x : Nat) (h : key a ≠ x) :
    removeKey key (a :: l) x = a :: removeKey key l x := by
  simp only [removeKey, List.findIdx?_cons, beq_iff_eq, h, ite_false]
  cases l.findIdx? (fun e => key e == x) <;> simp

/-- taking out (through the key) an identity that occurs among the first `k` entries: the first `k-1` entries afterwards
    are the first `k` entries before, minus one occurrence of that identity -/
theorem take_removeKey {α} (key : α → Nat) (l : List α) (x k : Nat) (hx : x ∈ (l.take k).map key) :
    ((removeKey key l x).take (k - 1)).map key = ((l.take k).map key).erase x := by
  induction l generalizing k with
  | nil => simp at hx
  | cons a as ih =>
    cases k with
    | zero => simp at hx
    | succ k' =>
      by_cases ha : key a = x
      · rw [removeKey_cons_eq key a as x ha]
        simp [List.take_succ_cons, ha]
      · rw [removeKey_cons_ne key a as x ha]
        have hx' : x ∈ (as.take k').map key := by
          simp only [List.take_succ_cons, List.map_cons, List.mem_cons] at hx
          rcases hx with h | h
          · exact absurd h.symm ha
          · exact h
        cases k' with
        | zero => simp at hx'
        | succ k'' =>
          have := ih (k'' + 1) hx'
          simp only [Nat.add_sub_cancel] at this ⊢
          simp only [List.take_succ_cons, List.map_cons]
          rw [this, List.erase_cons_tail (by simpa using ha)]


/-- … and the entries behind the first `k` are not touched -/
theorem drop_removeKey {α} (key : α → Nat) (l : List α) (x k : Nat) (hx : x ∈ (l.take k).map key) :
    (removeKey key l x).drop (k - 1) = l.drop k := by
  induction l generalizing k with
  | nil => simp at hx
  | cons a as ih =>
    cases k with
    | zero => simp at hx
    | succ k' =>
      by_cases ha : key a = x
      · rw [removeKey_cons_eq key a as x ha]
        simp
      · rw [removeKey_cons_ne key a as x ha]
        have hx' : x ∈ (as.take k').map key := by
          simp only [List.take_succ_cons, List.map_cons, List.mem_cons] at hx
          rcases hx with h | h
          · exact absurd h.symm ha
          · exact h
        cases k' with
        | zero => simp at hx'
        | succ k'' =>
          have := ih (k'' + 1) hx'
          simp only [Nat.add_sub_cancel] at this ⊢
          simp only [List.drop_succ_cons]
          exact this

theorem drop_pyInsert {α} (l : List α) (n : Nat) (a : α) (h : n ≤ l.length) :
    (pyInsert l n a).drop n = a :: l.drop n := by
  unfold pyInsert
  have : (l.take n).length = n := by simp; omega
  rw [List.drop_append, this, List.drop_eq_nil_of_le (by omega)]
  simp

theorem removeKey_length {α} (key : α → Nat) (l : List α) (x : Nat) (hx : x ∈ l.map key) :
    (removeKey key l x).length + 1 = l.length := by
  induction l with
  | nil => simp at hx
  | cons a as ih =>
    by_cases ha : key a = x
    · rw [removeKey_cons_eq key a as x ha]; simp
    · rw [removeKey_cons_ne key a as x ha]
      simp only [List.map_cons, List.mem_cons] at hx
      rcases hx with h | h
      · exact absurd h.symm ha
      · simp [ih h]

theorem eraseIdx_map_perm_erase {α} (key : α → Nat) (r : List α) (i : Nat) (e : α) (he : r[i]? = some e) :
    ((r.eraseIdx i).map key).Perm ((r.map key).erase (key e)) := by
  have h1 := (PosStore.perm_cons_eraseIdx he).map key
  have h2 := h1.erase (key e)
  simpa using h2.symm

theorem mem_take_of_perm {α} (key : α → Nat) {r l : List α} {k : Nat} (h : (r.map key).Perm ((l.take k).map key))
    {e : α} (he : e ∈ r) : key e ∈ (l.take k).map key :=
  h.mem_iff.mp (List.mem_map.mpr ⟨e, he, rfl⟩)

end FsVerif
