/-
Further consequences of the invariants used by the property theorems: who can be granted,
monotone clock, protocol enforcement.
-/
import FsVerif.Proofs.PosInv2
namespace FsVerif
namespace PosStore

/-! ### the head of the queue is the only one served, and it precedes everybody still waiting -/

theorem trigPut_grant_min {s : PosStore} (hs : QSorted s.putQ) :
    ∀ g ∈ s.trigPut.putRes, g ∉ s.putRes → ∀ w ∈ s.trigPut.putQ, g.before w := by
  rcases trigPut_cases s with ⟨he, _⟩ | ⟨t, q, hq, ha, he⟩
  · rw [he]; intro g hg hng; exact absurd hg hng
  · rw [he]; intro g hg hng w hw
    simp only at hg hw
    rcases List.mem_append.mp hg with hg | hg
    · exact absurd hg hng
    · simp at hg; subst hg
      rw [hq] at hs
      exact (List.pairwise_cons.mp hs).1 w hw

theorem trigGet_grant_min {s : PosStore} (hs : QSorted s.getQ) :
    ∀ g ∈ s.trigGet.getRes, g ∉ s.getRes → ∀ w ∈ s.trigGet.getQ, g.before w := by
  rcases trigGet_cases s with ⟨he, _⟩ | ⟨t, q, hq, ha, he⟩
  · rw [he]; intro g hg hng; exact absurd hg hng
  · rw [he]; intro g hg hng w hw
    simp only at hg hw
    rcases List.mem_append.mp hg with hg | hg
    · exact absurd hg hng
    · simp at hg; subst hg
      rw [hq] at hs
      exact (List.pairwise_cons.mp hs).1 w hw

/-! ### the clock never runs backwards -/

theorem step_now_mono {s : PosStore} (op : Op) (h : Inv2 s) : s.now ≤ (s.step op).1.now := by
  have ht := h.timers
  unfold step
  cases op with
  | reservePut p pr => simp [reservePut]
  | reserveGet p pr f => simp [reserveGet]
  | put p t x =>
    simp only
    rcases put_cases { s with fired := [] } p t x with ⟨he, _⟩ | ⟨t', _, _, _, ⟨_, he⟩ | ⟨_, he⟩⟩ <;>
      rw [he] <;> simp [addItem, dropPutRes]
  | get p t =>
    simp only
    rcases get_cases { s with fired := [] } p t with ⟨he, _⟩ | ⟨t', _, _, _, ⟨_, he⟩ | ⟨_, _, he⟩ | ⟨e, _, _, he⟩⟩ <;>
      rw [he] <;> simp [takeItem, dropGetRes]
  | cancelPut t =>
    simp only [cancelPut]
    split
    · simp
    · split <;> simp [dropPutRes]
  | cancelGet t =>
    simp only [cancelGet]
    split
    · simp
    · split
      · split
        · simp [dropGetRes]
        · split <;> simp [dropGetRes, releaseItem]
      · simp
  | adv dt =>
    simp only [adv]
    split
    · simp
    · simp [setNow]
  | settle =>
    simp only [settle]
    have hsorted : ((s.timers.filter (· ≤ s.now)).map fun _ => s.now).Pairwise (· ≤ ·) := by
      rw [List.pairwise_map]; exact List.pairwise_of_forall (fun _ _ => Nat.le_refl _)
    have := fireAll_now_ge ((s.timers.filter (· ≤ s.now)).map fun _ => s.now)
      { s with fired := [], timers := s.timers.filter (fun d => !(d ≤ s.now)) } hsorted
      (by intro d hd; obtain ⟨_, _, rfl⟩ := List.mem_map.mp hd; exact Nat.le_refl _)
    simpa using this
  | kstep =>
    simp only [kstep]
    generalize ({ s with fired := [] } : PosStore).timers.length = n
    have hgen : ∀ (n : Nat) (s' : PosStore), (kstepAux n s').now = s'.now := by
      intro n
      induction n with
      | zero => intro s'; rfl
      | succ n ih =>
        intro s'
        unfold kstepAux
        split
        · rfl
        · split
          · simp only
            split
            · rw [ih]; simp
            · simp
          · rfl
    rw [hgen]; simp

theorem kstepAux_cfg (n : Nat) (s : PosStore) : (kstepAux n s).cfg = s.cfg := by
  induction n generalizing s with
  | zero => rfl
  | succ n ih =>
    unfold kstepAux
    split
    · rfl
    · split
      · simp only
        split
        · rw [ih]; simp
        · simp
      · rfl

/-- The configuration (capacity, class, trigger delay) never changes. -/
theorem step_cfg (s : PosStore) (op : Op) : (s.step op).1.cfg = s.cfg := by
  unfold step
  cases op with
  | reservePut p pr => simp [reservePut]
  | reserveGet p pr f => simp [reserveGet]
  | put p t x =>
    simp only
    rcases put_cases { s with fired := [] } p t x with ⟨he, _⟩ | ⟨t', _, _, _, ⟨_, he⟩ | ⟨_, he⟩⟩ <;>
      rw [he] <;> simp [addItem, dropPutRes]
  | get p t =>
    simp only
    rcases get_cases { s with fired := [] } p t with ⟨he, _⟩ | ⟨t', _, _, _, ⟨_, he⟩ | ⟨_, _, he⟩ | ⟨e, _, _, he⟩⟩ <;>
      rw [he] <;> simp [takeItem, dropGetRes]
  | cancelPut t =>
    simp only [cancelPut]
    split
    · simp
    · split <;> simp [dropPutRes]
  | cancelGet t =>
    simp only [cancelGet]
    split
    · simp
    · split
      · split
        · simp [dropGetRes]
        · split <;> simp [dropGetRes, releaseItem]
      · simp
  | adv dt =>
    simp only [adv]
    split
    · simp
    · simp [setNow]
  | settle => simp [settle]
  | kstep => simp [kstep, kstepAux_cfg]

theorem run_append (s : PosStore) (a b : List Op) : run s (a ++ b) = run (run s a) b := by
  unfold run; rw [List.foldl_append]

/-- Reachability is closed under every operation. -/
theorem reachable_step {s : PosStore} (h : Reachable s) (op : Op) : Reachable (s.step op).1 := by
  obtain ⟨cfg, ops, rfl⟩ := h
  exact ⟨cfg, ops ++ [op], by rw [run_append]; rfl⟩

theorem reachable_cfg {cfg : PosCfg} (ops : List Op) : (run (init cfg) ops).cfg = cfg := by
  have hgen : ∀ (ops : List Op) (s0 : PosStore), (run s0 ops).cfg = s0.cfg := by
    intro ops
    induction ops with
    | nil => intro s0; rfl
    | cons o os ih =>
      intro s0
      show (run (s0.step o).1 os).cfg = s0.cfg
      rw [ih, step_cfg]
  rw [hgen]; rfl

/-! ### protocol enforcement -/

def ValidPut (s : PosStore) (p tid : Nat) : Prop := ∃ t ∈ s.putRes, t.id = tid ∧ t.proc = p
def ValidGet (s : PosStore) (p tid : Nat) : Prop := ∃ t ∈ s.getRes, t.id = tid ∧ t.proc = p
def KnownPut (s : PosStore) (tid : Nat) : Prop := ∃ t ∈ s.putQ ++ s.putRes, t.id = tid
def KnownGet (s : PosStore) (tid : Nat) : Prop := ∃ t ∈ s.getQ ++ s.getRes, t.id = tid

theorem put_reject {s : PosStore} {p tid : Nat} (x : Item) (h : ¬ ValidPut s p tid) :
    s.put p tid x = (s, .err .runtime) := by
  rcases put_cases s p tid x with ⟨he, _⟩ | ⟨t, ht, h1, h2, _⟩
  · exact he
  · exact absurd ⟨t, ht, h1, h2⟩ h

theorem put_accept {s : PosStore} {p tid : Nat} (x : Item) (hi : Inv s) (h : ValidPut s p tid) :
    (s.put p tid x).2 = .ok := by
  rcases put_cases s p tid x with ⟨_, hn⟩ | ⟨t, ht, _, _, ⟨_, he⟩ | ⟨hroom, _⟩⟩
  · obtain ⟨t, ht, h1, h2⟩ := h; exact absurd ⟨h1, h2⟩ (hn t ht)
  · rw [he]
  · rw [capRoom_of_granted hi.cap ht] at hroom; exact absurd hroom (by simp)

theorem get_reject {s : PosStore} {p tid : Nat} (h : ¬ ValidGet s p tid) :
    s.get p tid = (s, .err .runtime) := by
  rcases get_cases s p tid with ⟨he, _⟩ | ⟨t, ht, h1, h2, _⟩
  · exact he
  · exact absurd ⟨t, ht, h1, h2⟩ h

theorem get_accept {s : PosStore} {p tid : Nat} (hi : Inv s) (h : ValidGet s p tid) :
    ∃ e, e ∈ s.items ∧ (s.get p tid).2 = .item e.item := by
  have hlen := bind_len hi.bind
  have hb := hi.bind.2
  rcases get_cases s p tid with ⟨_, hn⟩ | ⟨t, ht, _, _, ⟨hidx, _⟩ | ⟨hidx, hnone, _⟩ | ⟨e, hidx, hx, he⟩⟩
  · obtain ⟨t, ht, h1, h2⟩ := h; exact absurd ⟨h1, h2⟩ (hn t ht)
  · have hte : t ∈ s.resEv := hi.bind.1.mem_iff.mpr ht
    have := List.idxOf_lt_length_of_mem hte; omega
  · have hlt : s.resEv.idxOf t < s.items.length := by omega
    rw [List.getElem?_eq_getElem hlt] at hnone; simp at hnone
  · exact ⟨e, List.mem_of_getElem? hx, by rw [he]⟩

theorem cancelPut_reject {s : PosStore} {tid : Nat} (h : ¬ KnownPut s tid) :
    s.cancelPut tid = (s, .err .runtime) := by
  unfold cancelPut
  split
  · rename_i t hf
    have := findTok_some hf
    exact absurd ⟨t, List.mem_append_left _ this.1, this.2⟩ h
  · split
    · rename_i t hf
      have := findTok_some hf
      exact absurd ⟨t, List.mem_append_right _ this.1, this.2⟩ h
    · rfl

theorem cancelPut_accept {s : PosStore} {tid : Nat} (h : KnownPut s tid) : (s.cancelPut tid).2 = .ok := by
  obtain ⟨t, ht, hid⟩ := h
  unfold cancelPut
  split
  · rfl
  · rename_i hn1
    split
    · rfl
    · rename_i hn2
      rcases List.mem_append.mp ht with ht | ht
      · exact absurd hid (findTok_none hn1 t ht)
      · exact absurd hid (findTok_none hn2 t ht)

theorem cancelGet_reject {s : PosStore} {tid : Nat} (h : ¬ KnownGet s tid) :
    s.cancelGet tid = (s, .err .runtime) := by
  unfold cancelGet
  split
  · rename_i t hf
    have := findTok_some hf
    exact absurd ⟨t, List.mem_append_left _ this.1, this.2⟩ h
  · split
    · rename_i t hf
      have := findTok_some hf
      exact absurd ⟨t, List.mem_append_right _ this.1, this.2⟩ h
    · rfl

theorem cancelGet_accept {s : PosStore} {tid : Nat} (hi : Inv s) (h : KnownGet s tid) : (s.cancelGet tid).2 = .ok := by
  obtain ⟨t, ht, hid⟩ := h
  have hlen := bind_len hi.bind
  have hb := hi.bind.2
  unfold cancelGet
  split
  · rfl
  · rename_i hn1
    split
    · rename_i t' hf
      have ht' := (findTok_some hf).1
      have hte : t' ∈ s.resEv := hi.bind.1.mem_iff.mpr ht'
      have hidx := List.idxOf_lt_length_of_mem hte
      split
      · omega
      · split
        · rename_i hnone
          have hlt : s.resEv.idxOf t' < s.items.length := by omega
          rw [List.getElem?_eq_getElem hlt] at hnone; simp at hnone
        · rfl
    · rename_i hn2
      rcases List.mem_append.mp ht with ht | ht
      · exact absurd hid (findTok_none hn1 t ht)
      · exact absurd hid (findTok_none hn2 t ht)

theorem nodup_map_inj {α β} {f : α → β} {l : List α} (h : (l.map f).Nodup) {a b : α}
    (ha : a ∈ l) (hb : b ∈ l) (hf : f a = f b) : a = b := by
  induction l with
  | nil => simp at ha
  | cons x xs ih =>
    simp only [List.map_cons, List.nodup_cons] at h
    rcases List.mem_cons.mp ha with hax | ha <;> rcases List.mem_cons.mp hb with hbx | hb
    · rw [hax, hbx]
    · exact absurd (List.mem_map.mpr ⟨b, hb, by rw [← hf, hax]⟩) h.1
    · exact absurd (List.mem_map.mpr ⟨a, ha, by rw [hf, hbx]⟩) h.1
    · exact ih h.2 ha hb

theorem nodup_of_nodup_map {α β} {f : α → β} {l : List α} (h : (l.map f).Nodup) : l.Nodup := by
  induction l with
  | nil => simp
  | cons x xs ih =>
    simp only [List.map_cons, List.nodup_cons] at h ⊢
    exact ⟨fun hm => h.1 (List.mem_map.mpr ⟨x, hm, rfl⟩), ih h.2⟩

/-- A retrieval request is next in line, nothing is left to happen at this instant, and the
    store's own test says it could be served: a lost wake-up. -/
def lostWakeGet (s : PosStore) : Bool :=
  match s.getQ with
  | t :: _ => s.timers.all (fun d => decide (s.now < d)) && s.serves t
  | [] => false

/-- Token ids are unique across both sides and all four lists. -/
theorem tok_unique {s : PosStore} (h : TokOK s) {a b : Tok} (ha : a ∈ allToks s) (hb : b ∈ allToks s)
    (hid : a.id = b.id) : a = b := by
  exact nodup_map_inj h.1 ha hb hid

end PosStore
end FsVerif
