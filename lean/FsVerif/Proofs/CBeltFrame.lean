/-
Continuous-conveyor model (Model/CBelt.lean): the frame of the state machine's bookkeeping.
Everything `behaviour`, `set_conveyor_state`, `selective_interrupt`, the interruption plan, the
delayed-interrupt registry and the one-shot events do leaves the belt contents, the reservations,
the move processes, the clock and the ghost logs untouched; the kernel events they schedule are all
due at the current instant and none of them is a Timeout or the Initialize of a move process.
-/
import FsVerif.Model.CBelt
namespace FsVerif
namespace CBelt

def QSorted (q : List CEv) : Prop := q.Pairwise (fun a b => a.time ≤ b.time)

theorem mem_insCEv {e x : CEv} {q : List CEv} : x ∈ insCEv e q ↔ x = e ∨ x ∈ q := by
  induction q with
  | nil => simp [insCEv]
  | cons y ys ih =>
    simp only [insCEv]
    split
    · simp
    · simp only [List.mem_cons, ih]
      constructor
      · rintro (h | h | h)
        · exact Or.inr (Or.inl h)
        · exact Or.inl h
        · exact Or.inr (Or.inr h)
      · rintro (h | h | h)
        · exact Or.inr (Or.inl h)
        · exact Or.inl h
        · exact Or.inr (Or.inr h)

theorem cbefore_time {a b : CEv} (h : a.before b = true) : a.time ≤ b.time := by
  unfold CEv.before at h
  simp only [Bool.or_eq_true, decide_eq_true_eq, Bool.and_eq_true, beq_iff_eq] at h
  rcases h with h | ⟨h, _⟩ <;> omega

theorem not_cbefore_time {a b : CEv} (h : a.before b = false) : b.time ≤ a.time := by
  unfold CEv.before at h
  simp only [Bool.or_eq_false_iff, decide_eq_false_iff_not] at h
  omega

theorem insCEv_sorted {e : CEv} {q : List CEv} (h : QSorted q) : QSorted (insCEv e q) := by
  induction q with
  | nil => simp [insCEv, QSorted]
  | cons y ys ih =>
    unfold QSorted at h ⊢
    simp only [insCEv]
    rw [List.pairwise_cons] at h
    split
    · rename_i hb
      rw [List.pairwise_cons]
      refine ⟨?_, List.pairwise_cons.mpr h⟩
      intro z hz
      have h1 := cbefore_time hb
      rcases List.mem_cons.mp hz with rfl | hz
      · exact h1
      · exact Nat.le_trans h1 (h.1 z hz)
    · rename_i hb
      have hb' : e.before y = false := by simpa using hb
      rw [List.pairwise_cons]
      refine ⟨?_, ih h.2⟩
      intro z hz
      rcases mem_insCEv.mp hz with rfl | hz
      · exact not_cbefore_time hb'
      · exact h.1 z hz

/-- kinds the bookkeeping may schedule -/
def _root_.FsVerif.CKind.light : CKind → Prop
  | .tmo _ => False
  | .initM _ => False
  | _ => True

structure Fr (s s' : CBelt) : Prop where
  cfg : s'.cfg = s.cfg
  now : s'.now = s.now
  items : s'.items = s.items
  ready : s'.ready = s.ready
  putQ : s'.putQ = s.putQ
  putRes : s'.putRes = s.putRes
  getRes : s'.getRes = s.getRes
  procs : s'.procs = s.procs
  entered : s'.entered = s.entered
  arrivals : s'.arrivals = s.arrivals
  nput : s'.nput = s.nput
  uid : s.nextUid ≤ s'.nextUid
  qOld : ∀ ev ∈ s.queue, ev ∈ s'.queue
  qNew : ∀ ev ∈ s'.queue, ev ∈ s.queue ∨ (ev.time = s.now ∧ ev.kind.light)
  sorted : QSorted s.queue → QSorted s'.queue
  gotLog : s'.gotLog = s.gotLog
  stat : s'.wsum = s.wsum ∧ s'.lastLevel = s.lastLevel ∧ s'.lastChange = s.lastChange
  bind : s'.resEv = s.resEv ∧ s'.resItems = s.resItems ∧ s'.getQ = s.getQ ∧ s'.nextTid = s.nextTid

theorem Fr.refl (s : CBelt) : Fr s s :=
  ⟨rfl, rfl, rfl, rfl, rfl, rfl, rfl, rfl, rfl, rfl, rfl, Nat.le_refl _, fun _ h => h, fun _ h => Or.inl h, fun h => h, rfl, ⟨rfl, rfl, rfl⟩, ⟨rfl, rfl, rfl, rfl⟩⟩

theorem Fr.trans {a b c : CBelt} (h1 : Fr a b) (h2 : Fr b c) : Fr a c := by
  refine ⟨h2.cfg.trans h1.cfg, h2.now.trans h1.now, h2.items.trans h1.items, h2.ready.trans h1.ready,
    h2.putQ.trans h1.putQ, h2.putRes.trans h1.putRes, h2.getRes.trans h1.getRes, h2.procs.trans h1.procs,
    h2.entered.trans h1.entered, h2.arrivals.trans h1.arrivals, h2.nput.trans h1.nput,
    Nat.le_trans h1.uid h2.uid, fun ev h => h2.qOld ev (h1.qOld ev h), ?_, fun h => h2.sorted (h1.sorted h), h2.gotLog.trans h1.gotLog,
    ⟨h2.stat.1.trans h1.stat.1, h2.stat.2.1.trans h1.stat.2.1, h2.stat.2.2.trans h1.stat.2.2⟩,
    ⟨h2.bind.1.trans h1.bind.1, h2.bind.2.1.trans h1.bind.2.1, h2.bind.2.2.1.trans h1.bind.2.2.1, h2.bind.2.2.2.trans h1.bind.2.2.2⟩⟩
  intro ev hev
  rcases h2.qNew ev hev with h | ⟨ht, hk⟩
  · exact h1.qNew ev h
  · exact Or.inr ⟨by rw [ht, h1.now], hk⟩

/-- a record update that touches none of the framed fields and leaves the queue alone -/
theorem Fr.of_eq {s s' : CBelt} (eb : s'.resEv = s.resEv ∧ s'.resItems = s.resItems ∧ s'.getQ = s.getQ ∧ s'.nextTid = s.nextTid) (es : s'.wsum = s.wsum ∧ s'.lastLevel = s.lastLevel ∧ s'.lastChange = s.lastChange) (e0 : s'.gotLog = s.gotLog) (e1 : s'.cfg = s.cfg) (e2 : s'.now = s.now) (e3 : s'.items = s.items) (e4 : s'.ready = s.ready)
    (e5 : s'.putQ = s.putQ) (e6 : s'.putRes = s.putRes) (e7 : s'.getRes = s.getRes) (e8 : s'.procs = s.procs)
    (e9 : s'.entered = s.entered) (e10 : s'.arrivals = s.arrivals) (e11 : s'.nput = s.nput)
    (e12 : s.nextUid ≤ s'.nextUid) (e13 : s'.queue = s.queue) : Fr s s' :=
  ⟨e1, e2, e3, e4, e5, e6, e7, e8, e9, e10, e11, e12, fun _ h => by rw [e13]; exact h, fun _ h => Or.inl (by rw [e13] at h; exact h),
   fun h => by rw [e13]; exact h, e0, es, eb⟩

theorem Fr.sched (s : CBelt) (u : Bool) (k : CKind) (hk : k.light) : Fr s (s.sched s.now u k) := by
  refine ⟨rfl, rfl, rfl, rfl, rfl, rfl, rfl, rfl, rfl, rfl, rfl, Nat.le_refl _, ?_, ?_, ?_, rfl, ⟨rfl, rfl, rfl⟩, ⟨rfl, rfl, rfl, rfl⟩⟩
  · intro ev h; exact mem_insCEv.mpr (Or.inr h)
  · intro ev h
    rcases mem_insCEv.mp h with rfl | h
    · exact Or.inr ⟨rfl, hk⟩
    · exact Or.inl h
  · intro h; exact insCEv_sorted h

theorem Fr.giveUp (s : CBelt) : Fr s s.giveUp :=
  Fr.of_eq ⟨rfl, rfl, rfl, rfl⟩ ⟨rfl, rfl, rfl⟩ rfl rfl rfl rfl rfl rfl rfl rfl rfl rfl rfl rfl (Nat.le_refl _) rfl

theorem Fr.interruptItem (s : CBelt) (id : Nat) : Fr s (s.interruptItem id) := by
  unfold CBelt.interruptItem
  split
  · exact Fr.sched s true _ trivial
  · exact Fr.refl s

theorem Fr.spawnDelayed (s : CBelt) (id delay : Nat) : Fr s (s.spawnDelayed id delay) := by
  unfold CBelt.spawnDelayed
  have h1 : Fr s { s with nextD := s.nextD + 1, dprocs := s.dprocs ++ [({ d := s.nextD, itemId := id, delay := delay } : DProc)] } :=
    Fr.of_eq ⟨rfl, rfl, rfl, rfl⟩ ⟨rfl, rfl, rfl⟩ rfl rfl rfl rfl rfl rfl rfl rfl rfl rfl rfl rfl (Nat.le_refl _) rfl
  have h2 := Fr.sched { s with nextD := s.nextD + 1, dprocs := s.dprocs ++ [({ d := s.nextD, itemId := id, delay := delay } : DProc)] } true (.initD s.nextD) trivial
  refine (h1.trans h2).trans ?_
  exact Fr.of_eq ⟨rfl, rfl, rfl, rfl⟩ ⟨rfl, rfl, rfl⟩ rfl rfl rfl rfl rfl rfl rfl rfl rfl rfl rfl rfl (Nat.le_refl _) rfl

theorem Fr.foldl {α} (f : CBelt → α → CBelt) (hf : ∀ s a, Fr s (f s a)) (l : List α) : ∀ s, Fr s (l.foldl f s) := by
  induction l with
  | nil => intro s; exact Fr.refl s
  | cons a as ih => intro s; exact (hf s a).trans (ih _)

theorem Fr.executePlan (s : CBelt) (plan : List (Option Nat × Nat)) : Fr s (s.executePlan plan) := by
  unfold CBelt.executePlan
  apply Fr.foldl
  intro s ins
  split
  · exact Fr.refl s
  · split
    · split
      · exact Fr.spawnDelayed s _ _
      · exact Fr.interruptItem s _
    · exact Fr.refl s

theorem Fr.selectiveInterrupt (s : CBelt) : Fr s s.selectiveInterrupt := by
  unfold CBelt.selectiveInterrupt
  split
  · exact Fr.refl s
  · split
    · apply Fr.foldl; intro s it; exact Fr.interruptItem s _
    · split
      · split
        · exact Fr.giveUp s
        · exact Fr.executePlan s _
      · exact Fr.refl s

theorem Fr.resumeAll (s : CBelt) : Fr s s.resumeAll := by
  unfold CBelt.resumeAll
  have h1 : Fr s { s with reGen := s.reGen + 1 } := Fr.of_eq ⟨rfl, rfl, rfl, rfl⟩ ⟨rfl, rfl, rfl⟩ rfl rfl rfl rfl rfl rfl rfl rfl rfl rfl rfl rfl (Nat.le_refl _) rfl
  exact h1.trans (Fr.sched _ false (.re s.reGen) trivial)

theorem Fr.cancelDelayed (s : CBelt) : Fr s s.cancelDelayed := by
  unfold CBelt.cancelDelayed
  have h1 : Fr s (s.activeDelayed.foldl (fun s e => s.sched s.now true (.intr (.delayed e.2))) s) := by
    apply Fr.foldl; intro s e; exact Fr.sched s true _ trivial
  exact h1.trans (Fr.of_eq ⟨rfl, rfl, rfl, rfl⟩ ⟨rfl, rfl, rfl⟩ rfl rfl rfl rfl rfl rfl rfl rfl rfl rfl rfl rfl (Nat.le_refl _) rfl)

theorem Fr.setState (s : CBelt) (new : CState) : Fr s (s.setState new) := by
  unfold CBelt.setState
  have h1 : Fr s { s with st := new, everStalled := s.everStalled || new.stalled } := Fr.of_eq ⟨rfl, rfl, rfl, rfl⟩ ⟨rfl, rfl, rfl⟩ rfl rfl rfl rfl rfl rfl rfl rfl rfl rfl rfl rfl (Nat.le_refl _) rfl
  have h2 : ∀ b, Fr s { s with st := new, everStalled := s.everStalled || new.stalled, noacc := b } := fun b => Fr.of_eq ⟨rfl, rfl, rfl, rfl⟩ ⟨rfl, rfl, rfl⟩ rfl rfl rfl rfl rfl rfl rfl rfl rfl rfl rfl rfl (Nat.le_refl _) rfl
  simp only
  split
  · split
    · exact (h2 true).trans (Fr.selectiveInterrupt _)
    · exact h1.trans (Fr.selectiveInterrupt _)
  · split
    · split
      · exact ((h2 false).trans (Fr.resumeAll _)).trans (Fr.cancelDelayed _)
      · exact (h1.trans (Fr.resumeAll _)).trans (Fr.cancelDelayed _)
    · exact h1

theorem Fr.makeCond (s : CBelt) : Fr s s.makeCond := by
  unfold CBelt.makeCond
  simp only
  split
  · have h1 : Fr s { s with nextUid := s.nextUid + 1, bWaitIA := false, cond := some (s.nextUid, true) } :=
      Fr.of_eq ⟨rfl, rfl, rfl, rfl⟩ ⟨rfl, rfl, rfl⟩ rfl rfl rfl rfl rfl rfl rfl rfl rfl rfl rfl rfl (Nat.le_succ _) rfl
    exact h1.trans (Fr.sched _ false (.cond s.nextUid) trivial)
  · exact Fr.of_eq ⟨rfl, rfl, rfl, rfl⟩ ⟨rfl, rfl, rfl⟩ rfl rfl rfl rfl rfl rfl rfl rfl rfl rfl rfl rfl (Nat.le_succ _) rfl

theorem Fr.noacc (s : CBelt) (b : Bool) : Fr s { s with noacc := b } :=
  Fr.of_eq ⟨rfl, rfl, rfl, rfl⟩ ⟨rfl, rfl, rfl⟩ rfl rfl rfl rfl rfl rfl rfl rfl rfl rfl rfl rfl (Nat.le_refl _) rfl

theorem Fr.stallState (s : CBelt) : Fr s s.stallState := by
  unfold CBelt.stallState
  split
  · exact (Fr.setState s _).trans (Fr.noacc _ _)
  · exact (Fr.setState s _).trans (Fr.noacc _ _)

theorem Fr.bLoop (s : CBelt) : Fr s s.bLoop := by
  unfold CBelt.bLoop
  split
  · exact Fr.giveUp s
  · split
    · simp only
      have h1 : Fr s { s.setState .idle with noacc := false } := (Fr.setState s _).trans (Fr.noacc _ _)
      split
      · refine (h1.trans ?_).trans (Fr.makeCond _)
        exact Fr.of_eq ⟨rfl, rfl, rfl, rfl⟩ ⟨rfl, rfl, rfl⟩ rfl rfl rfl rfl rfl rfl rfl rfl rfl rfl rfl rfl (Nat.le_refl _) rfl
      · exact h1.trans (Fr.of_eq ⟨rfl, rfl, rfl, rfl⟩ ⟨rfl, rfl, rfl⟩ rfl rfl rfl rfl rfl rfl rfl rfl rfl rfl rfl rfl (Nat.le_refl _) rfl)
    · split
      · exact ((Fr.setState s _).trans (Fr.noacc _ _)).trans (Fr.makeCond _)
      · exact (Fr.stallState s).trans (Fr.makeCond _)

theorem Fr.bWake (s : CBelt) : Fr s s.bWake := by
  unfold CBelt.bWake
  have h0 : Fr s { s with cond := none } := Fr.of_eq ⟨rfl, rfl, rfl, rfl⟩ ⟨rfl, rfl, rfl⟩ rfl rfl rfl rfl rfl rfl rfl rfl rfl rfl rfl rfl (Nat.le_refl _) rfl
  simp only
  split
  · split
    · refine ((h0.trans (Fr.stallState _)).trans ?_).trans (Fr.bLoop _)
      exact Fr.of_eq ⟨rfl, rfl, rfl, rfl⟩ ⟨rfl, rfl, rfl⟩ rfl rfl rfl rfl rfl rfl rfl rfl rfl rfl rfl rfl (Nat.le_refl _) rfl
    · refine (h0.trans ?_).trans (Fr.bLoop _)
      exact Fr.of_eq ⟨rfl, rfl, rfl, rfl⟩ ⟨rfl, rfl, rfl⟩ rfl rfl rfl rfl rfl rfl rfl rfl rfl rfl rfl rfl (Nat.le_refl _) rfl
  · split
    · refine (h0.trans ?_).trans (Fr.bLoop _)
      exact Fr.of_eq ⟨rfl, rfl, rfl, rfl⟩ ⟨rfl, rfl, rfl⟩ rfl rfl rfl rfl rfl rfl rfl rfl rfl rfl rfl rfl (Nat.le_refl _) rfl
    · split
      · refine (h0.trans ?_).trans (Fr.bLoop _)
        exact Fr.of_eq ⟨rfl, rfl, rfl, rfl⟩ ⟨rfl, rfl, rfl⟩ rfl rfl rfl rfl rfl rfl rfl rfl rfl rfl rfl rfl (Nat.le_refl _) rfl
      · exact h0.trans (Fr.bLoop _)

theorem Fr.handleNew (s : CBelt) (id : Nat) : Fr s (s.handleNew id) := by
  unfold CBelt.handleNew
  split
  · exact Fr.interruptItem s id
  · split
    · exact Fr.giveUp s
    · split
      · exact Fr.giveUp s
      · split
        · exact Fr.spawnDelayed s _ _
        · exact Fr.interruptItem s _

theorem Fr.onShot (s : CBelt) (w : Which) (gen : Nat) : Fr s (s.onShot w gen) := by
  unfold CBelt.onShot
  cases w with
  | ia =>
    simp only
    split
    · exact Fr.refl s
    · split
      · refine Fr.trans ?_ (Fr.makeCond _)
        exact Fr.of_eq ⟨rfl, rfl, rfl, rfl⟩ ⟨rfl, rfl, rfl⟩ rfl rfl rfl rfl rfl rfl rfl rfl rfl rfl rfl rfl (Nat.le_refl _) rfl
      · exact Fr.of_eq ⟨rfl, rfl, rfl, rfl⟩ ⟨rfl, rfl, rfl⟩ rfl rfl rfl rfl rfl rfl rfl rfl rfl rfl rfl rfl (Nat.le_refl _) rfl
  | ga =>
    simp only
    split
    · exact Fr.refl s
    · split
      · refine Fr.trans ?_ (Fr.sched _ false _ trivial)
        exact Fr.of_eq ⟨rfl, rfl, rfl, rfl⟩ ⟨rfl, rfl, rfl⟩ rfl rfl rfl rfl rfl rfl rfl rfl rfl rfl rfl rfl (Nat.le_refl _) rfl
      · exact Fr.of_eq ⟨rfl, rfl, rfl, rfl⟩ ⟨rfl, rfl, rfl⟩ rfl rfl rfl rfl rfl rfl rfl rfl rfl rfl rfl rfl (Nat.le_refl _) rfl
  | pa =>
    simp only
    split
    · exact Fr.refl s
    · split
      · refine Fr.trans ?_ (Fr.sched _ false _ trivial)
        exact Fr.of_eq ⟨rfl, rfl, rfl, rfl⟩ ⟨rfl, rfl, rfl⟩ rfl rfl rfl rfl rfl rfl rfl rfl rfl rfl rfl rfl (Nat.le_refl _) rfl
      · exact Fr.of_eq ⟨rfl, rfl, rfl, rfl⟩ ⟨rfl, rfl, rfl⟩ rfl rfl rfl rfl rfl rfl rfl rfl rfl rfl rfl rfl (Nat.le_refl _) rfl
  | ri =>
    simp only
    split
    · exact Fr.refl s
    · split
      · refine Fr.trans ?_ (Fr.sched _ false _ trivial)
        exact Fr.of_eq ⟨rfl, rfl, rfl, rfl⟩ ⟨rfl, rfl, rfl⟩ rfl rfl rfl rfl rfl rfl rfl rfl rfl rfl rfl rfl (Nat.le_refl _) rfl
      · exact Fr.of_eq ⟨rfl, rfl, rfl, rfl⟩ ⟨rfl, rfl, rfl⟩ rfl rfl rfl rfl rfl rfl rfl rfl rfl rfl rfl rfl (Nat.le_refl _) rfl

end CBelt
end FsVerif
