/-
Slotted conveyor store: every granted retrieval owns its own item.  In every reachable state (no assumption on the
client, kernel events included): the granted retrievals and the reservation events are the same tokens, there is one
reserved item per granted retrieval, and the reserved items are — as a multiset of identities — the first k items
waiting at the exit.  Consequences: a `get` / `reserve_get_cancel` with a granted reservation is always served; the
crash branches of `_trigger_reserve_get` / `get` are dead; no retrieval request waits while an unreserved item is at
the exit.
-/
import FsVerif.Proofs.BeltBind
import FsVerif.Proofs.SlotCons
import FsVerif.Proofs.BufPrio
namespace FsVerif
namespace SlotBelt

def ik (e : SEntry) : Nat := e.item.id

theorem removeItem_eq (l : List SEntry) (x : Item) : removeItem l x = removeKey ik l x.id := rfl

structure Bd (s : SlotBelt) : Prop where
  ev : s.resEv.Perm s.getRes
  len : s.resEv.length = s.resItems.length
  le : s.resEv.length ≤ s.ready.length
  items : (s.resItems.map ik).Perm ((s.ready.take s.resEv.length).map ik)
  /-- no lost wake-up on the retrieval side -/
  wake : s.getQ ≠ [] → s.ready.length ≤ s.getRes.length

/-- the binding part alone (the wake-up condition is re-established by the trigger) -/
structure Bd0 (s : SlotBelt) : Prop where
  ev : s.resEv.Perm s.getRes
  len : s.resEv.length = s.resItems.length
  le : s.resEv.length ≤ s.ready.length
  items : (s.resItems.map ik).Perm ((s.ready.take s.resEv.length).map ik)

theorem Bd.to0 {s : SlotBelt} (h : Bd s) : Bd0 s := ⟨h.ev, h.len, h.le, h.items⟩

theorem Bd0.congr {s s' : SlotBelt} (h : Bd0 s) (e1 : s'.getRes = s.getRes) (e2 : s'.resEv = s.resEv)
    (e3 : s'.resItems = s.resItems) (e4 : s'.ready = s.ready) : Bd0 s' := by
  obtain ⟨a, b, c, d⟩ := h
  constructor <;> simp only [e1, e2, e3, e4] <;> assumption

theorem Bd.congr {s s' : SlotBelt} (h : Bd s) (e1 : s'.getRes = s.getRes) (e2 : s'.resEv = s.resEv)
    (e3 : s'.resItems = s.resItems) (e4 : s'.ready = s.ready) (e5 : s'.getQ = s.getQ) : Bd s' := by
  obtain ⟨a, b, c, d, w⟩ := h
  constructor <;> simp only [e1, e2, e3, e4, e5] <;> assumption

theorem trigPut_bind (s : SlotBelt) : s.trigPut.getRes = s.getRes ∧ s.trigPut.resEv = s.resEv ∧ s.trigPut.resItems = s.resItems ∧
    s.trigPut.ready = s.ready ∧ s.trigPut.getQ = s.getQ := by
  unfold SlotBelt.trigPut
  split
  · exact ⟨rfl, rfl, rfl, rfl, rfl⟩
  · split <;> exact ⟨rfl, rfl, rfl, rfl, rfl⟩

theorem Bd.trigPut {s : SlotBelt} (h : Bd s) : Bd s.trigPut := by
  obtain ⟨a, b, c, d, e⟩ := trigPut_bind s
  exact h.congr a b c d e

/-- `_trigger_reserve_get`: serves one waiting request when an unreserved item is at the exit.  `slack`: at most one more
    item is at the exit than the wake-up condition allows (an arrival, or a cancelled granted retrieval, happened). -/
theorem Bd0.trigGet {s : SlotBelt} (h : Bd0 s) (slack : s.getQ.tail ≠ [] → s.ready.length ≤ s.getRes.length + 1) : Bd s.trigGet := by
  unfold SlotBelt.trigGet
  split
  · rename_i hq
    exact ⟨h.ev, h.len, h.le, h.items, fun hne => absurd hq hne⟩
  · rename_i t q hq
    have hkl : s.resEv.length = s.getRes.length := h.ev.length_eq
    split
    · rename_i hlt
      have hk : s.resEv.length < s.ready.length := by rw [hkl]; exact hlt
      split
      · rename_i e he
        have he' : s.ready[s.resEv.length] = e := by
          rw [List.getElem?_eq_getElem hk] at he
          exact Option.some.inj he
        refine ⟨h.ev.append_right [t], ?_, ?_, ?_, ?_⟩
        · simp only [List.length_append, List.length_cons, List.length_nil]; rw [h.len]
        · simp only [List.length_append, List.length_cons, List.length_nil]; omega
        · simp only [List.length_append, List.length_cons, List.length_nil, List.map_append, List.map_cons, List.map_nil]
          rw [List.take_succ_eq_append_getElem hk, List.map_append, he']
          exact h.items.append_right _
        · intro hne
          simp only [List.length_append, List.length_cons, List.length_nil]
          have := slack (by rw [hq]; exact hne)
          omega
      · rename_i hn
        exfalso
        rw [List.getElem?_eq_none_iff] at hn
        omega
    · rename_i hge
      exact ⟨h.ev, h.len, h.le, h.items, fun _ => by omega⟩

theorem ne_nil_of_tail {α} {l : List α} (h : l.tail ≠ []) : l ≠ [] := by
  intro hl; rw [hl] at h; exact h rfl

theorem Bd.trigGet {s : SlotBelt} (h : Bd s) : Bd s.trigGet :=
  h.to0.trigGet (fun hne => Nat.le_succ_of_le (h.wake (ne_nil_of_tail hne)))

/-- the reserved item of retrieval slot `i` leaves `ready_items` (taken, or about to be re-inserted) -/
theorem Bd0.take {s s' : SlotBelt} (h : Bd0 s) (t : Tok) (e : SEntry) (hi : s.resEv.idxOf t < s.resEv.length)
    (he : s.resItems[s.resEv.idxOf t]? = some e)
    (e1 : s'.getRes = s.getRes.erase t) (e2 : s'.resEv = s.resEv.eraseIdx (s.resEv.idxOf t))
    (e3 : s'.resItems = s.resItems.eraseIdx (s.resEv.idxOf t)) (e4 : s'.ready = removeItem s.ready e.item) : Bd0 s' := by
  have hem : e ∈ s.resItems := List.mem_of_getElem? he
  have hx : ik e ∈ (s.ready.take s.resEv.length).map ik := mem_take_of_perm ik h.items hem
  have hxr : ik e ∈ s.ready.map ik := by
    rcases List.mem_map.mp hx with ⟨a, ha, hk⟩
    exact List.mem_map.mpr ⟨a, List.mem_of_mem_take ha, hk⟩
  have hrl := removeKey_length ik s.ready (ik e) hxr
  have hl1 := PosStore.length_eraseIdx_lt hi
  have hl2 : (s.resItems.eraseIdx (s.resEv.idxOf t)).length + 1 = s.resItems.length :=
    PosStore.length_eraseIdx_lt (by rw [← h.len]; exact hi)
  have hle := h.le
  refine ⟨?_, ?_, ?_, ?_⟩
  · rw [e1, e2, ← List.erase_eq_eraseIdx_of_idxOf rfl]; exact h.ev.erase t
  · rw [e2, e3]; have := h.len; omega
  · rw [e2, e4, removeItem_eq]
    show _ ≤ (removeKey ik s.ready (ik e)).length
    omega
  · rw [e2, e3, e4, removeItem_eq]
    have hk : (s.resEv.eraseIdx (s.resEv.idxOf t)).length = s.resEv.length - 1 := by omega
    rw [hk]
    show List.Perm _ (((removeKey ik s.ready (ik e)).take (s.resEv.length - 1)).map ik)
    rw [take_removeKey ik s.ready (ik e) s.resEv.length hx]
    exact (eraseIdx_map_perm_erase ik s.resItems _ e he).trans (h.items.erase (ik e))


theorem Bd.take_get {s s' : SlotBelt} (h : Bd s) (t : Tok) (e : SEntry) (hi : s.resEv.idxOf t < s.resEv.length)
    (he : s.resItems[s.resEv.idxOf t]? = some e) (htm : t ∈ s.getRes)
    (e1 : s'.getRes = s.getRes.erase t) (e2 : s'.resEv = s.resEv.eraseIdx (s.resEv.idxOf t))
    (e3 : s'.resItems = s.resItems.eraseIdx (s.resEv.idxOf t)) (e4 : s'.ready = removeItem s.ready e.item)
    (e5 : s'.getQ = s.getQ) : Bd s' := by
  have h0 := h.to0.take t e hi he e1 e2 e3 e4
  have hem : e ∈ s.resItems := List.mem_of_getElem? he
  have hx : ik e ∈ (s.ready.take s.resEv.length).map ik := mem_take_of_perm ik h.items hem
  have hxr : ik e ∈ s.ready.map ik := by
    rcases List.mem_map.mp hx with ⟨a, ha, hk⟩
    exact List.mem_map.mpr ⟨a, List.mem_of_mem_take ha, hk⟩
  have hrl := removeKey_length ik s.ready (ik e) hxr
  have hgl : (s.getRes.erase t).length + 1 = s.getRes.length := by
    rw [List.length_erase_of_mem htm]; have := List.length_pos_of_mem htm; omega
  refine ⟨h0.ev, h0.len, h0.le, h0.items, ?_⟩
  intro hne
  rw [e5] at hne
  have := h.wake hne
  rw [e4, e1, removeItem_eq]
  show (removeKey ik s.ready (ik e)).length ≤ _
  omega

/-- `reserve_get_cancel` of a granted retrieval: the item goes back right behind the reserved block; one more item than
    the wake-up condition allows may now be unreserved (the trigger that follows serves it) -/
theorem Bd.release {s s' : SlotBelt} (h : Bd s) (t : Tok) (e : SEntry) (hi : s.resEv.idxOf t < s.resEv.length)
    (he : s.resItems[s.resEv.idxOf t]? = some e) (htm : t ∈ s.getRes)
    (e1 : s'.getRes = s.getRes.erase t) (e2 : s'.resEv = s.resEv.eraseIdx (s.resEv.idxOf t))
    (e3 : s'.resItems = s.resItems.eraseIdx (s.resEv.idxOf t))
    (e4 : s'.ready = pyInsert (removeItem s.ready e.item) (s.resEv.eraseIdx (s.resEv.idxOf t)).length e)
    (e5 : s'.getQ = s.getQ) : Bd0 s' ∧ (s'.getQ ≠ [] → s'.ready.length ≤ s'.getRes.length + 1) := by
  have h0 : Bd0 ({ s with getRes := s.getRes.erase t, resEv := s.resEv.eraseIdx (s.resEv.idxOf t), resItems := s.resItems.eraseIdx (s.resEv.idxOf t), ready := removeItem s.ready e.item } : SlotBelt) :=
    h.to0.take t e hi he rfl rfl rfl rfl
  have hem : e ∈ s.resItems := List.mem_of_getElem? he
  have hx : ik e ∈ (s.ready.take s.resEv.length).map ik := mem_take_of_perm ik h.items hem
  have hxr : ik e ∈ s.ready.map ik := by
    rcases List.mem_map.mp hx with ⟨a, ha, hk⟩
    exact List.mem_map.mpr ⟨a, List.mem_of_mem_take ha, hk⟩
  have hrl := removeKey_length ik s.ready (ik e) hxr
  have hgl : (s.getRes.erase t).length + 1 = s.getRes.length := by
    rw [List.length_erase_of_mem htm]; have := List.length_pos_of_mem htm; omega
  have hle0 : (s.resEv.eraseIdx (s.resEv.idxOf t)).length ≤ (removeItem s.ready e.item).length := h0.le
  have hlen : (pyInsert (removeItem s.ready e.item) (s.resEv.eraseIdx (s.resEv.idxOf t)).length e).length = (removeItem s.ready e.item).length + 1 := by
    simp only [pyInsert, List.length_append, List.length_take, List.length_cons, List.length_drop]
    omega
  refine ⟨⟨by rw [e1, e2]; exact h0.ev, by rw [e2, e3]; exact h0.len, ?_, ?_⟩, ?_⟩
  · rw [e2, e4, hlen]; omega
  · rw [e2, e3, e4, take_pyInsert' _ _ _ hle0]; exact h0.items
  · intro hne
    rw [e5] at hne
    have := h.wake hne
    rw [e4, e1, hlen, removeItem_eq]
    show (removeKey ik s.ready (ik e)).length + 1 ≤ _
    omega

theorem any_of_mem {l : List SEntry} {x : Nat} (h : x ∈ l.map ik) : l.any (fun r => r.item.id == x) = true := by
  rcases List.mem_map.mp h with ⟨a, ha, hk⟩
  exact List.any_eq_true.mpr ⟨a, ha, by simpa [ik] using hk⟩

theorem Bd.get {s : SlotBelt} (h : Bd s) (p tid : Nat) : Bd (s.get p tid).1 := by
  unfold SlotBelt.get
  split
  · exact h
  · split
    · exact h
    · rename_i t ht
      have htm : t ∈ s.getRes := List.mem_of_find?_eq_some ht
      have htr : t ∈ s.resEv := h.ev.mem_iff.mpr htm
      have hidx : s.resEv.idxOf t < s.resEv.length := List.idxOf_lt_length_of_mem htr
      split
      · exfalso; omega
      · split
        · rename_i hn
          exfalso
          rw [List.getElem?_eq_none_iff] at hn
          have := h.len; omega
        · rename_i e he
          have hem : e ∈ s.resItems := List.mem_of_getElem? he
          have hx : ik e ∈ (s.ready.take s.resEv.length).map ik := mem_take_of_perm ik h.items hem
          have hxr : ik e ∈ s.ready.map ik := by
            rcases List.mem_map.mp hx with ⟨a, ha, hk⟩
            exact List.mem_map.mpr ⟨a, List.mem_of_mem_take ha, hk⟩
          simp only
          split
          · have hb := h.take_get (s' := { s with getRes := s.getRes.erase t, resEv := s.resEv.eraseIdx (s.resEv.idxOf t), resItems := s.resItems.eraseIdx (s.resEv.idxOf t), ready := removeItem s.ready e.item, gotLog := s.gotLog ++ [e.item] }) t e hidx he htm rfl rfl rfl rfl rfl
            refine Bd.trigPut ?_
            exact hb.congr rfl rfl rfl rfl rfl
          · rename_i hany
            exfalso
            exact hany (any_of_mem hxr)

theorem Bd.cancelPut {s : SlotBelt} (h : Bd s) (tid : Nat) : Bd (s.cancelPut tid).1 := by
  unfold SlotBelt.cancelPut
  split
  · exact Bd.trigPut (h.congr rfl rfl rfl rfl rfl)
  · split
    · exact Bd.trigPut (h.congr rfl rfl rfl rfl rfl)
    · exact h

theorem findTok_mem {l : List Tok} {tid : Nat} {t : Tok} (h : findTok l tid = some t) : t ∈ l := by
  unfold findTok at h
  exact List.mem_of_find?_eq_some h

theorem Bd.cancelGet {s : SlotBelt} (h : Bd s) (tid : Nat) : Bd (s.cancelGet tid).1 := by
  unfold SlotBelt.cancelGet
  split
  · rename_i t ht
    have h0 : Bd0 ({ s with getQ := s.getQ.erase t } : SlotBelt) := h.to0.congr rfl rfl rfl rfl
    refine h0.trigGet ?_
    intro hne
    have hq : s.getQ ≠ [] := by
      intro hq; rw [hq] at hne; exact hne rfl
    exact Nat.le_succ_of_le (h.wake hq)
  · split
    · rename_i t ht
      have htm : t ∈ s.getRes := findTok_mem ht
      have htr : t ∈ s.resEv := h.ev.mem_iff.mpr htm
      have hidx : s.resEv.idxOf t < s.resEv.length := List.idxOf_lt_length_of_mem htr
      split
      · exfalso; omega
      · split
        · rename_i hn
          exfalso
          rw [List.getElem?_eq_none_iff] at hn
          have := h.len; omega
        · rename_i e he
          have hem : e ∈ s.resItems := List.mem_of_getElem? he
          have hx : ik e ∈ (s.ready.take s.resEv.length).map ik := mem_take_of_perm ik h.items hem
          have hxr : ik e ∈ s.ready.map ik := by
            rcases List.mem_map.mp hx with ⟨a, ha, hk⟩
            exact List.mem_map.mpr ⟨a, List.mem_of_mem_take ha, hk⟩
          simp only
          split
          · obtain ⟨h1, hs⟩ := h.release (s' := { s with getRes := s.getRes.erase t, resEv := s.resEv.eraseIdx (s.resEv.idxOf t), resItems := s.resItems.eraseIdx (s.resEv.idxOf t), ready := pyInsert (removeItem s.ready e.item) (s.resEv.eraseIdx (s.resEv.idxOf t)).length e }) t e hidx he htm rfl rfl rfl rfl rfl
            exact h1.trigGet (fun hne => hs (ne_nil_of_tail hne))
          · rename_i hany
            exfalso
            exact hany (any_of_mem hxr)
    · exact h


/-- a `get` with a granted retrieval of the caller's own is served: it returns the item bound to that reservation, and that
    item was waiting at the exit -/
theorem Bd.get_accept {s : SlotBelt} (h : Bd s) (p tid : Nat) (hex : ∃ t ∈ s.getRes, t.id = tid ∧ t.proc = p) :
    ∃ e ∈ s.resItems, (s.get p tid).2 = .item e.item ∧ s.ready.any (fun r => r.item.id == e.item.id) = true := by
  obtain ⟨t0, ht0, hid, hpr⟩ := hex
  unfold SlotBelt.get
  have hne : s.getRes.isEmpty = false := by
    cases hq : s.getRes with
    | nil => rw [hq] at ht0; cases ht0
    | cons a b => rfl
  simp only [hne, Bool.false_eq_true, ↓reduceIte]
  split
  · rename_i hnone
    exfalso
    have := List.find?_eq_none.mp hnone t0 ht0
    simp [hid, hpr] at this
  · rename_i t ht
    have htm : t ∈ s.getRes := List.mem_of_find?_eq_some ht
    have htr : t ∈ s.resEv := h.ev.mem_iff.mpr htm
    have hidx : s.resEv.idxOf t < s.resEv.length := List.idxOf_lt_length_of_mem htr
    split
    · exfalso; omega
    · split
      · rename_i hn
        exfalso
        rw [List.getElem?_eq_none_iff] at hn
        have := h.len; omega
      · rename_i e he
        have hem : e ∈ s.resItems := List.mem_of_getElem? he
        have hx : ik e ∈ (s.ready.take s.resEv.length).map ik := mem_take_of_perm ik h.items hem
        have hxr : ik e ∈ s.ready.map ik := by
          rcases List.mem_map.mp hx with ⟨a, ha, hk⟩
          exact List.mem_map.mpr ⟨a, List.mem_of_mem_take ha, hk⟩
        have hany := any_of_mem hxr
        split
        · exact ⟨e, hem, rfl, hany⟩
        · rename_i hno; exact absurd hany hno

/-- `reserve_get_cancel` of a waiting or granted retrieval is accepted -/
theorem Bd.cancelGet_accept {s : SlotBelt} (h : Bd s) (tid : Nat) (hex : ∃ t, t ∈ s.getQ ++ s.getRes ∧ t.id = tid) :
    (s.cancelGet tid).2 = .ok := by
  obtain ⟨t0, ht0, hid⟩ := hex
  unfold SlotBelt.cancelGet
  split
  · rfl
  · rename_i hq
    split
    · rename_i t ht
      have htm : t ∈ s.getRes := findTok_mem ht
      have htr : t ∈ s.resEv := h.ev.mem_iff.mpr htm
      have hidx : s.resEv.idxOf t < s.resEv.length := List.idxOf_lt_length_of_mem htr
      split
      · exfalso; omega
      · split
        · rename_i hn
          exfalso
          rw [List.getElem?_eq_none_iff] at hn
          have := h.len; omega
        · rename_i e he
          have hem : e ∈ s.resItems := List.mem_of_getElem? he
          have hx : ik e ∈ (s.ready.take s.resEv.length).map ik := mem_take_of_perm ik h.items hem
          have hxr : ik e ∈ s.ready.map ik := by
            rcases List.mem_map.mp hx with ⟨a, ha, hk⟩
            exact List.mem_map.mpr ⟨a, List.mem_of_mem_take ha, hk⟩
          have hany := any_of_mem hxr
          simp only
          split
          · rfl
          · rename_i hno; exact absurd hany hno
    · rename_i hr
      exfalso
      unfold findTok at hq hr
      rcases List.mem_append.mp ht0 with hm | hm
      · have := List.find?_eq_none.mp hq t0 hm; simp [hid] at this
      · have := List.find?_eq_none.mp hr t0 hm; simp [hid] at this

theorem Bd.put {s : SlotBelt} (h : Bd s) (p tid : Nat) (x : Item) : Bd (s.put p tid x).1 := by
  unfold SlotBelt.put
  split
  · exact h
  · split
    · exact h
    · simp only
      split
      · exact Bd.trigGet (h.congr rfl rfl rfl rfl rfl)
      · exact h.congr rfl rfl rfl rfl rfl

theorem Bd.arrive {s : SlotBelt} (h : Bd s) (q : Nat) : Bd (s.arrive q) := by
  unfold SlotBelt.arrive
  split
  · exact h.congr rfl rfl rfl rfl rfl
  · rename_i e _
    simp only
    split
    · apply Bd.trigPut
      have h0 : Bd0 ({ s with items := s.items.erase e, ready := s.ready ++ [e], readyAt := s.readyAt ++ [(q, s.now)], newReady := s.newReady ++ [e.item.id] } : SlotBelt) := by
        refine ⟨h.ev, h.len, ?_, ?_⟩
        · show s.resEv.length ≤ (s.ready ++ [e]).length
          have := h.le; simp only [List.length_append, List.length_cons, List.length_nil]; omega
        · show List.Perm _ (((s.ready ++ [e]).take s.resEv.length).map ik)
          rw [List.take_append_of_le_length h.le]; exact h.items
      refine h0.trigGet ?_
      intro hne
      have := h.wake (ne_nil_of_tail hne)
      show (s.ready ++ [e]).length ≤ s.getRes.length + 1
      simp only [List.length_append, List.length_cons, List.length_nil]; omega
    · exact h.congr rfl rfl rfl rfl rfl

theorem Bd.sched {s : SlotBelt} (h : Bd s) (t : Nat) (u : Bool) (k : SKind) : Bd (s.sched t u k) := h.congr rfl rfl rfl rfl rfl

theorem Bd.handle {s : SlotBelt} (h : Bd s) (k : SKind) : Bd (s.handle k) := by
  unfold SlotBelt.handle
  cases k with
  | init q =>
    simp only
    split
    · exact h.sched _ _ _
    · split
      · exact h.sched _ _ _
      · exact h.arrive q
  | ph1 q =>
    simp only
    split
    · exact (h.sched _ _ _).sched _ _ _
    · exact (h.sched _ _ _).arrive q
  | retrig => exact h.trigPut
  | ph2 q => exact h.arrive q



theorem Bd.reserveGetP {s : SlotBelt} (h : Bd s) (p : Nat) (pr : Int) : Bd (s.reserveGetP p pr).1 := by
  unfold SlotBelt.reserveGetP
  simp only
  have h0 : Bd0 ({ s with nextTid := s.nextTid + 1, getQ := stableSort (s.getQ ++ [({ id := s.nextTid, proc := p, prio := pr } : Tok)]) } : SlotBelt) := h.to0.congr rfl rfl rfl rfl
  refine h0.trigGet ?_
  intro hne
  show s.ready.length ≤ s.getRes.length + 1
  have hq : s.getQ ≠ [] := by
    intro hq
    apply hne
    show (stableSort (s.getQ ++ [_])).tail = []
    have hl : (stableSort (s.getQ ++ [({ id := s.nextTid, proc := p, prio := pr } : Tok)])).length = 1 := by
      rw [(stableSort_perm _).length_eq, hq]; rfl
    generalize stableSort (s.getQ ++ [({ id := s.nextTid, proc := p, prio := pr } : Tok)]) = l at hl
    match l, hl with
    | [a], _ => rfl
  exact Nat.le_succ_of_le (h.wake hq)

theorem Bd.step {s : SlotBelt} (h : Bd s) (op : Op) : Bd (s.step op).1 := by
  unfold SlotBelt.step
  have h' : Bd { s with fired := [], newReady := [] } := h.congr rfl rfl rfl rfl rfl
  cases op with
  | reservePut p => exact Bd.trigPut (h'.congr rfl rfl rfl rfl rfl)
  | reservePutP p pr => exact Bd.trigPut (h'.congr rfl rfl rfl rfl rfl)
  | reserveGet p => exact h'.reserveGetP p 0
  | reserveGetP p pr => exact h'.reserveGetP p pr
  | put p t x => exact h'.put p t x
  | get p t => exact h'.get p t
  | cancelPut t => exact h'.cancelPut t
  | cancelGet t => exact h'.cancelGet t
  | adv dt =>
    simp only [SlotBelt.adv]
    split
    · split <;> exact h'.congr rfl rfl rfl rfl rfl
    · exact h'.congr rfl rfl rfl rfl rfl
  | ev =>
    simp only [SlotBelt.ev]
    split
    · exact h'
    · refine Bd.handle ?_ _
      exact h'.congr rfl rfl rfl rfl rfl
  | final => exact h'.congr rfl rfl rfl rfl rfl

theorem init_bd (cfg : SlotCfg) : Bd (init cfg) :=
  ⟨List.Perm.refl _, rfl, Nat.le_refl _, List.Perm.refl _, fun h => absurd rfl h⟩

theorem run_bd (ops : List Op) : ∀ (s : SlotBelt), Bd s → Bd (s.run ops) := by
  induction ops with
  | nil => intro s h; exact h
  | cons op ops ih => intro s h; exact ih _ (h.step op)

end SlotBelt
end FsVerif
