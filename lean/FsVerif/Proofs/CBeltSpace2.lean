/-
Continuous-conveyor model, spacing invariant: the store trigger, arrival, entry, and the composite steps.
-/
import FsVerif.Proofs.CBeltSpace
namespace FsVerif
namespace CBelt

theorem items_entry_le {x : Option Nat} {s : CBelt} (h : TIg x s) : ∀ it ∈ s.items, it.entry ≤ s.now := by
  intro it hit
  obtain ⟨e, he, _, h2⟩ := h.entOK it hit
  rw [← h2]; exact h.entLe e he

/-- every entered item is at least p1 old once the admission test passes -/
theorem SP.all_aged {x : Option Nat} {s : CBelt} (h : SP s) (ht : TIg x s) (had : s.admits = some true) :
    ∀ e ∈ s.entered, e.entry + s.cfg.p1 ≤ s.now := by
  obtain ⟨_, hlast⟩ := admits_last had (items_entry_le ht)
  intro e he
  rcases h.gone e he with hk | ⟨a, ha, haq⟩
  · -- still moving: compare with the last moving item
    obtain ⟨it, hit, hik⟩ := List.mem_map.mp hk
    have hent : it.entry = e.entry := by
      have := congrArg Prod.snd hik; simpa [ik] using this
    cases hl : s.items.getLast? with
    | none =>
      have : s.items = [] := List.getLast?_eq_none_iff.mp hl
      rw [this] at hit; cases hit
    | some l =>
      have hlm : l ∈ s.items := List.mem_of_getLast? hl
      have hsorted := h.itemsSorted
      have hlastk : (s.items.map ik).getLast? = some (ik l) := by
        rw [List.getLast?_map, hl]; rfl
      rcases pairwise_last hsorted hlastk (ik it) (List.mem_map.mpr ⟨it, hit, rfl⟩) with heq | hle
      · have : it.entry = l.entry := by
          have := congrArg Prod.snd heq; simpa [ik] using this
        have := hlast l hl; omega
      · have hle' : it.entry ≤ l.entry := by simpa [ik] using hle
        have := hlast l hl; omega
  · -- it has reached the exit: at least capacity·p1 ≥ p1 ago
    obtain ⟨e', he', hs, hta⟩ := ht.arrOK a ha
    have hee : e' = e := ent_unique h.entSorted he' he (by rw [hs, haq])
    subst hee
    have hcap := ht.capPos e' he'
    have hle := h.arrLe a ha
    have : s.cfg.p1 ≤ s.cfg.cap * s.cfg.p1 := Nat.le_mul_of_pos_left _ hcap
    omega

theorem SP.trigPut {x : Option Nat} {s : CBelt} (h : SP s) (ht : TIg x s) : SP s.trigPut := by
  unfold CBelt.trigPut
  split
  · exact h
  · split
    · exact h.congr rfl rfl rfl rfl rfl rfl rfl
    · rename_i had
      have hag := h.all_aged ht had
      obtain ⟨a1, a2, a3, a4, a5, a6, a7⟩ := h
      exact ⟨a1, a2, a3, a4, a5, fun _ => hag, a7⟩
    · exact h

theorem map_ik_updItem (l : List CItem) (q : Nat) (f : CItem → CItem) (hf : ∀ it, (f it).seq = it.seq ∧ (f it).entry = it.entry) :
    (l.map (fun it => if it.seq == q then f it else it)).map ik = l.map ik := by
  rw [List.map_map]
  apply List.map_congr_left
  intro it _
  simp only [Function.comp]
  split
  · simp [ik, (hf it).1, (hf it).2]
  · rfl

theorem SP.setItem {s : CBelt} (h : SP s) (q : Nat) (f : CItem → CItem) (hf : ∀ it, (f it).seq = it.seq ∧ (f it).entry = it.entry) :
    SP (s.setItem q f) :=
  h.congr rfl (map_ik_updItem s.items q f hf) rfl rfl rfl rfl rfl

/-- the item `e` leaves the moving part of the belt and is recorded as arrived -/
theorem SP.leave {s s' : CBelt} (h : SP s) (e : CItem) (he : e ∈ s.items) (a : Arr) (haq : a.q = e.seq) (hat : a.t ≤ s.now)
    (e1 : s'.entered = s.entered) (e2 : s'.items = s.items.erase e) (e3 : s'.arrivals = s.arrivals ++ [a])
    (e4 : s'.putRes = s.putRes) (e5 : s'.now = s.now) (e6 : s'.nput = s.nput) (e7 : s'.cfg = s.cfg) : SP s' := by
  obtain ⟨a1, a2, a3, a4, a5, a6, a7⟩ := h
  have hsub : (s.items.erase e).Sublist s.items := List.erase_sublist
  refine ⟨by rw [e1, e6]; exact a1, by rw [e1]; exact a2, ?_, ?_, ?_, ?_, by rw [e1, e7]; exact a7⟩
  · intro x hx
    rw [e1] at hx
    rcases a3 x hx with hk | ⟨b, hb, hbq⟩
    · obtain ⟨it, hit, hik⟩ := List.mem_map.mp hk
      by_cases hie : it = e
      · right
        refine ⟨a, by rw [e3]; exact List.mem_append_right _ (List.mem_singleton.mpr rfl), ?_⟩
        have : it.seq = x.seq := by have := congrArg Prod.fst hik; simpa [ik] using this
        rw [haq, ← hie, this]
      · left
        rw [e2]
        exact List.mem_map.mpr ⟨it, (List.mem_erase_of_ne hie).mpr hit, hik⟩
    · right; exact ⟨b, by rw [e3]; exact List.mem_append_left _ hb, hbq⟩
  · intro b hb
    rw [e3] at hb; rw [e5]
    rcases List.mem_append.mp hb with hb | hb
    · exact a4 b hb
    · simp at hb; subst hb; exact hat
  · rw [e2]; exact a5.sublist (List.Sublist.map ik hsub)
  · intro hc x hx
    rw [e1] at hx; rw [e5, e7]
    exact a6 (by rw [← e4]; exact hc) x hx

theorem SP.endProc {s : CBelt} (h : SP s) (p : MProc) : SP (s.endProc p) := h.congr rfl rfl rfl rfl rfl rfl rfl
theorem SP.giveUp {s : CBelt} (h : SP s) : SP s.giveUp := h.congr rfl rfl rfl rfl rfl rfl rfl

theorem SP.riTrig {s : CBelt} (h : SP s) : SP (({ s with ri := .trig } : CBelt).sched s.now false (.shot .ri s.riGen)) :=
  h.congr rfl rfl rfl rfl rfl rfl rfl

theorem SP.arrive {x : Option Nat} {s : CBelt} (h : SP s) (ht : TIg x s) (p : MProc) (hx : ∀ y, x = some y → y = p.q)
    (hit : ∀ it ∈ s.items, it.seq = p.q → s.now = it.entry + it.totalInt + s.cfg.cap * s.cfg.p1) :
    SP (s.arrive p) := by
  unfold CBelt.arrive
  split
  · exact (h.endProc p).giveUp
  · rename_i e he
    obtain ⟨hmem, hseq⟩ := find_some he
    have hseq' : e.seq = p.q := by simpa using hseq
    have hsub : ∀ it ∈ s.items.erase e, it ∈ s.items := fun it hit => List.mem_of_mem_erase hit
    obtain ⟨ent, hent, hs1, hs2⟩ := ht.entOK e hmem
    have hnow := hit e hmem hseq'
    simp only
    split
    · have h1 : SP { s with items := s.items.erase e, ready := s.ready ++ [{ e with readyEntry := s.now }], arrivals := s.arrivals ++ [(⟨p.q, s.now, e.totalInt⟩ : Arr)], newReady := s.newReady ++ [e.item.id] } :=
        h.leave e hmem ⟨p.q, s.now, e.totalInt⟩ hseq'.symm (Nat.le_refl _) rfl rfl rfl rfl rfl rfl rfl
      have t1 : TIg x { s with items := s.items.erase e, ready := s.ready ++ [{ e with readyEntry := s.now }], arrivals := s.arrivals ++ [(⟨p.q, s.now, e.totalInt⟩ : Arr)], newReady := s.newReady ++ [e.item.id] } := by
        refine ht.leave rfl rfl hsub rfl rfl rfl rfl rfl ?_
        intro a ha
        rcases List.mem_append.mp ha with ha | ha
        · exact Or.inl ha
        · simp at ha; subst ha
          exact Or.inr ⟨ent, hent, by rw [hs1, hseq'], by simp only; rw [hs2]; omega⟩
      split
      · refine SP.endProc ?_ p
        have t2 := (t1.riTrig).frS (FrS.trigGet _)
        have h2 : SP (CBelt.trigGet _) := (h1.riTrig).frS (FrS.trigGet _) (by
          unfold CBelt.trigGet; split
          · rfl
          · split
            · split <;> rfl
            · rfl)
        exact h2.trigPut t2
      · refine SP.endProc ?_ p
        have t2 := t1.frS (FrS.trigGet _)
        have h2 : SP (CBelt.trigGet _) := h1.frS (FrS.trigGet _) (by
          unfold CBelt.trigGet; split
          · rfl
          · split
            · split <;> rfl
            · rfl)
        exact h2.trigPut t2
    · refine (SP.endProc ?_ p).giveUp
      exact h.leave e hmem ⟨p.q, s.now, e.totalInt⟩ hseq'.symm (Nat.le_refl _) rfl rfl rfl rfl rfl rfl rfl

theorem SP.startPhase {x : Option Nat} {s : CBelt} (h : SP s) (ht : TIg x s) (p : MProc) (ph rem : Nat)
    (hx : ∀ y, x = some y → y = p.q)
    (hit : ∀ it ∈ s.items, it.seq = p.q → it.intStart = none ∧ s.now + rem = it.entry + it.totalInt + target s.cfg ph ∧
      p.total = it.totalInt ∧ (ph = 1 ∨ ph = 2)) :
    SP (s.startPhase p ph rem) := by
  have hcap : ∀ it ∈ s.items, 1 ≤ s.cfg.cap := by
    intro it hit'
    obtain ⟨e, he, _⟩ := ht.entOK it hit'
    exact ht.capPos e he
  unfold CBelt.startPhase
  split
  · exact h.congr rfl rfl rfl rfl rfl rfl rfl
  · rename_i hrem
    have hrem0 : rem = 0 := by omega
    subst hrem0
    split
    · rename_i hp1
      have hph1 : ph = 1 := by simpa using hp1
      subst hph1
      simp only
      split
      · exact h.congr rfl rfl rfl rfl rfl rfl rfl
      · rename_i hz
        refine h.arrive ht p hx ?_
        intro it hit' hs
        obtain ⟨h1, h2, h3, _⟩ := hit it hit' hs
        have := pred_mul_add' s.cfg.cap s.cfg.p1 (hcap it hit')
        simp only [target] at h2
        simp at h2
        omega
    · rename_i hp1
      refine h.arrive ht p hx ?_
      intro it hit' hs
      obtain ⟨h1, h2, h3, hph⟩ := hit it hit' hs
      have hph2 : ph = 2 := by
        rcases hph with h1 | h1
        · subst h1; simp at hp1
        · exact h1
      subst hph2
      simp only [target] at h2
      simp at h2
      omega

end CBelt
end FsVerif
