/-
Invariants of the slotted-conveyor model (Model/SlotBelt.lean): event timing (exact belt travel time),
clock discipline, capacity.
-/
import FsVerif.Model.SlotBelt
namespace FsVerif
namespace SlotBelt

/-! ### the event queue -/

def STimeSorted (q : List SEv) : Prop := q.Pairwise (fun a b => a.time ≤ b.time)

theorem mem_insSEv {e x : SEv} {q : List SEv} : x ∈ insSEv e q ↔ x = e ∨ x ∈ q := by
  induction q with
  | nil => simp [insSEv]
  | cons y ys ih =>
    simp only [insSEv]
    split
    · simp
    · simp only [List.mem_cons, ih]
      constructor
      · rintro (h | h | h)
        · exact Or.inr (Or.inl h)
        · exact Or.inl h
        · exact Or.inr (Or.inr h)
      · rintro (h | h | h)
        · exact Or.inr (Or.inl h)
        · exact Or.inl h
        · exact Or.inr (Or.inr h)

theorem sbefore_time {a b : SEv} (h : a.before b = true) : a.time ≤ b.time := by
  unfold SEv.before at h
  simp only [Bool.or_eq_true, decide_eq_true_eq, Bool.and_eq_true, beq_iff_eq] at h
  rcases h with h | ⟨h, _⟩ <;> omega

theorem not_sbefore_time {a b : SEv} (h : a.before b = false) : b.time ≤ a.time := by
  unfold SEv.before at h
  simp only [Bool.or_eq_false_iff, decide_eq_false_iff_not] at h
  omega

theorem insSEv_sorted {e : SEv} {q : List SEv} (h : STimeSorted q) : STimeSorted (insSEv e q) := by
  induction q with
  | nil => simp [insSEv, STimeSorted]
  | cons y ys ih =>
    unfold STimeSorted at h ⊢
    simp only [insSEv]
    rw [List.pairwise_cons] at h
    split
    · rename_i hb
      rw [List.pairwise_cons]
      refine ⟨?_, List.pairwise_cons.mpr h⟩
      intro z hz
      have h1 := sbefore_time hb
      rcases List.mem_cons.mp hz with rfl | hz
      · exact h1
      · exact Nat.le_trans h1 (h.1 z hz)
    · rename_i hb
      have hb' : e.before y = false := by simpa using hb
      rw [List.pairwise_cons]
      refine ⟨?_, ih h.2⟩
      intro z hz
      rcases mem_insSEv.mp hz with rfl | hz
      · exact not_sbefore_time hb'
      · exact h.1 z hz

theorem pred_mul_add (c d : Nat) (h : 1 ≤ c) : (c - 1) * d + d = c * d := by
  have : c = (c - 1) + 1 := by omega
  conv => rhs; rw [this, Nat.add_mul, Nat.one_mul]

/-! ### timing invariant -/

def SEvOK (s : SlotBelt) (ev : SEv) : Prop :=
  (∀ q, ev.kind = .init q → ∃ e ∈ s.entered, e.seq = q ∧ ev.time = e.entry) ∧
  (∀ q, ev.kind = .ph1 q → ∃ e ∈ s.entered, e.seq = q ∧ ev.time = e.entry + s.cfg.delay) ∧
  (∀ q, ev.kind = .ph2 q → ∃ e ∈ s.entered, e.seq = q ∧ ev.time = e.entry + s.cfg.cap * s.cfg.delay)

structure KS (s : SlotBelt) : Prop where
  tsorted : STimeSorted s.queue
  clock : ∀ ev ∈ s.queue, s.now ≤ ev.time
  evOK : ∀ ev ∈ s.queue, SEvOK s ev
  readyOK : ∀ x ∈ s.readyAt, ∃ e ∈ s.entered, e.seq = x.1 ∧ x.2 = e.entry + s.cfg.cap * s.cfg.delay
  entryLe : ∀ e ∈ s.entered, e.entry ≤ s.now
  capPos : ∀ e ∈ s.entered, 1 ≤ s.cfg.cap

theorem init_ks (cfg : SlotCfg) : KS (init cfg) := by
  constructor <;> simp [init, STimeSorted]

/-- agreement on what the invariant reads -/
theorem KS.congr {s s' : SlotBelt} (h : KS s) (e1 : s'.queue = s.queue) (e2 : s'.now = s.now) (e3 : s'.cfg = s.cfg)
    (e4 : s'.entered = s.entered) (e5 : s'.readyAt = s.readyAt) : KS s' := by
  obtain ⟨a1, a2, a3, a4, a5, a6⟩ := h
  constructor <;> simp only [SEvOK, e1, e2, e3, e4, e5] at * <;> assumption

theorem trigPut_frame (s : SlotBelt) : s.trigPut.queue = s.queue ∧ s.trigPut.now = s.now ∧ s.trigPut.cfg = s.cfg ∧
    s.trigPut.entered = s.entered ∧ s.trigPut.readyAt = s.readyAt := by
  unfold trigPut; split
  · exact ⟨rfl, rfl, rfl, rfl, rfl⟩
  · split <;> exact ⟨rfl, rfl, rfl, rfl, rfl⟩

theorem trigGet_frame (s : SlotBelt) : s.trigGet.queue = s.queue ∧ s.trigGet.now = s.now ∧ s.trigGet.cfg = s.cfg ∧
    s.trigGet.entered = s.entered ∧ s.trigGet.readyAt = s.readyAt := by
  unfold trigGet; split
  · exact ⟨rfl, rfl, rfl, rfl, rfl⟩
  · split
    · split <;> exact ⟨rfl, rfl, rfl, rfl, rfl⟩
    · exact ⟨rfl, rfl, rfl, rfl, rfl⟩

theorem KS.trigPut {s : SlotBelt} (h : KS s) : KS s.trigPut := by
  obtain ⟨a, b, c, d, e⟩ := trigPut_frame s; exact h.congr a b c d e
theorem KS.trigGet {s : SlotBelt} (h : KS s) : KS s.trigGet := by
  obtain ⟨a, b, c, d, e⟩ := trigGet_frame s; exact h.congr a b c d e
theorem KS.updLevel {s : SlotBelt} (h : KS s) : KS s.updLevel := h.congr rfl rfl rfl rfl rfl

theorem KS.sched {s : SlotBelt} (h : KS s) (time : Nat) (urgent : Bool) (k : SKind) (ht : s.now ≤ time)
    (hk : SEvOK s { time := time, urgent := urgent, seq := s.nextSeq, kind := k }) : KS (s.sched time urgent k) := by
  obtain ⟨a1, a2, a3, a4, a5, a6⟩ := h
  refine ⟨insSEv_sorted a1, ?_, ?_, a4, a5, a6⟩
  · intro ev hev
    rcases mem_insSEv.mp hev with rfl | hev
    · exact ht
    · exact a2 ev hev
  · intro ev hev
    rcases mem_insSEv.mp hev with rfl | hev
    · exact hk
    · exact a3 ev hev


/-- the five fields the timing invariant reads are unchanged -/
structure F5 (s s' : SlotBelt) : Prop where
  queue : s'.queue = s.queue
  now : s'.now = s.now
  cfg : s'.cfg = s.cfg
  entered : s'.entered = s.entered
  readyAt : s'.readyAt = s.readyAt

theorem F5.refl (s : SlotBelt) : F5 s s := ⟨rfl, rfl, rfl, rfl, rfl⟩
theorem F5.trans {a b c : SlotBelt} (h1 : F5 a b) (h2 : F5 b c) : F5 a c :=
  ⟨h2.queue.trans h1.queue, h2.now.trans h1.now, h2.cfg.trans h1.cfg, h2.entered.trans h1.entered, h2.readyAt.trans h1.readyAt⟩
theorem F5.trigPut (s : SlotBelt) : F5 s s.trigPut := by obtain ⟨a, b, c, d, e⟩ := trigPut_frame s; exact ⟨a, b, c, d, e⟩
theorem F5.trigGet (s : SlotBelt) : F5 s s.trigGet := by obtain ⟨a, b, c, d, e⟩ := trigGet_frame s; exact ⟨a, b, c, d, e⟩
theorem F5.of_trigPut {s x : SlotBelt} (h : F5 s x) : F5 s x.trigPut := h.trans (F5.trigPut x)
theorem F5.of_trigGet {s x : SlotBelt} (h : F5 s x) : F5 s x.trigGet := h.trans (F5.trigGet x)
theorem KS.f5 {s s' : SlotBelt} (h : KS s) (f : F5 s s') : KS s' := h.congr f.queue f.now f.cfg f.entered f.readyAt

theorem reservePut_f5 (s : SlotBelt) (p : Nat) : F5 s (s.reservePut p).1 := by
  unfold reservePut
  exact (⟨rfl, rfl, rfl, rfl, rfl⟩ : F5 s { s with nextTid := s.nextTid + 1, putQ := s.putQ ++ [{ id := s.nextTid, proc := p }] }).trans (F5.trigPut _)

theorem reservePutP_f5 (s : SlotBelt) (p : Nat) (pr : Int) : F5 s (s.reservePutP p pr).1 := by
  unfold reservePutP
  exact (⟨rfl, rfl, rfl, rfl, rfl⟩ : F5 s { s with nextTid := s.nextTid + 1, putQ := stableSort (s.putQ ++ [{ id := s.nextTid, proc := p, prio := pr }]) }).trans (F5.trigPut _)

theorem reserveGetP_f5 (s : SlotBelt) (p : Nat) (pr : Int) : F5 s (s.reserveGetP p pr).1 := by
  unfold reserveGetP
  exact (⟨rfl, rfl, rfl, rfl, rfl⟩ : F5 s { s with nextTid := s.nextTid + 1, getQ := stableSort (s.getQ ++ [{ id := s.nextTid, proc := p, prio := pr }]) }).trans (F5.trigGet _)

theorem reserveGet_f5 (s : SlotBelt) (p : Nat) : F5 s (s.reserveGet p).1 := by
  unfold reserveGet
  exact (⟨rfl, rfl, rfl, rfl, rfl⟩ : F5 s { s with nextTid := s.nextTid + 1, getQ := s.getQ ++ [{ id := s.nextTid, proc := p }] }).trans (F5.trigGet _)

theorem get_f5 (s : SlotBelt) (p tid : Nat) : F5 s (s.get p tid).1 := by
  unfold SlotBelt.get
  repeat' split
  all_goals first
    | exact F5.refl s
    | exact ⟨rfl, rfl, rfl, rfl, rfl⟩
    | exact F5.of_trigPut ⟨rfl, rfl, rfl, rfl, rfl⟩

theorem cancelPut_f5 (s : SlotBelt) (tid : Nat) : F5 s (s.cancelPut tid).1 := by
  unfold SlotBelt.cancelPut
  repeat' split
  all_goals first
    | exact F5.refl s
    | exact F5.of_trigPut ⟨rfl, rfl, rfl, rfl, rfl⟩

theorem cancelGet_f5 (s : SlotBelt) (tid : Nat) : F5 s (s.cancelGet tid).1 := by
  unfold SlotBelt.cancelGet
  repeat' split
  all_goals first
    | exact F5.refl s
    | exact ⟨rfl, rfl, rfl, rfl, rfl⟩
    | exact F5.of_trigGet ⟨rfl, rfl, rfl, rfl, rfl⟩


theorem sevOK_mono {s s' : SlotBelt} {ev : SEv} (h : SEvOK s ev) (hc : s'.cfg = s.cfg)
    (hd : ∀ e ∈ s.entered, e ∈ s'.entered) : SEvOK s' ev := by
  obtain ⟨h1, h2, h3⟩ := h
  refine ⟨?_, ?_, ?_⟩
  · intro q hq; obtain ⟨e, he, h⟩ := h1 q hq; exact ⟨e, hd e he, h⟩
  · intro q hq; obtain ⟨e, he, h⟩ := h2 q hq; exact ⟨e, hd e he, by rw [hc]; exact h⟩
  · intro q hq; obtain ⟨e, he, h⟩ := h3 q hq; exact ⟨e, hd e he, by rw [hc]; exact h⟩

theorem sevOK_other (s : SlotBelt) (ev : SEv) (h : ev.kind = .retrig) : SEvOK s ev :=
  ⟨fun q hq => (by rw [h] at hq; cases hq), fun q hq => (by rw [h] at hq; cases hq), fun q hq => (by rw [h] at hq; cases hq)⟩

theorem KS.put {s : SlotBelt} (h : KS s) (p tid : Nat) (x : Item) : KS (s.put p tid x).1 := by
  unfold SlotBelt.put
  split
  · exact h
  · split
    · exact h
    · rename_i t _
      simp only
      split
      · rename_i hroom
        have hcap : 1 ≤ s.cfg.cap := by
          simp only [level] at hroom; omega
        refine KS.trigGet (KS.sched ?_ _ _ _ (Nat.le_refl _) ⟨?_, fun q hq => (by cases hq), fun q hq => (by cases hq)⟩)
        · obtain ⟨a1, a2, a3, a4, a5, a6⟩ := h
          refine ⟨a1, a2, ?_, ?_, ?_, ?_⟩
          · intro ev hev; exact sevOK_mono (a3 ev hev) rfl (fun e he => List.mem_append_left _ he)
          · intro y hy; obtain ⟨e, he, h1⟩ := a4 y hy; exact ⟨e, List.mem_append_left _ he, h1⟩
          · intro e he
            rcases List.mem_append.mp he with he | he
            · exact a5 e he
            · simp at he; subst he; exact Nat.le_refl _
          · intro e he
            rcases List.mem_append.mp he with he | he
            · exact a6 e he
            · exact hcap
        · intro q hq
          simp only [SKind.init.injEq] at hq
          subst hq
          exact ⟨_, List.mem_append_right _ (List.mem_singleton.mpr rfl), rfl, rfl⟩
      · exact h.congr rfl rfl rfl rfl rfl

theorem KS.arrive {s : SlotBelt} (h : KS s) (q : Nat)
    (hq : ∃ e ∈ s.entered, e.seq = q ∧ s.now = e.entry + s.cfg.cap * s.cfg.delay) : KS (s.arrive q) := by
  unfold SlotBelt.arrive
  split
  · exact h.congr rfl rfl rfl rfl rfl
  · simp only
    split
    · refine KS.trigPut (KS.trigGet ?_)
      obtain ⟨a1, a2, a3, a4, a5, a6⟩ := h
      refine ⟨a1, a2, a3, ?_, a5, a6⟩
      intro y hy
      rcases List.mem_append.mp hy with hy | hy
      · exact a4 y hy
      · simp at hy; subst hy
        obtain ⟨e, he, h1, h2⟩ := hq
        exact ⟨e, he, h1, h2⟩
    · exact h.congr rfl rfl rfl rfl rfl

/-- the timing obligation of the event being processed, read at the (new) current time -/
def SEvNow (s : SlotBelt) (k : SKind) : Prop :=
  (∀ q, k = .init q → ∃ e ∈ s.entered, e.seq = q ∧ s.now = e.entry) ∧
  (∀ q, k = .ph1 q → ∃ e ∈ s.entered, e.seq = q ∧ s.now = e.entry + s.cfg.delay) ∧
  (∀ q, k = .ph2 q → ∃ e ∈ s.entered, e.seq = q ∧ s.now = e.entry + s.cfg.cap * s.cfg.delay)

theorem KS.handle {s : SlotBelt} (h : KS s) (k : SKind) (hk : SEvNow s k) : KS (s.handle k) := by
  unfold SlotBelt.handle
  cases k with
  | init q =>
    simp only
    obtain ⟨e, he, hseq, hnow⟩ := hk.1 q rfl
    split
    · refine KS.sched h _ _ _ (Nat.le_add_right _ _) ⟨fun q' hq' => (by cases hq'), ?_, fun q' hq' => (by cases hq')⟩
      intro q' hq'
      simp only [SKind.ph1.injEq] at hq'; subst hq'
      exact ⟨e, he, hseq, by simp only; omega⟩
    · rename_i hd
      have hd0 : s.cfg.delay = 0 := by omega
      split
      · rename_i h2; rw [hd0] at h2; simp at h2
      · exact h.arrive q ⟨e, he, hseq, by rw [hd0]; simpa using hnow⟩
  | ph1 q =>
    simp only
    obtain ⟨e, he, hseq, hnow⟩ := hk.2.1 q rfl
    have hcap := h.capPos e he
    have hmul := pred_mul_add s.cfg.cap s.cfg.delay hcap
    have h1 : KS (s.sched s.now false .retrig) := KS.sched h _ _ _ (Nat.le_refl _) (sevOK_other _ _ rfl)
    split
    · refine KS.sched h1 _ _ _ (Nat.le_add_right _ _) ⟨fun q' hq' => (by cases hq'), fun q' hq' => (by cases hq'), ?_⟩
      intro q' hq'
      simp only [SKind.ph2.injEq] at hq'; subst hq'
      exact ⟨e, he, hseq, by simp only [SlotBelt.sched]; omega⟩
    · rename_i hz
      refine h1.arrive q ⟨e, he, hseq, ?_⟩
      show s.now = e.entry + s.cfg.cap * s.cfg.delay
      omega
  | retrig => exact h.trigPut
  | ph2 q => exact h.arrive q (hk.2.2 q rfl)

theorem KS.ev {s : SlotBelt} (h : KS s) : KS s.ev := by
  unfold SlotBelt.ev
  split
  · exact h
  · rename_i e0 q hq
    have hmem : e0 ∈ s.queue := by rw [hq]; exact List.mem_cons_self
    have hle : s.now ≤ e0.time := h.clock e0 hmem
    have hmax : max s.now e0.time = e0.time := Nat.max_eq_right hle
    have hs := h.tsorted; rw [hq] at hs
    have h0 : KS { s with queue := q, now := max s.now e0.time } := by
      obtain ⟨a1, a2, a3, a4, a5, a6⟩ := h
      refine ⟨(List.pairwise_cons.mp hs).2, ?_, ?_, a4, ?_, a6⟩
      · intro ev hev; simp only [hmax]; exact (List.pairwise_cons.mp hs).1 ev hev
      · intro ev hev; exact a3 ev (by rw [hq]; exact List.mem_cons_of_mem _ hev)
      · intro e he; simp only [hmax]; exact Nat.le_trans (a5 e he) hle
    refine h0.handle e0.kind ?_
    have het := h.evOK e0 hmem
    refine ⟨?_, ?_, ?_⟩
    · intro m hm; obtain ⟨e, he, h1, h2⟩ := het.1 m hm; exact ⟨e, he, h1, by simp only [hmax]; exact h2⟩
    · intro m hm; obtain ⟨e, he, h1, h2⟩ := het.2.1 m hm; exact ⟨e, he, h1, by simp only [hmax]; exact h2⟩
    · intro m hm; obtain ⟨e, he, h1, h2⟩ := het.2.2 m hm; exact ⟨e, he, h1, by simp only [hmax]; exact h2⟩

theorem KS.adv {s : SlotBelt} (h : KS s) (dt : Nat) : KS (s.adv dt) := by
  have key : (∀ ev ∈ s.queue, s.now + dt ≤ ev.time) → KS { s with now := s.now + dt } := by
    intro hq
    obtain ⟨a1, a2, a3, a4, a5, a6⟩ := h
    exact ⟨a1, hq, a3, a4, fun e he => Nat.le_trans (a5 e he) (Nat.le_add_right _ _), a6⟩
  unfold SlotBelt.adv
  split
  · rename_i e q hq
    split
    · exact h.congr rfl rfl rfl rfl rfl
    · rename_i hlt
      apply key
      intro ev hev
      rw [hq] at hev
      have hs := h.tsorted; rw [hq] at hs
      rcases List.mem_cons.mp hev with rfl | hev
      · omega
      · have := (List.pairwise_cons.mp hs).1 ev hev; omega
  · rename_i hq
    apply key
    intro ev hev; rw [hq] at hev; cases hev

theorem KS.step {s : SlotBelt} (h : KS s) (op : Op) : KS (s.step op).1 := by
  unfold SlotBelt.step
  have h' : KS { s with fired := [], newReady := [] } := h.congr rfl rfl rfl rfl rfl
  cases op with
  | reservePut p => exact h'.f5 (reservePutP_f5 _ p 0)
  | reserveGet p => exact h'.f5 (reserveGetP_f5 _ p 0)
  | reservePutP p pr => exact h'.f5 (reservePutP_f5 _ p pr)
  | reserveGetP p pr => exact h'.f5 (reserveGetP_f5 _ p pr)
  | put p t x => exact h'.put p t x
  | get p t => exact h'.f5 (get_f5 _ p t)
  | cancelPut t => exact h'.f5 (cancelPut_f5 _ t)
  | cancelGet t => exact h'.f5 (cancelGet_f5 _ t)
  | adv dt => exact h'.adv dt
  | ev => exact h'.ev
  | final => exact h'.updLevel

theorem run_ks (ops : List Op) : ∀ (s : SlotBelt), KS s → KS (s.run ops) := by
  induction ops with
  | nil => intro s h; exact h
  | cons op ops ih => intro s h; exact ih _ (h.step op)

end SlotBelt
end FsVerif
