/-
Continuous-conveyor model: the clock never goes back.  Only `adv` and taking a kernel event off the queue change `now`;
both move it forward (the event queue never holds an event that lies in the past: TI.clock).
-/
import FsVerif.Proofs.CBeltTime6
import FsVerif.Proofs.SlotBelt
namespace FsVerif
namespace CBelt

theorem now_trigPut (s : CBelt) : s.trigPut.now = s.now := (FrS.trigPut s).now
theorem now_trigGet (s : CBelt) : s.trigGet.now = s.now := (FrS.trigGet s).now

theorem now_arrive (s : CBelt) (p : MProc) : (s.arrive p).now = s.now := by
  unfold CBelt.arrive
  split
  · rfl
  · simp only
    split
    · split
      · show (CBelt.trigPut _).now = s.now
        rw [now_trigPut, now_trigGet]; rfl
      · show (CBelt.trigPut _).now = s.now
        rw [now_trigPut, now_trigGet]
    · rfl

theorem now_startPhase (s : CBelt) (p : MProc) (ph rem : Nat) : (s.startPhase p ph rem).now = s.now := by
  unfold CBelt.startPhase
  split
  · rfl
  · split
    · simp only
      split
      · rfl
      · exact now_arrive s p
    · exact now_arrive s p

theorem now_initM (s : CBelt) (q : Nat) : (s.initM q).now = s.now := by
  unfold CBelt.initM
  split
  · rfl
  · rw [now_startPhase]; rfl

theorem now_onTimeout (s : CBelt) (u : Nat) : (s.onTimeout u).now = s.now := by
  unfold CBelt.onTimeout
  split
  · split
    · rw [now_startPhase]; rfl
    · rw [now_startPhase]
  · split
    · simp only
      show (CBelt.interruptItem _ _).now = s.now
      rw [(Fr.interruptItem _ _).now]
    · rfl

theorem now_onInterrupt (s : CBelt) (r : PRef) : (s.onInterrupt r).now = s.now := by
  unfold CBelt.onInterrupt
  cases r with
  | delayed d =>
    simp only
    split
    · rfl
    · split <;> rfl
  | move q =>
    simp only
    split
    · rfl
    · split <;> rfl

theorem now_resumeOne (g : Nat) (s : CBelt) (q : Nat) : (resumeOne g s q).now = s.now := by
  unfold CBelt.resumeOne
  split
  · rfl
  · split
    · split
      · simp only; rw [now_startPhase]; rfl
      · rfl
    · rfl

theorem now_onResume (s : CBelt) (g : Nat) : (s.onResume g).now = s.now := by
  rw [onResume_eq]
  generalize s.waitOrder = l
  induction l generalizing s with
  | nil => rfl
  | cons q qs ih => simp only [List.foldl_cons]; rw [ih, now_resumeOne]

theorem now_handle (s : CBelt) (k : CKind) : (s.handle k).now = s.now := by
  unfold CBelt.handle
  cases k with
  | initM q => exact now_initM s q
  | initD d =>
    simp only
    split <;> rfl
  | tmo u => exact now_onTimeout s u
  | shot w g => exact (Fr.onShot s w g).now
  | re g => exact now_onResume s g
  | p1e => exact now_trigPut s
  | cond u =>
    simp only
    split
    · split
      · exact (Fr.bWake s).now
      · rfl
    · rfl
  | intr r => exact now_onInterrupt s r

theorem now_put (s : CBelt) (p tid : Nat) (x : Item) : (s.put p tid x).1.now = s.now := by
  unfold CBelt.put
  split
  · rfl
  · split
    · rfl
    · simp only
      split
      · split
        · split
          · split
            · rw [(Fr.handleNew _ _).now, now_trigGet]; rfl
            · rw [now_trigGet]; rfl
          · split
            · rw [(Fr.handleNew _ _).now]; show (CBelt.trigGet _).now = s.now; rw [now_trigGet]; rfl
            · show (CBelt.trigGet _).now = s.now; rw [now_trigGet]; rfl
        · split
          · split
            · rw [(Fr.handleNew _ _).now, now_trigGet]; rfl
            · rw [now_trigGet]; rfl
          · split
            · rw [(Fr.handleNew _ _).now]; show (CBelt.trigGet _).now = s.now; rw [now_trigGet]; rfl
            · show (CBelt.trigGet _).now = s.now; rw [now_trigGet]; rfl
      · rfl

theorem now_get (s : CBelt) (p tid : Nat) : (s.get p tid).1.now = s.now := by
  unfold CBelt.get
  split
  · rfl
  · split
    · rfl
    · split
      · rfl
      · split
        · rfl
        · simp only
          split
          · split
            · show (CBelt.trigPut _).now = s.now; rw [now_trigPut]; rfl
            · show (CBelt.trigPut _).now = s.now; rw [now_trigPut]; rfl
          · rfl

theorem now_cancelPut (s : CBelt) (tid : Nat) : (s.cancelPut tid).1.now = s.now := by
  unfold CBelt.cancelPut
  split
  · show (CBelt.trigPut _).now = s.now; rw [now_trigPut]
  · split
    · show (CBelt.trigPut _).now = s.now; rw [now_trigPut]
    · rfl

theorem now_cancelGet (s : CBelt) (tid : Nat) : (s.cancelGet tid).1.now = s.now := by
  unfold CBelt.cancelGet
  split
  · show (CBelt.trigGet _).now = s.now; rw [now_trigGet]
  · split
    · split
      · rfl
      · split
        · rfl
        · simp only
          split
          · show (CBelt.trigGet _).now = s.now; rw [now_trigGet]
          · rfl
    · rfl

/-- simulated time never decreases, whatever the operation -/
theorem step_now_mono (s : CBelt) (op : Op) : s.now ≤ (s.step op).1.now := by
  unfold CBelt.step
  cases op with
  | reservePut p => show s.now ≤ (CBelt.trigPut _).now; rw [now_trigPut]; exact Nat.le_refl _
  | reserveGet p => show s.now ≤ (CBelt.trigGet _).now; rw [now_trigGet]; exact Nat.le_refl _
  | put p t x => simp only; rw [now_put]; exact Nat.le_refl _
  | get p t => simp only; rw [now_get]; exact Nat.le_refl _
  | cancelPut t => simp only; rw [now_cancelPut]; exact Nat.le_refl _
  | cancelGet t => simp only; rw [now_cancelGet]; exact Nat.le_refl _
  | adv dt =>
    simp only [CBelt.adv]
    split
    · split
      · exact Nat.le_refl _
      · exact Nat.le_add_right _ _
    · exact Nat.le_add_right _ _
  | ev =>
    simp only [CBelt.ev]
    split
    · exact Nat.le_refl _
    · rw [now_handle]; exact Nat.le_max_left _ _
  | final => exact Nat.le_refl _

theorem run_now_mono (ops : List Op) : ∀ s : CBelt, s.now ≤ (s.run ops).now := by
  induction ops with
  | nil => intro s; exact Nat.le_refl _
  | cons op ops ih => intro s; exact Nat.le_trans (step_now_mono s op) (ih _)

end CBelt

namespace SlotBelt

theorem now_trigPut (s : SlotBelt) : s.trigPut.now = s.now := (trigPut_frame s).2.1
theorem now_trigGet (s : SlotBelt) : s.trigGet.now = s.now := (trigGet_frame s).2.1

theorem now_arrive (s : SlotBelt) (q : Nat) : (s.arrive q).now = s.now := by
  unfold SlotBelt.arrive
  split
  · rfl
  · simp only
    split
    · rw [now_trigPut, now_trigGet]
    · rfl

theorem now_handle (s : SlotBelt) (k : SKind) : (s.handle k).now = s.now := by
  unfold SlotBelt.handle
  cases k with
  | init q =>
    simp only
    split
    · rfl
    · split
      · rfl
      · exact now_arrive s q
  | ph1 q =>
    simp only
    split
    · rfl
    · rw [now_arrive]; rfl
  | retrig => exact now_trigPut s
  | ph2 q => exact now_arrive s q

/-- simulated time never decreases on the slotted conveyor, whatever the operation -/
theorem step_now_mono (s : SlotBelt) (op : Op) : s.now ≤ (s.step op).1.now := by
  have hf : ∀ s' : SlotBelt, F5 { s with fired := [], newReady := [] } s' → s.now ≤ s'.now := by
    intro s' f; rw [f.now]; exact Nat.le_refl _
  unfold SlotBelt.step
  cases op with
  | reservePut p => exact hf _ (reservePutP_f5 _ p 0)
  | reserveGet p => exact hf _ (reserveGetP_f5 _ p 0)
  | reservePutP p pr => exact hf _ (reservePutP_f5 _ p pr)
  | reserveGetP p pr => exact hf _ (reserveGetP_f5 _ p pr)
  | put p t x =>
    simp only
    unfold SlotBelt.put
    split
    · exact Nat.le_refl _
    · split
      · exact Nat.le_refl _
      · simp only
        split
        · rw [now_trigGet]; exact Nat.le_refl _
        · exact Nat.le_refl _
  | get p t => exact hf _ (get_f5 _ p t)
  | cancelPut t => exact hf _ (cancelPut_f5 _ t)
  | cancelGet t => exact hf _ (cancelGet_f5 _ t)
  | adv dt =>
    simp only [SlotBelt.adv]
    split
    · split
      · exact Nat.le_refl _
      · exact Nat.le_add_right _ _
    · exact Nat.le_add_right _ _
  | ev =>
    simp only [SlotBelt.ev]
    split
    · exact Nat.le_refl _
    · rw [now_handle]; exact Nat.le_max_left _ _
  | final => exact Nat.le_refl _

end SlotBelt
end FsVerif
