/-
Slotted conveyor model: the time-weighted occupancy bookkeeping (`_update_time_averaged_level`,
`update_final_conveyor_avg_content`) is the integral of the true occupancy.

The integral is NOT a field of the model: `areaRun s ops` is defined on the run itself — for each step the
occupancy of the state BEFORE the step times the amount by which that step moves the clock (a kernel event
first moves the clock to its own instant and only then runs its callbacks; puts and gets do not move the clock).
-/
import FsVerif.Proofs.SlotCons
namespace FsVerif
namespace SlotBelt

/-- ∫ occupancy dt along a run that starts in `s` -/
def areaRun (s : SlotBelt) : List Op → Nat
  | [] => 0
  | op :: ops => s.level * ((s.step op).1.now - s.now) + areaRun (s.step op).1 ops

/-- what the occupancy statistics read: the clock, the two logs and the three accumulators -/
def sig (s : SlotBelt) : Nat × List Item × List SEntry × Nat × Nat × Nat :=
  (s.now, s.gotLog, s.entered, s.wsum, s.lastLevel, s.lastChange)

theorem sig_trigPut (s : SlotBelt) : s.trigPut.sig = s.sig := by
  unfold trigPut
  split
  · rfl
  · split <;> rfl

theorem sig_trigGet (s : SlotBelt) : s.trigGet.sig = s.sig := by
  unfold trigGet
  split
  · rfl
  · split
    · split <;> rfl
    · rfl

theorem sig_arrive (s : SlotBelt) (q : Nat) : (s.arrive q).sig = s.sig := by
  unfold arrive
  split
  · rfl
  · simp only
    split
    · rw [sig_trigPut, sig_trigGet]; rfl
    · rfl

theorem sig_handle (s : SlotBelt) (k : SKind) : (s.handle k).sig = s.sig := by
  unfold handle
  cases k with
  | init q =>
    simp only
    split
    · rfl
    · split
      · rfl
      · exact sig_arrive s q
  | ph1 q =>
    simp only
    split
    · rfl
    · rw [sig_arrive]; rfl
  | retrig => exact sig_trigPut s
  | ph2 q => exact sig_arrive s q

theorem sig_cancelPut (s : SlotBelt) (tid : Nat) : (s.cancelPut tid).1.sig = s.sig := by
  unfold cancelPut
  split
  · show (SlotBelt.trigPut _).sig = s.sig; rw [sig_trigPut]; rfl
  · split
    · show (SlotBelt.trigPut _).sig = s.sig; rw [sig_trigPut]; rfl
    · rfl

theorem sig_cancelGet (s : SlotBelt) (tid : Nat) : (s.cancelGet tid).1.sig = s.sig := by
  unfold cancelGet
  split
  · show (SlotBelt.trigGet _).sig = s.sig; rw [sig_trigGet]; rfl
  · split
    · split
      · rfl
      · split
        · rfl
        · simp only
          split
          · show (SlotBelt.trigGet _).sig = s.sig; rw [sig_trigGet]; rfl
          · rfl
    · rfl

/-- a put either changes nothing the statistics read, or it is an accepted put: the level is re-recorded
    (one more than before), the weighted sum is brought up to the current instant -/
theorem sig_put (s : SlotBelt) (p tid : Nat) (x : Item) :
    (s.put p tid x).1.sig = s.sig ∨
    ∃ e, (s.put p tid x).1.sig = (s.now, s.gotLog, s.entered ++ [e], s.wsum + s.lastLevel * (s.now - s.lastChange), s.level + 1, s.now) := by
  unfold put
  split
  · exact Or.inl rfl
  · split
    · exact Or.inl rfl
    · simp only
      split
      · refine Or.inr ⟨{ item := x, entry := s.now, seq := s.nput }, ?_⟩
        rw [sig_trigGet]
        simp only [sig, sched, updLevel, level, List.length_append, List.length_cons, List.length_nil]
        simp only [Prod.mk.injEq, true_and, and_true]
        generalize s.items.length = a
        generalize s.ready.length = b
        omega
      · exact Or.inl rfl

theorem sig_get (s : SlotBelt) (p tid : Nat) :
    (s.get p tid).1.sig = s.sig ∨
    ∃ x, 0 < s.ready.length ∧
      (s.get p tid).1.sig = (s.now, s.gotLog ++ [x], s.entered, s.wsum + s.lastLevel * (s.now - s.lastChange), s.level - 1, s.now) := by
  unfold get
  split
  · exact Or.inl rfl
  · split
    · exact Or.inl rfl
    · split
      · exact Or.inl rfl
      · split
        · exact Or.inl rfl
        · simp only
          split
          · rename_i e _ hany
            have hl := removeItem_length_of_any s.ready e.item hany
            refine Or.inr ⟨e.item, by omega, ?_⟩
            rw [sig_trigPut]
            simp only [sig, updLevel, level]
            simp only [Prod.mk.injEq, true_and, and_true]
            omega
          · exact Or.inl rfl

/-- the bookkeeping invariant, relative to a value `A` of the integral -/
structure StatI (s : SlotBelt) (A : Nat) : Prop where
  lvl : s.lastLevel + s.gotLog.length = s.entered.length
  chg : s.lastChange ≤ s.now
  int : s.wsum + s.lastLevel * (s.now - s.lastChange) = A

theorem StatI.of_sig {s s' : SlotBelt} {A : Nat} (h : StatI s A) (e : s'.sig = s.sig) : StatI s' A := by
  simp only [sig, Prod.mk.injEq] at e
  obtain ⟨e1, e2, e3, e4, e5, e6⟩ := e
  exact ⟨by rw [e5, e2, e3]; exact h.lvl, by rw [e6, e1]; exact h.chg, by rw [e4, e5, e1, e6]; exact h.int⟩

/-- the clock moves to `d` and nothing else changes: the integral grows by level × elapsed time -/
theorem StatI.tick {s s' : SlotBelt} {A d : Nat} (h : StatI s A) (hd : s.now ≤ d)
    (e : s'.sig = (d, s.gotLog, s.entered, s.wsum, s.lastLevel, s.lastChange)) : StatI s' (A + s.lastLevel * (d - s.now)) := by
  simp only [sig, Prod.mk.injEq] at e
  obtain ⟨e1, e2, e3, e4, e5, e6⟩ := e
  refine ⟨by rw [e5, e2, e3]; exact h.lvl, by rw [e6, e1]; exact Nat.le_trans h.chg hd, ?_⟩
  rw [e4, e5, e1, e6, ← h.int]
  have hc := h.chg
  have : d - s.lastChange = (s.now - s.lastChange) + (d - s.now) := by omega
  rw [this, Nat.mul_add, Nat.add_assoc]

/-- `_update_time_averaged_level` at the current instant with a new level `l` that matches the logs -/
theorem StatI.upd {s s' : SlotBelt} {A l : Nat} {g : List Item} {en : List SEntry} (h : StatI s A)
    (hl : l + g.length = en.length)
    (e : s'.sig = (s.now, g, en, s.wsum + s.lastLevel * (s.now - s.lastChange), l, s.now)) : StatI s' A := by
  simp only [sig, Prod.mk.injEq] at e
  obtain ⟨e1, e2, e3, e4, e5, e6⟩ := e
  refine ⟨by rw [e5, e2, e3]; exact hl, by rw [e6, e1]; exact Nat.le_refl _, ?_⟩
  rw [e4, e5, e1, e6, Nat.sub_self, Nat.mul_zero, Nat.add_zero]; exact h.int

/-- conservation, read as a count: occupancy + taken out = entered -/
theorem Cons.count {s : SlotBelt} (h : Cons s) : s.level + s.gotLog.length = s.entered.length := by
  have := h.length_eq
  simp only [ids, List.length_append, List.length_map] at this
  simp only [level]; omega

theorem StatI.level {s : SlotBelt} {A : Nat} (h : StatI s A) (hc : Cons s) : s.lastLevel = s.level := by
  have := hc.count; have := h.lvl; omega

theorem StatI.step {s : SlotBelt} {A : Nat} (h : StatI s A) (hc : Cons s) (op : Op) :
    StatI (s.step op).1 (A + s.level * ((s.step op).1.now - s.now)) := by
  have hlv := h.level hc
  have hcnt := hc.count
  have h' : StatI { s with fired := [], newReady := [] } A := h.of_sig rfl
  -- steps that leave the clock alone
  have stay : ∀ {s' : SlotBelt}, StatI s' A → s'.now = s.now → StatI s' (A + s.level * (s'.now - s.now)) := by
    intro s' hs hn; rw [hn, Nat.sub_self, Nat.mul_zero, Nat.add_zero]; exact hs
  have keep : ∀ {s' : SlotBelt}, s'.sig = s.sig → StatI s' (A + s.level * (s'.now - s.now)) := by
    intro s' e
    refine stay (h.of_sig e) ?_
    simp only [sig, Prod.mk.injEq] at e; exact e.1
  unfold SlotBelt.step
  cases op with
  | reservePut p => exact keep (by show (SlotBelt.trigPut _).sig = s.sig; rw [sig_trigPut]; rfl)
  | reserveGet p => exact keep (by show (SlotBelt.trigGet _).sig = s.sig; rw [sig_trigGet]; rfl)
  | reservePutP p pr => exact keep (by show (SlotBelt.trigPut _).sig = s.sig; rw [sig_trigPut]; rfl)
  | reserveGetP p pr => exact keep (by show (SlotBelt.trigGet _).sig = s.sig; rw [sig_trigGet]; rfl)
  | cancelPut t => exact keep (by simp only; rw [sig_cancelPut]; rfl)
  | cancelGet t => exact keep (by simp only; rw [sig_cancelGet]; rfl)
  | put p t x =>
    simp only
    rcases sig_put { s with fired := [], newReady := [] } p t x with e | ⟨en, e⟩
    · exact keep (e.trans rfl)
    · have hh : s.level + 1 + s.gotLog.length = (s.entered ++ [en]).length := by
        simp only [List.length_append, List.length_cons, List.length_nil]; omega
      refine stay (h'.upd (l := s.level + 1) hh e) ?_
      · simp only [sig, Prod.mk.injEq] at e; exact e.1
  | get p t =>
    simp only
    rcases sig_get { s with fired := [], newReady := [] } p t with e | ⟨x, hpos, e⟩
    · exact keep (e.trans rfl)
    · have hh : s.level - 1 + (s.gotLog ++ [x]).length = s.entered.length := by
        have : 0 < s.level := by simp only [SlotBelt.level]; exact Nat.lt_of_lt_of_le hpos (Nat.le_add_left _ _)
        rw [List.length_append]; simp only [List.length_cons, List.length_nil]; omega
      refine stay (h'.upd (l := s.level - 1) hh e) ?_
      · simp only [sig, Prod.mk.injEq] at e; exact e.1
  | adv dt =>
    simp only [SlotBelt.adv]
    have go : StatI ({ s with fired := [], newReady := [], now := s.now + dt } : SlotBelt) (A + s.level * (s.now + dt - s.now)) := by
      rw [← hlv]; exact h.tick (Nat.le_add_right _ _) rfl
    split
    · split
      · exact keep rfl
      · exact go
    · exact go
  | ev =>
    simp only [SlotBelt.ev]
    split
    · exact keep rfl
    · rename_i e q _
      have h1 : StatI ({ s with fired := [], newReady := [], queue := q, now := max s.now e.time } : SlotBelt) (A + s.level * (max s.now e.time - s.now)) := by
        rw [← hlv]; exact h.tick (Nat.le_max_left _ _) rfl
      have hs := sig_handle ({ s with fired := [], newReady := [], queue := q, now := max s.now e.time } : SlotBelt) e.kind
      have hn : (SlotBelt.handle ({ s with fired := [], newReady := [], queue := q, now := max s.now e.time } : SlotBelt) e.kind).now = max s.now e.time := by
        have := hs; simp only [sig, Prod.mk.injEq] at this; exact this.1
      rw [hn]
      exact h1.of_sig hs
  | final =>
    refine stay (h'.upd (l := s.level) hcnt rfl) rfl

theorem init_statI (cfg : SlotCfg) : StatI (init cfg) 0 := ⟨rfl, Nat.le_refl _, rfl⟩

theorem run_statI (ops : List Op) : ∀ (s : SlotBelt) (A : Nat), Inv s → Cons s → StatI s A → StatI (s.run ops) (A + s.areaRun ops) := by
  induction ops with
  | nil => intro s A _ _ h; exact h
  | cons op ops ih =>
    intro s A hi hc h
    have := ih _ _ (hi.step op) (hc.step hi.room op) (h.step hc op)
    simp only [run, List.foldl_cons, areaRun] at this ⊢
    rw [Nat.add_assoc] at this
    exact this

end SlotBelt
end FsVerif
