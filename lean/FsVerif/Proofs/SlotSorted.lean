/-
Slotted-conveyor model: both request queues are in service order — by priority, first come first served among equals — in every
reachable state; requests leave a queue only from the head (grant) or by cancellation, which never reorders the rest (C05 for
slotted_belt_store.py).
-/
import FsVerif.Proofs.SlotBelt
import FsVerif.Proofs.Basic
namespace FsVerif
namespace SlotBelt

structure QS (s : SlotBelt) : Prop where
  sp : QSorted s.putQ
  sg : QSorted s.getQ
  lt : ∀ t ∈ s.putQ ++ s.getQ, t.id < s.nextTid

/-- queues only lose entries (order kept), no new token is issued -/
structure QSub (s s' : SlotBelt) : Prop where
  p : s'.putQ.Sublist s.putQ
  g : s'.getQ.Sublist s.getQ
  n : s'.nextTid = s.nextTid

theorem QSub.refl (s : SlotBelt) : QSub s s := ⟨List.Sublist.refl _, List.Sublist.refl _, rfl⟩
theorem QSub.trans {a b c : SlotBelt} (h1 : QSub a b) (h2 : QSub b c) : QSub a c :=
  ⟨h2.p.trans h1.p, h2.g.trans h1.g, h2.n.trans h1.n⟩

theorem QS.sub {s s' : SlotBelt} (h : QS s) (f : QSub s s') : QS s' := by
  refine ⟨List.Pairwise.sublist f.p h.sp, List.Pairwise.sublist f.g h.sg, ?_⟩
  intro t ht
  rw [f.n]
  apply h.lt t
  rcases List.mem_append.mp ht with h1 | h1
  · exact List.mem_append_left _ (f.p.subset h1)
  · exact List.mem_append_right _ (f.g.subset h1)

theorem QSub.trigPut (s : SlotBelt) : QSub s s.trigPut := by
  unfold SlotBelt.trigPut
  split
  · exact QSub.refl s
  · rename_i t q hq
    split
    · exact ⟨by rw [hq]; exact List.sublist_cons_self t q, List.Sublist.refl _, rfl⟩
    · exact QSub.refl s

theorem QSub.trigGet (s : SlotBelt) : QSub s s.trigGet := by
  unfold SlotBelt.trigGet
  split
  · exact QSub.refl s
  · rename_i t q hq
    split
    · split <;> exact ⟨List.Sublist.refl _, by rw [hq]; exact List.sublist_cons_self t q, rfl⟩
    · exact QSub.refl s

theorem QSub.put (s : SlotBelt) (p tid : Nat) (x : Item) : QSub s (s.put p tid x).1 := by
  unfold SlotBelt.put
  split
  · exact QSub.refl s
  · split
    · exact QSub.refl s
    · simp only
      split
      · refine QSub.trans ?_ (QSub.trigGet _)
        exact ⟨List.Sublist.refl _, List.Sublist.refl _, rfl⟩
      · exact ⟨List.Sublist.refl _, List.Sublist.refl _, rfl⟩

theorem QSub.get (s : SlotBelt) (p tid : Nat) : QSub s (s.get p tid).1 := by
  unfold SlotBelt.get
  split
  · exact QSub.refl s
  · split
    · exact QSub.refl s
    · split
      · exact QSub.refl s
      · split
        · exact ⟨List.Sublist.refl _, List.Sublist.refl _, rfl⟩
        · simp only
          split
          · refine QSub.trans ?_ (QSub.trigPut _)
            exact ⟨List.Sublist.refl _, List.Sublist.refl _, rfl⟩
          · exact ⟨List.Sublist.refl _, List.Sublist.refl _, rfl⟩

theorem QSub.cancelPut (s : SlotBelt) (tid : Nat) : QSub s (s.cancelPut tid).1 := by
  unfold SlotBelt.cancelPut
  split
  · refine QSub.trans ?_ (QSub.trigPut _)
    exact ⟨List.erase_sublist, List.Sublist.refl _, rfl⟩
  · split
    · refine QSub.trans ?_ (QSub.trigPut _)
      exact ⟨List.Sublist.refl _, List.Sublist.refl _, rfl⟩
    · exact QSub.refl s

theorem QSub.cancelGet (s : SlotBelt) (tid : Nat) : QSub s (s.cancelGet tid).1 := by
  unfold SlotBelt.cancelGet
  split
  · refine QSub.trans ?_ (QSub.trigGet _)
    exact ⟨List.Sublist.refl _, List.erase_sublist, rfl⟩
  · split
    · split
      · exact ⟨List.Sublist.refl _, List.Sublist.refl _, rfl⟩
      · split
        · exact ⟨List.Sublist.refl _, List.Sublist.refl _, rfl⟩
        · simp only
          split
          · refine QSub.trans ?_ (QSub.trigGet _)
            exact ⟨List.Sublist.refl _, List.Sublist.refl _, rfl⟩
          · exact ⟨List.Sublist.refl _, List.Sublist.refl _, rfl⟩
    · exact QSub.refl s

theorem QSub.arrive (s : SlotBelt) (q : Nat) : QSub s (s.arrive q) := by
  unfold SlotBelt.arrive
  split
  · exact ⟨List.Sublist.refl _, List.Sublist.refl _, rfl⟩
  · simp only
    split
    · refine QSub.trans (QSub.trans ?_ (QSub.trigGet _)) (QSub.trigPut _)
      exact ⟨List.Sublist.refl _, List.Sublist.refl _, rfl⟩
    · exact ⟨List.Sublist.refl _, List.Sublist.refl _, rfl⟩

theorem QSub.sched (s : SlotBelt) (t : Nat) (u : Bool) (k : SKind) : QSub s (s.sched t u k) :=
  ⟨List.Sublist.refl _, List.Sublist.refl _, rfl⟩

theorem QSub.handle (s : SlotBelt) (k : SKind) : QSub s (s.handle k) := by
  unfold SlotBelt.handle
  cases k with
  | init q =>
    simp only
    split
    · exact QSub.sched _ _ _ _
    · split
      · exact QSub.sched _ _ _ _
      · exact QSub.arrive s q
  | ph1 q =>
    simp only
    split
    · exact (QSub.sched _ _ _ _).trans (QSub.sched _ _ _ _)
    · exact (QSub.sched _ _ _ _).trans (QSub.arrive _ q)
  | retrig => exact QSub.trigPut s
  | ph2 q => exact QSub.arrive s q

theorem QS.reservePutP {s : SlotBelt} (h : QS s) (p : Nat) (pr : Int) : QS (s.reservePutP p pr).1 := by
  unfold SlotBelt.reservePutP
  refine QS.sub ?_ (QSub.trigPut _)
  have hnew : ∀ a ∈ s.putQ, a.id < s.nextTid := fun a ha => h.lt a (List.mem_append_left _ ha)
  refine ⟨?_, h.sg, ?_⟩
  · show QSorted (stableSort (s.putQ ++ [_]))
    rw [stableSort_append_one h.sp]
    exact insSorted_sorted h.sp hnew
  · intro t ht
    show t.id < s.nextTid + 1
    rcases List.mem_append.mp ht with h1 | h1
    · have h1' : t ∈ stableSort (s.putQ ++ [({ id := s.nextTid, proc := p, prio := pr } : Tok)]) := h1
      rw [stableSort_append_one h.sp] at h1'
      rcases mem_insSorted.mp h1' with rfl | h2
      · exact Nat.lt_succ_self _
      · exact Nat.lt_succ_of_lt (hnew t h2)
    · exact Nat.lt_succ_of_lt (h.lt t (List.mem_append_right _ h1))

theorem QS.reserveGetP {s : SlotBelt} (h : QS s) (p : Nat) (pr : Int) : QS (s.reserveGetP p pr).1 := by
  unfold SlotBelt.reserveGetP
  refine QS.sub ?_ (QSub.trigGet _)
  have hnew : ∀ a ∈ s.getQ, a.id < s.nextTid := fun a ha => h.lt a (List.mem_append_right _ ha)
  refine ⟨h.sp, ?_, ?_⟩
  · show QSorted (stableSort (s.getQ ++ [_]))
    rw [stableSort_append_one h.sg]
    exact insSorted_sorted h.sg hnew
  · intro t ht
    show t.id < s.nextTid + 1
    rcases List.mem_append.mp ht with h1 | h1
    · exact Nat.lt_succ_of_lt (h.lt t (List.mem_append_left _ h1))
    · have h1' : t ∈ stableSort (s.getQ ++ [({ id := s.nextTid, proc := p, prio := pr } : Tok)]) := h1
      rw [stableSort_append_one h.sg] at h1'
      rcases mem_insSorted.mp h1' with rfl | h2
      · exact Nat.lt_succ_self _
      · exact Nat.lt_succ_of_lt (hnew t h2)

theorem QS.step {s : SlotBelt} (h : QS s) (op : Op) : QS (s.step op).1 := by
  unfold SlotBelt.step
  have h' : QS { s with fired := [], newReady := [] } := h.sub ⟨List.Sublist.refl _, List.Sublist.refl _, rfl⟩
  cases op with
  | reservePut p => exact h'.reservePutP p 0
  | reserveGet p => exact h'.reserveGetP p 0
  | reservePutP p pr => exact h'.reservePutP p pr
  | reserveGetP p pr => exact h'.reserveGetP p pr
  | put p t x => exact h'.sub (QSub.put _ p t x)
  | get p t => exact h'.sub (QSub.get _ p t)
  | cancelPut t => exact h'.sub (QSub.cancelPut _ t)
  | cancelGet t => exact h'.sub (QSub.cancelGet _ t)
  | adv dt =>
    simp only [SlotBelt.adv]
    split
    · split <;> exact h'.sub ⟨List.Sublist.refl _, List.Sublist.refl _, rfl⟩
    · exact h'.sub ⟨List.Sublist.refl _, List.Sublist.refl _, rfl⟩
  | ev =>
    simp only [SlotBelt.ev]
    split
    · exact h'
    · refine QS.sub ?_ (QSub.handle _ _)
      exact h'.sub ⟨List.Sublist.refl _, List.Sublist.refl _, rfl⟩
  | final => exact h'.sub ⟨List.Sublist.refl _, List.Sublist.refl _, rfl⟩

theorem init_qs (cfg : SlotCfg) : QS (init cfg) := by
  constructor <;> simp [init, QSorted]

theorem run_qs (ops : List Op) : ∀ s : SlotBelt, QS s → QS (s.run ops) := by
  induction ops with
  | nil => intro s h; exact h
  | cons op ops ih => intro s h; exact ih _ (h.step op)

end SlotBelt
end FsVerif
