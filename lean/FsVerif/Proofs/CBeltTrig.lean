/-
Continuous conveyor store, put side of "no lost wake-up", operation-local part: every operation of the store that can make
room or free the entry ends by re-evaluating the queue of waiting space requests (`_trigger_reserve_put`), and right after that
re-evaluation no servable request is left.  Covered: a new request, the cancellation of a waiting or of a granted space
request, an accepted `get`, the arrival of an item at the exit, the end of an item's entry phase (event `p1e`).
NOT covered (lock-step + the wake-up reading of a divergence decide it): that the entry-phase timer of the youngest item is
still pending whenever its entry slot is not yet free — the clock-driven case, proved for the slotted store in SlotWake.lean.
-/
import FsVerif.Proofs.CBeltProc
namespace FsVerif
namespace CBelt

theorem pattern_congr {s s' : CBelt} (e1 : s'.items = s.items) (e2 : s'.ready = s.ready) (e3 : s'.cfg = s.cfg) (e4 : s'.now = s.now) :
    s'.pattern = s.pattern := by
  unfold CBelt.pattern CBelt.tobReady CBelt.tob
  rw [e1, e2, e3, e4]

theorem admits_congr {s s' : CBelt} (e0 : s'.putRes = s.putRes) (e1 : s'.items = s.items) (e2 : s'.ready = s.ready) (e3 : s'.cfg = s.cfg)
    (e4 : s'.now = s.now) : s'.admits = s.admits := by
  unfold CBelt.admits CBelt.level CBelt.travel CBelt.tob
  rw [pattern_congr e1 e2 e3 e4, e0, e1, e2, e3, e4]

/-- no servable space request is waiting -/
def Settled (s : CBelt) : Prop := s.putQ ≠ [] → s.admits ≠ some true

theorem Settled.congr {s s' : CBelt} (h : Settled s) (eq : s'.putQ = s.putQ) (e0 : s'.putRes = s.putRes) (e1 : s'.items = s.items)
    (e2 : s'.ready = s.ready) (e3 : s'.cfg = s.cfg) (e4 : s'.now = s.now) : Settled s' := by
  unfold Settled; rw [eq, admits_congr e0 e1 e2 e3 e4]; exact h

/-- right after `_trigger_reserve_put` -/
theorem trigPut_settled (s : CBelt) : Settled s.trigPut := by
  unfold Settled CBelt.trigPut
  split
  · rename_i hq; intro hne; exact absurd hq hne
  · rename_i t q hq
    split
    · rename_i hn
      intro _
      rw [admits_congr (s := s) (s' := s.giveUp) rfl rfl rfl rfl rfl, hn]; simp
    · intro _
      unfold CBelt.admits
      simp
    · rename_i hf
      intro _; rw [hf]; simp

theorem reservePut_settled (s : CBelt) (p : Nat) : Settled (s.reservePut p).1 := by
  unfold CBelt.reservePut; exact trigPut_settled _

theorem cancelPut_settled (s : CBelt) (tid : Nat) (h : (s.cancelPut tid).2 = .ok) : Settled (s.cancelPut tid).1 := by
  unfold CBelt.cancelPut at h ⊢
  cases hq : findTok s.putQ tid with
  | some t => simp only [hq]; exact trigPut_settled _
  | none =>
    simp only [hq] at h ⊢
    cases hr : findTok s.putRes tid with
    | some t => simp only [hr]; exact trigPut_settled _
    | none => simp [hr] at h

theorem get_settled (s : CBelt) (p tid : Nat) (x : Item) (h : (s.get p tid).2 = .item x) : Settled (s.get p tid).1 := by
  unfold CBelt.get at h ⊢
  by_cases h1 : s.getRes.isEmpty = true
  · simp [h1] at h
  · simp only [h1, Bool.false_eq_true, ↓reduceIte] at h ⊢
    cases h2 : s.getRes.find? (fun t => t.id == tid && t.proc == p) with
    | none => simp [h2] at h
    | some t =>
      simp only [h2] at h ⊢
      by_cases h3 : s.resEv.idxOf t ≥ s.resEv.length
      · simp [h3] at h
      · simp only [h3, ↓reduceIte] at h ⊢
        cases h4 : s.resItems[s.resEv.idxOf t]? with
        | none => simp [h4] at h
        | some e =>
          simp only [h4] at h ⊢
          by_cases h5 : s.ready.any (fun r => r.item.id == e.item.id) = true
          · simp only [h5, ↓reduceIte]
            split
            · exact trigPut_settled _
            · exact (trigPut_settled _).congr rfl rfl rfl rfl rfl rfl
          · simp [h5] at h

/-- the arrival of a live move process's item -/
theorem arrive_settled {s : CBelt} (hpi : PI s) (hr : RoomC s) {p : MProc} (hp : p ∈ s.procs) : Settled (s.arrive p) := by
  obtain ⟨e, he, hroom⟩ := arrive_ok hpi hr (hpi p hp)
  unfold CBelt.arrive
  simp only [he, hroom, ↓reduceIte]
  split
  · exact (trigPut_settled _).congr rfl rfl rfl rfl rfl rfl
  · exact (trigPut_settled _).congr rfl rfl rfl rfl rfl rfl

/-- the end of an item's entry phase -/
theorem p1e_settled (s : CBelt) : Settled (s.handle .p1e) := by
  unfold CBelt.handle; exact trigPut_settled s

end CBelt
end FsVerif
